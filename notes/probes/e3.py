import processscheduler as ps, z3, io, contextlib, traceback, warnings
warnings.simplefilter("ignore")
def quiet(f):
    buf = io.StringIO()
    with contextlib.redirect_stdout(buf):
        return f()
def mk(pb, **kw):
    s = ps.SchedulingSolver(problem=pb, **kw); quiet(s.initialize); return s
def dump(s):
    for a in s._solver.assertions():
        print('   ', a.sexpr().replace('\n',' '))
def sat_with(s, *extra):
    s._solver.push(); 
    for e in extra: s._solver.add(e)
    r = s._solver.check(); 
    m = s._solver.model() if r == z3.sat else None
    s._solver.pop(); return r, m

print("== C04 periodic unavailable: start after window, run into next")
pb = ps.SchedulingProblem(name="p", horizon=30)
t = ps.FixedDurationTask(name="T", duration=5)
w = ps.Worker(name="W"); t.add_required_resource(w)
ps.ResourcePeriodicallyUnavailable(resource=w, list_of_time_intervals=[(2,4)], period=7)
s = mk(pb); dump(s)
print(sat_with(s, t._start == 5)[0], "T=[5,10] overlaps window [9,11]")
print(sat_with(s, t._start == 0)[0], "T=[0,5] overlaps window [2,4]")

print("== C06 unscheduled optional task and buffer")
pb = ps.SchedulingProblem(name="p", horizon=10)
t = ps.FixedDurationTask(name="T", duration=2, optional=True)
b = ps.NonConcurrentBuffer(name="B", initial_level=5)
ps.TaskUnloadBuffer(task=t, buffer=b, quantity=3)
s = mk(pb); dump(s)
r, m = sat_with(s, t._scheduled == False)
print(r); 
ps.OptionalTaskForceSchedule(task=t, to_be_scheduled=False)
s = ps.SchedulingSolver(problem=pb); sol = quiet(s.solve); print(sol.buffers, sol.tasks['T'].scheduled)

print("== C06/C08 tardiness with unscheduled")
pb = ps.SchedulingProblem(name="p", horizon=10)
t = ps.FixedDurationTask(name="T", duration=2, optional=True, due_date=5, due_date_is_deadline=False)
ps.OptionalTaskForceSchedule(task=t, to_be_scheduled=False)
i1 = ps.IndicatorTardiness(); 
s = ps.SchedulingSolver(problem=pb); sol = quiet(s.solve); dump(s); print(sol.indicators)

print("== NumberOfTardy + name clash")
pb = ps.SchedulingProblem(name="p", horizon=10)
t = ps.FixedDurationTask(name="T", duration=2, due_date=1, due_date_is_deadline=False)
t2 = ps.FixedDurationTask(name="T2", duration=2, due_date=1, due_date_is_deadline=False)
i1 = ps.IndicatorTardiness(); i2 = ps.IndicatorNumberOfTardyTasks(); i3=ps.IndicatorEarliness(); i4=ps.IndicatorMaximumLateness()
print(list(pb.indicators.keys()), i1.name, i2.name)
s = ps.SchedulingSolver(problem=pb); sol = quiet(s.solve); dump(s); print(sol.indicators)

print("== C08 utilization horizon 7")
pb = ps.SchedulingProblem(name="p", horizon=7)
t = ps.FixedDurationTask(name="T", duration=7)
w = ps.Worker(name="W"); t.add_required_resource(w)
ps.IndicatorResourceUtilization(resource=w); ps.IndicatorNumberTasksAssigned(resource=w)
s = ps.SchedulingSolver(problem=pb); sol = quiet(s.solve); dump(s); print(sol.indicators)
pb = ps.SchedulingProblem(name="p")
t = ps.FixedDurationTask(name="T", duration=7)
w = ps.Worker(name="W"); t.add_required_resource(w)
ps.IndicatorResourceUtilization(resource=w)
s = ps.SchedulingSolver(problem=pb); sol = quiet(s.solve); dump(s); print(sol.indicators, sol.horizon)
