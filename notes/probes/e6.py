import processscheduler as ps, z3, io, contextlib, warnings
warnings.simplefilter("ignore")
def quiet(f):
    buf = io.StringIO()
    with contextlib.redirect_stdout(buf):
        return f()
def build(order):
    pb = ps.SchedulingProblem(name="p", horizon=10)
    tasks = {}
    for n in order:
        if n == "T1": tasks[n] = ps.FixedDurationTask(name="T1", duration=2, optional=True)
        else: tasks[n] = ps.FixedDurationTask(name=n, duration=2)
    W = ps.Worker(name="W"); W2 = ps.Worker(name="W2")
    tasks["T1"].add_required_resource(W)
    sw = ps.SelectWorkers(list_of_workers=[W, W2])
    tasks["T2"].add_required_resource(sw)
    ps.ResourceNonDelay(resource=W)
    s = ps.SchedulingSolver(problem=pb); quiet(s.initialize)
    s._solver.add(tasks["T1"]._scheduled == False, sw._selection_dict[W] == False)
    return s._solver.check()
print("order T0,T1,T2:", build(["T0","T1","T2"]))
print("order T1,T0,T2:", build(["T1","T0","T2"]))
