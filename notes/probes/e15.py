import processscheduler as ps, z3, io, contextlib, warnings, itertools, random
warnings.simplefilter("ignore")
def quiet(f):
    buf = io.StringIO()
    with contextlib.redirect_stdout(buf):
        return f()
def check_buffer(cls, H, specs, init, lb, ub, final, seed):
    """specs: list of (dur, kind, qty) ; enumerate all placements, compare admitted set with recomputed validity"""
    bad = []
    n_adm = n_valid = 0
    for starts in itertools.product(range(0, H+1), repeat=len(specs)):
        if any(s + d > H for s, (d,_,_) in zip(starts, specs)): continue
        pb = ps.SchedulingProblem(name="p", horizon=H)
        ts = []
        kw = dict(initial_level=init)
        if lb is not None: kw['lower_bound'] = lb
        if ub is not None: kw['upper_bound'] = ub
        if final is not None: kw['final_level'] = final
        b = cls(name="B", **kw)
        for i,(d,k,q) in enumerate(specs):
            t = ps.FixedDurationTask(name=f"T{i}", duration=d) if d>0 else ps.ZeroDurationTask(name=f"T{i}")
            ts.append(t)
            (ps.TaskLoadBuffer if k=="L" else ps.TaskUnloadBuffer)(task=t, buffer=b, quantity=q)
            ps.TaskStartAt(task=t, value=starts[i])
        sol = quiet(ps.SchedulingSolver(problem=pb).solve)
        # oracle
        events = {}
        for s,(d,k,q) in zip(starts, specs):
            tm = s + d if k=="L" else s
            events.setdefault(tm, []).append(q if k=="L" else -q)
        ok = True
        if cls is ps.NonConcurrentBuffer and any(len(v)>1 for v in events.values()): ok = False
        lvl = init; levels=[init]; times=[]
        for tm in sorted(events):
            lvl += sum(events[tm]); levels.append(lvl); times.append(tm)
        if lb is not None and any(l < lb for l in levels): ok = False
        if ub is not None and any(l > ub for l in levels): ok = False
        if final is not None and levels[-1] != final: ok = False
        n_valid += ok; n_adm += bool(sol)
        if bool(sol) != ok: bad.append(("verdict", starts, bool(sol), ok))
        elif sol:
            bs = sol.buffers["B"]
            if bs.level != levels or bs.level_change_times != times: bad.append(("report", starts, bs.level, bs.level_change_times, levels, times))
    return n_adm, n_valid, bad
for cls in (ps.NonConcurrentBuffer, ps.ConcurrentBuffer):
    for specs, init, lb, ub, final in [
        ([(1,"U",2),(2,"L",3)], 2, 0, 4, None),
        ([(1,"U",2),(1,"L",2),(0,"U",1)], 3, 0, 5, 2),
        ([(2,"L",1),(1,"L",1),(1,"U",2)], 0, 0, None, None),
    ]:
        r = check_buffer(cls, 4, specs, init, lb, ub, final, 0)
        print(cls.__name__, specs, "admitted", r[0], "valid", r[1], "mismatches", len(r[2]), r[2][:3])
