import processscheduler as ps, z3, io, contextlib, traceback, warnings
warnings.simplefilter("ignore")
def quiet(f):
    buf = io.StringIO()
    with contextlib.redirect_stdout(buf):
        return f()
def mk(pb, **kw):
    s = ps.SchedulingSolver(problem=pb, **kw); quiet(s.initialize); return s
def dump(s):
    for a in s._solver.assertions():
        print('   ', a.sexpr().replace('\n',' '))

print("== C13 second solve after incremental optimisation")
pb = ps.SchedulingProblem(name="p", horizon=10)
t = ps.FixedDurationTask(name="T", duration=2)
ps.ObjectiveMinimizeMakespan()
s = ps.SchedulingSolver(problem=pb)
sol = quiet(s.solve); print('first', sol.horizon if sol else sol)
sol = quiet(s.solve); print('second', sol.horizon if sol else sol)
print('num scopes', s._solver.num_scopes())
s = ps.SchedulingSolver(problem=pb)
sol = quiet(s.solve); 
sol = quiet(s.find_another_solution); print('find another after opt', sol)

print("== C12 find_another with optional")
pb = ps.SchedulingProblem(name="p", horizon=4)
t = ps.FixedDurationTask(name="T", duration=2, optional=True)
s = ps.SchedulingSolver(problem=pb)
sol = quiet(s.solve)
try:
    sol = quiet(s.find_another_solution); print(sol.tasks['T'])
except Exception as e: print('EXC', type(e).__name__, e)

print("== C12 enumerate")
pb = ps.SchedulingProblem(name="p", horizon=4)
t = ps.FixedDurationTask(name="T", duration=2)
t2 = ps.FixedDurationTask(name="T2", duration=3)
s = ps.SchedulingSolver(problem=pb)
sol = quiet(s.solve); n=0; seen=set()
while sol:
    seen.add((sol.tasks['T'].start, sol.tasks['T2'].start)); n+=1
    sol = quiet(s.find_another_solution)
print(n, sorted(seen))

print("== C16 smt2 export w/ optimize")
pb = ps.SchedulingProblem(name="p", horizon=10)
t = ps.FixedDurationTask(name="T", duration=2)
ps.ObjectiveMinimizeMakespan()
s = ps.SchedulingSolver(problem=pb, optimizer="optimize")
try:
    quiet(lambda: s.export_to_smt2("/tmp/explore/x.smt2")); print(open("/tmp/explore/x.smt2").read())
except Exception as e: print('EXC', type(e).__name__, e)
s = ps.SchedulingSolver(problem=pb)
quiet(lambda: s.export_to_smt2("/tmp/explore/x.smt2")); print(open("/tmp/explore/x.smt2").read())

print("== C19 debug unsat core")
pb = ps.SchedulingProblem(name="p", horizon=10)
t = ps.FixedDurationTask(name="T", duration=2)
t2 = ps.FixedDurationTask(name="T2", duration=2)
ps.TaskStartAt(task=t, value=1, name="A"); ps.TaskStartAt(task=t, value=2, name="B"); ps.TaskStartAt(task=t2, value=2, name="C")
s = ps.SchedulingSolver(problem=pb, debug=True)
buf = io.StringIO()
with contextlib.redirect_stdout(buf), contextlib.redirect_stderr(buf):
    r = s.solve()
out = buf.getvalue()
print(r); print(out[out.find('Unsatisfied'):][:1500])
