import processscheduler as ps, z3, io, contextlib, warnings
warnings.simplefilter("ignore")
def quiet(f):
    buf = io.StringIO()
    with contextlib.redirect_stdout(buf):
        return f()
def mk(pb, **kw):
    s = ps.SchedulingSolver(problem=pb, **kw); quiet(s.initialize); return s
def dump(s, flt=None):
    for a in s._solver.assertions():
        t = a.sexpr().replace('\n',' ')
        if flt is None or flt in t: print('   ', ' '.join(t.split()))
# linear cost, idle, distance, flowtime single resource, start latest : shapes
pb = ps.SchedulingProblem(name="p", horizon=20)
t1 = ps.FixedDurationTask(name="T1", duration=2); t2 = ps.FixedDurationTask(name="T2", duration=3)
w = ps.Worker(name="W", cost=ps.LinearFunction(slope=2, intercept=3)); t1.add_required_resource(w); t2.add_required_resource(w)
w2 = ps.Worker(name="W2", cost=ps.PolynomialFunction(coefficients=[1,0,4])); t1.add_required_resource(w2)
ps.IndicatorResourceCost(list_of_resources=[w, w2]); ps.IndicatorResourceIdle(resource=w)
ps.ResourceTasksDistance(resource=w, distance=2, mode="min", list_of_time_intervals=[(0,10)])
ps.ObjectiveMinimizeFlowtimeSingleResource(resource=w, time_interval=(0,10))
s = mk(pb); dump(s, "Indicator"); dump(s, "=>")
