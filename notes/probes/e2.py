import processscheduler as ps, z3, io, contextlib, traceback
def quiet(f):
    buf = io.StringIO()
    with contextlib.redirect_stdout(buf):
        return f()
def mk(pb, **kw):
    s = ps.SchedulingSolver(problem=pb, **kw); quiet(s.initialize); return s
def dump(s):
    for a in s._solver.assertions():
        print('   ', a.sexpr().replace('\n',' '))
def sat_with(s, *extra):
    s._solver.push(); 
    for e in extra: s._solver.add(e)
    r = s._solver.check(); 
    m = s._solver.model() if r == z3.sat else None
    s._solver.pop(); return r, m

print("== C02 dynamic negative span")
pb = ps.SchedulingProblem(name="p", horizon=10)
t = ps.FixedDurationTask(name="T", duration=4)
w = ps.Worker(name="W", cost=ps.ConstantFunction(value=5))
t.add_required_resource(w, dynamic=True)
ind = ps.IndicatorResourceCost(list_of_resources=[w])
s = mk(pb); dump(s)
bs, be = w._busy_intervals[t]
print(sat_with(s, be < bs)[0])

print("== C03 ScheduleNTasksInTimeIntervals max not enforced")
pb = ps.SchedulingProblem(name="p", horizon=10)
ts = [ps.FixedDurationTask(name=f"T{i}", duration=1) for i in range(3)]
c = ps.ScheduleNTasksInTimeIntervals(list_of_tasks=ts, nb_tasks_to_schedule=1, list_of_time_intervals=[(0,5)], kind="max")
s = mk(pb)
print(sat_with(s, *[t._start == i for i,t in enumerate(ts)])[0], "(3 tasks inside [0,5] with max=1)")

print("== C05 WorkLoad spanning task")
pb = ps.SchedulingProblem(name="p", horizon=10)
t = ps.FixedDurationTask(name="T", duration=6)
w = ps.Worker(name="W"); t.add_required_resource(w)
ps.WorkLoad(resource=w, dict_time_intervals_and_bound={(2,4):5}, kind="max")
s = mk(pb)
print(sat_with(s, t._start == 0)[0], "(T=[0,6] spans (2,4), bound 5 >= overlap 2)")
print(sat_with(s, t._start == 2)[0], "(T=[2,8])")

print("== C05 DistinctWorkers 3 workers")
pb = ps.SchedulingProblem(name="p", horizon=10)
ws = [ps.Worker(name=f"W{i}") for i in range(3)]
t1 = ps.FixedDurationTask(name="T1", duration=2); t2 = ps.FixedDurationTask(name="T2", duration=2)
s1 = ps.SelectWorkers(list_of_workers=ws); s2 = ps.SelectWorkers(list_of_workers=ws)
t1.add_required_resource(s1); t2.add_required_resource(s2)
ps.DistinctWorkers(select_workers_1=s1, select_workers_2=s2)
s = mk(pb); print(s._solver.check())

print("== C05/C06 optional task with release date")
pb = ps.SchedulingProblem(name="p", horizon=10)
t = ps.FixedDurationTask(name="T", duration=2, optional=True, release_date=3)
s = mk(pb); dump(s); print(sat_with(s, t._scheduled == False)[0])

print("== C05 OrderedTaskGroup without window")
pb = ps.SchedulingProblem(name="p", horizon=10)
t1 = ps.FixedDurationTask(name="T1", duration=2); t2 = ps.FixedDurationTask(name="T2", duration=2)
ps.OrderedTaskGroup(list_of_tasks=[t1,t2])
s = mk(pb); dump(s); print(s._solver.check())
pb = ps.SchedulingProblem(name="p", horizon=10)
t1 = ps.FixedDurationTask(name="T1", duration=2); t2 = ps.FixedDurationTask(name="T2", duration=2)
ps.UnorderedTaskGroup(list_of_tasks=[t1,t2], time_interval_length=5)
s = mk(pb); dump(s); print(s._solver.check())
