import processscheduler as ps, z3, io, contextlib, warnings
warnings.simplefilter("ignore")
def quiet(f):
    buf = io.StringIO()
    with contextlib.redirect_stdout(buf):
        return f()
def mkpb():
    pb = ps.SchedulingProblem(name="p", horizon=12)
    t1 = ps.FixedDurationTask(name="T1", duration=3); t2 = ps.FixedDurationTask(name="T2", duration=4)
    w = ps.Worker(name="W"); t1.add_required_resource(w); t2.add_required_resource(w)
    i1 = ps.IndicatorFromMathExpression(name="e1", expression=t1._end)
    i2 = ps.IndicatorFromMathExpression(name="s2", expression=t2._start)
    ps.ObjectiveMinimizeIndicator(target=i1, weight=2); ps.ObjectiveMinimizeIndicator(target=i2, weight=3)
    return pb
for kw in [dict(), dict(optimizer="optimize", optimize_priority="weight"), dict(optimizer="optimize", optimize_priority="lex")]:
    pb = mkpb(); s = ps.SchedulingSolver(problem=pb, **kw); sol = quiet(s.solve)
    print(kw, sol.indicators, [str(a) for a in s._solver.assertions()][-3:])
print("== mixed directions")
pb = ps.SchedulingProblem(name="p", horizon=12)
t1 = ps.FixedDurationTask(name="T1", duration=3)
i1 = ps.IndicatorFromMathExpression(name="e1", expression=t1._end)
i2 = ps.IndicatorFromMathExpression(name="s1", expression=t1._start)
ps.ObjectiveMaximizeIndicator(target=i1, weight=1); ps.ObjectiveMinimizeIndicator(target=i2, weight=1)
s = ps.SchedulingSolver(problem=pb); sol = quiet(s.solve); print(sol.indicators)
print("== cumulative + periodic")
pb = ps.SchedulingProblem(name="p", horizon=12)
t1 = ps.FixedDurationTask(name="T1", duration=3); cw = ps.CumulativeWorker(name="CW", size=2); t1.add_required_resource(cw)
for cls in (ps.ResourcePeriodicallyUnavailable, ps.ResourcePeriodicallyInterrupted):
    try: cls(resource=cw, list_of_time_intervals=[(1,2)], period=5); print(cls.__name__, "ok")
    except Exception as e: print(cls.__name__, type(e).__name__, e)
print("== user bounds early stop")
pb = ps.SchedulingProblem(name="p", horizon=12)
t1 = ps.FixedDurationTask(name="T1", duration=3)
ps.TaskStartAfter(task=t1, value=2)
i1 = ps.IndicatorFromMathExpression(name="e1", expression=t1._end, bounds=(0, 100))
ps.ObjectiveMinimizeIndicator(target=i1, weight=1)
s = ps.SchedulingSolver(problem=pb); sol = quiet(s.solve); print(sol.indicators)
