import processscheduler as ps, z3, io, contextlib, warnings, re, sys
warnings.simplefilter("ignore")
def quiet(f):
    buf = io.StringIO()
    with contextlib.redirect_stdout(buf):
        return f()
def sx(e):
    if z3.is_quantifier(e):
        vs = [f"({e.var_name(i)} {e.var_sort(i)})" for i in range(e.num_vars())]
        return f"(forall ({' '.join(vs)}) {sx(e.body())})"
    if z3.is_var(e): return f"(bound {z3.get_var_index(e)})"
    if z3.is_int_value(e): return str(e.as_long())
    if z3.is_rational_value(e): return f"(real {e.numerator_as_long()}/{e.denominator_as_long()})"
    d = e.decl(); k = d.kind(); n = d.name()
    params = d.params() if k in (z3.Z3_OP_PB_LE, z3.Z3_OP_PB_GE, z3.Z3_OP_PB_EQ, z3.Z3_OP_PB_AT_MOST, z3.Z3_OP_PB_AT_LEAST) else []
    if e.num_args() == 0 and not params: return n
    return "(" + " ".join([n] + [f"[{p}]" for p in params] + [sx(c) for c in e.children()]) + ")"
UNSTABLE = re.compile(r"(x![0-9]+|[0-9]{25,}|[0-9a-f]{32}|(?<=_)[0-9a-f]{8}\b)")
def canon(lines):
    m = {}
    def r(mo):
        k = mo.group(0)
        if k not in m: m[k] = f"#{len(m)}"
        return m[k]
    return [UNSTABLE.sub(r, l) for l in lines]
def show(title, build, **kw):
    print(f"--- {title}")
    h = kw.pop("horizon", 20)
    pb = ps.SchedulingProblem(name="p", horizon=h) if h is not None else ps.SchedulingProblem(name="p")
    try:
        build(pb)
        s = ps.SchedulingSolver(problem=pb, **kw); quiet(s.initialize)
        for l in canon([sx(a) for a in s._solver.assertions()]): print("   ", l)
    except Exception as e:
        print("    RAISES", type(e).__name__, str(e)[:100])
F = ps.FixedDurationTask; V = ps.VariableDurationTask; Z = ps.ZeroDurationTask; W = ps.Worker
show("FixedDurationTask mandatory, release 3, due 9 deadline", lambda pb: F(name="T", duration=2, release_date=3, due_date=9))
show("FixedDurationTask release 0 (no assertion), due 9 not deadline", lambda pb: F(name="T", duration=2, release_date=0, due_date=9, due_date_is_deadline=False))
show("FixedDurationTask optional", lambda pb: F(name="T", duration=2, optional=True))
show("ZeroDurationTask", lambda pb: Z(name="T"))
show("VariableDurationTask min 1 max 5 allowed [2,3]", lambda pb: V(name="T", min_duration=1, max_duration=5, allowed_durations=[2,3]))
show("VariableDurationTask optional", lambda pb: V(name="T", optional=True))
show("no horizon", lambda pb: F(name="T", duration=2), horizon=None)
def b(pb):
    t=F(name="T", duration=4); w=W(name="W"); t.add_required_resource(w)
show("static worker", b)
def b(pb):
    t=F(name="T", duration=4); w=W(name="W"); t.add_required_resource(w, delay_in=1, early_out=2)
show("static worker delay_in 1 early_out 2", b)
def b(pb):
    t=F(name="T", duration=4); w=W(name="W"); t.add_required_resource(w, dynamic=True)
show("dynamic worker", b)
def b(pb):
    t=F(name="T", duration=4); t2=F(name="U", duration=1); w=W(name="W"); t.add_required_resource(w); t2.add_required_resource(w)
show("two tasks one worker (non-overlap)", b)
def b(pb):
    t=F(name="T", duration=4); ws=[W(name=f"W{i}") for i in range(3)]
    for k,n in (("exact",1),("min",2),("max",2)):
        pass
    t.add_required_resource(ps.SelectWorkers(list_of_workers=ws, nb_workers_to_select=2, kind="max"))
show("SelectWorkers max 2 of 3", b)
def b(pb):
    t=F(name="T", duration=4); ws=[W(name=f"W{i}") for i in range(2)]
    t.add_required_resource(ps.SelectWorkers(list_of_workers=ws, nb_workers_to_select=1, kind="exact"))
show("SelectWorkers exact 1 of 2", b)
def b(pb):
    t=V(name="T", work_amount=10); w=W(name="W", productivity=3); w2=W(name="W2", productivity=0); t.add_required_resources([w,w2])
show("work amount, productivities 3 and 0", b)
def b(pb):
    t=F(name="T", duration=4, work_amount=7); cw=ps.CumulativeWorker(name="CW", size=3, productivity=7, cost=ps.ConstantFunction(value=5)); t.add_required_resource(cw)
    ps.IndicatorResourceCost(list_of_resources=[cw])
show("cumulative size 3 productivity 7 cost 5 + work amount + cost indicator", b)
T2 = lambda: (F(name="A", duration=2), F(name="B", duration=3, optional=True))
for kind in ("lax","strict","tight"):
    show(f"TaskPrecedence {kind} offset 0 / offset 2 (B optional)", lambda pb: (lambda a,b_: (ps.TaskPrecedence(task_before=a, task_after=b_, kind=kind), ps.TaskPrecedence(task_before=b_, task_after=a, kind=kind, offset=2)))(*T2()))
show("StartSynced/EndSynced/DontOverlap mandatory pair", lambda pb: (lambda a,b_: (ps.TasksStartSynced(task_1=a, task_2=b_), ps.TasksEndSynced(task_1=a, task_2=b_), ps.TasksDontOverlap(task_1=a, task_2=b_)))(F(name="A", duration=2), F(name="B", duration=3)))
show("StartAt/StartAfter strict/EndAt/EndBefore strict on optional", lambda pb: (lambda a,b_: (ps.TaskStartAt(task=b_, value=1), ps.TaskStartAfter(task=b_, value=1, kind="strict"), ps.TaskEndAt(task=b_, value=5), ps.TaskEndBefore(task=b_, value=6, kind="strict"), ps.TaskStartAfter(task=a, value=1), ps.TaskEndBefore(task=a, value=9)))(*T2()))
show("TasksContiguous 3 tasks", lambda pb: ps.TasksContiguous(list_of_tasks=[F(name=f"T{i}", duration=1) for i in range(3)]))
show("UnorderedTaskGroup window", lambda pb: ps.UnorderedTaskGroup(list_of_tasks=[F(name=f"T{i}", duration=1) for i in range(2)], time_interval=(2,9)))
show("OrderedTaskGroup strict length 6", lambda pb: ps.OrderedTaskGroup(list_of_tasks=[F(name=f"T{i}", duration=1) for i in range(3)], kind="strict", time_interval_length=6))
show("ScheduleNTasksInTimeIntervals exact 1, two intervals", lambda pb: ps.ScheduleNTasksInTimeIntervals(list_of_tasks=[F(name=f"T{i}", duration=1) for i in range(2)], nb_tasks_to_schedule=1, list_of_time_intervals=[(0,3),(5,8)]))
def b(pb):
    a=F(name="A", duration=2, optional=True); c=F(name="C", duration=2, optional=True); m=F(name="M", duration=1)
    ps.OptionalTaskForceSchedule(task=a, to_be_scheduled=True); ps.OptionalTaskConditionSchedule(task=c, condition=m._start > 3)
    ps.OptionalTasksDependency(task_1=a, task_2=c); ps.OptionalTasksDependency(task_1=m, task_2=c)
    ps.ForceScheduleNOptionalTasks(list_of_optional_tasks=[a,c], nb_tasks_to_schedule=1, kind="min")
show("optional-task rules", b)
def b(pb):
    a=F(name="A", duration=2); c1=ps.TaskStartAt(task=a, value=1, optional=True); c2=ps.TaskEndAt(task=a, value=9, optional=True)
    ps.ForceApplyNOptionalConstraints(list_of_optional_constraints=[c1,c2], nb_constraints_to_apply=1, kind="max")
show("optional constraints + ForceApplyN max 1", b)
def b(pb):
    a=F(name="A", duration=2); c=F(name="C", duration=2)
    ps.Not(constraint=ps.TaskStartAt(task=a, value=1)); ps.Or(list_of_constraints=[ps.TaskStartAt(task=a, value=2), a._start == 4])
    ps.And(list_of_constraints=[ps.Not(constraint=ps.TaskEndAt(task=a, value=9)), ps.TasksContiguous(list_of_tasks=[a,c])])
    ps.Xor(constraint_1=ps.TaskStartAt(task=c, value=1), constraint_2=c._end == 7)
    ps.Implies(condition=a._start == 4, list_of_constraints=[ps.TasksEndSynced(task_1=a, task_2=c)])
    ps.IfThenElse(condition=a._start == 4, then_list_of_constraints=[ps.TaskStartAt(task=c, value=0)], else_list_of_constraints=[ps.TaskStartAt(task=c, value=5), c._end < 9])
    ps.ConstraintFromExpression(expression=a._start + c._start <= 12)
    ps.Not(constraint=ps.TaskStartAt(task=a, value=3, optional=True))
show("connectives", b)
def rc(mk):
    def b(pb):
        t=F(name="T", duration=3); v=V(name="V", min_duration=2, max_duration=6); w=W(name="W"); t.add_required_resource(w); v.add_required_resource(w); mk(w)
    return b
show("ResourceUnavailable 2 intervals", rc(lambda w: ps.ResourceUnavailable(resource=w, list_of_time_intervals=[(1,3),(6,8)])))
show("ResourcePeriodicallyUnavailable offset 1 start 2 end 30", rc(lambda w: ps.ResourcePeriodicallyUnavailable(resource=w, list_of_time_intervals=[(1,3)], period=7, offset=1, start=2, end=30)))
for k in ("max","min","exact"):
    show(f"WorkLoad {k}", rc(lambda w: ps.WorkLoad(resource=w, dict_time_intervals_and_bound={(2,6):3}, kind=k)))
show("ResourceNonDelay", rc(lambda w: ps.ResourceNonDelay(resource=w)))
for m in ("exact","min","max"):
    show(f"ResourceTasksDistance {m} no intervals", rc(lambda w: ps.ResourceTasksDistance(resource=w, distance=2, mode=m)))
show("ResourceInterrupted", rc(lambda w: ps.ResourceInterrupted(resource=w, list_of_time_intervals=[(1,3),(6,8)])))
show("ResourcePeriodicallyInterrupted start 2 end 30 offset 1", rc(lambda w: ps.ResourcePeriodicallyInterrupted(resource=w, list_of_time_intervals=[(1,3)], period=7, offset=1, start=2, end=30)))
def b(pb):
    ws=[W(name=f"W{i}") for i in range(2)]; a=F(name="A", duration=2); c=F(name="C", duration=2)
    s1=ps.SelectWorkers(list_of_workers=ws); s2=ps.SelectWorkers(list_of_workers=ws); a.add_required_resource(s1); c.add_required_resource(s2)
    ps.SameWorkers(select_workers_1=s1, select_workers_2=s2); ps.DistinctWorkers(select_workers_1=s1, select_workers_2=s2)
show("Same/DistinctWorkers", b)
def bufs(cls):
    def b(pb):
        a=F(name="A", duration=2); c=F(name="C", duration=2); d=F(name="D", duration=1)
        bf=cls(name="B", initial_level=5, final_level=6, lower_bound=0, upper_bound=9)
        ps.TaskUnloadBuffer(task=a, buffer=bf, quantity=3); ps.TaskLoadBuffer(task=c, buffer=bf, quantity=4); ps.TaskUnloadBuffer(task=d, buffer=bf, quantity=1)
        ps.IndicatorMaxBufferLevel(buffer=bf); ps.IndicatorMinBufferLevel(buffer=bf)
    return b
show("NonConcurrentBuffer 3 accesses + indicators", bufs(ps.NonConcurrentBuffer))
show("ConcurrentBuffer 3 accesses + indicators", bufs(ps.ConcurrentBuffer))
def b(pb):
    a=F(name="A", duration=2, due_date=5, due_date_is_deadline=False, priority=3); c=F(name="C", duration=2, optional=True, due_date=7, due_date_is_deadline=False)
    w=W(name="W", cost=ps.LinearFunction(slope=2, intercept=3)); a.add_required_resource(w); c.add_required_resource(w)
    ps.IndicatorTardiness(); ps.IndicatorEarliness(list_of_tasks=[a]); ps.IndicatorNumberOfTardyTasks(); ps.IndicatorMaximumLateness()
    ps.IndicatorResourceUtilization(resource=w); ps.IndicatorNumberTasksAssigned(resource=w); ps.IndicatorResourceCost(list_of_resources=[w]); ps.IndicatorResourceIdle(resource=w)
    i=ps.IndicatorFromMathExpression(name="user", expression=a._start*2 - c._end); ps.IndicatorTarget(indicator=i, value=3); ps.IndicatorBounds(indicator=i, lower_bound=0)
show("indicators", b)
def obj(mk, **kw):
    def b(pb):
        a=F(name="A", duration=2, priority=3); c=F(name="C", duration=2, optional=True); w=W(name="W"); a.add_required_resource(w); c.add_required_resource(w); mk(a,c,w)
    return b
show("ObjectiveMinimizeMakespan (incremental)", obj(lambda a,c,w: ps.ObjectiveMinimizeMakespan()))
show("ObjectiveMinimizeFlowtime", obj(lambda a,c,w: ps.ObjectiveMinimizeFlowtime()))
show("ObjectivePriorities", obj(lambda a,c,w: ps.ObjectivePriorities()))
show("ObjectiveTasksStartLatest", obj(lambda a,c,w: ps.ObjectiveTasksStartLatest()))
show("ObjectiveTasksStartEarliest", obj(lambda a,c,w: ps.ObjectiveTasksStartEarliest()))
show("ObjectiveMinimizeGreatestStartTime", obj(lambda a,c,w: ps.ObjectiveMinimizeGreatestStartTime()))
show("ObjectiveMaximizeResourceUtilization", obj(lambda a,c,w: ps.ObjectiveMaximizeResourceUtilization(resource=w)))
show("two objectives incremental (weighted)", obj(lambda a,c,w: (ps.ObjectiveMinimizeMakespan(), ps.ObjectiveMinimizeFlowtime())))
show("debug mode (tracked)", obj(lambda a,c,w: ps.TaskStartAt(task=a, value=2)), debug=True)
