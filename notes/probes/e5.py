import processscheduler as ps, z3, io, contextlib, warnings, types
warnings.simplefilter("ignore")
def quiet(f):
    buf = io.StringIO()
    with contextlib.redirect_stdout(buf):
        return f()
def sx(e):
    """canonical s-expression from z3 AST (no let-sharing)"""
    if z3.is_quantifier(e):
        vs = [f"({e.var_name(i)} {e.var_sort(i)})" for i in range(e.num_vars())]
        return f"({'forall' if e.is_forall() else 'exists'} ({' '.join(vs)}) {sx(e.body())})"
    if z3.is_var(e):
        return f"(bound {z3.get_var_index(e)})"
    if z3.is_int_value(e): return str(e.as_long())
    if z3.is_rational_value(e): return f"(real {e.numerator_as_long()}/{e.denominator_as_long()})"
    d = e.decl(); k = d.kind(); n = d.name()
    params = d.params() if k in (z3.Z3_OP_PB_LE, z3.Z3_OP_PB_GE, z3.Z3_OP_PB_EQ, z3.Z3_OP_PB_AT_MOST, z3.Z3_OP_PB_AT_LEAST) else []
    if e.num_args() == 0 and not params:
        return n if k == z3.Z3_OP_UNINTERPRETED else n
    return "(" + " ".join([n] + [f"[{p}]" for p in params] + [sx(c) for c in e.children()]) + ")"

pb = ps.SchedulingProblem(name="p", horizon=10)
ts = [ps.FixedDurationTask(name=f"T{i}", duration=2, optional=(i==0)) for i in range(3)]
ws = [ps.Worker(name=f"W{i}") for i in range(3)]
s1 = ps.SelectWorkers(list_of_workers=ws, nb_workers_to_select=2, kind="min")
ts[0].add_required_resource(s1)
cw = ps.CumulativeWorker(name="CW", size=2)
ts[1].add_required_resource(cw)
b = ps.ConcurrentBuffer(name="B", initial_level=5, lower_bound=0)
ps.TaskUnloadBuffer(task=ts[1], buffer=b, quantity=3)
ps.TaskLoadBuffer(task=ts[2], buffer=b, quantity=3)
c = ps.TaskStartAt(task=ts[1], value=3, optional=True)
ps.ForceApplyNOptionalConstraints(list_of_optional_constraints=[c], nb_constraints_to_apply=1)
ps.Xor(constraint_1=ps.TaskStartAt(task=ts[2], value=1), constraint_2=ps.TaskEndAt(task=ts[2], value=9))
ps.TasksContiguous(list_of_tasks=ts[1:])
s = ps.SchedulingSolver(problem=pb); quiet(s.initialize)
for a in s._solver.assertions(): print(sx(a))
