import processscheduler as ps, z3, io, contextlib, warnings
warnings.simplefilter("ignore")
def quiet(f):
    buf = io.StringIO()
    with contextlib.redirect_stdout(buf):
        return f()
def mk(pb, **kw):
    s = ps.SchedulingSolver(problem=pb, **kw); quiet(s.initialize); return s
def sat_with(s, *extra):
    s._solver.push(); 
    for e in extra: s._solver.add(e)
    r = s._solver.check(); s._solver.pop(); return r
print("== F24 interrupted + optional variable task w/ min_duration")
pb = ps.SchedulingProblem(name="p", horizon=20)
t = ps.VariableDurationTask(name="T", min_duration=2, optional=True)
w = ps.Worker(name="W"); t.add_required_resource(w)
ps.ResourceInterrupted(resource=w, list_of_time_intervals=[(3,5)])
s = mk(pb); print(sat_with(s, t._scheduled == False), "(unscheduled should be possible)")
print("== periodic interrupted mask leaks last task")
pb = ps.SchedulingProblem(name="p", horizon=40)
t1 = ps.FixedDurationTask(name="T1", duration=3); t2 = ps.FixedDurationTask(name="T2", duration=3)
w = ps.Worker(name="W"); t1.add_required_resource(w); t2.add_required_resource(w)
ps.ResourcePeriodicallyInterrupted(resource=w, list_of_time_intervals=[(2,4)], period=10, start=10)
s = mk(pb)
# T2 (last) before start=10 ; T1 overlapping window [12,14]
print(sat_with(s, t2._start == 5, t1._start == 11), "(T1=[11,14] overlaps active window [12,14]; should be unsat)")
print(sat_with(s, t2._start == 20, t1._start == 11), "(control: T2 after start)")
print("== periodic unavailable start mask per task ok?")
pb = ps.SchedulingProblem(name="p", horizon=40)
t1 = ps.FixedDurationTask(name="T1", duration=3)
w = ps.Worker(name="W"); t1.add_required_resource(w)
ps.ResourcePeriodicallyUnavailable(resource=w, list_of_time_intervals=[(2,4)], period=10, start=10)
s = mk(pb)
print(sat_with(s, t1._start == 2), "(T1=[2,5] before start=10: window [2,4] inactive → should be sat)")
print(sat_with(s, t1._start == 8), "(T1=[8,11] straddles start; no active window overlapped → should be sat)")
print("== zero-length busy at start of another (F22)")
pb = ps.SchedulingProblem(name="p", horizon=10)
t1 = ps.FixedDurationTask(name="T1", duration=3); z = ps.ZeroDurationTask(name="Z")
w = ps.Worker(name="W"); t1.add_required_resource(w); z.add_required_resource(w)
ps.ResourceNonDelay(resource=w)
s = mk(pb); print(sat_with(s, t1._start == 2, z._start == 2), "Z at 2, T1=[2,5], nondelay")
print("== interval endpoints for Unavailable")
pb = ps.SchedulingProblem(name="p", horizon=10)
t1 = ps.FixedDurationTask(name="T1", duration=3); z = ps.ZeroDurationTask(name="Z")
w = ps.Worker(name="W"); t1.add_required_resource(w); z.add_required_resource(w)
ps.ResourceUnavailable(resource=w, list_of_time_intervals=[(4,6)])
s = mk(pb); print(sat_with(s, z._start == 5), "zero-length busy strictly inside unavailability (4,6)")
print(sat_with(s, t1._start == 1), "T1=[1,4] touching")
