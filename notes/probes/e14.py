import processscheduler as ps, z3, io, contextlib, warnings
warnings.simplefilter("ignore")
def quiet(f):
    buf = io.StringIO()
    with contextlib.redirect_stdout(buf):
        return f()
def mk(pb, **kw):
    s = ps.SchedulingSolver(problem=pb, **kw); quiet(s.initialize); return s
def sat_with(s, *extra):
    s._solver.push(); 
    for e in extra: s._solver.add(e)
    r = s._solver.check(); s._solver.pop(); return r
pb = ps.SchedulingProblem(name="p", horizon=10)
a = ps.FixedDurationTask(name="A", duration=5); z = ps.ZeroDurationTask(name="Z")
ps.TasksContiguous(list_of_tasks=[a, z])
s = mk(pb); print("A=[0,5], Z=3 contiguous?:", sat_with(s, a._start == 0, z._start == 3))
print("A=[0,5], Z=5:", sat_with(s, a._start == 0, z._start == 5))
# variable-duration pair nested
pb = ps.SchedulingProblem(name="p", horizon=10)
a = ps.FixedDurationTask(name="A", duration=5); b = ps.FixedDurationTask(name="B", duration=1); c = ps.FixedDurationTask(name="C", duration=2)
ps.TasksContiguous(list_of_tasks=[a, b, c])
s = mk(pb); print("A=[0,5], B=[5,6], C=[6,8]:", sat_with(s, a._start == 0, b._start == 5, c._start==6))
print("A=[0,5], B=[1,2], C=[2,4] (overlap):", sat_with(s, a._start == 0, b._start == 1, c._start==2))
