import processscheduler as ps, z3, io, contextlib, warnings, types
import processscheduler.solver as pss
warnings.simplefilter("ignore")
def quiet(f):
    buf = io.StringIO()
    with contextlib.redirect_stdout(buf):
        return f()
TRACE = []
class RecSolver:
    def __init__(self, inner, kind): self._i = inner; TRACE.append(("new", kind))
    def add(self, *a): TRACE.append(("add", str(a)[:60])); return self._i.add(*a)
    def assert_and_track(self, a, p): TRACE.append(("track", str(a)[:40])); return self._i.assert_and_track(a, p)
    def check(self, *a):
        r = self._i.check(*a); TRACE.append(("check", str(r))); return r
    def push(self): TRACE.append(("push",)); return self._i.push()
    def pop(self, n=1): TRACE.append(("pop", n)); return self._i.pop(n)
    def model(self): TRACE.append(("model",)); return self._i.model()
    def __getattr__(self, n): return getattr(self._i, n)
class Z3Proxy(types.ModuleType):
    def __getattr__(self, n): return getattr(z3, n)
proxy = Z3Proxy("z3proxy")
proxy.Solver = lambda *a, **k: RecSolver(z3.Solver(*a, **k), "Solver")
proxy.Optimize = lambda *a, **k: RecSolver(z3.Optimize(*a, **k), "Optimize")
proxy.SolverFor = lambda l: RecSolver(z3.SolverFor(l), "SolverFor:"+l)
pss.z3 = proxy
pb = ps.SchedulingProblem(name="p", horizon=6)
t = ps.FixedDurationTask(name="T", duration=2)
ind = ps.IndicatorFromMathExpression(name="e", expression=t._end)
ps.ObjectiveMaximizeIndicator(name="mx", target=ind)
s = ps.SchedulingSolver(problem=pb, max_iter=3)
sol = quiet(s.solve)
for x in TRACE: print(x)
print(sol.tasks['T'].end)
