import processscheduler as ps, z3, io, contextlib
def quiet(f):
    buf = io.StringIO()
    with contextlib.redirect_stdout(buf):
        return f()
def dump(pb, **kw):
    s = ps.SchedulingSolver(problem=pb, **kw)
    quiet(s.initialize)
    for a in s._solver.assertions():
        print('   ', a.sexpr().replace('\n',' '))
    return s
# C01: zero duration task
pb = ps.SchedulingProblem(name="p", horizon=10)
t = ps.ZeroDurationTask(name="Z")
ps.TaskStartAt(task=t, value=-3)
s = dump(pb)
print('C01 zero-dur at -3:', bool(quiet(s.solve)))
# optional zero duration
pb = ps.SchedulingProblem(name="p", horizon=10)
t = ps.ZeroDurationTask(name="Z", optional=True)
print('optional Z scheduled var', t._scheduled, type(t._scheduled))
s = dump(pb)
try:
    sol = quiet(s.solve); print(sol.tasks['Z'])
except Exception as e: print('EXC', type(e), e)
