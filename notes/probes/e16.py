import processscheduler as ps, z3, io, contextlib, warnings, itertools
warnings.simplefilter("ignore")
def quiet(f):
    buf = io.StringIO()
    with contextlib.redirect_stdout(buf):
        return f()
def run(H, durs, mk_constraint, oracle, opt=None):
    n_adm=n_val=0; bad=[]
    for starts in itertools.product(range(0, H+1), repeat=len(durs)):
        if any(s+d>H for s,d in zip(starts,durs)): continue
        pb = ps.SchedulingProblem(name="p", horizon=H)
        w = ps.Worker(name="W"); ts=[]
        for i,d in enumerate(durs):
            t = ps.FixedDurationTask(name=f"T{i}", duration=d); t.add_required_resource(w); ts.append(t)
            ps.TaskStartAt(task=t, value=starts[i])
        mk_constraint(w)
        sol = quiet(ps.SchedulingSolver(problem=pb).solve)
        iv = sorted((s, s+d) for s,d in zip(starts,durs))
        nonoverlap = all(iv[i][1] <= iv[i+1][0] for i in range(len(iv)-1))
        ok = nonoverlap and oracle(iv)
        n_adm += bool(sol); n_val += ok
        if bool(sol) != ok: bad.append((starts, bool(sol), ok))
    return n_adm, n_val, len(bad), bad[:4]
gaps = lambda iv: [iv[i+1][0]-iv[i][1] for i in range(len(iv)-1)]
print("NonDelay", run(7, [2,1,2], lambda w: ps.ResourceNonDelay(resource=w), lambda iv: all(g==0 for g in gaps(iv))))
print("Distance exact 1", run(7, [2,1,2], lambda w: ps.ResourceTasksDistance(resource=w, distance=1), lambda iv: all(g==1 for g in gaps(iv))))
print("Distance min 1", run(7, [2,1,2], lambda w: ps.ResourceTasksDistance(resource=w, distance=1, mode="min"), lambda iv: all(g>=1 for g in gaps(iv))))
print("Distance max 1", run(7, [2,1,2], lambda w: ps.ResourceTasksDistance(resource=w, distance=1, mode="max"), lambda iv: all(g<=1 for g in gaps(iv))))
def in_period(iv, lo, hi):
    out=[]
    for i in range(len(iv)-1):
        e, s2 = iv[i][1], iv[i+1][0]
        if lo<=e<=hi and lo<=s2<=hi: out.append(s2-e)
    return out
print("Distance exact 1 in [2,6]", run(8, [2,1,2], lambda w: ps.ResourceTasksDistance(resource=w, distance=1, list_of_time_intervals=[(2,6)]), lambda iv: all(g==1 for g in in_period(iv,2,6))))
print("Unavailable (2,4)", run(7, [2,1], lambda w: ps.ResourceUnavailable(resource=w, list_of_time_intervals=[(2,4)]), lambda iv: all(s>=4 or e<=2 for s,e in iv)))
def wl(iv, lo, hi): return sum(max(0, min(e,hi)-max(s,lo)) for s,e in iv)
for k,cmp in (("max", lambda x: x<=2), ("min", lambda x: x>=2), ("exact", lambda x: x==2)):
    print("WorkLoad", k, run(7, [3,2], lambda w: ps.WorkLoad(resource=w, dict_time_intervals_and_bound={(2,5):2}, kind=k), lambda iv: cmp(wl(iv,2,5))))
print("WorkLoad max spanning", run(7, [5,1], lambda w: ps.WorkLoad(resource=w, dict_time_intervals_and_bound={(2,4):2}, kind="max"), lambda iv: wl(iv,2,4)<=2))
