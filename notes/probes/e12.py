import processscheduler as ps, z3, io, contextlib, warnings
warnings.simplefilter("ignore")
def quiet(f):
    buf = io.StringIO()
    with contextlib.redirect_stdout(buf):
        return f()
def mk(pb, **kw):
    s = ps.SchedulingSolver(problem=pb, **kw); quiet(s.initialize); return s
def sat_with(s, *extra):
    s._solver.push(); 
    for e in extra: s._solver.add(e)
    r = s._solver.check(); s._solver.pop(); return r
print("== F26 optional task with work_amount")
pb = ps.SchedulingProblem(name="p", horizon=20)
t = ps.VariableDurationTask(name="T", work_amount=4, optional=True)
w = ps.Worker(name="W", productivity=2); t.add_required_resource(w)
s = mk(pb); print(sat_with(s, t._scheduled == False), "(unscheduled should be possible)")
print("== F27 distance / nondelay on assigned cumulative worker")
pb = ps.SchedulingProblem(name="p", horizon=20)
t1 = ps.FixedDurationTask(name="T1", duration=2); t2 = ps.FixedDurationTask(name="T2", duration=2)
cw = ps.CumulativeWorker(name="CW", size=2); t1.add_required_resource(cw); t2.add_required_resource(cw)
for f in (lambda: ps.ResourceTasksDistance(resource=cw, distance=1), lambda: ps.ResourceNonDelay(resource=cw)):
    try: f(); print("accepted")
    except Exception as e: print(type(e).__name__, str(e)[:80])
print("== IndicatorResourceUtilization on cumulative")
ind = ps.IndicatorResourceUtilization(resource=cw)
s = mk(pb)
for a in s._solver.assertions():
    if "Indicator" in str(a): print(a)
print("== same worker via select and direct for one task")
pb = ps.SchedulingProblem(name="p", horizon=20)
t1 = ps.FixedDurationTask(name="T1", duration=2)
w1 = ps.Worker(name="W1"); w2 = ps.Worker(name="W2")
t1.add_required_resource(w1)
try:
    t1.add_required_resource(ps.SelectWorkers(list_of_workers=[w1, w2])); print("accepted; busy intervals of W1:", w1._busy_intervals)
except Exception as e: print(type(e).__name__, e)
