import PS.Smt
import PS.SmtPrint
import PS.Sexp
import PS.Model.Types
import PS.Model.Encode
import PS.Model.Step
import PS.Model.Initialize
import PS.Model.Parse
