/-
  Driver — the line-protocol front end of the executable model (compiled `lean_exe`).
  One s-expression per input line; see DESIGN.md Appendix B.  Imports PS.Model.* only.
-/
import PS.Model.Parse
import PS.Model.Initialize
import PS.Spec.Twins
open PS

structure Session where
  st : State := {}

def parseConfig (l : List Sexp) : Config :=
  let b (k : String) := match Sexp.field1? k l with | some v => (v.asBool?).getD false | none => false
  let s (k : String) (d : String) := match Sexp.field1? k l with | some v => (v.asStr?).getD d | none => d
  { debug := b "debug", optimize := b "optimize", priority := s "priority" "pareto" }

def handle (ss : Session) (line : String) : Session × List String :=
  match Sexp.parse line with
  | none => (ss, ["(bad-line)"])
  | some sx =>
    match sx with
    | .list [.atom "reset"] => ({}, ["ok"])
    | .list (.atom "initialize" :: cfgl) =>
        let cfg := parseConfig cfgl
        let fs := initializeO cfg ss.st
        (ss, ("(n " ++ toString fs.length ++ ")") :: fs.map (fun (o, f) => o.print ++ "\t" ++ f.print))
    | .list [.atom "spec", .atom which] =>
        let fs := match which with
          | "C01" => specC01 ss.st
          | "C02" => specC02 ss.st
          | "C10" => specC10 ss.st
          | _ => []
        (ss, ("(n " ++ toString fs.length ++ ")") :: fs.map (fun f => f.print))
    | _ =>
      match parseDecl sx with
      | some d =>
          let (st', e) := step ss.st d
          ({ ss with st := st' }, [match e with | none => "ok" | some e => "(err " ++ e.print ++ ")"])
      | none => (ss, ["(bad-op)"])

partial def loop (h : IO.FS.Stream) (out : IO.FS.Stream) (ss : Session) : IO Unit := do
  let line ← h.getLine
  if line.isEmpty then return ()
  let l := line.trimAscii.toString
  if l.isEmpty then loop h out ss else
  let (ss', outs) := handle ss l
  for o in outs do out.putStrLn o
  out.flush
  loop h out ss'

def main : IO Unit := do
  loop (← IO.getStdin) (← IO.getStdout) {}
