/-
  Driver — the line-protocol front end of the executable model (compiled `lean_exe`).
  One s-expression per input line; see DESIGN.md Appendix B.  Imports PS.Model.* only.
-/
import PS.Model.Parse
import PS.Model.Initialize
import PS.Spec.Twins
import PS.Model.Solver
import PS.Model.Solution
import PS.Model.Export
import PS.Spec.Fragment
import PS.Spec.FragmentG
open PS

structure Session where
  st : State := {}
  /-- a state kept across `(reset)` by `(mark)`: the first script of a pair -/
  saved : State := {}

def parseConfig (l : List Sexp) : Config :=
  let b (k : String) := match Sexp.field1? k l with | some v => (v.asBool?).getD false | none => false
  let s (k : String) (d : String) := match Sexp.field1? k l with | some v => (v.asStr?).getD d | none => d
  { debug := b "debug", optimize := b "optimize", priority := s "priority" "pareto" }

/-- environment from an association list of printed variable names -/
def envOf (ints : List (String × Int)) (bools : List (String × Bool)) : Env :=
  { i := fun v => match ints.find? (·.1 == v.print) with | some e => e.2 | none => 0
    b := fun v => match bools.find? (·.1 == v.print) with | some e => e.2 | none => false }

def parseAnswer : Sexp → Option (Answer × Int)
  | .list [.atom "unsat", d] => do some (.unsat, (← d.asInt?))
  | .list [.atom "unknown", d] => do some (.unknown, (← d.asInt?))
  | .list [.atom "sat", d, .list vals] => do
      let ints := vals.filterMap (fun v => match v with
        | .list [n, x] => match n.asStr?, x.asInt? with | some n, some x => some (n, x) | _, _ => none
        | _ => none)
      let bools := vals.filterMap (fun v => match v with
        | .list [n, x] => match n.asStr?, x.asBool? with | some n, some x => some (n, x) | _, _ => none
        | _ => none)
      some (.sat (envOf ints bools), (← d.asInt?))
  | _ => none

def parseOp : Sexp → Option Op
  | .atom "initialize" => some .init
  | .atom "solve" => some .solve
  | .atom "findAnother" => some .findAnother
  | .atom "export" => some .exportSmt
  | .list [.atom "findAnotherVar", v] => (parseIVar v).map Op.findAnotherVar
  | _ => none

def parseSConfig (l : List Sexp) : SConfig :=
  let b (k : String) := match Sexp.field1? k l with | some v => (v.asBool?).getD false | none => false
  let s (k : String) (d : String) := match Sexp.field1? k l with | some v => (v.asStr?).getD d | none => d
  { debug := b "debug", optimize := b "optimize", priority := s "priority" "pareto",
    logics := match Sexp.field1? "logics" l with | some (.atom "none") => none | some v => v.asStr? | none => none,
    maxIter := match Sexp.field1? "max_iter" l with | some v => v.asNat? | none => none,
    maxTime := match Sexp.field1? "max_time" l with | some v => (v.asInt?).getD 20 | none => 20 }

def handle (ss : Session) (line : String) : Session × List String :=
  match Sexp.parse line with
  | none => (ss, ["(bad-line)"])
  | some sx =>
    match sx with
    | .list [.atom "reset"] => ({ saved := ss.saved }, ["ok"])
    | .list [.atom "fragment-groups"] =>
        -- top-level task groups: the hypotheses of `C05_feasible_iff_groups` / `C07_groups_attainable`
        -- (`fragmentGroupsB_sound`; with several objectives `C05_feasible_iff_groups_multi`, `fragmentGroupsMultiB_sound`),
        -- and the number of groups the theorem then covers
        (ss, ["(n 1)", (if ss.st.fragmentGroupsB || (ss.st.objectives.length > 1 && ss.st.fragmentGroupsMultiB) then "true " else "false ") ++ toString ss.st.groups.length])
    | .list [.atom "fragment-multi"] =>
        -- several objectives: the hypotheses of `C05_feasible_iff_multi` / `C07_weighted_attainable` (`fragmentMultiB_sound`)
        (ss, ["(n 1)", if ss.st.fragmentMultiB then "true" else "false"])
    | .list [.atom "mark"] => ({ ss with saved := ss.st }, ["ok"])
    | .list [.atom "drop-task-theorem", n] =>
        -- marked state = the full problem, current state = the script without optional task n: every hypothesis of
        -- `C06_deletion_sound` (PS/Theorems/Renumber.lean)?
        (ss, ["(n 1)", match n.asStr? with
          | some nm => if ss.saved.dropTaskTheoremB ss.st nm then "true" else "false"
          | none => "false"])
    | .list [.atom "tasks-order-theorem"] =>
        -- do the marked state and the current one meet every hypothesis of `C14_tasks_order_verdict`
        -- (`tasksOrderTheoremB_sound`, PS/Theorems/Renumber.lean)?
        (ss, ["(n 1)", if ss.saved.tasksOrderTheoremB ss.st then "true" else "false"])
    | .list [.atom "fragment"] =>
        -- is the state inside the fragment of the exactness theorems (`fragmentB_sound`, PS/Theorems/Exact.lean)?
        (ss, ["(n 1)", if ss.st.fragmentB then "true" else "false"])
    | .list (.atom "initialize" :: cfgl) =>
        let cfg := parseConfig cfgl
        let fs := initializeO cfg ss.st
        (ss, ("(n " ++ toString fs.length ++ ")") :: fs.map (fun (o, f) => o.print ++ "\t" ++ f.print))
    | .list [.atom "solver", .list cfgl, .list ops, .list answers] =>
        let cfg := parseSConfig cfgl
        let ops' := ops.filterMap parseOp
        let ans := answers.filterMap parseAnswer
        let s := runOps { cfg } ss.st ops' ans
        (ss, ("(n " ++ toString s.trace.length ++ ")") :: s.trace.map Ev.print)
    | .list [.atom "outputs", delta, t0, equiv, .list vals] =>
        let ints := vals.filterMap (fun v => match v with
          | .list [n, x] => match n.asStr?, x.asInt? with | some n, some x => some (n, x) | _, _ => none
          | _ => none)
        let bools := vals.filterMap (fun v => match v with
          | .list [n, x] => match n.asStr?, x.asBool? with | some n, some x => some (n, x) | _, _ => none
          | _ => none)
        let cal : Calendar := { delta := delta.asInt?, t0 := t0.asInt? }
        -- after `initialize` with several objectives the solver has registered its equivalent indicator
        let st' : State := if (equiv.asBool?).getD false then
            { ss.st with indicators := ss.st.indicators ++
                [{ id := ss.st.indicators.length, key := some "EquivalentIndicator", name := "EquivalentIndicator",
                   var := .ind "EquivalentIndicator", bounds := none, body := .residue }] }
          else ss.st
        let sol := buildSolution st' (envOf ints bools) cal
        let ls := (dfRows sol).map (·.print) ++ (excelCells sol).map (·.print) ++
          ["mode task"] ++ (ganttRowLabels sol true).map (fun l => "ylabel " ++ Sexp.quote l) ++ (ganttBars sol true).map (·.print) ++
          ["mode resource"] ++ (ganttRowLabels sol false).map (fun l => "ylabel " ++ Sexp.quote l) ++ (ganttBars sol false).map (·.print) ++
          sol.buffers.flatMap (fun b => (bufferSteps sol.horizon b).map (fun s =>
            "step " ++ Sexp.quote b.name ++ " " ++ toString s.1 ++ " " ++ toString s.2.1 ++ " " ++ toString s.2.2))
        (ss, ("(n " ++ toString ls.length ++ ")") :: ls)
    | .list [.atom "build", delta, t0, .list vals] =>
        let ints := vals.filterMap (fun v => match v with
          | .list [n, x] => match n.asStr?, x.asInt? with | some n, some x => some (n, x) | _, _ => none
          | _ => none)
        let bools := vals.filterMap (fun v => match v with
          | .list [n, x] => match n.asStr?, x.asBool? with | some n, some x => some (n, x) | _, _ => none
          | _ => none)
        let cal : Calendar := { delta := delta.asInt?, t0 := t0.asInt? }
        let sol := buildSolution ss.st (envOf ints bools) cal
        let ls := sol.print
        (ss, ("(n " ++ toString ls.length ++ ")") :: ls)
    | .list [.atom "eval", .list cfgl, .list vals] =>
        -- EVAL channel: the truth value, under the given interpretation, of every formula `initialize` emits
        -- (computable evaluator `evalB`, which `satB_sound` relates to the semantics the theorems use)
        let cfg := parseConfig cfgl
        let ints := vals.filterMap (fun v => match v with
          | .list [n, x] => match n.asStr?, x.asInt? with | some n, some x => some (n, x) | _, _ => none
          | _ => none)
        let bools := vals.filterMap (fun v => match v with
          | .list [n, x] => match n.asStr?, x.asBool? with | some n, some x => some (n, x) | _, _ => none
          | _ => none)
        let ρ := envOf ints bools
        let fs := initFmls cfg ss.st
        (ss, ["(n 1)", " ".intercalate (fs.map (fun f => if f.evalB ρ then "1" else "0"))])
    | .list [.atom "spec", .atom which] =>
        let fs := match which with
          | "C01" => specC01 ss.st
          | "C02" => specC02 ss.st
          | "C10" => specC10 ss.st
          | "C03" => specC03 ss.st
          | "C04" => specC04 ss.st
          | "C08" => specC08 ss.st
          | "C09" => specC09 ss.st
          | "ALL" => specC01 ss.st ++ specC02 ss.st ++ specC03 ss.st ++ specC04 ss.st ++ specC08 ss.st ++ specC10 ss.st ++
                     specC09 ss.st ++ [Fml.ge (.var .horizon) (numT 0)]
          | _ => []
        (ss, ("(n " ++ toString fs.length ++ ")") :: fs.map (fun f => f.print))
    | _ =>
      match parseDecl sx with
      | some d =>
          let (st', e) := step ss.st d
          ({ ss with st := st' }, [match e with | none => "ok" | some e => "(err " ++ e.print ++ ")"])
      | none => (ss, ["(bad-op)"])

partial def loop (h : IO.FS.Stream) (out : IO.FS.Stream) (ss : Session) : IO Unit := do
  let line ← h.getLine
  if line.isEmpty then return ()
  let l := line.trimAscii.toString
  if l.isEmpty then loop h out ss else
  let (ss', outs) := handle ss l
  for o in outs do out.putStrLn o
  out.flush
  loop h out ss'

def main : IO Unit := do
  loop (← IO.getStdin) (← IO.getStdout) {}
