/-
  Driver — the line-protocol front end of the executable model (compiled `lean_exe`).
  One s-expression per input line; see DESIGN.md Appendix B.  Imports PS.Model.* only.
-/
import PS.Model.Parse
import PS.Model.Initialize
import PS.Spec.Twins
import PS.Model.Solver
open PS

structure Session where
  st : State := {}

def parseConfig (l : List Sexp) : Config :=
  let b (k : String) := match Sexp.field1? k l with | some v => (v.asBool?).getD false | none => false
  let s (k : String) (d : String) := match Sexp.field1? k l with | some v => (v.asStr?).getD d | none => d
  { debug := b "debug", optimize := b "optimize", priority := s "priority" "pareto" }

/-- environment from an association list of printed variable names -/
def envOf (ints : List (String × Int)) (bools : List (String × Bool)) : Env :=
  { i := fun v => match ints.find? (·.1 == v.print) with | some e => e.2 | none => 0
    b := fun v => match bools.find? (·.1 == v.print) with | some e => e.2 | none => false }

def parseAnswer : Sexp → Option (Answer × Int)
  | .list [.atom "unsat", d] => do some (.unsat, (← d.asInt?))
  | .list [.atom "unknown", d] => do some (.unknown, (← d.asInt?))
  | .list [.atom "sat", d, .list vals] => do
      let ints := vals.filterMap (fun v => match v with
        | .list [n, x] => match n.asStr?, x.asInt? with | some n, some x => some (n, x) | _, _ => none
        | _ => none)
      let bools := vals.filterMap (fun v => match v with
        | .list [n, x] => match n.asStr?, x.asBool? with | some n, some x => some (n, x) | _, _ => none
        | _ => none)
      some (.sat (envOf ints bools), (← d.asInt?))
  | _ => none

def parseOp : Sexp → Option Op
  | .atom "initialize" => some .init
  | .atom "solve" => some .solve
  | .atom "findAnother" => some .findAnother
  | .atom "export" => some .exportSmt
  | .list [.atom "findAnotherVar", v] => (parseIVar v).map Op.findAnotherVar
  | _ => none

def parseSConfig (l : List Sexp) : SConfig :=
  let b (k : String) := match Sexp.field1? k l with | some v => (v.asBool?).getD false | none => false
  let s (k : String) (d : String) := match Sexp.field1? k l with | some v => (v.asStr?).getD d | none => d
  { debug := b "debug", optimize := b "optimize", priority := s "priority" "pareto",
    logics := match Sexp.field1? "logics" l with | some (.atom "none") => none | some v => v.asStr? | none => none,
    maxIter := match Sexp.field1? "max_iter" l with | some v => v.asNat? | none => none,
    maxTime := match Sexp.field1? "max_time" l with | some v => (v.asInt?).getD 20 | none => 20 }

def handle (ss : Session) (line : String) : Session × List String :=
  match Sexp.parse line with
  | none => (ss, ["(bad-line)"])
  | some sx =>
    match sx with
    | .list [.atom "reset"] => ({}, ["ok"])
    | .list (.atom "initialize" :: cfgl) =>
        let cfg := parseConfig cfgl
        let fs := initializeO cfg ss.st
        (ss, ("(n " ++ toString fs.length ++ ")") :: fs.map (fun (o, f) => o.print ++ "\t" ++ f.print))
    | .list [.atom "solver", .list cfgl, .list ops, .list answers] =>
        let cfg := parseSConfig cfgl
        let ops' := ops.filterMap parseOp
        let ans := answers.filterMap parseAnswer
        let s := runOps { cfg } ss.st ops' ans
        (ss, ("(n " ++ toString s.trace.length ++ ")") :: s.trace.map Ev.print)
    | .list [.atom "spec", .atom which] =>
        let fs := match which with
          | "C01" => specC01 ss.st
          | "C02" => specC02 ss.st
          | "C10" => specC10 ss.st
          | "C03" => specC03 ss.st
          | "C04" => specC04 ss.st
          | "C08" => specC08 ss.st
          | _ => []
        (ss, ("(n " ++ toString fs.length ++ ")") :: fs.map (fun f => f.print))
    | _ =>
      match parseDecl sx with
      | some d =>
          let (st', e) := step ss.st d
          ({ ss with st := st' }, [match e with | none => "ok" | some e => "(err " ++ e.print ++ ")"])
      | none => (ss, ["(bad-op)"])

partial def loop (h : IO.FS.Stream) (out : IO.FS.Stream) (ss : Session) : IO Unit := do
  let line ← h.getLine
  if line.isEmpty then return ()
  let l := line.trimAscii.toString
  if l.isEmpty then loop h out ss else
  let (ss', outs) := handle ss l
  for o in outs do out.putStrLn o
  out.flush
  loop h out ss'

def main : IO Unit := do
  loop (← IO.getStdin) (← IO.getStdout) {}
