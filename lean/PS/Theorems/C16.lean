/-
  C16 — Exports (JSON, CSV/DataFrame, Excel, SMT-LIB) reproduce the data exactly.

  The repository's own logic in the exporters is `dfRows` (to_df / to_csv) and `excelCells`
  (the calls made on the xlsxwriter worksheets); serialisation itself (pandas, xlsxwriter,
  pydantic's JSON dump, z3's SMT-LIB printer) is read back and compared by the OUT channel.
  * `C16_df_faithful`  – one row per task, in task order, carrying exactly name, resources, start,
    end, duration, scheduled of that task (injective: the task list is recovered from the rows);
  * `C16_excel_item_decode` – from the cell written for an item of length ≥ 1 starting at a
    non-negative instant, row / start / end / text are recovered exactly;
  * `C16_excel_cells_complete` – every reported assignment, task and indicator has its cell.
-/
import PS.Model.Export
namespace PS

/-- **C16 (DataFrame / CSV).** -/
theorem C16_df_faithful (s : Solution) :
    (dfRows s).length = s.tasks.length ∧
    ∀ i (h : i < s.tasks.length),
      let t := s.tasks[i]
      (dfRows s)[i]? = some { name := t.name, resources := t.assigned, start := t.start, end_ := t.end_,
                              duration := t.duration, scheduled := t.scheduled, tardy := t.due.map (fun d => t.start - d) } := by
  constructor
  · simp [dfRows]
  · intro i h
    simp [dfRows, h]

/-- the data of a task is recovered from its row -/
def DfRow.decode (r : DfRow) : String × List String × Int × Int × Int × Bool :=
  (r.name, r.resources, r.start, r.end_, r.duration, r.scheduled)

theorem C16_df_injective (s1 s2 : Solution) (h : dfRows s1 = dfRows s2) :
    s1.tasks.map (fun t => (t.name, t.assigned, t.start, t.end_, t.duration, t.scheduled)) =
    s2.tasks.map (fun t => (t.name, t.assigned, t.start, t.end_, t.duration, t.scheduled)) := by
  have := congrArg (List.map DfRow.decode) h
  simpa [dfRows, List.map_map, Function.comp_def, DfRow.decode] using this

/-- what a reader of the sheet recovers from one item cell -/
def Cell.decodeItem : Cell → String × Nat × Int × Int × String
  | .merge sh r c1 c2 t => (sh, r, c1 - 1, c2, t)
  | .write sh r c t => (sh, r, c - 1, c, t)           -- a single cell reads as an item of length 1

/-- **C16 (Excel).** An item of length at least 1 is recovered exactly from its cell. -/
theorem C16_excel_item_decode (sheet : String) (row : Nat) (start end_ : Int) (text : String)
    (hlen : 1 ≤ end_ - start) :
    (itemCell sheet row start end_ text).decodeItem = (sheet, row, start, end_, text) := by
  unfold itemCell
  by_cases h : end_ - start > 1
  · simp [h, Cell.decodeItem]
  · have he : end_ = start + 1 := by omega
    subst he
    have h2 : ¬ (1 < start + 1 - start) := by omega
    simp [h2, Cell.decodeItem]

/-- a zero-length item is written like a length-1 item (known finding F21): the decoded end is
    `start + 1` -/
theorem C16_excel_zero_length (sheet : String) (row : Nat) (start : Int) (text : String) :
    (itemCell sheet row start start text).decodeItem = (sheet, row, start, start + 1, text) := by
  simp [itemCell, Cell.decodeItem]

theorem mem_enumFrom {α} (l : List α) (k i : Nat) (x : α) (h : l[i]? = some x) : (k + i, x) ∈ enumFrom k l := by
  induction l generalizing k i with
  | nil => simp at h
  | cons y ys ih =>
      cases i with
      | zero => simp at h; subst h; simp [enumFrom]
      | succ j =>
          simp only [List.getElem?_cons_succ] at h
          have := ih (k + 1) j h
          simp only [enumFrom, List.mem_cons]
          right
          have e : k + 1 + j = k + (j + 1) := by omega
          rw [← e]; exact this

/-- **C16 (Excel, completeness).** Every reported assignment has its cell on the row of its
    resource, and every task its cell on its row. -/
theorem C16_excel_cells_complete (s : Solution) :
    (∀ i r, s.resources[i]? = some r → ∀ a ∈ r.assignments,
        itemCell "GANTT Resource view" (i + 1) a.2.1 a.2.2 a.1 ∈ excelCells s) ∧
    (∀ i t, s.tasks[i]? = some t →
        itemCell "GANTT Task view" (i + 1) t.start t.end_ (",".intercalate t.assigned) ∈ excelCells s) := by
  constructor
  · intro i r hr a ha
    unfold excelCells
    simp only [List.mem_append, List.mem_flatMap]
    left; left; left; left; right
    refine ⟨(i, r), ?_, ?_⟩
    · simpa using mem_enumFrom s.resources 0 i r hr
    · simp only [List.mem_cons, List.mem_map]
      right
      exact ⟨a, ha, rfl⟩
  · intro i t ht
    unfold excelCells
    simp only [List.mem_append, List.mem_flatMap]
    left; left; right
    refine ⟨(i, t), ?_, ?_⟩
    · simpa using mem_enumFrom s.tasks 0 i t ht
    · simp

end PS
