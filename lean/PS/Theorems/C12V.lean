/-
  PS.Theorems.C12V — exhaustive enumeration, read on schedules: on the core fragment an `unsat` answer to
  "another solution" means that every **valid schedule** of the problem has the timing of a schedule already
  returned (`C12_exhaustive` says it for admitted interpretations; `C05_complete_core` turns valid schedules into
  admitted interpretations).
-/
import PS.Theorems.C12
import PS.Theorems.Exact
namespace PS

/-- **C12 (exhaustive, on schedules).** -/
theorem C12_exhaustive_valid (st : State) (cfg : Config) (prev : List Env) (hc : InCore st)
    (h : ConsistentAns (initFmls cfg st ++ prev.map (blockingClause st)) .unsat) :
    ∀ σ, Valid st σ → ∃ ρ ∈ prev, ∀ t ∈ st.tasks,
      ρ.i (.tStart t.name) = tStartOf σ t ∧ ρ.i (.tEnd t.name) = tEndOf σ t ∧
      (t.optional = true → ρ.b (.sched t.name) = σ.sched t.name) := by
  intro σ hv
  obtain ⟨ρ, hρ, hsame⟩ := C12_exhaustive st cfg prev h (envOf st σ) (C05_complete_core cfg st σ hc hv)
  refine ⟨ρ, hρ, ?_⟩
  intro t ht
  obtain ⟨h1, h2, h3⟩ := hsame t ht
  have hf := hc.names t ht
  rw [envOf_tStart st σ t hf] at h1
  rw [envOf_tEnd st σ t hf] at h2
  exact ⟨h1.symm, h2.symm, fun ho => (h3 ho).symm⟩

/-- … and conversely every schedule returned is a valid one (on the fragment of the exactness theorem) -/
theorem C12_returned_valid (st : State) (cfg : Config) (prev : List Env) (extra : List Fml) (ρ' : Env)
    (hc : InCoreS st) (hH : 0 ≤ ρ'.i .horizon)
    (h : ConsistentAns (initFmls cfg st ++ prev.map (blockingClause st) ++ extra) (.sat ρ')) :
    Valid st (schedOf ρ') ∧ ∀ ρ ∈ prev, ¬ SameTiming st ρ ρ' := by
  obtain ⟨h1, h2⟩ := C12_distinct st cfg prev extra ρ' h
  exact ⟨C05_sound_core cfg st ρ' hc h1 hH, h2⟩

end PS
