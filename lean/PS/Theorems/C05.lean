/-
  C05 — No valid schedule is lost: infeasibility verdicts are truthful.

  Completeness of the encoding: for a user-level schedule σ (`PS/Spec/Schedule.lean`) that
  satisfies the documented meaning of every element, the interpretation `envOf st σ` satisfies
  every assertion `initialize` makes.  Consequently (with `ConsistentAns`, i.e. z3's own
  completeness) the solver cannot answer `unsat`, and pinning σ's values keeps the system
  satisfiable (`envOf st σ` satisfies the pins by construction).

  Proved here for the **core fragment** (`C05_complete_core`): tasks of the three classes,
  mandatory or optional; workers, selections (hence cumulative workers), static / delayed /
  dynamic requirements; work amounts; the one- and two-task constraints, the optional-task rules,
  resource unavailability, same / distinct workers; the six connectives and optional constraints
  over anything; a declared or free horizon.  The hypotheses `InCore` / `CoreMeaning`
  name exactly the usages excluded (each one is a recorded finding with a witness):
  TasksDontOverlap on two zero-length tasks at one instant (xor, F36); DistinctWorkers (F6).  Elements with auxiliary variables (groups, contiguity, distance, non-delay,
  ScheduleN, WorkLoad, buffers, indicators) are covered by the exact ENC correspondence and the
  completeness search of the check, not by this theorem yet.
-/
import PS.Theorems.C04
import PS.Theorems.C02
import PS.Theorems.C07
import PS.Spec.Schedule
import PS.Proofs.Congr
import PS.Proofs.EvalB
namespace PS

/-- task names identify tasks -/
def NamesOK (st : State) : Prop := ∀ t ∈ st.tasks, st.findTask t.name = some t

def Sched.durOfTask (σ : Sched) (t : Task) : Int :=
  match t.kind with
  | .fixed d => d
  | .zero => 0
  | .var .. => σ.dur t.name

/-- documented meaning of a scheduled task -/
structure TaskValid (σ : Sched) (t : Task) : Prop where
  start_nonneg : 0 ≤ σ.start t.name
  end_le : σ.end_ t.name ≤ σ.horizon
  dur_eq : σ.end_ t.name - σ.start t.name = σ.durOfTask t
  durOK : t.DurOK (σ.durOfTask t)
  release : ∀ r, t.release = some r → r ≤ σ.start t.name
  deadline : ∀ d, t.due = some d → t.deadline = true → σ.end_ t.name ≤ d

theorem envOf_tStart (st : State) (σ : Sched) (t : Task) (h : st.findTask t.name = some t) :
    (envOf st σ).i (.tStart t.name) = tStartOf σ t := by
  rw [envOf_prim st σ _ rfl]; simp [envPrim, h]
theorem envOf_tEnd (st : State) (σ : Sched) (t : Task) (h : st.findTask t.name = some t) :
    (envOf st σ).i (.tEnd t.name) = tEndOf σ t := by
  rw [envOf_prim st σ _ rfl]; simp [envPrim, h]
theorem envOf_tDur (st : State) (σ : Sched) (t : Task) (h : st.findTask t.name = some t) :
    (envOf st σ).i (.tDur t.name) = tDurOf σ t := by
  rw [envOf_prim st σ _ rfl]; simp [envPrim, h]

theorem baseList_complete (st : State) (σ : Sched) (t : Task) (hf : st.findTask t.name = some t)
    (hs : σ.isSched t = true) (hv : TaskValid σ t) : Sat (envOf st σ) t.baseList := by
  have e1 := envOf_tStart st σ t hf
  have e2 := envOf_tEnd st σ t hf
  have e3 := envOf_tDur st σ t hf
  simp only [tStartOf, tEndOf, tDurOf, hs, if_true] at e1 e2 e3
  have hd := hv.dur_eq
  have hok := hv.durOK
  unfold Sched.durOfTask at hd hok
  unfold Task.DurOK at hok
  unfold Task.baseList
  cases hk : t.kind with
  | fixed d =>
      simp only [hk] at hd hok ⊢
      intro a ha
      simp only [List.mem_cons, List.mem_singleton, List.not_mem_nil, or_false] at ha
      rcases ha with rfl | rfl
      · simp [Fml.eval, Term.eval, Task.sVar, Task.eVar, numT, e1, e2]; omega
      · simp [Fml.eval, Term.eval, Task.sVar, numT, e1]; exact hv.start_nonneg
  | zero =>
      simp only [hk] at hd hok ⊢
      intro a ha
      simp only [List.mem_cons, List.mem_singleton, List.not_mem_nil, or_false] at ha
      rcases ha with rfl | rfl
      · simp [Fml.eval, Term.eval, Task.sVar, Task.eVar, e1, e2]; omega
      · simp [Fml.eval, Term.eval, Task.sVar, numT, e1]; exact hv.start_nonneg
  | var minD maxD allowed =>
      simp only [hk] at hd hok ⊢
      intro a ha
      simp only [List.mem_append, List.mem_cons, List.mem_singleton, List.not_mem_nil, or_false] at ha
      rcases ha with ((rfl | rfl | rfl) | ha) | ha
      · simp [Fml.eval, Term.eval, Task.sVar, Task.eVar, Task.dVar, e1, e2, e3]; omega
      · simp [Fml.eval, Term.eval, Task.sVar, numT, e1]; exact hv.start_nonneg
      · simp [Fml.eval, Term.eval, Task.dVar, numT, e3]; exact hok.1
      · cases allowed with
        | none => simp at ha
        | some l =>
            simp only [List.mem_singleton] at ha
            subst ha
            simp only [Fml.eval]
            rw [evalAny_iff]
            refine ⟨Fml.eq t.dVar (numT (σ.dur t.name)), List.mem_map.2 ⟨σ.dur t.name, hok.2.2 l rfl, rfl⟩, ?_⟩
            simp [Fml.eval, Term.eval, Task.dVar, numT, e3]
      · cases maxD with
        | none => simp at ha
        | some m =>
            simp only [List.mem_singleton] at ha
            subst ha
            simp [Fml.eval, Term.eval, Task.dVar, numT, e3]
            exact hok.2.1 m rfl

/-- release date and deadline of a scheduled task hold under the witness -/
theorem releaseDue_complete (st : State) (σ : Sched) (t : Task) (hf : st.findTask t.name = some t)
    (hs : σ.isSched t = true) (hv : TaskValid σ t) : Sat (envOf st σ) t.releaseDue := by
  have e1 := envOf_tStart st σ t hf
  have e2 := envOf_tEnd st σ t hf
  simp only [tStartOf, tEndOf, hs, if_true] at e1 e2
  unfold Task.releaseDue
  rw [Sat.append]
  constructor
  · cases hr : t.release with
    | none => simp [Sat]
    | some r =>
        by_cases hp : r > 0
        · simp only [hp, if_true, Sat, List.mem_singleton, forall_eq]
          simp only [Fml.eval, Term.eval, Task.sVar, numT, e1]
          exact hv.release r hr
        · simp [hp, Sat]
  · cases hd : t.due with
    | none => simp [Sat]
    | some d =>
        by_cases hdl : t.deadline = true
        · simp only [hdl, if_true, Sat, List.mem_singleton, forall_eq]
          simp only [Fml.eval, Term.eval, Task.eVar, numT, e2]
          exact hv.deadline d hd hdl
        · simp [hdl, Sat]

/-- **C05 (tasks).** The assertions of every task (release date, deadline, type-specific timing, or
    the parking of an unscheduled optional task), and its `end ≤ horizon`, hold under the witness
    interpretation of a valid schedule. -/
theorem task_complete (st : State) (σ : Sched) (t : Task) (hf : st.findTask t.name = some t)
    (hhor : 0 ≤ σ.horizon) (hv : σ.isSched t = true → TaskValid σ t) :
    Sat (envOf st σ) (t.initAsserts ++ [t.horizonFml]) := by
  have e1 := envOf_tStart st σ t hf
  have e2 := envOf_tEnd st σ t hf
  have e3 := envOf_tDur st σ t hf
  have hguard : σ.isSched t = true → Sat (envOf st σ) t.guarded := by
    intro hs
    unfold Task.guarded
    rw [Sat.append]
    exact ⟨releaseDue_complete st σ t hf hs (hv hs), baseList_complete st σ t hf hs (hv hs)⟩
  rw [Sat.append]
  constructor
  · unfold Task.initAsserts Task.setAssertions
    by_cases hopt : t.optional = true
    · simp only [hopt, if_true, Sat, List.mem_singleton, forall_eq, Fml.eval]
      have hb : (envOf st σ).b (.sched t.name) = σ.sched t.name := rfl
      rw [hb]
      constructor
      · intro hsch
        have hs : σ.isSched t = true := by simp [Sched.isSched, hsch]
        rw [evalAll_eq_Sat]
        exact hguard hs
      · intro hsch
        have hs : σ.isSched t = false := by
          unfold Sched.isSched; simp [hopt]; cases hh : σ.sched t.name <;> simp_all
        unfold Task.notScheduled
        simp only [Fml.eval]
        rw [evalAll_iff]
        intro a ha
        simp only [List.mem_append, List.mem_cons, List.mem_singleton, List.not_mem_nil, or_false] at ha
        rcases ha with (rfl | rfl) | ha
        · simp [Fml.eval, Term.eval, Task.sVar, numT, e1, tStartOf, hs]
        · simp [Fml.eval, Term.eval, Task.eVar, numT, e2, tEndOf, hs]
        · by_cases hvv : t.isVar = true
          · simp only [hvv, if_true, List.mem_singleton] at ha
            subst ha
            simp [Fml.eval, Term.eval, Task.dVar, numT, e3, tDurOf, hs]
          · simp [hvv] at ha
    · have hs : σ.isSched t = true := by unfold Sched.isSched; cases ho : t.optional <;> simp_all
      simp only [hopt, Bool.false_eq_true, if_false]
      exact hguard hs
  · simp only [Sat, List.mem_singleton, forall_eq, Task.horizonFml, Fml.eval, Term.eval, Task.eVar, e2, tEndOf]
    have : (envOf st σ).i .horizon = σ.horizon := rfl
    rw [this]
    by_cases hs : σ.isSched t = true
    · simp only [hs, if_true]; exact (hv hs).end_le
    · simp only [hs, Bool.false_eq_true, if_false, Task.pastPoint]; omega

end PS

namespace PS

/-- each (task, worker) pair has one requirement: the one `envOf` looks up -/
def ReqsOK (st : State) : Prop :=
  ∀ t ∈ st.tasks, ∀ r ∈ st.reqsOf t.name, st.reqFor r.worker t.name = some r

theorem envOf_busy (st : State) (σ : Sched) (t : Task) (r : Req) (m : Bool)
    (hf : st.findTask t.name = some t) (hr : st.reqFor r.worker t.name = some r) :
    (envOf st σ).i (.busyS r.worker t.name m) = (busyOfReq σ t r).1 ∧
    (envOf st σ).i (.busyE r.worker t.name m) = (busyOfReq σ t r).2 := by
  rw [envOf_prim st σ _ rfl, envOf_prim st σ _ rfl]; simp [envPrim, hf, hr]

/-- a dynamically assigned worker joins and leaves inside the span of its (scheduled) task -/
def DynValid (σ : Sched) (t : Task) (r : Req) : Prop :=
  σ.start t.name ≤ σ.dynS r.worker t.name ∧ σ.dynS r.worker t.name ≤ σ.dynE r.worker t.name ∧
  σ.dynE r.worker t.name ≤ σ.end_ t.name

theorem req_complete (st : State) (σ : Sched) (t : Task) (r : Req)
    (hf : st.findTask t.name = some t) (hr : st.reqFor r.worker t.name = some r)
    (hdyn : r.sel = none → r.dynamic = true → σ.isSched t = true → DynValid σ t r) :
    Sat (envOf st σ) (r.fmls t) := by
  have e1 := envOf_tStart st σ t hf
  have e2 := envOf_tEnd st σ t hf
  unfold Req.fmls
  cases hs : r.sel with
  | some s =>
      obtain ⟨b1, b2⟩ := envOf_busy st σ t r true hf hr
      simp only [Sat, List.mem_singleton, forall_eq, Fml.eval, Fml.evalAll, Term.eval, bS, bE, Task.sVar, Task.eVar,
        numT, and_true, b1, b2, e1, e2]
      have hb : (envOf st σ).b (.sel s r.worker) = σ.sel s r.worker := rfl
      rw [hb]
      unfold busyOfReq
      simp only [hs]
      by_cases hsel : σ.sel s r.worker = true <;> simp [hsel]
  | none =>
      obtain ⟨b1, b2⟩ := envOf_busy st σ t r false hf hr
      by_cases hd : r.dynamic = true
      · simp only [hd, if_true]
        intro a ha
        simp only [List.mem_cons, List.mem_singleton, List.not_mem_nil, or_false] at ha
        have hbo : busyOfReq σ t r =
            (if σ.isSched t then (σ.dynS r.worker t.name, σ.dynE r.worker t.name) else (t.pastPoint, t.pastPoint)) := by
          unfold busyOfReq; simp [hs, hd]
        by_cases hsch : σ.isSched t = true
        · have dv := hdyn hs hd hsch
          unfold DynValid at dv
          simp only [hsch, if_true] at hbo
          rw [hbo] at b1 b2
          simp only [tStartOf, tEndOf, hsch, if_true] at e1 e2
          rcases ha with rfl | rfl | rfl <;>
            simp [Fml.eval, Term.eval, bS, bE, Task.sVar, Task.eVar, b1, b2, e1, e2] <;> omega
        · simp only [hsch, Bool.false_eq_true, if_false] at hbo
          rw [hbo] at b1 b2
          simp only [tStartOf, tEndOf, hsch, Bool.false_eq_true, if_false] at e1 e2
          rcases ha with rfl | rfl | rfl <;>
            simp [Fml.eval, Term.eval, bS, bE, Task.sVar, Task.eVar, b1, b2, e1, e2]
      · simp only [hd, Bool.false_eq_true, if_false]
        have hbo : busyOfReq σ t r = (tStartOf σ t + max 0 r.delayIn, tEndOf σ t - max 0 r.earlyOut) := by
          unfold busyOfReq; simp [hs, hd]
        rw [hbo] at b1 b2
        intro a ha
        simp only [List.mem_cons, List.mem_singleton, List.not_mem_nil, or_false] at ha
        rcases ha with rfl | rfl
        · by_cases hp : r.earlyOut > 0
          · simp [hp, Fml.eval, Term.eval, bE, Task.eVar, numT, b2, e2]; omega
          · simp [hp, Fml.eval, Term.eval, bE, Task.eVar, b2, e2]; omega
        · by_cases hp : r.delayIn > 0
          · simp [hp, Fml.eval, Term.eval, bS, Task.sVar, numT, b1, e1]; omega
          · simp [hp, Fml.eval, Term.eval, bS, Task.sVar, b1, e1]; omega

/-- number of workers σ selects in selection `s` -/
def Sched.nSelected (σ : Sched) (s : Select) : Nat := s.workers.countP (fun w => σ.sel s.id w)

theorem select_assertion_complete (st : State) (σ : Sched) (s : Select)
    (h : CountOK s.kind (σ.nSelected s) s.n) : s.assertion.eval (envOf st σ) := by
  unfold Select.assertion pbFun Select.flags
  have hc : Fml.count (envOf st σ) (s.workers.map (fun w => Fml.bvar (.sel s.id w))) = σ.nSelected s := by
    rw [count_flags]; rfl
  unfold CountOK at h
  cases hk : s.kind <;> simp only [hk] at h ⊢ <;> simp only [Fml.eval, hc] <;> exact h

/-- **C05 (requirements).** Every formula a task's `add_required_resource` calls assert holds under
    the witness interpretation. -/
theorem reqs_complete (st : State) (σ : Sched) (t : Task) (hf : st.findTask t.name = some t)
    (hreq : ∀ r ∈ st.reqsOf t.name, st.reqFor r.worker t.name = some r)
    (hdyn : ∀ r ∈ st.reqsOf t.name, r.sel = none → r.dynamic = true → σ.isSched t = true → DynValid σ t r)
    (hcount : ∀ s rs, ReqEvent.viaSelect t.name s rs true ∈ st.eventsOf t.name → CountOK s.kind (σ.nSelected s) s.n) :
    Sat (envOf st σ) ((st.eventsOf t.name).flatMap (·.fmls t)) := by
  intro a ha
  obtain ⟨ev, hev, hae⟩ := List.mem_flatMap.1 ha
  have hsub : ∀ r ∈ ev.reqs, r ∈ st.reqsOf t.name := by
    intro r hr
    unfold State.reqsOf
    exact List.mem_flatMap.2 ⟨ev, hev, hr⟩
  cases ev with
  | direct tn r =>
      simp only [ReqEvent.fmls] at hae
      have hr := hsub r (by simp [ReqEvent.reqs])
      exact req_complete st σ t r hf (hreq r hr) (hdyn r hr) a hae
  | viaSelect tn s rs wc =>
      simp only [ReqEvent.fmls, List.mem_append, List.mem_flatMap] at hae
      rcases hae with ⟨r, hr, har⟩ | hcnt
      · have hr' := hsub r (by simpa [ReqEvent.reqs] using hr)
        exact req_complete st σ t r hf (hreq r hr') (hdyn r hr') a har
      · cases wc with
        | false => simp at hcnt
        | true =>
            simp only [if_true, List.mem_singleton] at hcnt
            subst hcnt
            have htn : tn = t.name := by
              have := (List.mem_filter.1 hev).2
              simpa [ReqEvent.task] using this
            subst htn
            exact select_assertion_complete st σ s (hcount s rs hev)

end PS

namespace PS

theorem scheduled_envOf (st : State) (σ : Sched) (t : Task) : Scheduled (envOf st σ) t ↔ σ.isSched t = true := by
  unfold Scheduled Sched.isSched
  have hb : (envOf st σ).b (.sched t.name) = σ.sched t.name := rfl
  rw [hb]
  cases t.optional <;> simp

/-- task groups on a schedule: the scheduled members lie inside the window; without a window, the span from the
    earliest start to the latest end of the scheduled members is at most `len` -/
def GroupMeaningS (σ : Sched) (ts : List Task) (window : Option (Int × Int)) (len : Int) : Prop :=
  match window with
  | some (lo, hi) => ∀ t ∈ ts, σ.isSched t = true → lo ≤ σ.start t.name ∧ σ.end_ t.name ≤ hi
  | none => ∀ t ∈ ts, ∀ t' ∈ ts, σ.isSched t = true → σ.isSched t' = true → σ.end_ t.name - σ.start t'.name ≤ len

/-- consecutive members of an ordered group, when both are scheduled: `end ⋈ next start` -/
def ConsecS (k : OrdKind) (σ : Sched) : List Task → Prop
  | a :: b :: rest =>
      (σ.isSched a = true → σ.isSched b = true → ordHolds k (σ.end_ a.name) (σ.start b.name)) ∧ ConsecS k σ (b :: rest)
  | _ => True

/-- the documented meaning of the constraint classes of the core fragment, on a schedule (the two group classes are
    outside `CBody.inCore`: they come with auxiliary variables and are handled by `PS/Theorems/Groups.lean`) -/
def CoreMeaning (st : State) (σ : Sched) : CBody → Prop
  | .unorderedGroup ts window len => GroupMeaningS σ ts window len
  | .orderedGroup ts window len kind => GroupMeaningS σ ts window len ∧ ConsecS kind σ ts
  | .startAt t v => σ.isSched t = true → σ.start t.name = v
  | .startAfter t v strict => σ.isSched t = true → (if strict then v < σ.start t.name else v ≤ σ.start t.name)
  | .endAt t v => σ.isSched t = true → σ.end_ t.name = v
  | .endBefore t v strict => σ.isSched t = true → (if strict then σ.end_ t.name < v else σ.end_ t.name ≤ v)
  | .precedence b a off kind =>
      σ.isSched b = true → σ.isSched a = true → ordHolds kind (σ.end_ b.name + max 0 off) (σ.start a.name)
  | .startSynced t1 t2 => σ.isSched t1 = true → σ.isSched t2 = true → σ.start t1.name = σ.start t2.name
  | .endSynced t1 t2 => σ.isSched t1 = true → σ.isSched t2 = true → σ.end_ t1.name = σ.end_ t2.name
  | .dontOverlap t1 t2 =>
      σ.isSched t1 = true → σ.isSched t2 = true →
        (σ.end_ t1.name ≤ σ.start t2.name ∨ σ.end_ t2.name ≤ σ.start t1.name) ∧
        -- the encoding uses xor: two zero-length tasks at one instant are outside the core fragment
        ¬ (σ.end_ t1.name ≤ σ.start t2.name ∧ σ.end_ t2.name ≤ σ.start t1.name)
  | .forceSchedule t b => σ.sched t.name = b
  | .conditionSchedule t cond => (σ.sched t.name = true ↔ cond.eval (envOf st σ))
  | .dependency t1 t2 => (σ.sched t2.name = true ↔ σ.isSched t1 = true)
  | .forceScheduleN ts n kind =>
      (match kind with
       | .exact => ts.countP (fun t => σ.sched t.name) = n
       | .min => n ≤ ts.countP (fun t => σ.sched t.name)
       | .max => ts.countP (fun t => σ.sched t.name) ≤ n)
  | .fromExpr f => f.eval (envOf st σ)
  | .forceApplyN cs n kind =>
      (match kind with
       | .exact => cs.countP σ.applied = n
       | .min => n ≤ cs.countP σ.applied
       | .max => cs.countP σ.applied ≤ n)
  | .unavailable busy ivs => ∀ b ∈ busy, ∀ iv ∈ ivs, iv.2 ≤ b.sV (envOf st σ) ∨ b.eV (envOf st σ) ≤ iv.1
  | .sameWorkers s1 s2 => ∀ w ∈ s1.workers, w ∈ s2.workers → σ.sel s1.id w = σ.sel s2.id w
  -- constraints on indicators: the value the witness interpretation gives the indicator (its definition) meets them
  | .indicatorTarget v value => (envOf st σ).i v = value
  | .indicatorBounds v lo hi => (∀ l, lo = some l → l ≤ (envOf st σ).i v) ∧ (∀ h, hi = some h → (envOf st σ).i v ≤ h)
  -- the interruption classes (no auxiliary variables): the requirement on every busy interval the constraint was
  -- declared on, read on the busy intervals the schedule induces; for the periodic classes the window of the period
  -- the interval starts in (what the documented meaning — all repetitions — implies a fortiori)
  | .interrupted ws ivs => (∀ iv ∈ ivs, iv.1 < iv.2) ∧
      ∀ w ∈ ws, ∀ bt ∈ w, bt.1.sV (envOf st σ) ≤ bt.1.eV (envOf st σ) ∧
        InterruptedExact (envOf st σ) (bt.1.sV (envOf st σ)) (bt.1.eV (envOf st σ)) bt.2 ivs
  | .periodicallyUnavailable busy ivs period start offset end_ => (∀ iv ∈ ivs, iv.1 < iv.2) ∧
      ∀ b ∈ busy, b.sV (envOf st σ) ≤ b.eV (envOf st σ) ∧ ∀ iv ∈ ivs,
        PeriodicMasked (envOf st σ) b start end_ ∨
        (iv.2 + offset + period * ((b.sV (envOf st σ) - offset) / period) ≤ b.sV (envOf st σ) ∨
         b.eV (envOf st σ) ≤ iv.1 + offset + period * ((b.sV (envOf st σ) - offset) / period))
  | .periodicallyInterrupted busy ivs period start offset end_ =>
      0 < period ∧ (∀ iv ∈ ivs, 0 ≤ iv.1 ∧ iv.1 < iv.2 ∧ iv.2 ≤ period) ∧
      ∀ bt ∈ busy, bt.1.sV (envOf st σ) ≤ bt.1.eV (envOf st σ) ∧
        (PeriodicMasked (envOf st σ) bt.1 start end_ ∨
         PeriodicInterruptedExact (envOf st σ) (bt.1.sV (envOf st σ)) (bt.1.eV (envOf st σ)) bt.2 ivs period offset)
  | b => if b.isConn then ConnMeaning (envOf st σ) b else False

/-- bodies the core theorem covers -/
def CBody.inCore : CBody → Bool
  | .startAt .. | .startAfter .. | .endAt .. | .endBefore .. | .precedence .. | .startSynced .. | .endSynced ..
  | .dontOverlap .. | .forceSchedule .. | .conditionSchedule .. | .dependency .. | .forceScheduleN ..
  | .fromExpr .. | .forceApplyN .. | .unavailable .. | .sameWorkers ..
  | .interrupted .. | .periodicallyUnavailable .. | .periodicallyInterrupted ..
  | .indicatorTarget .. | .indicatorBounds .. => true
  | b => b.isConn

theorem core_raw_complete (st : State) (σ : Sched) (c : Nat) (b : CBody) (hin : b.inCore = true)
    (ht : ∀ t ∈ b.coreTasks, st.findTask t.name = some t)
    (hm : CoreMeaning st σ b) : Sat (envOf st σ) (b.raw c) := by
  have S := fun t (h : t ∈ b.coreTasks) => envOf_tStart st σ t (ht t h)
  have E := fun t (h : t ∈ b.coreTasks) => envOf_tEnd st σ t (ht t h)
  cases b
  case startAt t v =>
    simp only [CoreMeaning] at hm
    simp only [CBody.raw, Sat, List.mem_singleton, forall_eq, guard1_eval, scheduled_envOf]
    intro hs
    simp [Fml.eval, Term.eval, Task.sVar, numT, S t (by simp [CBody.coreTasks]), tStartOf, hs, hm hs]
  case startAfter t v strict =>
    simp only [CoreMeaning] at hm
    simp only [CBody.raw, Sat, List.mem_singleton, forall_eq, guard1_eval, scheduled_envOf]
    intro hs
    have := hm hs
    cases strict <;>
      simpa [Fml.eval, Term.eval, Task.sVar, numT, S t (by simp [CBody.coreTasks]), tStartOf, hs] using this
  case endAt t v =>
    simp only [CoreMeaning] at hm
    simp only [CBody.raw, Sat, List.mem_singleton, forall_eq, guard1_eval, scheduled_envOf]
    intro hs
    simp [Fml.eval, Term.eval, Task.eVar, numT, E t (by simp [CBody.coreTasks]), tEndOf, hs, hm hs]
  case endBefore t v strict =>
    simp only [CoreMeaning] at hm
    simp only [CBody.raw, Sat, List.mem_singleton, forall_eq, guard1_eval, scheduled_envOf]
    intro hs
    have := hm hs
    cases strict <;>
      simpa [Fml.eval, Term.eval, Task.eVar, numT, E t (by simp [CBody.coreTasks]), tEndOf, hs] using this
  case precedence bt at_ off kind =>
    simp only [CoreMeaning] at hm
    simp only [CBody.raw, Sat, List.mem_singleton, forall_eq, guard2_eval, scheduled_envOf]
    intro h1 h2
    rw [ordRel_eval]
    have := hm h1 h2
    by_cases ho : off > 0
    · have hmx : max 0 off = off := by omega
      simpa [ho, Term.eval, Task.eVar, Task.sVar, numT, E bt (by simp [CBody.coreTasks]),
        S at_ (by simp [CBody.coreTasks]), tEndOf, tStartOf, h1, h2, hmx] using this
    · have hmx : max 0 off = 0 := by omega
      simpa [ho, Term.eval, Task.eVar, Task.sVar, E bt (by simp [CBody.coreTasks]),
        S at_ (by simp [CBody.coreTasks]), tEndOf, tStartOf, h1, h2, hmx] using this
  case startSynced t1 t2 =>
    simp only [CoreMeaning] at hm
    simp only [CBody.raw, Sat, List.mem_singleton, forall_eq, guard2_eval, scheduled_envOf]
    intro h1 h2
    simp [Fml.eval, Term.eval, Task.sVar, S t1 (by simp [CBody.coreTasks]), S t2 (by simp [CBody.coreTasks]),
      tStartOf, h1, h2, hm h1 h2]
  case endSynced t1 t2 =>
    simp only [CoreMeaning] at hm
    simp only [CBody.raw, Sat, List.mem_singleton, forall_eq, guard2_eval, scheduled_envOf]
    intro h1 h2
    simp [Fml.eval, Term.eval, Task.eVar, E t1 (by simp [CBody.coreTasks]), E t2 (by simp [CBody.coreTasks]),
      tEndOf, h1, h2, hm h1 h2]
  case dontOverlap t1 t2 =>
    simp only [CoreMeaning] at hm
    simp only [CBody.raw, Sat, List.mem_singleton, forall_eq, guard2_eval, scheduled_envOf]
    intro h1 h2
    obtain ⟨hor, hnb⟩ := hm h1 h2
    simp only [Fml.eval, Term.eval, Task.sVar, Task.eVar, S t1 (by simp [CBody.coreTasks]), S t2 (by simp [CBody.coreTasks]),
      E t1 (by simp [CBody.coreTasks]), E t2 (by simp [CBody.coreTasks]), tStartOf, tEndOf, h1, h2, if_true]
    intro hiff
    rcases hor with h | h
    · exact hnb ⟨h, hiff.1 h⟩
    · exact hnb ⟨hiff.2 h, h⟩
  case forceSchedule t bb =>
    simp only [CoreMeaning] at hm
    simp only [CBody.raw, Sat, List.mem_singleton, forall_eq]
    have hb : (envOf st σ).b (.sched t.name) = σ.sched t.name := rfl
    cases bb <;> simp [Fml.eval, hb, hm]
  case conditionSchedule t cond =>
    simp only [CoreMeaning] at hm
    simp only [CBody.raw, Sat, List.mem_singleton, forall_eq, Fml.eval]
    have hb : (envOf st σ).b (.sched t.name) = σ.sched t.name := rfl
    rw [hb]
    constructor
    · intro hc; simp [hm.2 hc]
    · intro hc
      have : ¬ σ.sched t.name = true := fun h => hc (hm.1 h)
      simp [this]
  case dependency t1 t2 =>
    simp only [CoreMeaning] at hm
    simp only [CBody.raw, Sat, List.mem_singleton, forall_eq]
    have hb1 : (envOf st σ).b (.sched t1.name) = σ.sched t1.name := rfl
    have hb2 : (envOf st σ).b (.sched t2.name) = σ.sched t2.name := rfl
    by_cases ho : t1.optional = true
    · simp only [ho, if_true, Fml.eval, hb1, hb2]
      simp only [Sched.isSched, ho, Bool.not_true, Bool.false_or] at hm
      constructor
      · intro h; exact hm.2 h
      · intro h; exact hm.1 h
    · simp only [ho, Bool.false_eq_true, if_false, Fml.eval, hb2]
      have : σ.isSched t1 = true := by unfold Sched.isSched; cases hh : t1.optional <;> simp_all
      simp [hm.2 this]
  case forceScheduleN ts n kind =>
    simp only [CoreMeaning] at hm
    simp only [CBody.raw, Sat, List.mem_singleton, forall_eq, pbFun]
    have hc : Fml.count (envOf st σ) (ts.map (fun t => Fml.bvar (.sched t.name))) = ts.countP (fun t => σ.sched t.name) := by
      rw [count_sched]; rfl
    cases kind <;> simp only [Fml.eval, hc] <;> exact hm
  case fromExpr f =>
    simp only [CoreMeaning] at hm
    simpa [CBody.raw, Sat] using hm
  case forceApplyN cs n kind =>
    simp only [CoreMeaning] at hm
    simp only [CBody.raw, Sat, List.mem_singleton, forall_eq, pbFun]
    have hc : Fml.count (envOf st σ) (cs.map (fun i => Fml.bvar (.applied i))) = cs.countP σ.applied := by
      rw [count_applied]; rfl
    cases kind <;> simp only [Fml.eval, hc] <;> exact hm
  case unavailable busy ivs =>
    simp only [CoreMeaning] at hm
    intro a ha
    simp only [CBody.raw, List.mem_flatMap, List.mem_map] at ha
    obtain ⟨iv, hiv, br, hbr, rfl⟩ := ha
    have := hm br hbr iv hiv
    simpa [Fml.eval, Fml.evalAny, Term.eval, numT, BusyRef.s, BusyRef.e, bS, bE, BusyRef.sV, BusyRef.eV] using this
  case sameWorkers s1 s2 =>
    simp only [CoreMeaning] at hm
    intro a ha
    simp only [CBody.raw, List.mem_map, List.mem_filter] at ha
    obtain ⟨w, ⟨hw1, hw2⟩, rfl⟩ := ha
    have := hm w hw1 (by simpa using hw2)
    have hb1 : (envOf st σ).b (.sel s1.id w) = σ.sel s1.id w := rfl
    have hb2 : (envOf st σ).b (.sel s2.id w) = σ.sel s2.id w := rfl
    simp [Fml.eval, hb1, hb2, this]
  case indicatorTarget v value =>
    simp only [CoreMeaning] at hm
    simpa [CBody.raw, Sat, Fml.eval, Term.eval, numT] using hm
  case indicatorBounds v lo hi =>
    simp only [CoreMeaning] at hm
    intro a ha
    simp only [CBody.raw, List.mem_append] at ha
    rcases ha with ha | ha
    · cases lo with
      | none => simp at ha
      | some l =>
          simp only [List.mem_singleton] at ha; subst ha
          simpa [Fml.eval, Term.eval, numT] using hm.1 l rfl
    · cases hi with
      | none => simp at ha
      | some h =>
          simp only [List.mem_singleton] at ha; subst ha
          simpa [Fml.eval, Term.eval, numT] using hm.2 h rfl
  case interrupted ws ivs =>
    simp only [CoreMeaning] at hm
    obtain ⟨hwf, hall⟩ := hm
    intro a ha
    simp only [CBody.raw, List.mem_map] at ha
    obtain ⟨w, hw, rfl⟩ := ha
    simp only [Fml.eval]; rw [evalAll_iff]
    intro f hf
    obtain ⟨bt, hbt, hfb⟩ := List.mem_flatMap.1 hf
    exact interruptedOne_complete bt.1 bt.2 ivs _ hwf (hall w hw bt hbt).1 (hall w hw bt hbt).2 f hfb
  case periodicallyUnavailable busy ivs period start offset end_ =>
    simp only [CoreMeaning] at hm
    obtain ⟨hwf, hall⟩ := hm
    intro a ha
    simp only [CBody.raw, List.mem_flatMap, List.mem_map] at ha
    obtain ⟨iv, hiv, b, hb, rfl⟩ := ha
    exact periodicOne_complete b iv period start offset end_ _ (hwf iv hiv) (hall b hb).1 ((hall b hb).2 iv hiv)
  case periodicallyInterrupted busy ivs period start offset end_ =>
    simp only [CoreMeaning] at hm
    obtain ⟨hp, hwf, hall⟩ := hm
    intro a ha
    simp only [CBody.raw, List.mem_map] at ha
    obtain ⟨bt, hbt, rfl⟩ := ha
    unfold periodicInterruptedFml
    apply masked_or_core
    rcases (hall bt hbt).2 with hmk | hex
    · exact Or.inl hmk
    · right
      simp only [Fml.eval]; rw [evalAll_eq_Sat]
      exact periodicInterruptedOne_complete bt.1 bt.2 ivs period offset _ hp hwf (hall bt hbt).1 hex
  case not_ o =>
    simp only [CoreMeaning, CBody.isConn, if_true] at hm
    exact (C10_connective_raw c _ rfl _).2 hm
  case or_ os =>
    simp only [CoreMeaning, CBody.isConn, if_true] at hm
    exact (C10_connective_raw c _ rfl _).2 hm
  case and_ os =>
    simp only [CoreMeaning, CBody.isConn, if_true] at hm
    exact (C10_connective_raw c _ rfl _).2 hm
  case xor_ o1 o2 =>
    simp only [CoreMeaning, CBody.isConn, if_true] at hm
    exact (C10_connective_raw c _ rfl _).2 hm
  case implies cc os =>
    simp only [CoreMeaning, CBody.isConn, if_true] at hm
    exact (C10_connective_raw c _ rfl _).2 hm
  case ifThenElse cc os1 os2 =>
    simp only [CoreMeaning, CBody.isConn, if_true] at hm
    exact (C10_connective_raw c _ rfl _).2 hm

  case unorderedGroup => simp [CBody.inCore, CBody.isConn] at hin
  case orderedGroup => simp [CBody.inCore, CBody.isConn] at hin
  all_goals (simp [CoreMeaning, CBody.isConn] at hm)

end PS

namespace PS

theorem noOverlapPairs_complete (ρ : Env) (w : String) (l : List (String × Bool))
    (h : l.Pairwise (Disjoint2 ρ w)) : Sat ρ (noOverlapPairs w l) := by
  induction l with
  | nil => simp [noOverlapPairs, Sat]
  | cons x xs ih =>
      obtain ⟨ti, mi⟩ := x
      rw [List.pairwise_cons] at h
      simp only [noOverlapPairs]
      rw [Sat.append]
      refine ⟨?_, ih h.2⟩
      intro a ha
      obtain ⟨⟨tk, mk⟩, hy, rfl⟩ := List.mem_map.1 ha
      have := h.1 (tk, mk) hy
      unfold Disjoint2 at this
      simp only [Fml.eval, Fml.evalAny, Term.eval, bS, bE, or_false]
      exact this

/-! ### indicators defined by one equation over the primary variables -/

/-- the indicators of the problem are of the single-equation kind (`indicator = T`, `IBody.defTerm`), `T`
    quantifier free over the primary variables, and their variables are pairwise different indicator variables -/
structure IndsOK (st : State) : Prop where
  isInd : ∀ ind ∈ st.indicators, ind.var.isInd = true
  distinct : st.indicators.Pairwise (fun a b => a.var ≠ b.var)
  simple : ∀ ind ∈ st.indicators, ∃ T, ind.body.defTerm = some T ∧ T.qf = true ∧
    T.varsIn (fun v => !v.isInd) = true

theorem envOf_agree (st : State) (σ : Sched) : Env.AgreeOn (fun v => !v.isInd) (envPrim st σ) (envOf st σ) where
  i := by
    intro v hv
    have : v.isInd = false := by simpa using hv
    exact (envOf_prim st σ v this).symm
  b := rfl
  f := rfl
  a := rfl
  p := rfl

theorem find?_of_pairwise_var (l : List Indicator) (h : l.Pairwise (fun a b => a.var ≠ b.var)) (ind : Indicator)
    (hm : ind ∈ l) : l.find? (fun x => x.var == ind.var) = some ind := by
  induction l with
  | nil => simp at hm
  | cons x xs ih =>
      rw [List.pairwise_cons] at h
      rcases List.mem_cons.1 hm with rfl | hm'
      · simp
      · have hne : x.var ≠ ind.var := h.1 ind hm'
        have : (x.var == ind.var) = false := by simpa using hne
        rw [List.find?_cons, this]
        exact ih h.2 hm'

/-- **C05 (indicators).** Under the witness interpretation every single-equation indicator takes the value of
    its defining term, so its assertion holds. -/
theorem indicator_complete (st : State) (σ : Sched) (hok : IndsOK st) (ind : Indicator) (hi : ind ∈ st.indicators) :
    Sat (envOf st σ) ind.asserts := by
  obtain ⟨T, hT, hqf, hvars⟩ := hok.simple ind hi
  unfold Indicator.asserts
  rw [IBody.defTerm_fmls ind.body ind.id (.var ind.var) T hT]
  intro a ha
  simp only [List.mem_singleton] at ha; subst ha
  simp only [Fml.eval, Term.eval]
  have hval : (envOf st σ).i ind.var = T.evalB (envPrim st σ) := by
    simp only [envOf, hok.isInd ind hi, if_true, find?_of_pairwise_var _ hok.distinct ind hi, hT]
  rw [hval, Term.evalB_eq _ T hqf]
  exact Term.eval_congr _ _ _ (envOf_agree st σ) T hvars

/-- the problem uses only elements of the core fragment (each exclusion is a recorded finding) -/
structure InCore (st : State) : Prop where
  names : NamesOK st
  reqs : ReqsOK st
  constrs : ∀ c ∈ st.constrs, c.operand = false →
    c.body.inCore = true ∧ (c.optional = true → c.body.direct = false) ∧
    ∀ t ∈ c.body.coreTasks, st.findTask t.name = some t
  indicators : IndsOK st
  no_buffers : st.buffers = []
  single_objective : st.objectives.length ≤ 1

/-- σ satisfies the documented meaning of every element of the problem -/
structure Valid (st : State) (σ : Sched) : Prop where
  horizon_nonneg : 0 ≤ σ.horizon
  horizon_le : ∀ H, st.horizon = some H → σ.horizon ≤ H
  tasks : ∀ t ∈ st.tasks, σ.isSched t = true → TaskValid σ t
  dyn : ∀ t ∈ st.tasks, ∀ r ∈ st.reqsOf t.name, r.sel = none → r.dynamic = true → σ.isSched t = true → DynValid σ t r
  counts : ∀ t ∈ st.tasks, ∀ s rs, ReqEvent.viaSelect t.name s rs true ∈ st.eventsOf t.name →
    CountOK s.kind (σ.nSelected s) s.n
  no_overlap : ∀ w ∈ st.workers, (st.busyOf w.name).Pairwise (Disjoint2 (envOf st σ) w.name)
  work : ∀ t ∈ st.tasks, 0 < t.work → workTerms st t ≠ [] → σ.isSched t = true →
    t.work ≤ Term.evalSum (envOf st σ) (workTerms st t)
  constrs : ∀ c ∈ st.constrs, c.operand = false → (c.optional = true → σ.applied c.id = true) → CoreMeaning st σ c.body

/-- **C05 (completeness, core fragment).** The interpretation that corresponds to a valid schedule
    satisfies every assertion of `initialize`, under every configuration. -/
theorem C05_complete_core (cfg : Config) (st : State) (σ : Sched) (hcore : InCore st) (hv : Valid st σ) :
    Sat (envOf st σ) (initFmls cfg st) := by
  intro a ha
  rcases (mem_initFmls_iff cfg st a).1 ha with h | h | h | h | h | h | h | h
  · -- task assertions and end ≤ horizon
    obtain ⟨t, ht, h1⟩ := h
    have hf := hcore.names t ht
    have hT := task_complete st σ t hf hv.horizon_nonneg (hv.tasks t ht)
    rcases h1 with h1 | h1
    · unfold State.taskAsserts at h1
      rcases List.mem_append.1 h1 with h2 | h2
      · exact hT a (List.mem_append_left _ h2)
      · exact reqs_complete st σ t hf (hcore.reqs t ht) (hv.dyn t ht) (hv.counts t ht) a h2
    · subst h1
      exact hT _ (List.mem_append_right _ (by simp))
  · obtain ⟨w, hw, h1⟩ := h
    exact noOverlapPairs_complete _ w.name _ (hv.no_overlap w hw) a h1
  · obtain ⟨c, hc, hop, h1⟩ := h
    obtain ⟨hin, hdir, htk⟩ := hcore.constrs c hc hop
    by_cases hopt : c.optional = true
    · have := (C10_optional c hopt (hdir hopt) (envOf st σ)).2 (by
        intro happ
        have happ' : σ.applied c.id = true := happ
        exact core_raw_complete st σ c.id c.body hin htk (hv.constrs c hc hop (fun _ => happ')))
      exact this a h1
    · have hopt' : c.optional = false := by cases hh : c.optional <;> simp_all
      rw [C10_mandatory c hopt'] at h1
      exact core_raw_complete st σ c.id c.body hin htk (hv.constrs c hc hop (fun h => absurd h hopt)) a h1
  · obtain ⟨i, hi, h1⟩ := h
    exact indicator_complete st σ hcore.indicators i hi a h1
  · obtain ⟨t, ht, h1⟩ := h
    unfold workAmount at h1
    by_cases hw : t.work > 0
    · simp only [hw, if_true] at h1
      by_cases he : (workTerms st t).isEmpty = true
      · simp [he] at h1
      · simp only [he, Bool.false_eq_true, if_false, List.mem_singleton] at h1
        subst h1
        have hne : workTerms st t ≠ [] := by
          intro hh; rw [hh] at he; simp at he
        by_cases ho : t.optional = true
        · simp only [ho, if_true, Fml.eval]
          intro hsch
          have hsch' : σ.sched t.name = true := hsch
          have hs : σ.isSched t = true := by simp [Sched.isSched, hsch']
          have := hv.work t ht hw hne hs
          simpa [Term.eval, numT] using this
        · have hs : σ.isSched t = true := by unfold Sched.isSched; cases hh : t.optional <;> simp_all
          have := hv.work t ht hw hne hs
          simpa [ho, Fml.eval, Term.eval, numT] using this
    · simp [hw] at h1
  · obtain ⟨b, hb, _⟩ := h
    rw [hcore.no_buffers] at hb
    simp at hb
  · unfold State.problemAsserts at h
    cases hh : st.horizon with
    | none => simp [hh] at h
    | some H =>
        simp only [hh, List.mem_singleton] at h
        subst h
        have := hv.horizon_le H hh
        have he : (envOf st σ).i .horizon = σ.horizon := rfl
        simpa [Fml.eval, Term.eval, numT, he] using this
  · unfold objectiveFmls at h
    have : ¬ (st.objectives.length > 1) := by have := hcore.single_objective; omega
    simp [this] at h

/-- **C05 (verdict).** On a problem of the core fragment that has a valid schedule, a consistent
    oracle cannot answer `unsat` to the assertions of `initialize`. -/
theorem C05_unsat_means_no_valid_schedule (cfg : Config) (st : State) (hcore : InCore st)
    (hunsat : ConsistentAns (initFmls cfg st) .unsat) : ¬ ∃ σ, Valid st σ := by
  rintro ⟨σ, hv⟩
  exact hunsat ⟨envOf st σ, C05_complete_core cfg st σ hcore hv⟩

end PS

namespace PS
/-! ### non-vacuity: a concrete problem, a concrete schedule, and the witness interpretation
    satisfying every assertion of `initialize` (evaluated by the kernel) -/

def C05_exState : State :=
  run [.problem "p" (some 12),
       .task "A" (.fixed 3) false 2 (some 1) (some 9) true 1,
       .task "B" (.var 1 (some 4) (some [2, 3])) true 0 none none true 1,
       .task "C" (.zero) true 0 none none true 1,
       .worker "W" 1 (.const 0), .worker "V" 2 (.const 0),
       .select none ["W", "V"] 1 .exact,
       .require "A" (.select 0) false 0 0,
       .require "B" (.worker "W") true 0 0,
       .constr none false (.precedence "A" "B" 1 .lax),
       .constr none true (.startAt "A" 2),
       .constr none false (.forceSchedule "C" false),
       .constr none false (.not_ (.ref 1)),
       .constr none false (.unavailable "W" [(0, 1)])]

def C05_exSched : Sched :=
  { sched := fun n => n == "B"
    start := fun n => if n == "A" then 1 else if n == "B" then 5 else 0
    end_ := fun n => if n == "A" then 4 else if n == "B" then 7 else 0
    dur := fun n => if n == "B" then 2 else 0
    sel := fun s w => s == 0 && w == "V"
    applied := fun c => c == 1        -- the operand of `Not` is applied, and violated: A starts at 1
    dynS := fun _ _ => 5
    dynE := fun _ _ => 6
    horizon := 10 }

example : satB (envOf C05_exState C05_exSched) (initFmls {} C05_exState) = true := by decide +kernel
example : C05_exState.constrs.length = 5 ∧ C05_exState.reqLog.length = 2 := by decide +kernel

/-- the interruption classes: a fixed-duration task placed between the windows, a variable-duration task that
    spans one repetition `(12, 14)` of the periodic interruption and is lengthened by its length -/
def C05_exState2 : State :=
  run [.problem "p" (some 30),
       .task "F" (.fixed 3) false 0 none none true 1,
       .task "V" (.var 2 (some 6) none) false 0 none none true 1,
       .worker "W" 1 (.const 0),
       .require "F" (.worker "W") false 0 0,
       .require "V" (.worker "W") false 0 0,
       .constr none false (.interrupted "W" [(4, 6)]),
       .constr none false (.periodicallyInterrupted "W" [(2, 4)] 10 0 0 none),
       .constr none false (.periodicallyUnavailable "W" [(7, 8)] 10 0 0 (some 25))]

def C05_exSched2 : Sched :=
  { sched := fun _ => false
    start := fun n => if n == "F" then 8 else 12
    end_ := fun n => if n == "F" then 11 else 16
    dur := fun n => if n == "F" then 3 else 4
    sel := fun _ _ => false
    applied := fun _ => false
    dynS := fun _ _ => 0
    dynE := fun _ _ => 0
    horizon := 20 }

example : satB (envOf C05_exState2 C05_exSched2) (initFmls {} C05_exState2) = true := by decide +kernel
example : C05_exState2.constrs.length = 3 ∧ (C05_exState2.constrs.all (fun c => c.body.inCore)) = true := by decide +kernel
-- … and one period later the variable task would have to be longer: [12, 15] is rejected
example : satB (envOf C05_exState2 { C05_exSched2 with end_ := fun n => if n == "F" then 11 else 15, dur := fun n => if n == "F" then 3 else 3 })
    (initFmls {} C05_exState2) = false := by decide +kernel

/-- an optimisation problem: a flow-time objective (which creates its indicator), a utilisation and a tardiness
    indicator; the witness interpretation gives the indicators the values of their definitions -/
def C05_exState3 : State :=
  run [.problem "p" (some 12),
       .task "A" (.fixed 3) false 0 none (some 5) false 2,
       .task "B" (.var 1 (some 4) none) true 0 none none true 1,
       .worker "W" 1 (.const 0),
       .require "A" (.worker "W") false 0 0,
       .require "B" (.worker "W") false 0 0,
       .constr none false (.precedence "A" "B" 0 .lax),
       .indicator (.utilization "W"),
       .indicator (.tardiness (some ["A"])),
       .objective (.flowtime none)]

def C05_exSched3 : Sched :=
  { sched := fun n => n == "B"
    start := fun n => if n == "A" then 4 else 8
    end_ := fun n => if n == "A" then 7 else 10
    dur := fun n => if n == "A" then 3 else 2
    sel := fun _ _ => false
    applied := fun _ => false
    dynS := fun _ _ => 0
    dynE := fun _ _ => 0
    horizon := 12 }

example : satB (envOf C05_exState3 C05_exSched3) (initFmls {} C05_exState3) = true := by decide +kernel
-- utilisation ⌊100·5/12⌋ = 41, weighted tardiness 2·(7 − 5) = 4, flow time 7 + 10 = 17
example : C05_exState3.indicators.map (fun ind => (envOf C05_exState3 C05_exSched3).i ind.var) = [41, 4, 17] := by
  decide +kernel
-- the hypotheses `IndsOK` asks of the indicators
example : (C05_exState3.indicators.all (fun ind => ind.var.isInd &&
    (match ind.body.defTerm with | some T => T.qf && T.varsIn (fun v => !v.isInd) | none => false))) = true ∧
    C05_exState3.indicators.length = 3 ∧ C05_exState3.objectives.length = 1 := by decide +kernel

end PS
