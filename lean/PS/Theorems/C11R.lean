/-
  PS.Theorems.C11R — `C11_task_iff_resource` for states a construction script produces: that the workers are pairwise
  different and found under their own names is an invariant of `step` (`reachable_wnodup`, PS/Proofs/StepWF.lean), not
  a hypothesis.
-/
import PS.Theorems.C11
import PS.Proofs.StepWF
import PS.Theorems.C06
import PS.Theorems.Exact
namespace PS

theorem nodup_of_map_nodup {α β} (f : α → β) : ∀ (l : List α), (l.map f).Nodup → l.Nodup
  | [], _ => List.nodup_nil
  | x :: xs, h => by
      simp only [List.map_cons, List.nodup_cons] at h ⊢
      exact ⟨fun hx => h.1 (List.mem_map.2 ⟨x, hx, rfl⟩), nodup_of_map_nodup f xs h.2⟩

/-- **C11 (task view ⇔ resource view), reachable states.** -/
theorem C11_task_iff_resource_reachable (st : State) (hr : Reachable st) (ρ : Env) (cal : Calendar)
    (hN : ∀ w ∈ st.workers, ∀ w' ∈ st.workers, w'.reportName = w.name → w' = w)
    (hord : ∀ w ∈ st.workers, ∀ e ∈ st.busyOf w.name,
      0 ≤ ρ.i (.busyS w.name e.1 e.2) → 0 ≤ ρ.i (.busyE w.name e.1 e.2)) :
    ∀ t ∈ st.tasks, ∀ x, x ∈ (taskSol st ρ cal t).assigned ↔
      ∃ e ∈ (buildSolution st ρ cal).resources, e.name = x ∧ ∃ s en, (t.name, s, en) ∈ e.assignments :=
  have w := reachable_wnodup st hr
  C11_task_iff_resource st ρ cal (nodup_of_map_nodup _ _ w) hN (findWorker_of_wnodup st w) hord


/-- the declared delays of a requirement fit the task: they leave a non-negative busy span whatever the duration, and
    the delay-in stays below the task number (finding F19 otherwise) -/
def Req.Fits (t : Task) (r : Req) : Prop :=
  0 ≤ t.minDur ∧ max 0 r.delayIn + max 0 r.earlyOut ≤ t.minDur ∧ max 0 r.delayIn ≤ t.num0

theorem minDur_le_durV (t : Task) (ρ : Env) (h : t.DurOK (t.durV ρ)) : t.minDur ≤ t.durV ρ := by
  unfold Task.DurOK at h
  unfold Task.minDur Task.durV at *
  cases hk : t.kind with
  | fixed d => simp [hk] at h ⊢
  | zero => simp [hk] at h ⊢
  | var mn mx al => simp only [hk] at h ⊢; exact h.1

/-- **the sign condition of `C11_task_iff_resource` holds for every admitted interpretation** when the declared
    delays fit the tasks: a busy interval that starts at a non-negative instant also ends at one -/
theorem C11_hord_of_fits (cfg : Config) (st : State) (hr : Reachable st) (ρ : Env) (hρ : Sat ρ (initFmls cfg st))
    (hfit : ∀ t ∈ st.tasks, ∀ r ∈ st.reqsOf t.name, r.Fits t) :
    ∀ w ∈ st.workers, ∀ e ∈ st.busyOf w.name,
      0 ≤ ρ.i (.busyS w.name e.1 e.2) → 0 ≤ ρ.i (.busyE w.name e.1 e.2) := by
  intro w _ e he h0
  have wf := reachable_wf st hr
  obtain ⟨ev, hev, r, hrr, h1, h2, h3⟩ := busyOf_mem st w.name e he
  obtain ⟨t, ht, hn⟩ := wf.req_tasks ev hev
  have hev' : ev ∈ st.eventsOf t.name := List.mem_filter.2 ⟨hev, by simp [hn]⟩
  have hrq : r ∈ st.reqsOf t.name := List.mem_flatMap.2 ⟨ev, hev', hrr⟩
  obtain ⟨f0, f1, f2⟩ := hfit t ht r hrq
  have hspan := C02_busy_span cfg st ρ hρ wf.events t ht ev hev' r hrr
  rw [← h1, ← h2, ← h3, ← hn] at h0 ⊢
  unfold ReqSpanOK at hspan
  by_cases hs : Scheduled ρ t
  · have tt := C01_task_timing cfg st ρ hρ t ht hs
    have hd := minDur_le_durV t ρ tt.durOK
    have hdur := tt.duration
    have hst := tt.start_nonneg
    cases hsel : r.sel with
    | some s =>
        simp only [hsel] at hspan
        by_cases hb : ρ.b (.sel s r.worker) = true
        · have := hspan.1 hb; omega
        · have hb' : ρ.b (.sel s r.worker) = false := by cases hh : ρ.b (.sel s r.worker) <;> simp_all
          have := hspan.2 hb'; omega
    | none =>
        simp only [hsel] at hspan
        by_cases hdy : r.dynamic = true
        · simp only [hdy, if_true] at hspan; omega
        · simp only [hdy, Bool.false_eq_true, if_false] at hspan; omega
  · have hopt : t.optional = true ∧ ρ.b (.sched t.name) = false := by
      unfold Scheduled at hs
      cases ho : t.optional <;> cases hb : ρ.b (.sched t.name) <;> simp_all
    obtain ⟨p1, p2, _⟩ := C06_parked cfg st ρ hρ t ht hopt.1 hopt.2
    cases hsel : r.sel with
    | some s =>
        simp only [hsel] at hspan
        by_cases hb : ρ.b (.sel s r.worker) = true
        · have := hspan.1 hb; omega
        · have hb' : ρ.b (.sel s r.worker) = false := by cases hh : ρ.b (.sel s r.worker) <;> simp_all
          have := hspan.2 hb'; omega
    | none =>
        simp only [hsel] at hspan
        by_cases hdy : r.dynamic = true
        · simp only [hdy, if_true] at hspan; omega
        · simp only [hdy, Bool.false_eq_true, if_false] at hspan; omega

/-- **C11 (task view ⇔ resource view), for what the encoder admits.** For a state a script produces, an
    interpretation the constraint system admits, and delays that fit the tasks, a task lists a resource exactly when
    that resource lists an assignment for the task. -/
theorem C11_task_iff_resource_admitted (cfg : Config) (st : State) (hr : Reachable st) (ρ : Env)
    (hρ : Sat ρ (initFmls cfg st)) (cal : Calendar)
    (hN : ∀ w ∈ st.workers, ∀ w' ∈ st.workers, w'.reportName = w.name → w' = w)
    (hfit : ∀ t ∈ st.tasks, ∀ r ∈ st.reqsOf t.name, r.Fits t) :
    ∀ t ∈ st.tasks, ∀ x, x ∈ (taskSol st ρ cal t).assigned ↔
      ∃ e ∈ (buildSolution st ρ cal).resources, e.name = x ∧ ∃ s en, (t.name, s, en) ∈ e.assignments :=
  C11_task_iff_resource_reachable st hr ρ cal hN (C11_hord_of_fits cfg st hr ρ hρ hfit)

end PS
