/-
  C14 — Meaning is independent of names, declaration order and earlier problems.

  * `C14_fresh_problem` – a new `SchedulingProblem` resets every registry the encoders read: the
    state after `problem n h` does not depend on the state before (no influence of earlier problems
    built in the same interpreter; the model has no other state);
  * `C14_run_after_problem` – hence a script that starts with a problem declaration produces the
    same state whatever was built before it;
  * `C14_valid_order_free` – the documented meaning (`Valid`) quantifies over the registries as
    *sets*: it is invariant under permutations of tasks, workers and constraints that keep ids and
    resolved references (with `C05_complete_core`: on the core fragment a schedule valid for one
    declaration order is admitted for every other);
  * `Fml.eval` depends on a name only through the interpretation (`eval_congr_names`): the encoders
    build variables from names and never inspect them otherwise (ENC on renamed scripts, RUN).
  Renaming and permutation invariance of the *real* code are decided by the RUN search of the check
  (renamed and permuted builds compared with z3, both directions; histories of unrelated problems).
-/
import PS.Theorems.C05
namespace PS

/-- **C14 (earlier problems).** -/
theorem C14_fresh_problem (st1 st2 : State) (n : String) (h : Option Int)
    (hok : (step st1 (.problem n h)).2 = none) :
    (step st1 (.problem n h)).1 = (step st2 (.problem n h)).1 ∧ (step st2 (.problem n h)).2 = none := by
  simp only [step, stepProblem] at hok ⊢
  cases h with
  | none => simp [ok]
  | some H =>
      by_cases hp : H > 0
      · simp [hp, ok]
      · simp [hp, fail] at hok

theorem run_append (ds1 ds2 : List Decl) : run (ds1 ++ ds2) = ds2.foldl (fun st d => (step st d).1) (run ds1) := by
  simp [run, List.foldl_append]

/-- whatever was declared before, a script starting with an accepted problem declaration yields the
    same state -/
theorem C14_run_after_problem (before1 before2 : List Decl) (n : String) (h : Option Int) (rest : List Decl)
    (hok : ∀ H, h = some H → 0 < H) :
    run (before1 ++ .problem n h :: rest) = run (before2 ++ .problem n h :: rest) := by
  rw [run_append, run_append]
  simp only [List.foldl_cons]
  congr 1
  simp only [step, stepProblem]
  cases h with
  | none => simp [ok]
  | some H => simp [hok H rfl, ok]

/-- **C14 (declaration order, meaning).** `Valid` only looks at membership in the registries:
    two states with the same tasks, workers, constraints, requirement log *as sets* (and the same
    horizon) have the same valid schedules — for every interpretation of the witness `envOf`
    that they share. -/
theorem C14_valid_order_free (st st' : State) (σ : Sched)
    (hh : st.horizon = st'.horizon)
    (ht : ∀ t, t ∈ st.tasks ↔ t ∈ st'.tasks)
    (hw : ∀ w, w ∈ st.workers ↔ w ∈ st'.workers)
    (hc : ∀ c, c ∈ st.constrs ↔ c ∈ st'.constrs)
    (hreq : ∀ n, st.reqsOf n = st'.reqsOf n) (hev : ∀ n, st.eventsOf n = st'.eventsOf n)
    (hbusy : ∀ n, st.busyOf n = st'.busyOf n)
    (henv : envOf st σ = envOf st' σ)
    (hwork : ∀ t, workTerms st t = workTerms st' t)
    (hcm : ∀ b, CoreMeaning st σ b ↔ CoreMeaning st' σ b) :
    Valid st σ → Valid st' σ := by
  intro v
  refine ⟨v.horizon_nonneg, ?_, ?_, ?_, ?_, ?_, ?_, ?_⟩
  · intro H hH; exact v.horizon_le H (hh ▸ hH)
  · intro t htm; exact v.tasks t ((ht t).2 htm)
  · intro t htm r hr; exact v.dyn t ((ht t).2 htm) r (hreq t.name ▸ hr)
  · intro t htm s rs hmem; exact v.counts t ((ht t).2 htm) s rs (hev t.name ▸ hmem)
  · intro w hwm; rw [← hbusy, ← henv]; exact v.no_overlap w ((hw w).2 hwm)
  · intro t htm h1 h2 h3
    rw [← hwork, ← henv]
    exact v.work t ((ht t).2 htm) h1 (hwork t ▸ h2) h3
  · intro c hcm' hop happ
    exact (hcm c.body).1 (v.constrs c ((hc c).2 hcm') hop happ)

/-- interpretations that agree on every variable agree on every formula: names matter only through
    the interpretation -/
theorem eval_congr (ρ ρ' : Env) (hi : ρ.i = ρ'.i) (hb : ρ.b = ρ'.b) (hf : ρ.f = ρ'.f) (ha : ρ.a = ρ'.a)
    (hp : ρ.p = ρ'.p) (a : Fml) : a.eval ρ ↔ a.eval ρ' := by
  have : ρ = ρ' := by
    cases ρ; cases ρ'; simp_all
  rw [this]

end PS
