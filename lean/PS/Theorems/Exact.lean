/-
  PS.Theorems.Exact — the converse of `C05_complete_core`: on the scheduling core, every interpretation the
  constraint system admits *is* a valid schedule, so that the encoder is **exact** there:

      (∃ ρ, Sat ρ (initFmls cfg st) ∧ schedule read off ρ = σ)  ↔  Valid st σ          (`C05_exact_core`)

  * `schedOf ρ` reads the user-level schedule off an interpretation (scheduled flags, task times, durations,
    selection flags, applied flags, busy intervals of dynamically assigned workers, horizon);
  * `envOf_schedOf_task` / `envOf_schedOf_busy`: the witness interpretation `envOf st (schedOf ρ)` of the
    completeness theorem gives the task variables and the busy-interval variables of the problem the values ρ
    gives them — an unscheduled task *is* parked at `-(task number)`, an unselected worker at its negative
    integer, because the assertions say so;
  * `C05_sound_core`: `Sat ρ (initFmls cfg st) → Valid st (schedOf ρ)` for problems of the fragment `InCoreS`
    (tasks of every kind, workers, selections, dynamic assignment, work amounts, the time and scheduling
    constraint classes, optional constraints, ForceApplyN, SameWorkers, unavailability of owned busy intervals, and —
    over formulas that mention the problem's own variables only (`State.plainF`, through the second congruence
    `PS.Proofs.Congr2`) — user expressions, conditional scheduling and the six connectives);
  * `C05_feasible_iff`, and with `C14_valid_order_free` the order-freeness of the verdict (`C14_core_verdict`).
-/
import PS.Theorems.C14
import PS.Theorems.C06
import PS.Theorems.C03
import PS.Proofs.Congr2
import PS.Proofs.StepWF
import PS.Spec.Fragment
namespace PS

/-- the user-level schedule an interpretation denotes -/
def schedOf (ρ : Env) : Sched :=
  { sched := fun n => ρ.b (.sched n)
    start := fun n => ρ.i (.tStart n)
    end_ := fun n => ρ.i (.tEnd n)
    dur := fun n => ρ.i (.tDur n)
    sel := fun s w => ρ.b (.sel s w)
    applied := fun c => ρ.b (.applied c)
    dynS := fun w t => ρ.i (.busyS w t false)
    dynE := fun w t => ρ.i (.busyE w t false)
    horizon := ρ.i .horizon }

theorem isSched_schedOf (ρ : Env) (t : Task) : (schedOf ρ).isSched t = true ↔ Scheduled ρ t := by
  unfold Sched.isSched Scheduled schedOf
  cases t.optional <;> simp

theorem not_isSched_schedOf (ρ : Env) (t : Task) (h : ¬ (schedOf ρ).isSched t = true) :
    t.optional = true ∧ ρ.b (.sched t.name) = false := by
  unfold Sched.isSched schedOf at h
  cases ho : t.optional <;> cases hb : ρ.b (.sched t.name) <;> simp_all

/-! ### the witness interpretation of `schedOf ρ` agrees with ρ on the problem's own variables -/

theorem tStartOf_schedOf (cfg : Config) (st : State) (ρ : Env) (hρ : Sat ρ (initFmls cfg st))
    (t : Task) (ht : t ∈ st.tasks) :
    tStartOf (schedOf ρ) t = ρ.i (.tStart t.name) ∧ tEndOf (schedOf ρ) t = ρ.i (.tEnd t.name) := by
  unfold tStartOf tEndOf
  by_cases hs : (schedOf ρ).isSched t = true
  · simp only [hs, if_true]
    exact ⟨rfl, rfl⟩
  · obtain ⟨ho, hb⟩ := not_isSched_schedOf ρ t hs
    obtain ⟨h1, h2, _⟩ := C06_parked cfg st ρ hρ t ht ho hb
    simp only [hs, Bool.false_eq_true, if_false, Task.pastPoint]
    unfold Task.startV at h1; unfold Task.endV at h2
    omega

theorem envOf_schedOf_task (cfg : Config) (st : State) (ρ : Env) (hρ : Sat ρ (initFmls cfg st))
    (t : Task) (ht : t ∈ st.tasks) (hf : st.findTask t.name = some t) :
    (envOf st (schedOf ρ)).i (.tStart t.name) = ρ.i (.tStart t.name) ∧
    (envOf st (schedOf ρ)).i (.tEnd t.name) = ρ.i (.tEnd t.name) := by
  rw [envOf_tStart st _ t hf, envOf_tEnd st _ t hf]
  exact tStartOf_schedOf cfg st ρ hρ t ht

/-- the formulas of one requirement are among the assertions -/
theorem Sat_req_fmls (cfg : Config) (st : State) (ρ : Env) (hρ : Sat ρ (initFmls cfg st))
    (t : Task) (ht : t ∈ st.tasks) (ev : ReqEvent) (hev : ev ∈ st.eventsOf t.name) (r : Req) (hr : r ∈ ev.reqs) :
    Sat ρ (r.fmls t) := by
  intro a ha
  apply hρ a
  apply mem_init_task ht
  unfold State.taskAsserts
  apply List.mem_append_right
  exact List.mem_flatMap.2 ⟨ev, hev, event_fmls_sub t ev r hr a ha⟩

/-- the busy interval ρ gives a requirement is the one the schedule read off ρ induces -/
theorem busyOfReq_schedOf (cfg : Config) (st : State) (ρ : Env) (hρ : Sat ρ (initFmls cfg st))
    (hwf : ∀ ev ∈ st.reqLog, ev.WF)
    (t : Task) (ht : t ∈ st.tasks) (ev : ReqEvent) (hev : ev ∈ st.eventsOf t.name) (r : Req) (hr : r ∈ ev.reqs) :
    (busyOfReq (schedOf ρ) t r).1 = ρ.i (.busyS r.worker t.name r.maybe) ∧
    (busyOfReq (schedOf ρ) t r).2 = ρ.i (.busyE r.worker t.name r.maybe) := by
  have hev' : ev ∈ st.reqLog := (List.mem_filter.1 hev).1
  have hm := (hwf ev hev').maybe r hr
  have hfm := Sat_req_fmls cfg st ρ hρ t ht ev hev r hr
  obtain ⟨hS, hE⟩ := tStartOf_schedOf cfg st ρ hρ t ht
  unfold busyOfReq
  cases hsel : r.sel with
  | some s =>
      have hm' : r.maybe = true := by simp [hm, hsel]
      unfold Req.fmls at hfm
      simp only [hsel] at hfm
      have h1 := hfm _ (List.mem_cons_self ..)
      simp only [Fml.eval, Fml.evalAll, Term.eval, bS, bE, Task.sVar, Task.eVar, numT, and_true] at h1
      simp only [hm']
      by_cases hb : ρ.b (.sel s r.worker) = true
      · have := h1.1 hb
        have hb' : (schedOf ρ).sel s r.worker = true := hb
        simp only [hb', if_true, hS, hE]
        omega
      · have hbf : ρ.b (.sel s r.worker) = false := by cases hh : ρ.b (.sel s r.worker) <;> simp_all
        have := h1.2 (by simp [hbf])
        have hb' : (schedOf ρ).sel s r.worker = false := hbf
        simp only [hb', Bool.false_eq_true, if_false]
        omega
  | none =>
      have hm' : r.maybe = false := by simp [hm, hsel]
      have hspan := req_fmls_span t r ρ hm hfm
      unfold ReqSpanOK at hspan
      simp only [hsel, hm'] at hspan ⊢
      by_cases hd : r.dynamic = true
      · simp only [hd, if_true] at hspan ⊢
        by_cases hs : (schedOf ρ).isSched t = true
        · simp only [hs, if_true]
          exact ⟨rfl, rfl⟩
        · obtain ⟨ho, hb⟩ := not_isSched_schedOf ρ t hs
          obtain ⟨h1, h2, _⟩ := C06_parked cfg st ρ hρ t ht ho hb
          simp only [hs, Bool.false_eq_true, if_false, Task.pastPoint]
          omega
      · simp only [hd, Bool.false_eq_true, if_false] at hspan ⊢
        rw [hS, hE]
        unfold Task.startV Task.endV at hspan
        omega

theorem envOf_schedOf_busy (cfg : Config) (st : State) (ρ : Env) (hρ : Sat ρ (initFmls cfg st))
    (hwf : ∀ ev ∈ st.reqLog, ev.WF) (hreqs : ReqsOK st)
    (t : Task) (ht : t ∈ st.tasks) (hf : st.findTask t.name = some t)
    (ev : ReqEvent) (hev : ev ∈ st.eventsOf t.name) (r : Req) (hr : r ∈ ev.reqs) :
    (envOf st (schedOf ρ)).i (.busyS r.worker t.name r.maybe) = ρ.i (.busyS r.worker t.name r.maybe) ∧
    (envOf st (schedOf ρ)).i (.busyE r.worker t.name r.maybe) = ρ.i (.busyE r.worker t.name r.maybe) := by
  have hrr : r ∈ st.reqsOf t.name := by
    unfold State.reqsOf
    exact List.mem_flatMap.2 ⟨ev, hev, hr⟩
  have hfor := hreqs t ht r hrr
  obtain ⟨e1, e2⟩ := envOf_busy st (schedOf ρ) t r r.maybe hf hfor
  obtain ⟨b1, b2⟩ := busyOfReq_schedOf cfg st ρ hρ hwf t ht ev hev r hr
  rw [e1, e2, b1, b2]
  exact ⟨rfl, rfl⟩

/-! ### the constraint classes of the fragment -/

theorem CBody.inCoreS_inCore (st : State) (id : Nat) (b : CBody) (h : b.inCoreS st id = true) : b.inCore = true := by
  cases b <;> simp_all [CBody.inCoreS, CBody.inCore, CBody.isConn]

/-! ### the fragment and the theorem -/

/-- the problem uses only elements of the fragment: tasks of every kind, workers (no cumulative capacity needed:
    cumulative workers are workers), selections, dynamic assignment, work amounts, the constraint classes of
    `CBody.inCoreS` (optional or not), no indicator, buffer or objective -/
structure InCoreS (st : State) : Prop where
  names : NamesOK st
  reqs : ReqsOK st
  events : ∀ ev ∈ st.reqLog, ev.WF
  /-- every logged requirement belongs to a declared task (an invariant of `step`) -/
  req_tasks : ∀ ev ∈ st.reqLog, ∃ t ∈ st.tasks, t.name = ev.task
  constrs : ∀ c ∈ st.constrs, c.operand = false →
    c.body.inCoreS st c.id = true ∧ (c.optional = true → c.body.direct = false) ∧
    ∀ t ∈ c.body.coreTasks, st.findTask t.name = some t
  /-- every indicator is defined by one equation `indicator = T` … -/
  indicators : IndsOK st
  /-- … whose term mentions the problem's own primary variables only -/
  ind_plain : ∀ ind ∈ st.indicators, ∀ T, ind.body.defTerm = some T → T.plainIn st.ownI ownB = true
  no_buffers : st.buffers = []
  single_objective : st.objectives.length ≤ 1

/-- every entry of a worker's busy-interval dictionary was written by a logged requirement -/
theorem busyOf_mem (st : State) (w : String) (e : String × Bool) (he : e ∈ st.busyOf w) :
    ∃ ev ∈ st.reqLog, ∃ r ∈ ev.reqs, r.worker = w ∧ ev.task = e.1 ∧ r.maybe = e.2 := by
  unfold State.busyOf at he
  let Q : String × Bool → Prop := fun e => ∃ ev ∈ st.reqLog, ∃ r ∈ ev.reqs, r.worker = w ∧ ev.task = e.1 ∧ r.maybe = e.2
  have inner : ∀ (ev : ReqEvent), ev ∈ st.reqLog → ∀ (rs : List Req), (∀ r ∈ rs, r ∈ ev.reqs) →
      ∀ (acc : List (String × Bool)), (∀ x ∈ acc, Q x) →
      ∀ x ∈ rs.foldl (fun acc r => if r.worker == w then dictSet acc ev.task r.maybe else acc) acc, Q x := by
    intro ev hev rs
    induction rs with
    | nil => intro _ acc hacc x hx; exact hacc x hx
    | cons r rest ih =>
        intro hsub acc hacc x hx
        simp only [List.foldl_cons] at hx
        refine ih (fun r' hr' => hsub r' (List.mem_cons_of_mem _ hr')) _ ?_ x hx
        intro y hy
        by_cases hw : (r.worker == w) = true
        · simp only [hw, if_true] at hy
          rcases mem_dictSet _ _ _ _ hy with h | h
          · exact hacc y h
          · subst h
            exact ⟨ev, hev, r, hsub r (List.mem_cons_self ..), eq_of_beq hw, rfl, rfl⟩
        · simp only [hw, Bool.false_eq_true, if_false] at hy
          exact hacc y hy
  have outer : ∀ (L : List ReqEvent), (∀ ev ∈ L, ev ∈ st.reqLog) → ∀ (acc : List (String × Bool)), (∀ x ∈ acc, Q x) →
      ∀ x ∈ L.foldl (fun acc ev =>
        ev.reqs.foldl (fun acc r => if r.worker == w then dictSet acc ev.task r.maybe else acc) acc) acc, Q x := by
    intro L
    induction L with
    | nil => intro _ acc hacc x hx; exact hacc x hx
    | cons ev rest ih =>
        intro hsub acc hacc x hx
        simp only [List.foldl_cons] at hx
        exact ih (fun e' he' => hsub e' (List.mem_cons_of_mem _ he')) _
          (inner ev (hsub ev (List.mem_cons_self ..)) ev.reqs (fun r hr => hr) acc hacc) x hx
  exact outer st.reqLog (fun _ h => h) [] (by simp) e he

theorem evalSum_congr_pointwise (ρ ρ' : Env) (l : List Term) (h : ∀ x ∈ l, x.eval ρ' = x.eval ρ) :
    Term.evalSum ρ' l = Term.evalSum ρ l := by
  induction l with
  | nil => simp [Term.evalSum]
  | cons x xs ih =>
      simp only [Term.evalSum]
      rw [h x (List.mem_cons_self ..), ih (fun y hy => h y (List.mem_cons_of_mem _ hy))]

theorem Disjoint2_congr (ρ ρ' : Env) (w : String) (l : List (String × Bool))
    (h : ∀ e ∈ l, ρ'.i (.busyS w e.1 e.2) = ρ.i (.busyS w e.1 e.2) ∧ ρ'.i (.busyE w e.1 e.2) = ρ.i (.busyE w e.1 e.2))
    (hp : l.Pairwise (Disjoint2 ρ w)) : l.Pairwise (Disjoint2 ρ' w) := by
  induction l with
  | nil => exact List.Pairwise.nil
  | cons x xs ih =>
      rw [List.pairwise_cons] at hp ⊢
      refine ⟨?_, ih (fun e he => h e (List.mem_cons_of_mem _ he)) hp.2⟩
      intro y hy
      have := hp.1 y hy
      unfold Disjoint2 at this ⊢
      obtain ⟨a1, a2⟩ := h x (List.mem_cons_self ..)
      obtain ⟨b1, b2⟩ := h y (List.mem_cons_of_mem _ hy)
      rw [a1, a2, b1, b2]
      exact this


theorem InCoreS.inCore {st : State} (h : InCoreS st) : InCore st where
  names := h.names
  reqs := h.reqs
  constrs := fun c hc hop =>
    ⟨CBody.inCoreS_inCore _ _ _ (h.constrs c hc hop).1, (h.constrs c hc hop).2.1, (h.constrs c hc hop).2.2⟩
  indicators := h.indicators
  no_buffers := h.no_buffers
  single_objective := h.single_objective

/-- for a state produced by a construction script the well-formedness part of `InCoreS` (task names identify tasks,
    requirement events are well formed and belong to declared tasks) holds by the invariants of `step`
    (`reachable_wf`); what remains are conditions on which elements the script declared -/
theorem InCoreS.of_wf {st : State} (w : WFInv st) (hreqs : ReqsOK st)
    (hconstrs : ∀ c ∈ st.constrs, c.operand = false →
      c.body.inCoreS st c.id = true ∧ (c.optional = true → c.body.direct = false) ∧
      ∀ t ∈ c.body.coreTasks, st.findTask t.name = some t)
    (hinds : IndsOK st)
    (hplain : ∀ ind ∈ st.indicators, ∀ T, ind.body.defTerm = some T → T.plainIn st.ownI ownB = true)
    (hbuf : st.buffers = []) (hobj : st.objectives.length ≤ 1) : InCoreS st :=
  { names := findTask_of_nodup st w.nodup
    reqs := hreqs
    events := w.events
    req_tasks := w.req_tasks
    constrs := hconstrs
    indicators := hinds
    ind_plain := hplain
    no_buffers := hbuf
    single_objective := hobj }

theorem InCoreS.of_reachable {st : State} (hr : Reachable st) (hreqs : ReqsOK st)
    (hconstrs : ∀ c ∈ st.constrs, c.operand = false →
      c.body.inCoreS st c.id = true ∧ (c.optional = true → c.body.direct = false) ∧
      ∀ t ∈ c.body.coreTasks, st.findTask t.name = some t)
    (hinds : IndsOK st)
    (hplain : ∀ ind ∈ st.indicators, ∀ T, ind.body.defTerm = some T → T.plainIn st.ownI ownB = true)
    (hbuf : st.buffers = []) (hobj : st.objectives.length ≤ 1) : InCoreS st :=
  InCoreS.of_wf (reachable_wf st hr) hreqs hconstrs hinds hplain hbuf hobj

/-- the executable fragment test (`PS/Spec/Fragment.lean`, evaluated by the driver on every generated script) is
    sound: a reachable state that passes it is in the fragment of the theorems below -/
theorem fragmentB_sound_wf {st : State} (hr : WFInv st) (h : st.fragmentB = true) : InCoreS st := by
  unfold State.fragmentB at h
  simp only [Bool.and_eq_true, decide_eq_true_eq] at h
  obtain ⟨⟨⟨⟨⟨h1, h2⟩, h3⟩, h4⟩, h5⟩, h6⟩ := h
  refine InCoreS.of_wf hr ?_ ?_ ⟨?_, h4, ?_⟩ ?_ ?_ h6
  · intro t ht r hr'
    have := (List.all_eq_true.1 ((List.all_eq_true.1 h1) t ht)) r hr'
    exact eq_of_beq this
  · intro c hc hop
    have := (List.all_eq_true.1 h2) c hc
    simp only [hop, Bool.false_or, Bool.and_eq_true] at this
    obtain ⟨⟨ha, hb⟩, hcT⟩ := this
    refine ⟨ha, ?_, ?_⟩
    · intro ho
      simp only [ho, Bool.not_true, Bool.false_or] at hb
      simpa using hb
    · intro t ht
      exact eq_of_beq ((List.all_eq_true.1 hcT) t ht)
  · intro ind hi
    have := (List.all_eq_true.1 h3) ind hi
    simp only [Bool.and_eq_true] at this
    exact this.1
  · intro ind hi
    have := (List.all_eq_true.1 h3) ind hi
    simp only [Bool.and_eq_true] at this
    cases hT : ind.body.defTerm with
    | none => simp [hT] at this
    | some T =>
        simp only [hT, Bool.and_eq_true] at this
        exact ⟨T, rfl, this.2.1.1, this.2.1.2⟩
  · intro ind hi T hT
    have := (List.all_eq_true.1 h3) ind hi
    simp only [Bool.and_eq_true, hT] at this
    exact this.2.2
  · simpa using h5

theorem fragmentB_sound {st : State} (hr : Reachable st) (h : st.fragmentB = true) : InCoreS st :=
  fragmentB_sound_wf (reachable_wf st hr) h

/-- agreement of ρ and the witness interpretation on the busy interval `(w, t, m)` some logged requirement of the declared
    task `t` created -/
theorem busy_agree (cfg : Config) (st : State) (ρ : Env) (hρ : Sat ρ (initFmls cfg st)) (hc : InCoreS st)
    (ev : ReqEvent) (hev : ev ∈ st.reqLog) (r : Req) (hr : r ∈ ev.reqs) :
    (envOf st (schedOf ρ)).i (.busyS r.worker ev.task r.maybe) = ρ.i (.busyS r.worker ev.task r.maybe) ∧
    (envOf st (schedOf ρ)).i (.busyE r.worker ev.task r.maybe) = ρ.i (.busyE r.worker ev.task r.maybe) := by
  obtain ⟨t, ht, hn⟩ := hc.req_tasks ev hev
  have hev' : ev ∈ st.eventsOf t.name := by
    unfold State.eventsOf
    exact List.mem_filter.2 ⟨hev, by simp [hn]⟩
  rw [← hn]
  exact envOf_schedOf_busy cfg st ρ hρ hc.events hc.reqs t ht (hc.names t ht) ev hev' r hr

/-- ρ and the witness interpretation of the schedule read off it agree on the problem's own variables -/
theorem agree_own (cfg : Config) (st : State) (ρ : Env) (hρ : Sat ρ (initFmls cfg st)) (hc : InCoreS st) :
    Env.AgreeOn2 st.ownI ownB ρ (envOf st (schedOf ρ)) where
  i := by
    intro v hv
    cases v <;> simp only [State.ownI, Bool.false_eq_true] at hv
    case tStart n =>
      cases hf : st.findTask n with
      | none => simp [hf] at hv
      | some t =>
          have hm := List.mem_of_find?_eq_some hf
          have hn : t.name = n := by
            have := List.find?_some hf
            exact eq_of_beq this
          have := (envOf_schedOf_task cfg st ρ hρ t hm (hc.names t hm)).1
          rw [hn] at this; exact this.symm
    case tEnd n =>
      cases hf : st.findTask n with
      | none => simp [hf] at hv
      | some t =>
          have hm := List.mem_of_find?_eq_some hf
          have hn : t.name = n := by
            have := List.find?_some hf
            exact eq_of_beq this
          have := (envOf_schedOf_task cfg st ρ hρ t hm (hc.names t hm)).2
          rw [hn] at this; exact this.symm
    case tDur n =>
      cases hf : st.findTask n with
      | none => simp [hf] at hv
      | some t =>
          simp only [hf] at hv
          have hm := List.mem_of_find?_eq_some hf
          have hn : t.name = n := by
            have := List.find?_some hf
            exact eq_of_beq this
          have e := envOf_tDur st (schedOf ρ) t (hc.names t hm)
          rw [hn] at e
          rw [e]
          unfold tDurOf
          by_cases hs : (schedOf ρ).isSched t = true
          · simp only [hs, if_true]; rw [← hn]; rfl
          · obtain ⟨ho, hb⟩ := not_isSched_schedOf ρ t hs
            obtain ⟨_, _, h3⟩ := C06_parked cfg st ρ hρ t hm ho hb
            simp only [hs, Bool.false_eq_true, if_false]
            rw [← hn]; exact h3 hv
    case busyS w n m =>
      obtain ⟨ev, hev, h1⟩ := List.any_eq_true.1 hv
      simp only [Bool.and_eq_true] at h1
      obtain ⟨r, hr, h2⟩ := List.any_eq_true.1 h1.2
      simp only [Bool.and_eq_true] at h2
      have := (busy_agree cfg st ρ hρ hc ev hev r hr).1
      rw [eq_of_beq h1.1, eq_of_beq h2.1, eq_of_beq h2.2] at this
      exact this.symm
    case busyE w n m =>
      obtain ⟨ev, hev, h1⟩ := List.any_eq_true.1 hv
      simp only [Bool.and_eq_true] at h1
      obtain ⟨r, hr, h2⟩ := List.any_eq_true.1 h1.2
      simp only [Bool.and_eq_true] at h2
      have := (busy_agree cfg st ρ hρ hc ev hev r hr).2
      rw [eq_of_beq h1.1, eq_of_beq h2.1, eq_of_beq h2.2] at this
      exact this.symm
    case horizon => rfl
  b := by
    intro v hv
    cases v <;> simp only [ownB, Bool.false_eq_true] at hv <;> rfl

/-- the value the witness interpretation gives a single-equation indicator is the value of its defining term -/
theorem envOf_indicator (st : State) (σ : Sched) (hok : IndsOK st) (ind : Indicator) (hi : ind ∈ st.indicators)
    (T : Term) (hT : ind.body.defTerm = some T) : (envOf st σ).i ind.var = T.eval (envOf st σ) := by
  obtain ⟨T', hT', hqf, hvars⟩ := hok.simple ind hi
  have : T' = T := by rw [hT] at hT'; exact (Option.some.inj hT').symm
  subst this
  have hval : (envOf st σ).i ind.var = T'.evalB (envPrim st σ) := by
    simp only [envOf, hok.isInd ind hi, if_true, find?_of_pairwise_var _ hok.distinct ind hi, hT]
  rw [hval, Term.evalB_eq _ T' hqf]
  exact Term.eval_congr _ _ _ (envOf_agree st σ) T' hvars

/-- … and on the indicator variables: ρ is forced to the value of the defining term, which reads own variables -/
theorem agree_own2 (cfg : Config) (st : State) (ρ : Env) (hρ : Sat ρ (initFmls cfg st)) (hc : InCoreS st) :
    Env.AgreeOn2 st.ownI2 ownB ρ (envOf st (schedOf ρ)) where
  i := by
    intro v hv
    have h1 := agree_own cfg st ρ hρ hc
    by_cases ho : st.ownI v = true
    · exact h1.i v ho
    · simp only [State.ownI2, ho, Bool.false_or] at hv
      obtain ⟨ind, hi, hv'⟩ := List.any_eq_true.1 hv
      have hvar : ind.var = v := eq_of_beq hv'
      obtain ⟨T, hT, _, _⟩ := hc.indicators.simple ind hi
      have hpl := hc.ind_plain ind hi T hT
      have hρi : ρ.i ind.var = T.eval ρ := by
        have hmem : Fml.eq (.var ind.var) T ∈ ind.asserts := by
          unfold Indicator.asserts
          rw [IBody.defTerm_fmls ind.body ind.id (.var ind.var) T hT]
          simp
        have := hρ _ (mem_init_indicator hi hmem)
        simpa [Fml.eval, Term.eval] using this
      rw [← hvar, hρi, envOf_indicator st _ hc.indicators ind hi T hT]
      exact eval_congr2_term _ _ _ _ h1 T hpl
  b := (agree_own cfg st ρ hρ hc).b

/-- **busy intervals are intervals.** When the declared delays fit the tasks (`State.fitsB`), every busy interval
    the problem owns starts no later than it ends, in every admitted interpretation -/
theorem busy_le (cfg : Config) (st : State) (ρ : Env) (hρ : Sat ρ (initFmls cfg st)) (hc : InCoreS st)
    (hfit : st.fitsB = true) (b : BusyRef) (hb : st.ownsBusy b = true) : b.sV ρ ≤ b.eV ρ := by
  unfold State.ownsBusy at hb
  simp only [Bool.and_eq_true] at hb
  have hown := hb.1
  simp only [State.ownI] at hown
  obtain ⟨ev, hev, h1⟩ := List.any_eq_true.1 hown
  simp only [Bool.and_eq_true] at h1
  obtain ⟨r, hr, h2⟩ := List.any_eq_true.1 h1.2
  simp only [Bool.and_eq_true] at h2
  have e1 : ev.task = b.task := eq_of_beq h1.1
  have e2 : r.worker = b.worker := eq_of_beq h2.1
  have e3 : r.maybe = b.maybe := eq_of_beq h2.2
  obtain ⟨t, ht, hn⟩ := hc.req_tasks ev hev
  have hev' : ev ∈ st.eventsOf t.name := List.mem_filter.2 ⟨hev, by simp [hn]⟩
  have hrq : r ∈ st.reqsOf t.name := List.mem_flatMap.2 ⟨ev, hev', hr⟩
  have hft := (List.all_eq_true.1 hfit) t ht
  simp only [Bool.and_eq_true, decide_eq_true_eq] at hft
  have hfr := (List.all_eq_true.1 hft.2) r hrq
  simp only [Bool.and_eq_true, decide_eq_true_eq, Bool.or_eq_true, Bool.not_eq_true'] at hfr
  have hspan := C02_busy_span cfg st ρ hρ hc.events t ht ev hev' r hr
  unfold BusyRef.sV BusyRef.eV
  rw [← e1, ← e2, ← e3, ← hn]
  unfold ReqSpanOK at hspan
  by_cases hs : Scheduled ρ t
  · have tt := C01_task_timing cfg st ρ hρ t ht hs
    have hd : t.minDur ≤ t.durV ρ := by
      have := tt.durOK
      unfold Task.DurOK at this
      unfold Task.minDur Task.durV at *
      cases hk : t.kind with
      | fixed d => simp [hk] at this ⊢
      | zero => simp [hk] at this ⊢
      | var mn mx al => simp only [hk] at this ⊢; exact this.1
    have hdur := tt.duration
    cases hsel : r.sel with
    | some s =>
        simp only [hsel] at hspan
        by_cases hbs : ρ.b (.sel s r.worker) = true
        · have := hspan.1 hbs; omega
        · have hb' : ρ.b (.sel s r.worker) = false := by cases hh : ρ.b (.sel s r.worker) <;> simp_all
          have := hspan.2 hb'; omega
    | none =>
        simp only [hsel] at hspan
        by_cases hdy : r.dynamic = true
        · simp only [hdy, if_true] at hspan; omega
        · simp only [hdy, Bool.false_eq_true, if_false] at hspan; omega
  · have hopt : t.optional = true ∧ ρ.b (.sched t.name) = false := by
      unfold Scheduled at hs
      cases ho : t.optional <;> cases hbb : ρ.b (.sched t.name) <;> simp_all
    obtain ⟨p1, p2, _⟩ := C06_parked cfg st ρ hρ t ht hopt.1 hopt.2
    have hz : r.delayIn ≤ 0 ∧ r.earlyOut ≤ 0 := by
      rcases hfr.2 with h | h
      · rw [hopt.1] at h; exact absurd h (by simp)
      · exact h
    cases hsel : r.sel with
    | some s =>
        simp only [hsel] at hspan
        by_cases hbs : ρ.b (.sel s r.worker) = true
        · have := hspan.1 hbs; omega
        · have hb' : ρ.b (.sel s r.worker) = false := by cases hh : ρ.b (.sel s r.worker) <;> simp_all
          have := hspan.2 hb'; omega
    | none =>
        simp only [hsel] at hspan
        by_cases hdy : r.dynamic = true
        · simp only [hdy, if_true] at hspan; omega
        · simp only [hdy, Bool.false_eq_true, if_false] at hspan; omega

theorem InterruptedExact_congr (ρ ρ' : Env) (s e : Int) (t : Task) (ivs : List (Int × Int))
    (hd : t.isVar = true → ρ'.i (.tDur t.name) = ρ.i (.tDur t.name)) :
    InterruptedExact ρ s e t ivs ↔ InterruptedExact ρ' s e t ivs := by
  unfold InterruptedExact
  cases hk : t.kind with
  | var mn mx al =>
      have : ρ'.i (.tDur t.name) = ρ.i (.tDur t.name) := hd (by simp [Task.isVar, hk])
      simp only [this]
  | fixed d => exact Iff.rfl
  | zero => exact Iff.rfl

theorem PeriodicInterruptedExact_congr (ρ ρ' : Env) (s e : Int) (t : Task) (ivs : List (Int × Int)) (p off : Int)
    (hd : t.isVar = true → ρ'.i (.tDur t.name) = ρ.i (.tDur t.name)) :
    PeriodicInterruptedExact ρ s e t ivs p off ↔ PeriodicInterruptedExact ρ' s e t ivs p off := by
  unfold PeriodicInterruptedExact
  cases hk : t.kind with
  | var mn mx al =>
      have : ρ'.i (.tDur t.name) = ρ.i (.tDur t.name) := hd (by simp [Task.isVar, hk])
      simp only [this]
  | fixed d => exact Iff.rfl
  | zero => exact Iff.rfl

/-- the raw assertions of a constraint of the fragment imply its documented meaning on the schedule read off ρ -/
theorem core_raw_sound (st : State) (ρ : Env) (hag : Env.AgreeOn2 st.ownI2 ownB ρ (envOf st (schedOf ρ)))
    (hle : st.fitsB = true → ∀ b : BusyRef, st.ownsBusy b = true → b.sV ρ ≤ b.eV ρ)
    (c : Nat) (b : CBody) (hb : b.inCoreS st c = true)
    (h : Sat ρ (b.raw c)) : CoreMeaning st (schedOf ρ) b := by
  -- values of an owned busy interval, and of the duration variable of a declared task, under the witness
  have busyv : ∀ b' : BusyRef, st.ownsBusy b' = true →
      b'.sV (envOf st (schedOf ρ)) = b'.sV ρ ∧ b'.eV (envOf st (schedOf ρ)) = b'.eV ρ := by
    intro b' hb'
    unfold State.ownsBusy at hb'
    simp only [Bool.and_eq_true] at hb'
    exact ⟨(hag.i _ (by simp [State.ownI2, hb'.1])).symm, (hag.i _ (by simp [State.ownI2, hb'.2])).symm⟩
  have durv : ∀ t : Task, st.findTask t.name = some t → t.isVar = true →
      (envOf st (schedOf ρ)).i (.tDur t.name) = ρ.i (.tDur t.name) := by
    intro t hf hv
    exact (hag.i _ (by simp [State.ownI2, State.ownI, hf, hv])).symm
  have conn : ∀ b' : CBody, b'.isConn = true → (b'.raw c).all st.plainF = true → Sat ρ (b'.raw c) →
      ConnMeaning (envOf st (schedOf ρ)) b' := by
    intro b' hc' hp hs
    apply (C10_connective_raw c b' hc' _).1
    intro a ha
    have hpa : a.plainIn st.ownI2 ownB = true := (List.all_eq_true.1 hp) a ha
    exact (eval_congr2_fml _ _ _ _ hag a hpa).1 (hs a ha)
  have hT := C03_raw_sound c b ρ h
  have hR := C04_raw_sound c b ρ h
  cases b <;> simp only [CBody.inCoreS, CBody.isConn, Bool.false_eq_true, Bool.false_and, Bool.true_and] at hb
  case startAt t v =>
    simp only [TaskMeaning] at hT
    simp only [CoreMeaning, isSched_schedOf]
    exact hT
  case startAfter t v strict =>
    simp only [TaskMeaning] at hT
    simp only [CoreMeaning, isSched_schedOf]
    exact hT
  case endAt t v =>
    simp only [TaskMeaning] at hT
    simp only [CoreMeaning, isSched_schedOf]
    exact hT
  case endBefore t v strict =>
    simp only [TaskMeaning] at hT
    simp only [CoreMeaning, isSched_schedOf]
    exact hT
  case precedence b a off kind =>
    simp only [TaskMeaning] at hT
    simp only [CoreMeaning, isSched_schedOf]
    exact hT
  case startSynced t1 t2 =>
    simp only [TaskMeaning] at hT
    simp only [CoreMeaning, isSched_schedOf]
    exact hT
  case endSynced t1 t2 =>
    simp only [TaskMeaning] at hT
    simp only [CoreMeaning, isSched_schedOf]
    exact hT
  case dontOverlap t1 t2 =>
    simp only [CoreMeaning, isSched_schedOf]
    intro h1 h2
    have := (guard2_eval t1 t2 (.xor (.ge t2.sVar t1.eVar) (.ge t1.sVar t2.eVar)) ρ).1
      (h _ (by simp [CBody.raw])) h1 h2
    simp only [Fml.eval, Term.eval, Task.sVar, Task.eVar] at this
    have e1 : (schedOf ρ).end_ t1.name = ρ.i (.tEnd t1.name) := rfl
    have e2 : (schedOf ρ).end_ t2.name = ρ.i (.tEnd t2.name) := rfl
    have s1 : (schedOf ρ).start t1.name = ρ.i (.tStart t1.name) := rfl
    have s2 : (schedOf ρ).start t2.name = ρ.i (.tStart t2.name) := rfl
    rw [e1, e2, s1, s2]
    by_cases ha : ρ.i (.tEnd t1.name) ≤ ρ.i (.tStart t2.name) <;>
      by_cases hb' : ρ.i (.tEnd t2.name) ≤ ρ.i (.tStart t1.name) <;> simp_all
  case forceSchedule t bb =>
    simp only [TaskMeaning] at hT
    simp only [CoreMeaning]
    exact hT
  case dependency t1 t2 =>
    simp only [TaskMeaning] at hT
    simp only [CoreMeaning, isSched_schedOf]
    exact hT
  case forceScheduleN ts n kind =>
    simp only [TaskMeaning] at hT
    simp only [CoreMeaning]
    exact hT
  case forceApplyN cs n kind =>
    have := (C10_forceApplyN c cs n kind ρ).1 h
    simp only [CoreMeaning]
    exact this
  case sameWorkers s1 s2 =>
    simp only [ResMeaning] at hR
    simp only [CoreMeaning]
    exact hR
  case conditionSchedule t cond =>
    simp only [TaskMeaning] at hT
    simp only [CoreMeaning]
    rw [← eval_congr2_fml _ _ _ _ hag cond hb]
    exact hT
  case unavailable busy ivs =>
    simp only [ResMeaning] at hR
    simp only [CoreMeaning]
    intro b' hb' iv hiv
    have hown := (List.all_eq_true.1 hb) b' hb'
    simp only [Bool.and_eq_true] at hown
    have e1 : b'.sV (envOf st (schedOf ρ)) = b'.sV ρ := (hag.i _ (by simp [State.ownI2, hown.1])).symm
    have e2 : b'.eV (envOf st (schedOf ρ)) = b'.eV ρ := (hag.i _ (by simp [State.ownI2, hown.2])).symm
    rw [e1, e2]
    exact hR b' hb' iv hiv
  case interrupted ws ivs =>
    simp only [Bool.and_eq_true] at hb
    obtain ⟨⟨hwf, hfit⟩, hrefs⟩ := hb
    have hwf' : ∀ iv ∈ ivs, iv.1 < iv.2 := fun iv hiv => by simpa using (List.all_eq_true.1 hwf) iv hiv
    simp only [ResMeaning] at hR
    simp only [CoreMeaning]
    refine ⟨hwf', ?_⟩
    intro w hw bt hbt
    have hr := (List.all_eq_true.1 ((List.all_eq_true.1 hrefs) w hw)) bt hbt
    simp only [Bool.and_eq_true, beq_iff_eq] at hr
    obtain ⟨e1, e2⟩ := busyv bt.1 hr.1
    have hse := hle hfit bt.1 hr.1
    have hok := hR hwf' w hw bt hbt
    rw [e1, e2]
    refine ⟨hse, ?_⟩
    rw [← InterruptedExact_congr ρ _ _ _ bt.2 ivs (durv bt.2 hr.2)]
    unfold InterruptedOK at hok
    unfold InterruptedExact
    cases hk : bt.2.kind with
    | var mn mx al =>
        simp only [hk] at hok ⊢
        exact ⟨hok.1, hok.2.1, hok.2.2 hse⟩
    | fixed d => simp only [hk] at hok ⊢; exact hok
    | zero => simp only [hk] at hok ⊢; exact hok
  case periodicallyUnavailable busy ivs period start offset end_ =>
    simp only [Bool.and_eq_true] at hb
    obtain ⟨⟨hwf, hfit⟩, hrefs⟩ := hb
    have hwf' : ∀ iv ∈ ivs, iv.1 < iv.2 := fun iv hiv => by simpa using (List.all_eq_true.1 hwf) iv hiv
    simp only [CoreMeaning]
    refine ⟨hwf', ?_⟩
    intro b' hb'
    have hown := (List.all_eq_true.1 hrefs) b' hb'
    obtain ⟨e1, e2⟩ := busyv b' hown
    have hse := hle hfit b' hown
    have hm : PeriodicMasked (envOf st (schedOf ρ)) b' start end_ ↔ PeriodicMasked ρ b' start end_ := by
      unfold PeriodicMasked; rw [e1, e2]
    rw [e1, e2]
    refine ⟨hse, ?_⟩
    intro iv hiv
    by_cases hmask : PeriodicMasked ρ b' start end_
    · exact Or.inl (hm.2 hmask)
    · exact Or.inr (C04_periodic_own_period c busy ivs period start offset end_ ρ h b' hb' iv hiv hmask)
  case periodicallyInterrupted busy ivs period start offset end_ =>
    simp only [Bool.and_eq_true, decide_eq_true_eq] at hb
    obtain ⟨⟨⟨hp, hwf⟩, hfit⟩, hrefs⟩ := hb
    have hwf' : ∀ iv ∈ ivs, 0 ≤ iv.1 ∧ iv.1 < iv.2 ∧ iv.2 ≤ period := by
      intro iv hiv
      have := (List.all_eq_true.1 hwf) iv hiv
      simpa [and_assoc] using this
    simp only [ResMeaning] at hR
    simp only [CoreMeaning]
    refine ⟨hp, hwf', ?_⟩
    intro bt hbt
    have hr := (List.all_eq_true.1 hrefs) bt hbt
    simp only [Bool.and_eq_true, beq_iff_eq] at hr
    obtain ⟨e1, e2⟩ := busyv bt.1 hr.1
    have hse := hle hfit bt.1 hr.1
    have hm : PeriodicMasked (envOf st (schedOf ρ)) bt.1 start end_ ↔ PeriodicMasked ρ bt.1 start end_ := by
      unfold PeriodicMasked; rw [e1, e2]
    rw [e1, e2]
    refine ⟨hse, ?_⟩
    by_cases hmask : PeriodicMasked ρ bt.1 start end_
    · exact Or.inl (hm.2 hmask)
    · right
      have hok := hR hp hwf' bt hbt hmask
      rw [← PeriodicInterruptedExact_congr ρ _ _ _ bt.2 ivs period offset (durv bt.2 hr.2)]
      unfold PeriodicInterruptedOK at hok
      unfold PeriodicInterruptedExact
      cases hk : bt.2.kind with
      | var mn mx al =>
          simp only [hk] at hok ⊢
          exact ⟨hok.1, (hok.2 hse).1, (hok.2 hse).2⟩
      | fixed d => simp only [hk] at hok ⊢; exact hok
      | zero => simp only [hk] at hok ⊢; exact hok
  case indicatorTarget v value =>
    simp only [CoreMeaning]
    have hv : st.ownI2 v = true := by simp only [State.ownI2, hb, Bool.or_true]
    rw [← hag.i v hv]
    have := h (Fml.eq (.var v) (numT value)) (by simp [CBody.raw])
    simpa [Fml.eval, Term.eval, numT] using this
  case indicatorBounds v lo hi =>
    simp only [CoreMeaning]
    have hv : st.ownI2 v = true := by simp only [State.ownI2, hb, Bool.or_true]
    rw [← hag.i v hv]
    constructor
    · intro l hl
      have := h (Fml.ge (.var v) (numT l)) (by simp [CBody.raw, hl])
      simpa [Fml.eval, Term.eval, numT] using this
    · intro u hu
      have := h (Fml.le (.var v) (numT u)) (by simp [CBody.raw, hu])
      simpa [Fml.eval, Term.eval, numT] using this
  case fromExpr f =>
    simp only [CoreMeaning]
    exact conn (.fromExpr f) rfl hb h
  case not_ o =>
    simp only [CoreMeaning, CBody.isConn, if_true]
    exact conn (.not_ o) rfl hb h
  case or_ os =>
    simp only [CoreMeaning, CBody.isConn, if_true]
    exact conn (.or_ os) rfl hb h
  case and_ os =>
    simp only [CoreMeaning, CBody.isConn, if_true]
    exact conn (.and_ os) rfl hb h
  case xor_ o1 o2 =>
    simp only [CoreMeaning, CBody.isConn, if_true]
    exact conn (.xor_ o1 o2) rfl hb h
  case implies cond os =>
    simp only [CoreMeaning, CBody.isConn, if_true]
    exact conn (.implies cond os) rfl hb h
  case ifThenElse cond os1 os2 =>
    simp only [CoreMeaning, CBody.isConn, if_true]
    exact conn (.ifThenElse cond os1 os2) rfl hb h

/-- **C05 (soundness, scheduling core).** Every interpretation the constraint system admits denotes a schedule that
    satisfies the documented meaning of every element of the problem. -/
theorem C05_sound_core (cfg : Config) (st : State) (ρ : Env) (hc : InCoreS st)
    (hρ : Sat ρ (initFmls cfg st)) (hH : 0 ≤ ρ.i .horizon) : Valid st (schedOf ρ) where
  horizon_nonneg := hH
  horizon_le := by
    intro H hHz
    have := hρ (.le (.var .horizon) (numT H)) (mem_init_problem (by simp [State.problemAsserts, hHz]))
    have e : (schedOf ρ).horizon = ρ.i .horizon := rfl
    rw [e]
    simpa [Fml.eval, Term.eval, numT] using this
  tasks := by
    intro t ht hs
    have h := C01_task_timing cfg st ρ hρ t ht ((isSched_schedOf ρ t).1 hs)
    exact ⟨h.start_nonneg, h.end_le_horizon, h.duration, h.durOK, h.release, h.deadline⟩
  dyn := by
    intro t ht r hr hsel hdyn _
    unfold State.reqsOf at hr
    obtain ⟨ev, hev, hrev⟩ := List.mem_flatMap.1 hr
    have hspan := C02_busy_span cfg st ρ hρ hc.events t ht ev hev r hrev
    have hm : r.maybe = false := by
      have := (hc.events ev (List.mem_filter.1 hev).1).maybe r hrev
      simp [this, hsel]
    unfold ReqSpanOK at hspan
    simp only [hsel, hdyn, if_true, hm] at hspan
    exact hspan
  counts := by
    intro t ht s rs hmem
    exact C02_selection_count cfg st ρ hρ t ht s rs (List.mem_filter.1 hmem).1
  no_overlap := by
    intro w hw
    refine Disjoint2_congr ρ _ w.name _ ?_ (C02_no_overlap cfg st ρ hρ w hw)
    intro e he
    obtain ⟨ev, hev, r, hr, hw', ht', hm'⟩ := busyOf_mem st w.name e he
    have := busy_agree cfg st ρ hρ hc ev hev r hr
    rw [hw', ht', hm'] at this
    exact this
  work := by
    intro t ht hw hne hs
    have h := C02_work_amount cfg st ρ hρ t ht hw hne ((isSched_schedOf ρ t).1 hs)
    rw [evalSum_congr_pointwise ρ (envOf st (schedOf ρ)) (workTerms st t) ?_]
    · exact h
    intro x hx
    unfold workTerms at hx
    obtain ⟨r, hr, hx⟩ := List.mem_filterMap.1 hx
    cases hfw : st.findWorker r.worker with
    | none => simp [hfw] at hx
    | some w =>
        simp only [hfw, Option.some.injEq] at hx
        subst hx
        have hwn : w.name = r.worker := by
          have := List.find?_some hfw
          exact eq_of_beq this
        unfold State.reqsOf at hr
        obtain ⟨ev, hev, hrev⟩ := List.mem_flatMap.1 hr
        have hevl : ev ∈ st.reqLog := (List.mem_filter.1 hev).1
        have hevt : ev.task = t.name := by
          have := (List.mem_filter.1 hev).2
          exact eq_of_beq this
        -- the flag the work sum uses is the one a logged requirement wrote
        have key : ∃ ev' ∈ st.reqLog, ∃ r' ∈ ev'.reqs, r'.worker = w.name ∧ ev'.task = t.name ∧
            r'.maybe = st.busyFlag w.name t.name r.maybe := by
          unfold State.busyFlag
          cases hfind : (st.busyOf w.name).find? (fun x => x.1 == t.name) with
          | none => exact ⟨ev, hevl, r, hrev, hwn.symm, hevt, rfl⟩
          | some e =>
              have hm := List.mem_of_find?_eq_some hfind
              have hk : e.1 = t.name := by
                have := List.find?_some hfind
                exact eq_of_beq this
              obtain ⟨ev', hev', r', hr', h1, h2, h3⟩ := busyOf_mem st w.name e hm
              exact ⟨ev', hev', r', hr', h1, h2.trans hk, h3⟩
        obtain ⟨ev', hev', r', hr', h1, h2, h3⟩ := key
        have := busy_agree cfg st ρ hρ hc ev' hev' r' hr'
        rw [h1, h2, h3] at this
        simp only [Term.eval, numT, bE, bS, this.1, this.2]
  constrs := by
    intro c hcm hop happ
    obtain ⟨hin, hdir, _⟩ := hc.constrs c hcm hop
    have hS : Sat ρ c.asserts := fun a ha => hρ a (mem_init_constr hcm hop ha)
    apply core_raw_sound st ρ (agree_own2 cfg st ρ hρ hc) (fun hfit b hb => busy_le cfg st ρ hρ hc hfit b hb)
      c.id c.body hin
    by_cases hopt : c.optional = true
    · exact (C10_optional c hopt (hdir hopt) ρ).1 hS (happ hopt)
    · have hopt' : c.optional = false := by cases hh : c.optional <;> simp_all
      rw [C10_mandatory c hopt'] at hS
      exact hS

/-- **C05 (exactness, scheduling core).** The constraint system has a model iff the problem has a valid schedule,
    under every solver configuration: on this fragment the feasibility verdict of a correct SMT solver *is* the
    documented meaning. -/
theorem C05_feasible_iff (cfg : Config) (st : State) (hc : InCoreS st) :
    (∃ ρ, Sat ρ (initFmls cfg st) ∧ 0 ≤ ρ.i .horizon) ↔ ∃ σ, Valid st σ := by
  constructor
  · rintro ⟨ρ, hρ, hH⟩
    exact ⟨schedOf ρ, C05_sound_core cfg st ρ hc hρ hH⟩
  · rintro ⟨σ, hv⟩
    exact ⟨envOf st σ, C05_complete_core cfg st σ hc.inCore hv, hv.horizon_nonneg⟩

/-- **C07 (the values the encoding can reach are the values valid schedules have).** For every declared indicator —
    in particular the one an objective optimises — an integer is the indicator's value in some admitted
    interpretation iff it is its value on some valid schedule: the optimum over the constraint system is the optimum
    over the documented meaning. -/
theorem C07_core_attainable (cfg : Config) (st : State) (hc : InCoreS st) (ind : Indicator) (hi : ind ∈ st.indicators)
    (k : Int) :
    (∃ ρ, Sat ρ (initFmls cfg st) ∧ 0 ≤ ρ.i .horizon ∧ ρ.i ind.var = k) ↔
    (∃ σ, Valid st σ ∧ (envOf st σ).i ind.var = k) := by
  constructor
  · rintro ⟨ρ, hρ, hH, hk⟩
    refine ⟨schedOf ρ, C05_sound_core cfg st ρ hc hρ hH, ?_⟩
    have hv : st.ownI2 ind.var = true := by
      simp only [State.ownI2, Bool.or_eq_true]
      exact Or.inr (List.any_eq_true.2 ⟨ind, hi, beq_self_eq_true _⟩)
    rw [← (agree_own2 cfg st ρ hρ hc).i _ hv]
    exact hk
  · rintro ⟨σ, hv, hk⟩
    exact ⟨envOf st σ, C05_complete_core cfg st σ hc.inCore hv, hv.horizon_nonneg, hk⟩

/-- … hence a bound holds for every admitted interpretation iff it holds for every valid schedule -/
theorem C07_core_lower_bound (cfg : Config) (st : State) (hc : InCoreS st) (ind : Indicator) (hi : ind ∈ st.indicators)
    (k : Int) :
    (∀ ρ, Sat ρ (initFmls cfg st) → 0 ≤ ρ.i .horizon → k ≤ ρ.i ind.var) ↔
    (∀ σ, Valid st σ → k ≤ (envOf st σ).i ind.var) := by
  constructor
  · intro h σ hv
    exact h (envOf st σ) (C05_complete_core cfg st σ hc.inCore hv) hv.horizon_nonneg
  · intro h ρ hρ hH
    obtain ⟨σ, hv, hk⟩ := (C07_core_attainable cfg st hc ind hi (ρ.i ind.var)).1 ⟨ρ, hρ, hH, rfl⟩
    rw [← hk]
    exact h σ hv

/-- the verdict does not depend on the solver configuration -/
theorem C15_core_verdict_cfg_free (cfg cfg' : Config) (st : State) (hc : InCoreS st) :
    (∃ ρ, Sat ρ (initFmls cfg st) ∧ 0 ≤ ρ.i .horizon) ↔ (∃ ρ, Sat ρ (initFmls cfg' st) ∧ 0 ≤ ρ.i .horizon) := by
  rw [C05_feasible_iff cfg st hc, C05_feasible_iff cfg' st hc]

/-- **C14 (declaration order, verdict).** Two problems of the fragment whose valid schedules coincide — in particular
    two declaration orders of one problem, `C14_valid_order_free` — get the same feasibility verdict from the
    encoder, whatever the configurations. -/
theorem C14_core_verdict (cfg cfg' : Config) (st st' : State) (hc : InCoreS st) (hc' : InCoreS st')
    (hsame : ∀ σ, Valid st σ ↔ Valid st' σ) :
    (∃ ρ, Sat ρ (initFmls cfg st) ∧ 0 ≤ ρ.i .horizon) ↔ (∃ ρ, Sat ρ (initFmls cfg' st') ∧ 0 ≤ ρ.i .horizon) := by
  rw [C05_feasible_iff cfg st hc, C05_feasible_iff cfg' st' hc']
  exact ⟨fun ⟨σ, h⟩ => ⟨σ, (hsame σ).1 h⟩, fun ⟨σ, h⟩ => ⟨σ, (hsame σ).2 h⟩⟩

/-- … and every schedule the encoder admits for one order is admitted for the other (same task times, flags,
    selections, busy intervals): the sets of admitted schedules coincide -/
theorem C14_core_schedules (cfg cfg' : Config) (st st' : State) (hc : InCoreS st) (hc' : InCoreS st')
    (hsame : ∀ σ, Valid st σ ↔ Valid st' σ) (ρ : Env) (hρ : Sat ρ (initFmls cfg st)) (hH : 0 ≤ ρ.i .horizon) :
    Sat (envOf st' (schedOf ρ)) (initFmls cfg' st') :=
  C05_complete_core cfg' st' (schedOf ρ) hc'.inCore ((hsame _).1 (C05_sound_core cfg st ρ hc hρ hH))


/-! ### non-vacuity: a concrete problem of the fragment (kernel-checked), a model of its constraint system, and the
    valid schedule the theorem extracts from it -/

instance (ev : ReqEvent) : Decidable ev.WF := by
  cases ev <;> unfold ReqEvent.WF <;> infer_instance

def Exact_exState : State :=
  run [.problem "p" (some 12),
       .task "A" (.fixed 3) false 2 (some 1) (some 9) true 1,
       .task "B" (.var 1 (some 4) (some [2, 3])) true 0 none none true 1,
       .task "C" (.zero) true 0 none none true 1,
       .worker "W" 1 (.const 0), .worker "V" 2 (.const 0),
       .select none ["W", "V"] 1 .exact,
       .require "A" (.select 0) false 0 0,
       .require "B" (.worker "W") true 0 0,
       .constr none false (.precedence "A" "B" 1 .lax),
       .constr none true (.startAt "A" 2),
       .constr none false (.forceSchedule "C" false),
       .constr none false (.dontOverlap "A" "B"),
       -- a user expression, a connective over the optional constraint, a conditional scheduling, an unavailability
       .constr none false (.fromExpr (.le (.add (.var (.tEnd "A")) (numT 1)) (.var (.tStart "B")))),
       .constr none false (.not_ (.ref 1)),
       .constr none false (.implies (.gt (.var (.tStart "B")) (numT 8)) [.raw (.bvar (.sched "C"))]),
       .constr none false (.unavailable "W" [(0, 1)]),
       -- an optimisation problem: weighted tardiness (indicator 0) bounded by a constraint, flow time minimised
       .indicator (.tardiness (some ["A"])),
       .constr none false (.indicatorBounds 0 none (some 6)),
       .objective (.flowtime none)]

def Exact_exSched : Sched :=
  { sched := fun n => n == "B"
    start := fun n => if n == "A" then 1 else if n == "B" then 5 else 0
    end_ := fun n => if n == "A" then 4 else if n == "B" then 7 else 0
    dur := fun n => if n == "B" then 2 else 0
    sel := fun s w => s == 0 && w == "V"
    applied := fun c => c == 1        -- the operand of `Not` is applied, and violated: A starts at 1
    dynS := fun _ _ => 5
    dynE := fun _ _ => 6
    horizon := 10 }

theorem Exact_ex_inCoreS : InCoreS Exact_exState := fragmentB_sound ⟨_, rfl⟩ (by decide +kernel)

example : Exact_exState.constrs.length = 9 ∧ Exact_exState.indicators.length = 2 ∧ Exact_exState.objectives.length = 1 ∧ Exact_exState.reqLog.length = 2 ∧ Exact_exState.tasks.length = 3 := by
  decide +kernel

theorem Exact_ex_model : Sat (envOf Exact_exState Exact_exSched) (initFmls {} Exact_exState) :=
  satB_sound _ _ (by decide +kernel) (by decide +kernel)

/-- the schedule read off that model is valid — by the theorem, not by inspection -/
example : Valid Exact_exState (schedOf (envOf Exact_exState Exact_exSched)) :=
  C05_sound_core {} Exact_exState _ Exact_ex_inCoreS Exact_ex_model (by decide +kernel)


/-- the problem of `C05_exState2` — the three interruption classes on one worker — is inside the fragment, and the model
    of its constraint system given there denotes a valid schedule -/
theorem Exact_ex2_inCoreS : InCoreS C05_exState2 := fragmentB_sound ⟨_, rfl⟩ (by decide +kernel)

example : Valid C05_exState2 (schedOf (envOf C05_exState2 C05_exSched2)) :=
  C05_sound_core {} C05_exState2 _ Exact_ex2_inCoreS (satB_sound _ _ (by decide +kernel) (by decide +kernel))
    (by decide +kernel)

end PS
