/-
  PS.Theorems.Groups — task groups inside the exactness theorem.

  `UnorderedTaskGroup` / `OrderedTaskGroup` come with two helper variables each (`task_group_start_<uuid>`,
  `task_group_end_<uuid>`), which no schedule mentions.  For groups declared at top level (optional or not), over declared
  mandatory tasks (`State.groupsOK`) whose helpers nothing else mentions (`State.freshGroups`, decidable) they are a
  conservative extension of the problem without them:

  * `C05_sound_groups` — every interpretation admitted by `initialize`'s assertions denotes a schedule that is valid
    for the whole problem, groups included (`GroupMeaningS`: the members lie inside the window; without a window the
    span from the earliest start to the latest end is at most `len`; `ConsecS`: consecutive members of an ordered
    group are ordered as declared);
  * `C05_complete_groups` — a valid schedule extends to an admitted interpretation: the helpers take the window, or
    the earliest start and that start plus `len`;
  * `C05_feasible_iff_groups` — the verdict of a correct SMT solver on the real assertion list is the existence of a
    valid schedule.
-/
import PS.Theorems.Multi
import PS.Spec.FragmentG
namespace PS

/-! ### the least element of a list of integers -/

def minL : List Int → Int
  | [] => 0
  | [a] => a
  | a :: b :: r => min a (minL (b :: r))

theorem minL_le : ∀ (l : List Int), ∀ x ∈ l, minL l ≤ x
  | [], x, hx => by cases hx
  | [a], x, hx => by
      simp only [List.mem_singleton] at hx
      subst hx
      simp [minL]
  | a :: b :: r, x, hx => by
      have ih := minL_le (b :: r)
      simp only [minL]
      rcases List.mem_cons.1 hx with h | h
      · subst h; exact Int.min_le_left ..
      · exact Int.le_trans (Int.min_le_right ..) (ih x h)

theorem minL_mem : ∀ (l : List Int), l ≠ [] → minL l ∈ l
  | [], h => absurd rfl h
  | [a], _ => by simp [minL]
  | a :: b :: r, _ => by
      have ih := minL_mem (b :: r) (by simp)
      simp only [minL]
      by_cases hle : a ≤ minL (b :: r)
      · rw [Int.min_eq_left hle]; exact List.mem_cons_self ..
      · rw [Int.min_eq_right (by omega)]; exact List.mem_cons_of_mem _ ih

/-! ### the value of the two helpers on a schedule -/

def grpVal (σ : Sched) (ts : List Task) (window : Option (Int × Int)) (len : Int) : Int × Int :=
  match window with
  | some (lo, hi) => (lo, hi)
  | none => (minL (ts.map (fun t => σ.start t.name)), minL (ts.map (fun t => σ.start t.name)) + len)

def grpValOf (σ : Sched) : CBody → Int × Int
  | .unorderedGroup ts w len => grpVal σ ts w len
  | .orderedGroup ts w len _ => grpVal σ ts w len
  | _ => (0, 0)

/-- ρ with the helper variables of the problem's groups set for schedule σ -/
def withGroups (st : State) (σ : Sched) (ρ : Env) : Env :=
  { ρ with i := fun v => match v with
      | .grpS c => (match st.groups.find? (fun k => k.id == c) with
          | some k => (grpValOf σ k.body).1
          | none => ρ.i v)
      | .grpE c => (match st.groups.find? (fun k => k.id == c) with
          | some k => (grpValOf σ k.body).2
          | none => ρ.i v)
      | _ => ρ.i v }

theorem withGroups_agree (st : State) (σ : Sched) (ρ : Env) : Env.AgreeOn notGrp ρ (withGroups st σ ρ) where
  i := by
    intro v hv
    cases v <;> first | rfl | (simp [notGrp] at hv)
  b := rfl
  f := rfl
  a := rfl
  p := rfl

theorem find_of_nodup_ids : ∀ (l : List Constr), (l.map (·.id)).Nodup → ∀ c ∈ l, l.find? (fun k => k.id == c.id) = some c
  | [], _, c, hc => by cases hc
  | k :: rest, hnd, c, hc => by
      simp only [List.map_cons, List.nodup_cons] at hnd
      rcases List.mem_cons.1 hc with h | h
      · subst h; simp
      · have hne : (k.id == c.id) = false := by
          apply beq_false_of_ne
          intro he
          exact hnd.1 (he ▸ List.mem_map_of_mem h)
        rw [List.find?_cons, hne]
        exact find_of_nodup_ids rest hnd.2 c h

/-! ### the two directions for one group -/

theorem group_sound (σ : Sched) (ρ : Env) (ts : List Task) (window : Option (Int × Int)) (len : Int)
    (hS : ∀ t : Task, σ.start t.name = ρ.i (.tStart t.name)) (hE : ∀ t : Task, σ.end_ t.name = ρ.i (.tEnd t.name))
    (h : GroupWindowOK ρ ts window len) : GroupMeaningS σ ts window len := by
  unfold GroupWindowOK at h
  unfold GroupMeaningS
  cases window with
  | some w =>
      obtain ⟨lo, hi⟩ := w
      intro t ht _
      have := h t ht
      simp only [Task.startV, Task.endV] at this
      rw [hS, hE]; exact this
  | none =>
      intro t ht t' ht' _ _
      have := h t ht t' ht'
      simp only [Task.startV, Task.endV] at this
      rw [hS, hE]; exact this

theorem consec_sound (k : OrdKind) (σ : Sched) (ρ : Env)
    (hS : ∀ t : Task, σ.start t.name = ρ.i (.tStart t.name)) (hE : ∀ t : Task, σ.end_ t.name = ρ.i (.tEnd t.name)) :
    ∀ ts : List Task, ConsecutiveOK k ρ ts → ConsecS k σ ts
  | [], _ => trivial
  | [_], _ => trivial
  | a :: b :: rest, h => by
      simp only [ConsecutiveOK] at h
      refine ⟨fun _ _ => ?_, consec_sound k σ ρ hS hE (b :: rest) h.2⟩
      have := h.1
      simp only [Task.startV, Task.endV] at this
      rw [hS, hE]; exact this

theorem groupBase_complete (c : Nat) (σ : Sched) (ρ : Env) (ts : List Task) (window : Option (Int × Int)) (len : Int)
    (hgS : ρ.i (.grpS c) = (grpVal σ ts window len).1) (hgE : ρ.i (.grpE c) = (grpVal σ ts window len).2)
    (hts : ∀ t ∈ ts, ρ.i (.tStart t.name) = σ.start t.name ∧ ρ.i (.tEnd t.name) = σ.end_ t.name ∧ σ.isSched t = true)
    (hm : GroupMeaningS σ ts window len) : ∀ f ∈ groupBase c ts window len, f.eval ρ := by
  intro f hf
  unfold groupBase at hf
  simp only [List.mem_append, List.mem_flatMap] at hf
  unfold GroupMeaningS at hm
  cases window with
  | some w =>
      obtain ⟨lo, hi⟩ := w
      simp only [grpVal] at hgS hgE
      rcases hf with hf | ⟨t, ht, hf⟩
      · simp only [List.mem_cons, List.not_mem_nil, or_false] at hf
        rcases hf with rfl | rfl
        · simp [Fml.eval, Term.eval, numT, hgS]
        · simp [Fml.eval, Term.eval, numT, hgE]
      · obtain ⟨h1, h2, h3⟩ := hts t ht
        have := hm t ht h3
        simp only [List.mem_cons, List.not_mem_nil, or_false] at hf
        rcases hf with rfl | rfl
        · simp only [Fml.eval, Term.eval, Task.sVar, hgS, h1]; exact this.1
        · simp only [Fml.eval, Term.eval, Task.eVar, hgE, h2]; exact this.2
  | none =>
      simp only [grpVal] at hgS hgE
      rcases hf with hf | ⟨t, ht, hf⟩
      · simp only [List.mem_cons, List.not_mem_nil, or_false] at hf
        subst hf
        simp only [Fml.eval, Term.eval, numT, hgS, hgE]
        omega
      · obtain ⟨h1, h2, h3⟩ := hts t ht
        simp only [List.mem_cons, List.not_mem_nil, or_false] at hf
        rcases hf with rfl | rfl
        · simp only [Fml.eval, Term.eval, Task.sVar, hgS, h1]
          exact minL_le _ _ (List.mem_map.2 ⟨t, ht, rfl⟩)
        · simp only [Fml.eval, Term.eval, Task.eVar, hgE, h2]
          have hne : ts.map (fun t => σ.start t.name) ≠ [] := by
            intro he
            have := List.map_eq_nil_iff.1 he
            rw [this] at ht; cases ht
          obtain ⟨t', ht', he⟩ := List.mem_map.1 (minL_mem _ hne)
          have := hm t ht t' ht' h3 (hts t' ht').2.2
          rw [← he]
          omega

theorem consecutive_complete (k : OrdKind) (σ : Sched) (ρ : Env) :
    ∀ ts : List Task,
      (∀ t ∈ ts, ρ.i (.tStart t.name) = σ.start t.name ∧ ρ.i (.tEnd t.name) = σ.end_ t.name ∧ σ.isSched t = true) →
      ConsecS k σ ts → ∀ f ∈ consecutive k ts, f.eval ρ
  | [], _, _, f, hf => by simp [consecutive] at hf
  | [_], _, _, f, hf => by simp [consecutive] at hf
  | a :: b :: rest, hts, hm, f, hf => by
      simp only [ConsecS] at hm
      simp only [consecutive, List.mem_cons] at hf
      rcases hf with rfl | hf
      · rw [ordRel_eval]
        have ha := hts a (by simp)
        have hb := hts b (by simp)
        simp only [Term.eval, Task.eVar, Task.sVar, ha.2.1, hb.1]
        exact hm.1 ha.2.2 hb.2.2
      · exact consecutive_complete k σ ρ (b :: rest) (fun t ht => hts t (List.mem_cons_of_mem _ ht)) hm.2 f
          (by simpa [consecutive] using hf)

/-! ### the assertion list splits into the problem without its groups and the groups -/

theorem isGroup_operand {c : Constr} (hg : c.isGroup = true) : c.operand = false := by
  unfold Constr.isGroup at hg
  simp only [Bool.and_eq_true, Bool.not_eq_true'] at hg
  exact hg.1

theorem isGroup_direct {c : Constr} (hg : c.isGroup = true) : c.body.direct = false := by
  unfold Constr.isGroup at hg
  cases hb : c.body <;> simp [hb, CBody.direct] at hg ⊢

theorem mem_initFmls_groups (cfg : Config) (st : State) (hb : st.buffers = []) (a : Fml) :
    a ∈ initFmls cfg st ↔ (a ∈ initFmls cfg st.noGroups ∨ ∃ c ∈ st.constrs, c.isGroup = true ∧ a ∈ c.asserts) := by
  rw [mem_initFmls_iff, mem_initFmls_iff]
  constructor
  · rintro (h | h | h | h | h | h | h | h)
    · exact Or.inl (Or.inl h)
    · exact Or.inl (Or.inr (Or.inl h))
    · obtain ⟨c, hc, hop, ha⟩ := h
      by_cases hg : c.isGroup = true
      · exact Or.inr ⟨c, hc, hg, ha⟩
      · exact Or.inl (Or.inr (Or.inr (Or.inl ⟨c, List.mem_filter.2 ⟨hc, by simpa using hg⟩, hop, ha⟩)))
    · exact Or.inl (Or.inr (Or.inr (Or.inr (Or.inl h))))
    · exact Or.inl (Or.inr (Or.inr (Or.inr (Or.inr (Or.inl h)))))
    · obtain ⟨b, hb', _⟩ := h
      rw [hb] at hb'; cases hb'
    · exact Or.inl (Or.inr (Or.inr (Or.inr (Or.inr (Or.inr (Or.inr (Or.inl h)))))))
    · exact Or.inl (Or.inr (Or.inr (Or.inr (Or.inr (Or.inr (Or.inr (Or.inr h)))))))
  · rintro ((h | h | h | h | h | h | h | h) | h)
    · exact Or.inl h
    · exact Or.inr (Or.inl h)
    · obtain ⟨c, hc, hop, ha⟩ := h
      exact Or.inr (Or.inr (Or.inl ⟨c, (List.mem_filter.1 hc).1, hop, ha⟩))
    · exact Or.inr (Or.inr (Or.inr (Or.inl h)))
    · exact Or.inr (Or.inr (Or.inr (Or.inr (Or.inl h))))
    · obtain ⟨b, hb', _⟩ := h
      have : st.noGroups.buffers = [] := hb
      rw [this] at hb'; cases hb'
    · exact Or.inr (Or.inr (Or.inr (Or.inr (Or.inr (Or.inr (Or.inl h))))))
    · exact Or.inr (Or.inr (Or.inr (Or.inr (Or.inr (Or.inr (Or.inr h))))))
    · obtain ⟨c, hc, hg, ha⟩ := h
      exact Or.inr (Or.inr (Or.inl ⟨c, hc, isGroup_operand hg, ha⟩))

theorem envOf_noGroups (st : State) (σ : Sched) : envOf st.noGroups σ = envOf st σ := rfl

theorem CoreMeaning_noGroups (st : State) (σ : Sched) (b : CBody) : CoreMeaning st.noGroups σ b ↔ CoreMeaning st σ b := by
  cases b <;> exact Iff.rfl

/-- the assertions of a (possibly optional) group, read under an interpretation -/
theorem isGroup_asserts {c : Constr} (hg : c.isGroup = true) (ρ : Env) :
    Sat ρ c.asserts ↔ ((c.optional = true → ρ.b (.applied c.id) = true) → Sat ρ (c.body.raw c.id)) := by
  by_cases ho : c.optional = true
  · rw [C10_optional c ho (isGroup_direct hg) ρ]
    exact ⟨fun h happ => h (happ ho), fun h happ => h (fun _ => happ)⟩
  · have ho' : c.optional = false := by cases hh : c.optional <;> simp_all
    rw [C10_mandatory c ho']
    exact ⟨fun h _ => h, fun h => h (fun hh => absurd hh ho)⟩

theorem objectiveFmls_single (cfg : Config) (st : State) (h : st.objectives.length ≤ 1) : objectiveFmls cfg st = [] := by
  unfold objectiveFmls
  have : ¬ st.objectives.length > 1 := by omega
  simp [this]

/-! ### the exactness theorems -/

/-- **C05 (soundness with groups).** -/
theorem C05_sound_groups (cfg : Config) (st : State) (ρ : Env) (hc : InCoreS st.noGroups)
    (hρ : Sat ρ (initFmls cfg st)) (hH : 0 ≤ ρ.i .horizon) : Valid st (schedOf ρ) := by
  have hbuf : st.buffers = [] := hc.no_buffers
  have h0 : Sat ρ (initFmls cfg st.noGroups) := fun a ha => hρ a ((mem_initFmls_groups cfg st hbuf a).2 (Or.inl ha))
  have hv := C05_sound_core cfg st.noGroups ρ hc h0 hH
  refine ⟨hv.horizon_nonneg, hv.horizon_le, hv.tasks, hv.dyn, hv.counts, hv.no_overlap, hv.work, ?_⟩
  intro c hcm hop happ
  by_cases hg : c.isGroup = true
  · have hsat : Sat ρ (c.body.raw c.id) := by
      have hall : Sat ρ c.asserts := fun a ha => hρ a ((mem_initFmls_groups cfg st hbuf a).2 (Or.inr ⟨c, hcm, hg, ha⟩))
      exact (isGroup_asserts hg ρ).1 hall happ
    have hS : ∀ t : Task, (schedOf ρ).start t.name = ρ.i (.tStart t.name) := fun _ => rfl
    have hE : ∀ t : Task, (schedOf ρ).end_ t.name = ρ.i (.tEnd t.name) := fun _ => rfl
    cases hb : c.body <;> simp only [Constr.isGroup, hb, Bool.and_false, Bool.false_eq_true] at hg
    case unorderedGroup ts window len =>
      rw [hb] at hsat
      have := hsat _ (List.mem_cons_self ..)
      simp only [Fml.eval] at this
      rw [evalAll_iff] at this
      exact group_sound _ ρ ts window len hS hE (groupBase_sound c.id ts window len ρ this)
    case orderedGroup ts window len kind =>
      rw [hb] at hsat
      have := hsat _ (List.mem_cons_self ..)
      simp only [Fml.eval] at this
      rw [evalAll_iff] at this
      exact ⟨group_sound _ ρ ts window len hS hE
               (groupBase_sound c.id ts window len ρ (fun f hf => this f (List.mem_append_left _ hf))),
             consec_sound kind _ ρ hS hE ts (consecutive_sound kind ρ ts (fun f hf => this f (List.mem_append_right _ hf)))⟩
  · have hm : c ∈ st.noGroups.constrs := List.mem_filter.2 ⟨hcm, by simpa using hg⟩
    exact (CoreMeaning_noGroups st _ c.body).1 (hv.constrs c hm hop happ)

theorem Valid_noGroups (st : State) (σ : Sched) (hv : Valid st σ) : Valid st.noGroups σ :=
  ⟨hv.horizon_nonneg, hv.horizon_le, hv.tasks, hv.dyn, hv.counts, hv.no_overlap, hv.work,
   fun c hc hop happ => (CoreMeaning_noGroups st σ c.body).2 (hv.constrs c (List.mem_filter.1 hc).1 hop happ)⟩

/-- **C05 (completeness with groups).** -/
theorem C05_complete_groups (cfg : Config) (st : State) (σ : Sched) (hc : InCoreS st.noGroups)
    (hok : st.groupsOK = true) (hf : st.freshGroups = true) (hv : Valid st σ) :
    Sat (withGroups st σ (envOf st σ)) (initFmls cfg st) := by
  have hbuf : st.buffers = [] := hc.no_buffers
  have h0 : Sat (envOf st σ) (initFmls cfg st.noGroups) :=
    C05_complete_core cfg st.noGroups σ hc.inCore (Valid_noGroups st σ hv)
  have hcfg : initFmls cfg st.noGroups = initFmls cfgP st.noGroups := by
    rw [initFmls_split cfg, objectiveFmls_single cfg _ hc.single_objective, List.append_nil]
  have hag := withGroups_agree st σ (envOf st σ)
  unfold State.groupsOK at hok
  simp only [Bool.and_eq_true, decide_eq_true_eq] at hok
  intro a ha
  rcases (mem_initFmls_groups cfg st hbuf a).1 ha with h | ⟨c, hcm, hg, hca⟩
  · have hfresh : a.varsIn notGrp = true := by
      rw [hcfg] at h
      unfold State.freshGroups at hf
      simp only [Bool.and_eq_true] at hf
      exact (List.all_eq_true.1 hf.1) a h
    exact (eval_congr_fml notGrp _ _ hag a hfresh).1 (h0 a h)
  · refine (isGroup_asserts hg _).2 ?_ a hca
    intro happ
    have happ' : c.optional = true → σ.applied c.id = true := happ
    have hcg : c ∈ st.groups := List.mem_filter.2 ⟨hcm, hg⟩
    have hfind := find_of_nodup_ids st.groups hok.1 c hcg
    have hmem := (List.all_eq_true.1 ((List.all_eq_true.1 hok.2) c hcg))
    have hgS : (withGroups st σ (envOf st σ)).i (.grpS c.id) = (grpValOf σ c.body).1 := by
      simp only [withGroups, hfind]
    have hgE : (withGroups st σ (envOf st σ)).i (.grpE c.id) = (grpValOf σ c.body).2 := by
      simp only [withGroups, hfind]
    have hts : ∀ t ∈ c.body.groupTasks,
        (withGroups st σ (envOf st σ)).i (.tStart t.name) = σ.start t.name ∧
        (withGroups st σ (envOf st σ)).i (.tEnd t.name) = σ.end_ t.name ∧ σ.isSched t = true := by
      intro t ht
      have := hmem t ht
      simp only [Bool.and_eq_true, Bool.not_eq_true', beq_iff_eq] at this
      obtain ⟨hopt, hft⟩ := this
      have hs : σ.isSched t = true := by simp [Sched.isSched, hopt]
      have e1 : (withGroups st σ (envOf st σ)).i (.tStart t.name) = (envOf st σ).i (.tStart t.name) := rfl
      have e2 : (withGroups st σ (envOf st σ)).i (.tEnd t.name) = (envOf st σ).i (.tEnd t.name) := rfl
      rw [e1, e2, envOf_tStart st σ t hft, envOf_tEnd st σ t hft]
      simp [tStartOf, tEndOf, hs]
    have hmean := hv.constrs c hcm (isGroup_operand hg) happ'
    intro b hb'
    cases hb : c.body <;> simp only [Constr.isGroup, hb, Bool.and_false, Bool.false_eq_true] at hg
    case unorderedGroup ts window len =>
      rw [hb] at hb' hgS hgE hts hmean
      simp only [CBody.raw, List.mem_singleton] at hb'
      subst hb'
      simp only [Fml.eval]
      rw [evalAll_iff]
      exact groupBase_complete c.id σ _ ts window len hgS hgE hts hmean
    case orderedGroup ts window len kind =>
      rw [hb] at hb' hgS hgE hts hmean
      simp only [CBody.raw, List.mem_singleton] at hb'
      subst hb'
      simp only [Fml.eval]
      rw [evalAll_iff]
      intro f hf
      rcases List.mem_append.1 hf with h | h
      · exact groupBase_complete c.id σ _ ts window len hgS hgE hts hmean.1 f h
      · exact consecutive_complete kind σ _ ts hts hmean.2 f h

/-- **C05 (exactness with task groups).** The constraint system `initialize` builds has a model with a non-negative
    horizon iff the problem — groups included — has a valid schedule. -/
theorem C05_feasible_iff_groups (cfg : Config) (st : State) (hc : InCoreS st.noGroups)
    (hok : st.groupsOK = true) (hf : st.freshGroups = true) :
    (∃ ρ, Sat ρ (initFmls cfg st) ∧ 0 ≤ ρ.i .horizon) ↔ ∃ σ, Valid st σ := by
  constructor
  · rintro ⟨ρ, hρ, hH⟩
    exact ⟨schedOf ρ, C05_sound_groups cfg st ρ hc hρ hH⟩
  · rintro ⟨σ, hv⟩
    refine ⟨withGroups st σ (envOf st σ), C05_complete_groups cfg st σ hc hok hf hv, ?_⟩
    have : (withGroups st σ (envOf st σ)).i .horizon = (envOf st σ).i .horizon := rfl
    rw [this]
    exact hv.horizon_nonneg

/-- **C07 (attainable indicator values, with groups).** An integer is the value of a declared indicator in some
    admitted interpretation iff it is its value on some valid schedule of the whole problem. -/
theorem C07_groups_attainable (cfg : Config) (st : State) (hc : InCoreS st.noGroups)
    (hok : st.groupsOK = true) (hf : st.freshGroups = true) (ind : Indicator) (hi : ind ∈ st.indicators) (k : Int) :
    (∃ ρ, Sat ρ (initFmls cfg st) ∧ 0 ≤ ρ.i .horizon ∧ ρ.i ind.var = k) ↔
    (∃ σ, Valid st σ ∧ (envOf st σ).i ind.var = k) := by
  have hbuf : st.buffers = [] := hc.no_buffers
  constructor
  · rintro ⟨ρ, hρ, hH, hk⟩
    refine ⟨schedOf ρ, C05_sound_groups cfg st ρ hc hρ hH, ?_⟩
    have h0 : Sat ρ (initFmls cfg st.noGroups) := fun a ha => hρ a ((mem_initFmls_groups cfg st hbuf a).2 (Or.inl ha))
    have hv : st.noGroups.ownI2 ind.var = true := by
      simp only [State.ownI2, Bool.or_eq_true]
      exact Or.inr (List.any_eq_true.2 ⟨ind, hi, beq_self_eq_true _⟩)
    have := (agree_own2 cfg st.noGroups ρ h0 hc).i _ hv
    rw [envOf_noGroups] at this
    rw [← this]
    exact hk
  · rintro ⟨σ, hv, hk⟩
    refine ⟨withGroups st σ (envOf st σ), C05_complete_groups cfg st σ hc hok hf hv, ?_, ?_⟩
    · have : (withGroups st σ (envOf st σ)).i .horizon = (envOf st σ).i .horizon := rfl
      rw [this]
      exact hv.horizon_nonneg
    · unfold State.freshGroups at hf
      simp only [Bool.and_eq_true] at hf
      rw [← (withGroups_agree st σ (envOf st σ)).i ind.var ((List.all_eq_true.1 hf.2) ind hi)]
      exact hk

/-- the verdict does not depend on the configuration, groups included -/
theorem C15_groups_verdict_cfg_free (cfg cfg' : Config) (st : State) (hc : InCoreS st.noGroups)
    (hok : st.groupsOK = true) (hf : st.freshGroups = true) :
    (∃ ρ, Sat ρ (initFmls cfg st) ∧ 0 ≤ ρ.i .horizon) ↔ (∃ ρ, Sat ρ (initFmls cfg' st) ∧ 0 ≤ ρ.i .horizon) :=
  (C05_feasible_iff_groups cfg st hc hok hf).trans (C05_feasible_iff_groups cfg' st hc hok hf).symm

/-- the executable test is sufficient for the theorems above -/
theorem fragmentGroupsB_sound {st : State} (hr : Reachable st) (h : st.fragmentGroupsB = true) :
    InCoreS st.noGroups ∧ st.groupsOK = true ∧ st.freshGroups = true := by
  unfold State.fragmentGroupsB at h
  simp only [Bool.and_eq_true] at h
  have w := reachable_wf st hr
  exact ⟨fragmentB_sound_wf ⟨w.nodup, w.events, w.req_tasks⟩ h.1.1, h.1.2, h.2⟩

end PS

namespace PS

/-! ### non-vacuity: a problem with an ordered group without a window and an optional unordered group with one -/

def Groups_exState : State :=
  run [.problem "p" (some 14),
       .task "A" (.fixed 3) false 1 none none true 1,
       .task "B" (.var 1 (some 4) none) false 0 none none true 1,
       .task "C" (.fixed 2) false 0 none none true 1,
       .task "D" (.fixed 1) true 0 none none true 1,
       .worker "W" 1 (.const 0),
       .require "A" (.worker "W") false 0 0,
       .require "B" (.worker "W") false 0 0,
       .constr none false (.orderedGroup ["A", "B", "C"] none 9 .lax),
       .constr none true (.unorderedGroup ["B", "C"] (some (2, 11)) 0),
       .constr none false (.startAfter "C" 6 false),
       .objective (.flowtime none)]

example : Groups_exState.constrs.length = 3 ∧ Groups_exState.groups.length = 2 ∧ Groups_exState.tasks.length = 4 := by
  decide +kernel

theorem Groups_ex_fragment : Groups_exState.fragmentGroupsB = true := by decide +kernel

/-- the problem with its groups is *not* in the fragment of `Exact.lean`: this file is what covers it -/
example : Groups_exState.fragmentB = false := by decide +kernel

/-- its constraint system has a model iff it has a valid schedule -/
example : (∃ ρ, Sat ρ (initFmls {} Groups_exState) ∧ 0 ≤ ρ.i .horizon) ↔ ∃ σ, Valid Groups_exState σ :=
  have h := fragmentGroupsB_sound ⟨_, rfl⟩ Groups_ex_fragment
  C05_feasible_iff_groups {} Groups_exState h.1 h.2.1 h.2.2

def Groups_exSched : Sched :=
  { sched := fun _ => false
    start := fun n => if n = "A" then 0 else if n = "B" then 3 else if n = "C" then 6 else 0
    end_ := fun n => if n = "A" then 3 else if n = "B" then 5 else if n = "C" then 8 else 0
    dur := fun n => if n = "A" then 3 else if n = "B" then 2 else if n = "C" then 2 else 0
    sel := fun _ _ => false
    applied := fun _ => true
    dynS := fun _ _ => 0
    dynE := fun _ _ => 0
    horizon := 8 }

/-- a concrete admitted interpretation: the witness of the schedule above with the helpers set by `withGroups` … -/
theorem Groups_ex_model :
    Sat (withGroups Groups_exState Groups_exSched (envOf Groups_exState Groups_exSched)) (initFmls {} Groups_exState) :=
  satB_sound _ _ (by decide +kernel) (by decide +kernel)

/-- … and the schedule read off it is valid, groups included — by the theorem -/
example : Valid Groups_exState
    (schedOf (withGroups Groups_exState Groups_exSched (envOf Groups_exState Groups_exSched))) :=
  have h := fragmentGroupsB_sound ⟨_, rfl⟩ Groups_ex_fragment
  C05_sound_groups {} Groups_exState _ h.1 Groups_ex_model (by decide +kernel)

end PS

namespace PS

/-! ### task groups and several objectives together; declaration order -/

/-- **C05 (exactness with task groups and any number of objectives).** The two conservative extensions compose: the
    helpers of the groups and the two variables of the weighted combination are set one after the other. -/
theorem C05_feasible_iff_groups_multi (cfg : Config) (st : State) (hc : InCoreS st.noObj.noGroups)
    (hok : st.noObj.groupsOK = true) (hfg : st.noObj.freshGroups = true) (hfe : st.freshEquiv = true) :
    (∃ ρ, Sat ρ (initFmls cfg st) ∧ 0 ≤ ρ.i .horizon) ↔ ∃ σ, Valid st σ := by
  constructor
  · rintro ⟨ρ, hρ, hH⟩
    have h0 : Sat ρ (initFmls cfgP st.noObj) := by
      rw [initFmls_noObj]; exact multi_restrict cfg st ρ hρ
    exact ⟨schedOf ρ, (Valid_noObj st _).1 (C05_sound_groups cfgP st.noObj ρ hc h0 hH)⟩
  · rintro ⟨σ, hv⟩
    have hv0 := (Valid_noObj st σ).2 hv
    have h1 : Sat (withGroups st.noObj σ (envOf st.noObj σ)) (initFmls cfgP st) := by
      rw [← initFmls_noObj cfgP]; exact C05_complete_groups cfgP st.noObj σ hc hok hfg hv0
    refine ⟨withEquiv st (withGroups st.noObj σ (envOf st.noObj σ)), multi_extend cfg st _ hfe h1, ?_⟩
    have : (withEquiv st (withGroups st.noObj σ (envOf st.noObj σ))).i .horizon = σ.horizon := by
      simp [withEquiv, eqvVar, eqvInd]
      rfl
    rw [this]
    exact hv.horizon_nonneg

/-- the executable test for both extensions at once -/
theorem fragmentGroupsMultiB_sound {st : State} (hr : Reachable st) (h : st.fragmentGroupsMultiB = true) :
    InCoreS st.noObj.noGroups ∧ st.noObj.groupsOK = true ∧ st.noObj.freshGroups = true ∧ st.freshEquiv = true := by
  unfold State.fragmentGroupsMultiB State.fragmentGroupsB at h
  simp only [Bool.and_eq_true] at h
  have w := reachable_wf st hr
  exact ⟨fragmentB_sound_wf ⟨w.nodup, w.events, w.req_tasks⟩ h.1.1.1, h.1.1.2, h.1.2, h.2⟩

/-- **C14 (declaration order, with groups).** Two problems with task groups whose valid schedules coincide — two
    declaration orders of one problem — get the same verdict from the encoder, whatever the configurations. -/
theorem C14_groups_verdict (cfg cfg' : Config) (st st' : State)
    (hc : InCoreS st.noGroups) (hok : st.groupsOK = true) (hf : st.freshGroups = true)
    (hc' : InCoreS st'.noGroups) (hok' : st'.groupsOK = true) (hf' : st'.freshGroups = true)
    (hsame : ∀ σ, Valid st σ ↔ Valid st' σ) :
    (∃ ρ, Sat ρ (initFmls cfg st) ∧ 0 ≤ ρ.i .horizon) ↔ (∃ ρ, Sat ρ (initFmls cfg' st') ∧ 0 ≤ ρ.i .horizon) := by
  rw [C05_feasible_iff_groups cfg st hc hok hf, C05_feasible_iff_groups cfg' st' hc' hok' hf']
  exact ⟨fun ⟨σ, h⟩ => ⟨σ, (hsame σ).1 h⟩, fun ⟨σ, h⟩ => ⟨σ, (hsame σ).2 h⟩⟩

/-- non-vacuity: the example problem with a second objective -/
def GroupsMulti_exState : State :=
  run [.problem "p" (some 14),
       .task "A" (.fixed 3) false 1 (some 1) (some 9) true 1,
       .task "B" (.var 1 (some 4) none) false 0 none none true 1,
       .task "C" (.fixed 2) false 0 none none true 1,
       .worker "W" 1 (.const 0),
       .require "A" (.worker "W") false 0 0,
       .require "B" (.worker "W") false 0 0,
       .constr none false (.orderedGroup ["A", "B", "C"] none 9 .lax),
       .indicator (.tardiness (some ["A"])),
       .objective (.flowtime none),
       .objective (.minimizeIndicator 0 3)]

example : GroupsMulti_exState.groups.length = 1 ∧ GroupsMulti_exState.objectives.length = 2 := by decide +kernel

theorem GroupsMulti_ex_fragment : GroupsMulti_exState.fragmentGroupsMultiB = true := by decide +kernel

example : (∃ ρ, Sat ρ (initFmls {} GroupsMulti_exState) ∧ 0 ≤ ρ.i .horizon) ↔ ∃ σ, Valid GroupsMulti_exState σ :=
  have h := fragmentGroupsMultiB_sound ⟨_, rfl⟩ GroupsMulti_ex_fragment
  C05_feasible_iff_groups_multi {} GroupsMulti_exState h.1 h.2.1 h.2.2.1 h.2.2.2

end PS
