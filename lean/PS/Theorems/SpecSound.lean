/-
  PS.Theorems.SpecSound — the spec twins printed by the driver for the SEM channel are consequences of what
  `initialize` asserts:  `Sat ρ (initFmls cfg st) → Sat ρ (specCxx st)`  for C01, C02, C03, C04, C08, C10
  (`C09_spec_sound` is in C09.lean), and all together in `SEM_twins_sound`.
  So the formula whose negation the harness conjoins with the REAL assertions is, clause for clause, a
  conclusion of the property's theorems: if the real code emits the model's assertions (ENC), SEM cannot fire;
  if SEM fires, the real code admits a schedule that the theorems exclude for the model.
-/
import PS.Theorems.C01
import PS.Theorems.C02
import PS.Theorems.C03
import PS.Theorems.C04
import PS.Theorems.C08
import PS.Theorems.C09
import PS.Theorems.C10
import PS.Spec.Twins
namespace PS
open List

theorem durT_eval (t : Task) (ρ : Env) : t.durT.eval ρ = t.durV ρ := by
  unfold Task.durT Task.durV
  cases t.kind <;> simp [Term.eval, numT, Task.dVar]

theorem durOKF_sound (t : Task) (ρ : Env) (h : t.DurOK (t.durV ρ)) : Sat ρ t.durOKF := by
  unfold Task.durOKF
  unfold Task.DurOK at h
  cases hk : t.kind with
  | fixed d => simp [Sat]
  | zero => simp [Sat]
  | var minD maxD allowed =>
      rw [hk] at h
      have hd : t.durV ρ = ρ.i (.tDur t.name) := by simp [Task.durV, hk]
      rw [hd] at h
      simp only [Sat.append]
      refine ⟨⟨?_, ?_⟩, ?_⟩
      · intro a ha
        simp only [List.mem_singleton] at ha; subst ha
        simpa [Fml.eval, Term.eval, numT, Task.dVar] using h.1
      · cases maxD with
        | none => exact Sat.nil
        | some m =>
            intro a ha
            simp only [List.mem_singleton] at ha; subst ha
            simpa [Fml.eval, Term.eval, numT, Task.dVar] using h.2.1 m rfl
      · cases allowed with
        | none => exact Sat.nil
        | some l =>
            intro a ha
            simp only [List.mem_singleton] at ha; subst ha
            simp only [Fml.eval]
            rw [evalAny_iff]
            have := h.2.2 l rfl
            exact ⟨Fml.eq t.dVar (numT (ρ.i (.tDur t.name))), List.mem_map.2 ⟨_, this, rfl⟩,
              by simp [Fml.eval, Term.eval, numT, Task.dVar]⟩

theorem schedF_eval' (t : Task) (ρ : Env) : t.schedF.eval ρ ↔ Scheduled ρ t := by
  unfold Task.schedF Scheduled
  by_cases h : t.optional = true <;> simp [h, Fml.eval]

/-- **the C01 twin follows from the assertions of `initialize`** -/
theorem C01_spec_sound (cfg : Config) (st : State) (ρ : Env) (hρ : Sat ρ (initFmls cfg st)) :
    Sat ρ (specC01 st) := by
  unfold specC01
  rw [Sat.append]
  constructor
  · intro a ha
    obtain ⟨t, ht, rfl⟩ := List.mem_map.1 ha
    unfold Task.timingF
    simp only [Fml.eval]
    intro hs
    have ok := C01_task_timing cfg st ρ hρ t ht ((schedF_eval' t ρ).1 hs)
    rw [evalAll_iff]
    intro b hb
    simp only [List.mem_append, List.mem_cons, List.not_mem_nil, or_false] at hb
    rcases hb with (((rfl | rfl | rfl) | hb) | hb) | hb
    · simpa [Fml.eval, Term.eval, numT, Task.sVar, Task.startV] using ok.start_nonneg
    · simpa [Fml.eval, Term.eval, Task.eVar, Task.endV] using ok.end_le_horizon
    · simp only [Fml.eval, Term.eval, durT_eval]
      exact ok.duration
    · exact durOKF_sound t ρ ok.durOK b hb
    · cases hr : t.release with
      | none => simp [hr] at hb
      | some r =>
          simp only [hr, List.mem_singleton] at hb; subst hb
          simpa [Fml.eval, Term.eval, numT, Task.sVar, Task.startV] using ok.release r hr
    · cases hd : t.due with
      | none => simp [hd] at hb
      | some d =>
          by_cases hdl : t.deadline = true
          · simp only [hd, hdl, if_true, List.mem_singleton] at hb; subst hb
            simpa [Fml.eval, Term.eval, numT, Task.eVar, Task.endV] using ok.deadline d hd hdl
          · simp [hd, hdl] at hb
  · cases hh : st.horizon with
    | none => exact Sat.nil
    | some h =>
        intro a ha
        simp only [List.mem_singleton] at ha; subst ha
        apply hρ
        apply mem_init_problem
        simp [State.problemAsserts, hh]


theorem noOverlapSpec_sound (ρ : Env) (w : String) : ∀ (l : List (String × Bool)),
    l.Pairwise (Disjoint2 ρ w) → Sat ρ (noOverlapSpec w l)
  | [], _ => by simp [noOverlapSpec, Sat]
  | (ti, mi) :: rest, h => by
      rw [List.pairwise_cons] at h
      simp only [noOverlapSpec, Sat.append]
      refine ⟨?_, noOverlapSpec_sound ρ w rest h.2⟩
      intro a ha
      obtain ⟨⟨tk, mk⟩, hy, rfl⟩ := List.mem_map.1 ha
      have := h.1 (tk, mk) hy
      unfold Disjoint2 at this
      simp only [Fml.eval, Fml.evalAll, Term.eval, bS, bE, and_true]
      intro ⟨h1, h2⟩
      simp only at this
      omega

/-- the value of `Σ ite f 1 0` is the number of true formulas -/
theorem sumIte_count (ρ : Env) : ∀ (flags : List Fml),
    (sumOrZero (flags.map (fun f => Term.ite f (numT 1) (numT 0)))).eval ρ = (Fml.count ρ flags : Int)
  | [] => by simp [sumOrZero, Term.eval, numT, Fml.count]
  | f :: fs => by
      have ih := sumIte_count ρ fs
      simp only [sumOrZero, List.map_cons, List.isEmpty_cons, Bool.false_eq_true, if_false, Term.eval, Term.evalSum,
        Fml.count, numT]
      have ih' : Term.evalSum ρ (fs.map (fun f => Term.ite f (Term.num 1) (Term.num 0))) = (Fml.count ρ fs : Int) := by
        cases fs with
        | nil => simp [Term.evalSum, Fml.count]
        | cons g gs =>
            simpa [sumOrZero, Term.eval, numT] using ih
      rw [ih']
      by_cases hf : f.eval ρ <;> simp [hf]

theorem countF_sound (ρ : Env) (k : CountKind) (flags : List Fml) (n : Nat)
    (h : match k with | .exact => Fml.count ρ flags = n | .min => n ≤ Fml.count ρ flags | .max => Fml.count ρ flags ≤ n) :
    (countF k flags n).eval ρ := by
  unfold countF
  have hs := sumIte_count ρ flags
  cases k <;> simp only [Fml.eval] <;> rw [hs] <;> simp only [Term.eval, numT] at h ⊢ <;> omega

theorem spanF_sound (t : Task) (r : Req) (ρ : Env) (h : ReqSpanOK t r ρ) : (r.spanF t).eval ρ := by
  unfold Req.spanF
  unfold ReqSpanOK at h
  cases hs : r.sel with
  | some s =>
      simp only [hs] at h ⊢
      simp only [Fml.eval, Fml.evalAll, Term.eval, bS, bE, numT, Task.sVar, Task.eVar, and_true]
      refine ⟨fun hb => ?_, fun hb => ?_⟩
      · exact h.1 hb
      · have : ρ.b (.sel s r.worker) = false := by
          cases hv : ρ.b (.sel s r.worker) <;> simp_all
        exact h.2 this
  | none =>
      simp only [hs] at h ⊢
      by_cases hd : r.dynamic = true
      · simp only [hd, if_true] at h ⊢
        simp only [Fml.eval, Fml.evalAll, Term.eval, bS, bE, Task.sVar, Task.eVar, and_true]
        exact h
      · simp only [hd, Bool.false_eq_true, if_false] at h ⊢
        simp only [Fml.eval, Fml.evalAll, Term.eval, bS, bE, numT, Task.sVar, Task.eVar, and_true]
        exact h

/-- **the C02 twin follows from the assertions of `initialize`** (for well-formed requirement events, which is what
    `step` creates) -/
theorem C02_spec_sound (cfg : Config) (st : State) (ρ : Env) (hρ : Sat ρ (initFmls cfg st))
    (hwf : ∀ ev ∈ st.reqLog, ev.WF) : Sat ρ (specC02 st) := by
  unfold specC02
  simp only [Sat.append]
  refine ⟨⟨?_, ?_⟩, ?_⟩
  · intro a ha
    obtain ⟨w, hw, haw⟩ := List.mem_flatMap.1 ha
    exact noOverlapSpec_sound ρ w.name _ (C02_no_overlap cfg st ρ hρ w hw) a haw
  · intro a ha
    obtain ⟨t, ht, hat⟩ := List.mem_flatMap.1 ha
    obtain ⟨ev, hev, hae⟩ := List.mem_flatMap.1 hat
    rcases List.mem_append.1 hae with h1 | h2
    · obtain ⟨r, hr, rfl⟩ := List.mem_map.1 h1
      exact spanF_sound t r ρ (C02_busy_span cfg st ρ hρ hwf t ht ev hev r hr)
    · cases ev with
      | direct t' r' => simp at h2
      | viaSelect t' s rs wc =>
          cases wc with
          | false => simp at h2
          | true =>
              simp only [List.mem_singleton] at h2
              subst h2
              have hev' : ReqEvent.viaSelect t' s rs true ∈ st.reqLog := (List.mem_filter.1 hev).1
              have ht' : t' = t.name := by
                have := (List.mem_filter.1 hev).2
                simpa [ReqEvent.task] using this
              subst ht'
              have hc := C02_selection_count cfg st ρ hρ t ht s rs hev'
              apply countF_sound
              unfold CountOK Select.nSelected at hc
              unfold Select.flags
              rw [count_flags]
              cases hk : s.kind <;> simp only [hk] at hc ⊢ <;> exact hc
  · intro a ha
    obtain ⟨t, ht, hat⟩ := List.mem_flatMap.1 ha
    by_cases hc : (t.work > 0 && !(workTerms st t).isEmpty) = true
    · simp only [hc, if_true, List.mem_singleton] at hat
      subst hat
      simp only [Bool.and_eq_true, decide_eq_true_eq, Bool.not_eq_true', List.isEmpty_eq_false_iff] at hc
      simp only [Fml.eval]
      intro hs
      have := C02_work_amount cfg st ρ hρ t ht hc.1 hc.2 ((schedF_eval' t ρ).1 hs)
      have hne : (workTerms st t).isEmpty = false := by
        cases h : workTerms st t with
        | nil => exact absurd h hc.2
        | cons _ _ => rfl
      simpa [sumOrZero, hne, Term.eval, numT] using this
    · simp [hc] at hat

theorem ordF_eval (k : OrdKind) (a b : Term) (ρ : Env) : (ordF k a b).eval ρ ↔ ordHolds k (a.eval ρ) (b.eval ρ) := by
  cases k <;> simp [ordF, ordHolds, Fml.eval]

theorem sched2_eval (t1 t2 : Task) (f : Fml) (ρ : Env) :
    (sched2 t1 t2 f).eval ρ ↔ (Scheduled ρ t1 → Scheduled ρ t2 → f.eval ρ) := by
  simp only [sched2, Fml.eval, Fml.evalAll, schedF_eval, and_true]
  constructor
  · intro h a b; exact h ⟨a, b⟩
  · intro h ⟨a, b⟩; exact h a b

theorem consecutiveF_sound (k : OrdKind) (ρ : Env) : ∀ (ts : List Task), ConsecutiveOK k ρ ts → Sat ρ (consecutiveF k ts)
  | [], _ => by simp [consecutiveF, Sat]
  | [_], _ => by simp [consecutiveF, Sat]
  | a :: b :: rest, h => by
      simp only [ConsecutiveOK] at h
      simp only [consecutiveF]
      rw [Sat.cons]
      refine ⟨?_, consecutiveF_sound k ρ (b :: rest) h.2⟩
      rw [ordF_eval]
      simpa [Term.eval, Task.eVar, Task.sVar, Task.endV, Task.startV] using h.1

theorem groupWindowF_sound (ρ : Env) (ts : List Task) (window : Option (Int × Int)) (len : Int)
    (h : GroupWindowOK ρ ts window len) : Sat ρ (groupWindowF ts window len) := by
  unfold groupWindowF
  unfold GroupWindowOK at h
  cases window with
  | some w =>
      obtain ⟨lo, hi⟩ := w
      intro a ha
      obtain ⟨t, ht, hat⟩ := List.mem_flatMap.1 ha
      have := h t ht
      simp only [List.mem_cons, List.not_mem_nil, or_false] at hat
      rcases hat with rfl | rfl
      · simpa [Fml.eval, Term.eval, numT, Task.sVar, Task.startV] using this.1
      · simpa [Fml.eval, Term.eval, numT, Task.eVar, Task.endV] using this.2
  | none =>
      intro a ha
      obtain ⟨t, ht, hat⟩ := List.mem_flatMap.1 ha
      obtain ⟨t', ht', rfl⟩ := List.mem_map.1 hat
      have := h t ht t' ht'
      simpa [Fml.eval, Term.eval, numT, Task.sVar, Task.eVar, Task.startV, Task.endV] using this

theorem insideAny_eval (ρ : Env) (t : Task) (ivs : List (Int × Int)) :
    (insideAny t ivs).eval ρ ↔ InsideAny ρ t ivs := by
  unfold insideAny InsideAny
  simp only [Fml.eval]
  rw [evalAny_iff]
  constructor
  · rintro ⟨a, ha, hae⟩
    obtain ⟨iv, hiv, rfl⟩ := List.mem_map.1 ha
    simp only [Fml.eval, Fml.evalAll, Term.eval, numT, Task.sVar, Task.eVar, and_true] at hae
    exact ⟨iv, hiv, hae⟩
  · rintro ⟨iv, hiv, h1, h2⟩
    refine ⟨_, List.mem_map.2 ⟨iv, hiv, rfl⟩, ?_⟩
    simp only [Fml.eval, Fml.evalAll, Term.eval, numT, Task.sVar, Task.eVar, and_true]
    exact ⟨h1, h2⟩

open Classical in
theorem count_insideAny (ρ : Env) (ivs : List (Int × Int)) : ∀ (ts : List Task),
    Fml.count ρ (ts.map (fun t => insideAny t ivs)) = countInside ρ ts ivs
  | [] => by simp [Fml.count, countInside]
  | t :: ts => by
      have ih := count_insideAny ρ ivs ts
      unfold countInside at ih ⊢
      simp only [List.map_cons, Fml.count, ih, List.countP_cons, insideAny_eval]
      by_cases h : InsideAny ρ t ivs <;> simp [h, Nat.add_comm]

theorem count_schedF (ρ : Env) (ts : List Task) :
    Fml.count ρ (ts.map (fun t => Fml.bvar (.sched t.name))) = countSched ρ ts := count_sched ρ ts

/-- every clause of the C03 twin is implied by the raw assertions of its constraint -/
theorem taskMeaningF_sound (c : Nat) (b : CBody) (ρ : Env) (h : Sat ρ (b.raw c)) (f : Fml)
    (hf : b.taskMeaningF = some f) : f.eval ρ := by
  have hm := C03_raw_sound c b ρ h
  cases b with
  | startAt t v =>
      simp only [CBody.taskMeaningF, Option.some.injEq] at hf; subst hf
      simp only [TaskMeaning] at hm
      simp only [Fml.eval, schedF_eval]
      intro hs; simpa [Term.eval, numT, Task.sVar, Task.startV] using hm hs
  | startAfter t v strict =>
      simp only [CBody.taskMeaningF, Option.some.injEq] at hf; subst hf
      simp only [TaskMeaning] at hm
      simp only [Fml.eval, schedF_eval]
      intro hs
      have := hm hs
      cases strict <;> simpa [Fml.eval, Term.eval, numT, Task.sVar, Task.startV] using this
  | endAt t v =>
      simp only [CBody.taskMeaningF, Option.some.injEq] at hf; subst hf
      simp only [TaskMeaning] at hm
      simp only [Fml.eval, schedF_eval]
      intro hs; simpa [Term.eval, numT, Task.eVar, Task.endV] using hm hs
  | endBefore t v strict =>
      simp only [CBody.taskMeaningF, Option.some.injEq] at hf; subst hf
      simp only [TaskMeaning] at hm
      simp only [Fml.eval, schedF_eval]
      intro hs
      have := hm hs
      cases strict <;> simpa [Fml.eval, Term.eval, numT, Task.eVar, Task.endV] using this
  | precedence tb ta off kind =>
      simp only [CBody.taskMeaningF, Option.some.injEq] at hf; subst hf
      simp only [TaskMeaning] at hm
      rw [sched2_eval]
      intro h1 h2
      rw [ordF_eval]
      simpa [Term.eval, numT, Task.eVar, Task.sVar, Task.endV, Task.startV] using hm h1 h2
  | startSynced t1 t2 =>
      simp only [CBody.taskMeaningF, Option.some.injEq] at hf; subst hf
      simp only [TaskMeaning] at hm
      rw [sched2_eval]
      intro h1 h2
      simpa [Fml.eval, Term.eval, Task.sVar, Task.startV] using hm h1 h2
  | endSynced t1 t2 =>
      simp only [CBody.taskMeaningF, Option.some.injEq] at hf; subst hf
      simp only [TaskMeaning] at hm
      rw [sched2_eval]
      intro h1 h2
      simpa [Fml.eval, Term.eval, Task.eVar, Task.endV] using hm h1 h2
  | dontOverlap t1 t2 =>
      simp only [CBody.taskMeaningF, Option.some.injEq] at hf; subst hf
      simp only [TaskMeaning] at hm
      rw [sched2_eval]
      intro h1 h2
      simpa [Fml.eval, Fml.evalAny, Term.eval, Task.eVar, Task.sVar, Task.endV, Task.startV] using hm h1 h2
  | contiguous ts =>
      simp only [CBody.taskMeaningF, Option.some.injEq] at hf; subst hf
      simp only [TaskMeaning] at hm
      have hsv : ∀ x : Task, x.sVar.eval ρ = x.startV ρ := fun _ => rfl
      have hev : ∀ x : Task, x.eVar.eval ρ = x.endV ρ := fun _ => rfl
      simp only [Fml.eval]
      intro hco
      rw [evalAll_iff] at hco
      have hco' : TasksComonotone ρ ts := by
        intro x hx y hy hxy
        have := hco _ (List.mem_flatMap.2 ⟨x, hx, List.mem_map.2 ⟨y, hy, rfl⟩⟩)
        simp only [Fml.eval, hsv, hev] at this
        exact this hxy
      rw [evalAll_iff]
      intro f hf'
      obtain ⟨a, ha, hfa⟩ := List.mem_flatMap.1 hf'
      obtain ⟨b, hb, rfl⟩ := List.mem_map.1 hfa
      simp only [Fml.eval, Fml.evalAll, hsv, hev, Term.eval, numT, and_true]
      rintro ⟨hab, hrest⟩ ⟨h1, h2⟩
      rw [evalAll_iff] at hrest
      refine ContiguousOK_pairwise ρ ts hm hco' a ha b hb hab ?_ h1 h2
      intro c hc
      have := hrest _ (List.mem_map.2 ⟨c, hc, rfl⟩)
      simpa [Fml.eval, Fml.evalAll, hsv] using this
  | unorderedGroup ts window len =>
      simp only [CBody.taskMeaningF, Option.some.injEq] at hf; subst hf
      simp only [TaskMeaning] at hm
      simp only [Fml.eval]; rw [evalAll_eq_Sat]
      exact groupWindowF_sound ρ ts window len hm
  | orderedGroup ts window len kind =>
      simp only [CBody.taskMeaningF, Option.some.injEq] at hf; subst hf
      simp only [TaskMeaning] at hm
      simp only [Fml.eval]; rw [evalAll_eq_Sat, Sat.append]
      exact ⟨groupWindowF_sound ρ ts window len hm.1, consecutiveF_sound kind ρ ts hm.2⟩
  | scheduleN ts n ivs kind =>
      cases kind with
      | max => simp [CBody.taskMeaningF] at hf
      | min =>
          simp only [CBody.taskMeaningF, Option.some.injEq] at hf; subst hf
          have := C03_scheduleN_lower c ts n ivs .min ρ (by simp) h
          rw [← count_insideAny] at this
          have hs := sumIte_count ρ (ts.map (fun t => insideAny t ivs))
          simp only [List.map_map, Function.comp_def] at hs
          simp only [Fml.eval]; rw [hs]; simp only [Term.eval, numT]; omega
      | exact =>
          simp only [CBody.taskMeaningF, Option.some.injEq] at hf; subst hf
          have := C03_scheduleN_lower c ts n ivs .exact ρ (by simp) h
          rw [← count_insideAny] at this
          have hs := sumIte_count ρ (ts.map (fun t => insideAny t ivs))
          simp only [List.map_map, Function.comp_def] at hs
          simp only [Fml.eval]; rw [hs]; simp only [Term.eval, numT]; omega
  | forceSchedule t b =>
      simp only [CBody.taskMeaningF, Option.some.injEq] at hf; subst hf
      simp only [TaskMeaning] at hm
      cases b <;> simp [Fml.eval, hm]
  | conditionSchedule t cond =>
      simp only [CBody.taskMeaningF, Option.some.injEq] at hf; subst hf
      simp only [TaskMeaning] at hm
      simpa [Fml.eval] using hm
  | dependency t1 t2 =>
      simp only [CBody.taskMeaningF, Option.some.injEq] at hf; subst hf
      simp only [TaskMeaning] at hm
      simp only [Fml.eval, schedF_eval]
      exact hm
  | forceScheduleN ts n kind =>
      simp only [CBody.taskMeaningF, Option.some.injEq] at hf; subst hf
      simp only [TaskMeaning] at hm
      apply countF_sound
      rw [count_sched]
      cases kind <;> simpa using hm
  | _ => simp [CBody.taskMeaningF] at hf

/-- **the C03 twin follows from the assertions of `initialize`** -/
theorem C03_spec_sound (cfg : Config) (st : State) (ρ : Env) (hρ : Sat ρ (initFmls cfg st)) :
    Sat ρ (specC03 st) := by
  intro a ha
  unfold specC03 at ha
  obtain ⟨c, hc, hca⟩ := List.mem_filterMap.1 ha
  obtain ⟨hcm, hop⟩ := List.mem_filter.1 hc
  have hop' : c.operand = false := by simpa using hop
  cases hf : c.body.taskMeaningF with
  | none => simp [hf] at hca
  | some f =>
      simp only [hf, Option.some.injEq] at hca
      have hpart := C10_constraint_part cfg st ρ hρ c hcm hop'
      by_cases hopt : c.optional = true
      · simp only [hopt, if_true] at hca; subst hca
        simp only [Fml.eval]
        intro happ
        have hd : c.body.direct = false := by
          cases hb : c.body <;> simp [hb, CBody.taskMeaningF] at hf <;> rfl
        exact taskMeaningF_sound c.id c.body ρ ((C10_optional c hopt hd ρ).1 hpart happ) f hf
      · have hopt' : c.optional = false := by simpa using hopt
        simp only [hopt', Bool.false_eq_true, if_false] at hca; subst hca
        apply taskMeaningF_sound c.id c.body ρ _ _ hf
        rw [← C10_mandatory c hopt']
        exact hpart

theorem overlapT_eval (b : BusyRef) (lo hi : Int) (ρ : Env) :
    (overlapT b lo hi).eval ρ = overlapLen (b.sV ρ) (b.eV ρ) lo hi := by
  have hs : b.s.eval ρ = b.sV ρ := rfl
  have he : b.e.eval ρ = b.eV ρ := rfl
  simp only [overlapT, maxT, minT, Term.eval, Fml.eval, numT, hs, he, overlapLen]
  by_cases h1 : b.eV ρ ≤ hi <;> by_cases h2 : lo ≤ b.sV ρ <;> simp only [h1, h2, if_true, if_false] <;>
    split <;> omega

theorem sumOverlap_eval (busy : List BusyRef) (lo hi : Int) (ρ : Env) :
    (sumOrZero (busy.map (fun b => overlapT b lo hi))).eval ρ = busyInside ρ busy lo hi := by
  unfold busyInside sumOrZero
  cases busy with
  | nil => simp [Term.eval, numT]
  | cons b bs =>
      simp only [List.map_cons, List.isEmpty_cons, Bool.false_eq_true, if_false, Term.eval]
      have : ∀ l : List BusyRef, Term.evalSum ρ (l.map (fun b => overlapT b lo hi)) =
          (l.map (fun b => overlapLen (b.sV ρ) (b.eV ρ) lo hi)).sum := by
        intro l
        induction l with
        | nil => simp [Term.evalSum]
        | cons x xs ih => simp [Term.evalSum, ih, overlapT_eval]
      simpa using this (b :: bs)

theorem sumOverlapIvs_eval (b : BusyRef) (ivs : List (Int × Int)) (ρ : Env) :
    (sumOrZero (ivs.map (fun iv => overlapT b iv.1 iv.2))).eval ρ = overlapSum (b.sV ρ) (b.eV ρ) ivs := by
  unfold overlapSum sumOrZero
  cases ivs with
  | nil => simp [Term.eval, numT]
  | cons iv rest =>
      simp only [List.map_cons, List.isEmpty_cons, Bool.false_eq_true, if_false, Term.eval]
      have : ∀ l : List (Int × Int), Term.evalSum ρ (l.map (fun iv => overlapT b iv.1 iv.2)) =
          (l.map (fun iv => overlapLen (b.sV ρ) (b.eV ρ) iv.1 iv.2)).sum := by
        intro l
        induction l with
        | nil => simp [Term.evalSum]
        | cons x xs ih => simp [Term.evalSum, ih, overlapT_eval]
      simpa using this (iv :: rest)

theorem interruptedF_sound (b : BusyRef) (t : Task) (ivs : List (Int × Int)) (ρ : Env)
    (h : InterruptedOK ρ (b.sV ρ) (b.eV ρ) t ivs) : Sat ρ (interruptedF b t ivs) := by
  have hs : b.s.eval ρ = b.sV ρ := rfl
  have he : b.e.eval ρ = b.eV ρ := rfl
  unfold InterruptedOK at h
  unfold interruptedF
  cases hk : t.kind with
  | var minD maxD al =>
      simp only [hk] at h ⊢
      obtain ⟨hends, hmin, hmax⟩ := h
      rw [Sat.append, Sat.append]
      refine ⟨⟨?_, ?_⟩, ?_⟩
      · intro a ha
        obtain ⟨iv, hiv, hab⟩ := List.mem_flatMap.1 ha
        have := hends iv hiv
        simp only [List.mem_cons, List.mem_nil_iff, or_false] at hab
        rcases hab with rfl | rfl
        · simp only [Fml.eval, Fml.evalAny, Term.eval, numT, hs, or_false]; exact this.1
        · simp only [Fml.eval, Fml.evalAny, Term.eval, numT, he, or_false]; exact this.2
      · intro a ha
        simp only [List.mem_singleton] at ha; subst ha
        simp only [Fml.eval, Term.eval, sumOverlapIvs_eval, numT, Task.dVar]
        exact hmin
      · cases maxD with
        | none => exact Sat.nil
        | some m =>
            intro a ha
            simp only [List.mem_singleton] at ha; subst ha
            simp only [Fml.eval, Term.eval, sumOverlapIvs_eval, numT, Task.dVar, hs, he]
            intro hle
            exact hmax hle m rfl
  | fixed d =>
      simp only [hk] at h ⊢
      intro a ha
      obtain ⟨iv, hiv, rfl⟩ := List.mem_map.1 ha
      simp only [Fml.eval, Fml.evalAny, Term.eval, numT, hs, he, or_false]
      exact h iv hiv
  | zero =>
      simp only [hk] at h ⊢
      intro a ha
      obtain ⟨iv, hiv, rfl⟩ := List.mem_map.1 ha
      simp only [Fml.eval, Fml.evalAny, Term.eval, numT, hs, he, or_false]
      exact h iv hiv

/-- `l ++ masks` holds as a disjunction when the interval is masked, or when a member of `l` holds -/
theorem or_masks_eval (ρ : Env) (b : BusyRef) (start : Int) (end_ : Option Int) (l : List Fml)
    (h : ¬ PeriodicMasked ρ b start end_ → ∃ a ∈ l, a.eval ρ) :
    (Fml.or (l ++ periodicMasks b start end_)).eval ρ := by
  simp only [Fml.eval]; rw [evalAny_iff]
  by_cases hmask : PeriodicMasked ρ b start end_
  · obtain ⟨a, ha, hae⟩ := masked_eval ρ b start end_ hmask
    exact ⟨a, List.mem_append_right _ ha, hae⟩
  · obtain ⟨a, ha, hae⟩ := h hmask
    exact ⟨a, List.mem_append_left _ ha, hae⟩

theorem numT_eval (n : Int) (ρ : Env) : (numT n).eval ρ = n := rfl

theorem repsInsideT_eval (b : BusyRef) (lo hi off p : Int) (ρ : Env) :
    (repsInsideT b lo hi off p).eval ρ = repsInside (b.sV ρ) (b.eV ρ) lo hi off p := by
  have hs : b.s.eval ρ = b.sV ρ := rfl
  have he : b.e.eval ρ = b.eV ρ := rfl
  simp only [repsInsideT, maxT, Term.eval, Fml.eval, numT, hs, he, repsInside]
  split <;> omega

theorem sumReps_eval (b : BusyRef) (ivs : List (Int × Int)) (off p : Int) (ρ : Env) :
    (sumOrZero (ivs.map (fun iv => Term.mul (numT (iv.2 - iv.1)) (repsInsideT b iv.1 iv.2 off p)))).eval ρ =
      periodicOverlapSum (b.sV ρ) (b.eV ρ) ivs off p := by
  unfold periodicOverlapSum sumOrZero
  cases ivs with
  | nil => simp [Term.eval, numT]
  | cons iv rest =>
      simp only [List.map_cons, List.isEmpty_cons, Bool.false_eq_true, if_false, Term.eval]
      have : ∀ l : List (Int × Int), Term.evalSum ρ (l.map (fun iv => Term.mul (numT (iv.2 - iv.1)) (repsInsideT b iv.1 iv.2 off p))) =
          (l.map (fun iv => (iv.2 - iv.1) * repsInside (b.sV ρ) (b.eV ρ) iv.1 iv.2 off p)).sum := by
        intro l
        induction l with
        | nil => simp [Term.evalSum]
        | cons x xs ih =>
            simp only [List.map_cons, Term.evalSum, List.sum_cons, Term.eval, numT, repsInsideT_eval]
            simp only [numT] at ih
            rw [ih]
      simpa using this (iv :: rest)

theorem periodShift_eval (x : Term) (off p : Int) (ρ : Env) :
    (periodShift x off p).eval ρ = off + p * ((x.eval ρ - off) / p) := by
  simp [periodShift, Term.eval, numT]

theorem periodicInterruptedF_sound (b : BusyRef) (t : Task) (ivs : List (Int × Int)) (p start off : Int)
    (end_ : Option Int) (ρ : Env)
    (h : ¬ PeriodicMasked ρ b start end_ → PeriodicInterruptedOK ρ (b.sV ρ) (b.eV ρ) t ivs p off) :
    Sat ρ (periodicInterruptedF b t ivs p start off end_) := by
  have hs : b.s.eval ρ = b.sV ρ := rfl
  have he : b.e.eval ρ = b.eV ρ := rfl
  unfold PeriodicInterruptedOK at h
  unfold periodicInterruptedF
  cases hk : t.kind with
  | var minD maxD al =>
      simp only [hk] at h ⊢
      rw [Sat.append, Sat.append]
      refine ⟨⟨?_, ?_⟩, ?_⟩
      · intro a ha
        obtain ⟨iv, hiv, hab⟩ := List.mem_flatMap.1 ha
        simp only [List.mem_cons, List.mem_nil_iff, or_false] at hab
        rcases hab with rfl | rfl
        · apply or_masks_eval
          intro hm
          rcases ((h hm).1 iv hiv ((b.sV ρ - off) / p)).1 with h1 | h1
          · exact ⟨_, List.mem_cons_self .., by simp only [Fml.eval, Term.eval, numT, periodShift_eval, hs]; omega⟩
          · exact ⟨_, List.mem_cons_of_mem _ (List.mem_cons_self ..), by
              simp only [Fml.eval, Term.eval, numT, periodShift_eval, hs]; omega⟩
        · apply or_masks_eval
          intro hm
          rcases ((h hm).1 iv hiv ((b.eV ρ - off) / p)).2 with h1 | h1
          · exact ⟨_, List.mem_cons_self .., by simp only [Fml.eval, Term.eval, numT, periodShift_eval, he]; omega⟩
          · exact ⟨_, List.mem_cons_of_mem _ (List.mem_cons_self ..), by
              simp only [Fml.eval, Term.eval, numT, periodShift_eval, he]; omega⟩
      · intro a ha
        simp only [List.mem_singleton] at ha; subst ha
        apply or_masks_eval
        intro hm
        refine ⟨_, List.mem_cons_self .., ?_⟩
        simp only [Fml.eval, Term.eval, sumReps_eval, numT_eval, Task.dVar, hs, he]
        intro hle
        exact ((h hm).2 hle).1
      · cases maxD with
        | none => exact Sat.nil
        | some m =>
            intro a ha
            simp only [List.mem_singleton] at ha; subst ha
            apply or_masks_eval
            intro hm
            refine ⟨_, List.mem_cons_self .., ?_⟩
            simp only [Fml.eval, Term.eval, sumReps_eval, numT_eval, Task.dVar, hs, he]
            intro hle
            exact ((h hm).2 hle).2 m rfl
  | fixed d =>
      simp only [hk] at h ⊢
      intro a ha
      obtain ⟨iv, hiv, rfl⟩ := List.mem_map.1 ha
      apply or_masks_eval
      intro hm
      rcases h hm iv hiv with h1 | h1
      · exact ⟨_, List.mem_cons_self .., by simp only [Fml.eval, Term.eval, numT, periodShift_eval, hs]; omega⟩
      · exact ⟨_, List.mem_cons_of_mem _ (List.mem_cons_self ..), by
          simp only [Fml.eval, Term.eval, numT, periodShift_eval, hs, he]; omega⟩
  | zero =>
      simp only [hk] at h ⊢
      intro a ha
      obtain ⟨iv, hiv, rfl⟩ := List.mem_map.1 ha
      apply or_masks_eval
      intro hm
      rcases h hm iv hiv with h1 | h1
      · exact ⟨_, List.mem_cons_self .., by simp only [Fml.eval, Term.eval, numT, periodShift_eval, hs]; omega⟩
      · exact ⟨_, List.mem_cons_of_mem _ (List.mem_cons_self ..), by
          simp only [Fml.eval, Term.eval, numT, periodShift_eval, hs, he]; omega⟩

theorem comonotoneF_eval (ρ : Env) (busy : List BusyRef) : (comonotoneF busy).eval ρ ↔ Comonotone ρ busy := by
  unfold comonotoneF Comonotone
  simp only [Fml.eval]; rw [evalAll_iff]
  constructor
  · intro h x hx y hy hxy
    have := h _ (List.mem_flatMap.2 ⟨x, hx, List.mem_map.2 ⟨y, hy, rfl⟩⟩)
    simp only [Fml.eval] at this
    exact this hxy
  · intro h a ha
    obtain ⟨x, hx, hax⟩ := List.mem_flatMap.1 ha
    obtain ⟨y, hy, rfl⟩ := List.mem_map.1 hax
    simp only [Fml.eval]
    exact h x hx y hy

theorem succF_eval (ρ : Env) (busy : List BusyRef) (a b : BusyRef) :
    (succF busy a b).eval ρ ↔ (a.sV ρ < b.sV ρ ∧ ∀ c ∈ busy, ¬ (a.sV ρ < c.sV ρ ∧ c.sV ρ < b.sV ρ)) := by
  have hsv : ∀ x : BusyRef, x.s.eval ρ = x.sV ρ := fun _ => rfl
  unfold succF
  simp only [Fml.eval, Fml.evalAll]
  rw [evalAll_iff]
  constructor
  · rintro ⟨h1, h2⟩
    refine ⟨h1, ?_⟩
    intro c hc
    have := h2 _ (List.mem_map.2 ⟨c, hc, rfl⟩)
    simpa [Fml.eval, Fml.evalAll, hsv] using this
  · rintro ⟨h1, h2⟩
    refine ⟨h1, ?_⟩
    intro f hf
    obtain ⟨c, hc, rfl⟩ := List.mem_map.1 hf
    have := h2 c hc
    simpa [Fml.eval, Fml.evalAll, hsv] using this

theorem gapTwinF_sound (ρ : Env) (busy : List BusyRef) (P : Int → Int → Prop) (mk : Term → Term → Fml)
    (hmk : ∀ a b : BusyRef, P (a.eV ρ) (b.sV ρ) → (mk a.e b.s).eval ρ) (h : GapsOK ρ busy P) :
    (gapTwinF busy mk).eval ρ := by
  unfold gapTwinF
  simp only [Fml.eval]
  intro hco
  rw [comonotoneF_eval] at hco
  rw [evalAll_iff]
  intro f hf
  obtain ⟨a, ha, hfa⟩ := List.mem_flatMap.1 hf
  obtain ⟨b, hb, rfl⟩ := List.mem_map.1 hfa
  simp only [Fml.eval]
  intro hs
  rw [succF_eval] at hs
  exact hmk a b (GapsOK_pairwise ρ busy P h hco a ha b hb hs.1 hs.2)

/-- the conditions of ResourceTasksDistance, read back -/
theorem distConds_eval_iff (ivs : Option (List (Int × Int))) (e s : Term) (ρ : Env) :
    Fml.evalAny ρ (distConds ivs e s) ↔ DistCond ivs (e.eval ρ) (s.eval ρ) := by
  constructor
  · intro h
    rw [evalAny_iff] at h
    obtain ⟨f, hf, hfe⟩ := h
    unfold distConds at hf
    unfold DistCond
    cases ivs with
    | none =>
        simp only [List.mem_singleton] at hf; subst hf
        simpa [Fml.eval, Fml.evalAll, Term.eval, numT] using hfe
    | some l =>
        simp only at hf ⊢
        obtain ⟨iv, hiv, rfl⟩ := List.mem_map.1 hf
        refine ⟨iv, hiv, ?_⟩
        simpa [Fml.eval, Fml.evalAll, Term.eval, numT] using hfe
  · exact distConds_eval ivs e s ρ

theorem resMeaningF_sound (c : Nat) (b : CBody) (ρ : Env) (h : Sat ρ (b.raw c)) (f : Fml)
    (hf : b.resMeaningF = some f) : f.eval ρ := by
  have hm := C04_raw_sound c b ρ h
  cases b with
  | unavailable busy ivs =>
      simp only [CBody.resMeaningF, Option.some.injEq] at hf; subst hf
      simp only [ResMeaning] at hm
      simp only [Fml.eval]; rw [evalAll_iff]
      intro a ha
      obtain ⟨iv, hiv, hab⟩ := List.mem_flatMap.1 ha
      obtain ⟨bz, hbz, rfl⟩ := List.mem_map.1 hab
      have := hm bz hbz iv hiv
      have hs : bz.s.eval ρ = bz.sV ρ := rfl
      have he : bz.e.eval ρ = bz.eV ρ := rfl
      simp only [Fml.eval, Fml.evalAny, Term.eval, numT, hs, he, or_false]
      exact this
  | workload busy ivs kind =>
      simp only [CBody.resMeaningF, Option.some.injEq] at hf; subst hf
      simp only [ResMeaning] at hm
      simp only [Fml.eval]; rw [evalAll_iff]
      intro a ha
      obtain ⟨iv, hiv, rfl⟩ := List.mem_map.1 ha
      have := hm iv hiv
      unfold cmpHolds at this
      cases kind <;> simp only [Fml.eval, sumOverlap_eval, Term.eval, numT] at this ⊢ <;> exact this
  | periodicallyUnavailable busy ivs period start offset end_ =>
      simp only [CBody.resMeaningF, Option.some.injEq] at hf; subst hf
      have hp := C04_periodic_own_period c busy ivs period start offset end_ ρ h
      simp only [Fml.eval]; rw [evalAll_iff]
      intro a ha
      obtain ⟨iv, hiv, hab⟩ := List.mem_flatMap.1 ha
      obtain ⟨bz, hbz, rfl⟩ := List.mem_map.1 hab
      have hs : bz.s.eval ρ = bz.sV ρ := rfl
      have he : bz.e.eval ρ = bz.eV ρ := rfl
      simp only [Fml.eval]; rw [evalAny_iff]
      by_cases hmask : PeriodicMasked ρ bz start end_
      · rcases hmask with ⟨hs0, hle⟩ | ⟨en, hen, hge⟩
        · refine ⟨Fml.le bz.e (numT start), ?_, by simpa [Fml.eval, Term.eval, numT, he] using hle⟩
          exact List.mem_append_left _ (List.mem_append_right _ (by
            have : start ≥ 0 := hs0
            rw [if_pos this]; exact List.mem_singleton.2 rfl))
        · refine ⟨Fml.ge bz.s (numT en), ?_, by simpa [Fml.eval, Term.eval, numT, hs] using hge⟩
          exact List.mem_append_right _ (by subst hen; exact List.mem_singleton.2 rfl)
      · have := hp bz hbz iv hiv hmask
        simp only at this
        rcases this with h1 | h2
        · refine ⟨Fml.ge bz.s ((numT iv.2).add ((numT offset).add ((numT period).mul ((bz.s.sub (numT offset)).div (numT period))))),
            List.mem_append_left _ (List.mem_append_left _ (List.mem_cons_self ..)), ?_⟩
          simp only [Fml.eval, Term.eval, numT, hs]
          omega
        · refine ⟨Fml.le bz.e ((numT iv.1).add ((numT offset).add ((numT period).mul ((bz.s.sub (numT offset)).div (numT period))))),
            List.mem_append_left _ (List.mem_append_left _ (List.mem_cons_of_mem _ (List.mem_cons_self ..))), ?_⟩
          simp only [Fml.eval, Term.eval, numT, hs, he]
          omega
  | nonDelay busy =>
      simp only [CBody.resMeaningF, Option.some.injEq] at hf; subst hf
      simp only [ResMeaning] at hm
      apply gapTwinF_sound ρ busy _ _ _ hm
      intro a b hP
      have hs : b.s.eval ρ = b.sV ρ := rfl
      have he : a.e.eval ρ = a.eV ρ := rfl
      simp only [Fml.eval, Fml.evalAll, Term.eval, numT, hs, he, and_true]
      intro hh
      exact hP hh.1 hh.2
  | distance busy d ivs mode =>
      simp only [CBody.resMeaningF, Option.some.injEq] at hf; subst hf
      simp only [ResMeaning] at hm
      apply gapTwinF_sound ρ busy _ _ _ hm
      intro a b hP
      have hs : b.s.eval ρ = b.sV ρ := rfl
      have he : a.e.eval ρ = a.eV ρ := rfl
      unfold distanceGap
      simp only [Fml.eval]
      intro hc
      rw [distConds_eval_iff, hs, he] at hc
      have := hP hc
      rw [cmpRel_eval]
      simpa [Term.eval, numT, hs, he] using this
  | interrupted ws ivs =>
      simp only [CBody.resMeaningF] at hf
      split at hf
      · rename_i hwf
        simp only [Option.some.injEq] at hf; subst hf
        simp only [ResMeaning] at hm
        have hwf' : ∀ iv ∈ ivs, iv.1 < iv.2 := by
          intro iv hiv; simpa using (List.all_eq_true.1 hwf) iv hiv
        simp only [Fml.eval]; rw [evalAll_iff]
        intro a ha
        obtain ⟨w, hw, haw⟩ := List.mem_flatMap.1 ha
        obtain ⟨bt, hbt, habt⟩ := List.mem_flatMap.1 haw
        exact interruptedF_sound bt.1 bt.2 ivs ρ (hm hwf' w hw bt hbt) a habt
      · simp at hf
  | periodicallyInterrupted busy ivs period start offset end_ =>
      simp only [CBody.resMeaningF] at hf
      split at hf
      · rename_i hwf
        simp only [Option.some.injEq] at hf; subst hf
        simp only [ResMeaning] at hm
        simp only [Bool.and_eq_true, decide_eq_true_eq, List.all_eq_true] at hwf
        have hwf' : ∀ iv ∈ ivs, 0 ≤ iv.1 ∧ iv.1 < iv.2 ∧ iv.2 ≤ period := by
          intro iv hiv
          have := hwf.2 iv hiv
          exact ⟨this.1.1, this.1.2, this.2⟩
        simp only [Fml.eval]; rw [evalAll_iff]
        intro a ha
        obtain ⟨bt, hbt, habt⟩ := List.mem_flatMap.1 ha
        exact periodicInterruptedF_sound bt.1 bt.2 ivs period start offset end_ ρ
          (fun hmask => hm hwf.1 hwf' bt hbt hmask) a habt
      · simp at hf
  | sameWorkers s1 s2 =>
      simp only [CBody.resMeaningF, Option.some.injEq] at hf; subst hf
      simp only [ResMeaning] at hm
      simp only [Fml.eval]; rw [evalAll_iff]
      intro a ha
      obtain ⟨w, hw, rfl⟩ := List.mem_map.1 ha
      obtain ⟨hw1, hw2⟩ := List.mem_filter.1 hw
      have := hm w hw1 (by simpa using hw2)
      simp [Fml.eval, this]
  | distinctWorkers s1 s2 =>
      simp only [CBody.resMeaningF, Option.some.injEq] at hf; subst hf
      simp only [ResMeaning] at hm
      simp only [Fml.eval]; rw [evalAll_iff]
      intro a ha
      obtain ⟨w, hw, rfl⟩ := List.mem_map.1 ha
      obtain ⟨hw1, hw2⟩ := List.mem_filter.1 hw
      have := hm w hw1 (by simpa using hw2)
      simpa [Fml.eval, Fml.evalAll] using this
  | _ => simp [CBody.resMeaningF] at hf

/-- **the C04 twin follows from the assertions of `initialize`** -/
theorem C04_spec_sound (cfg : Config) (st : State) (ρ : Env) (hρ : Sat ρ (initFmls cfg st)) :
    Sat ρ (specC04 st) := by
  intro a ha
  unfold specC04 at ha
  obtain ⟨c, hc, hca⟩ := List.mem_filterMap.1 ha
  obtain ⟨hcm, hop⟩ := List.mem_filter.1 hc
  have hop' : c.operand = false := by simpa using hop
  cases hf : c.body.resMeaningF with
  | none => simp [hf] at hca
  | some f =>
      simp only [hf, Option.some.injEq] at hca
      have hpart := C10_constraint_part cfg st ρ hρ c hcm hop'
      by_cases hopt : c.optional = true
      · simp only [hopt, if_true] at hca; subst hca
        simp only [Fml.eval]
        intro happ
        have hd : c.body.direct = false := by
          cases hb : c.body <;> simp [hb, CBody.resMeaningF] at hf <;> rfl
        exact resMeaningF_sound c.id c.body ρ ((C10_optional c hopt hd ρ).1 hpart happ) f hf
      · have hopt' : c.optional = false := by simpa using hopt
        simp only [hopt', Bool.false_eq_true, if_false] at hca; subst hca
        apply resMeaningF_sound c.id c.body ρ _ _ hf
        rw [← C10_mandatory c hopt']
        exact hpart

theorem allOf_eval (ρ : Env) (os : List (List Fml)) : (allOf os).eval ρ ↔ ∀ o ∈ os, Holds o ρ := by
  unfold allOf
  simp only [Fml.eval]; rw [evalAll_iff]
  constructor
  · intro h o ho
    have := h _ (List.mem_map.2 ⟨o, ho, rfl⟩)
    simp only [Fml.eval] at this
    exact (evalAll_eq_Sat ρ o).1 this
  · intro h a ha
    obtain ⟨o, ho, rfl⟩ := List.mem_map.1 ha
    simp only [Fml.eval]
    exact (evalAll_eq_Sat ρ o).2 (h o ho)

/-- every clause of the C10 twin is implied by the raw assertions of its constraint -/
theorem meaningF_sound (c : Nat) (b : CBody) (ρ : Env) (h : Sat ρ (b.raw c)) (f : Fml)
    (hf : b.meaningF = some f) : f.eval ρ := by
  cases b with
  | not_ o =>
      simp only [CBody.meaningF, Option.some.injEq] at hf; subst hf
      have := (C10_connective_raw c (.not_ o) rfl ρ).1 h
      simp only [ConnMeaning] at this
      simp only [Fml.eval]; rw [evalAll_eq_Sat]; exact this
  | or_ os =>
      simp only [CBody.meaningF, Option.some.injEq] at hf; subst hf
      have := (C10_connective_raw c (.or_ os) rfl ρ).1 h
      simp only [ConnMeaning] at this
      obtain ⟨o, ho, hh⟩ := this
      simp only [Fml.eval]; rw [evalAny_iff]
      exact ⟨Fml.and o, List.mem_map.2 ⟨o, ho, rfl⟩, by simp only [Fml.eval]; exact (evalAll_eq_Sat ρ o).2 hh⟩
  | and_ os =>
      simp only [CBody.meaningF, Option.some.injEq] at hf; subst hf
      have := (C10_connective_raw c (.and_ os) rfl ρ).1 h
      simp only [ConnMeaning] at this
      exact (allOf_eval ρ os).2 this
  | xor_ o1 o2 =>
      simp only [CBody.meaningF, Option.some.injEq] at hf; subst hf
      have := (C10_connective_raw c (.xor_ o1 o2) rfl ρ).1 h
      simp only [ConnMeaning] at this
      simp only [Fml.eval]; rw [evalAll_eq_Sat, evalAll_eq_Sat]; exact this
  | implies cond os =>
      simp only [CBody.meaningF, Option.some.injEq] at hf; subst hf
      have := (C10_connective_raw c (.implies cond os) rfl ρ).1 h
      simp only [ConnMeaning] at this
      simp only [Fml.eval]
      intro hc; exact (allOf_eval ρ os).2 (this hc)
  | ifThenElse cond os1 os2 =>
      simp only [CBody.meaningF, Option.some.injEq] at hf; subst hf
      have := (C10_connective_raw c (.ifThenElse cond os1 os2) rfl ρ).1 h
      simp only [ConnMeaning] at this
      simp only [Fml.eval, Fml.evalAll, and_true]
      exact ⟨fun hc => (allOf_eval ρ os1).2 (this.1 hc), fun hc => (allOf_eval ρ os2).2 (this.2 hc)⟩
  | fromExpr g =>
      simp only [CBody.meaningF, Option.some.injEq] at hf; subst hf
      have := (C10_connective_raw c (.fromExpr g) rfl ρ).1 h
      simpa [ConnMeaning] using this
  | forceApplyN cs n k =>
      simp only [CBody.meaningF, Option.some.injEq] at hf; subst hf
      have := (C10_forceApplyN c cs n k ρ).1 h
      apply countF_sound
      rw [count_applied]
      exact this
  | _ => simp [CBody.meaningF] at hf

/-- **the C10 twin follows from the assertions of `initialize`** -/
theorem C10_spec_sound (cfg : Config) (st : State) (ρ : Env) (hρ : Sat ρ (initFmls cfg st)) :
    Sat ρ (specC10 st) := by
  intro a ha
  unfold specC10 at ha
  obtain ⟨c, hc, hca⟩ := List.mem_filterMap.1 ha
  obtain ⟨hcm, hop⟩ := List.mem_filter.1 hc
  have hop' : c.operand = false := by simpa using hop
  cases hf : c.body.meaningF with
  | none => simp [hf] at hca
  | some f =>
      simp only [hf, Option.some.injEq] at hca
      have hpart := C10_constraint_part cfg st ρ hρ c hcm hop'
      by_cases hopt : c.optional = true
      · simp only [hopt, if_true] at hca; subst hca
        simp only [Fml.eval]
        intro happ
        have hd : c.body.direct = false := by
          cases hb : c.body <;> simp [hb, CBody.meaningF] at hf <;> rfl
        exact meaningF_sound c.id c.body ρ ((C10_optional c hopt hd ρ).1 hpart happ) f hf
      · have hopt' : c.optional = false := by simpa using hopt
        simp only [hopt', Bool.false_eq_true, if_false] at hca; subst hca
        apply meaningF_sound c.id c.body ρ _ _ hf
        rw [← C10_mandatory c hopt']
        exact hpart

theorem maxT_eval (a b : Term) (ρ : Env) : (maxT a b).eval ρ = max (a.eval ρ) (b.eval ρ) := by
  unfold maxT
  simp only [Term.eval]
  by_cases h : (Fml.ge a b).eval ρ
  · rw [if_pos h]; simp only [Fml.eval] at h; omega
  · rw [if_neg h]; simp only [Fml.eval] at h; omega

theorem maxOfF_sound (v : Term) (xs : List Term) (ρ : Env) (h : IsMaxOf (v.eval ρ) (xs.map (fun t => t.eval ρ))) :
    (maxOfF v xs).eval ρ := by
  unfold maxOfF
  simp only [Fml.eval, Fml.evalAll]
  obtain ⟨hmem, hle⟩ := h
  constructor
  · rw [evalAny_iff]
    obtain ⟨x, hx, hxe⟩ := List.mem_map.1 hmem
    exact ⟨Fml.eq v x, List.mem_map.2 ⟨x, hx, rfl⟩, by simp only [Fml.eval]; exact hxe.symm⟩
  · rw [evalAll_iff]
    intro a ha
    obtain ⟨x, hx, rfl⟩ := List.mem_map.1 ha
    simp only [Fml.eval]
    exact hle _ (List.mem_map.2 ⟨x, hx, rfl⟩)

theorem minOfF_sound (v : Term) (xs : List Term) (ρ : Env) (h : IsMinOf (v.eval ρ) (xs.map (fun t => t.eval ρ))) :
    (minOfF v xs).eval ρ := by
  unfold minOfF
  simp only [Fml.eval, Fml.evalAll]
  obtain ⟨hmem, hle⟩ := h
  constructor
  · rw [evalAny_iff]
    obtain ⟨x, hx, hxe⟩ := List.mem_map.1 hmem
    exact ⟨Fml.eq v x, List.mem_map.2 ⟨x, hx, rfl⟩, by simp only [Fml.eval]; exact hxe.symm⟩
  · rw [evalAll_iff]
    intro a ha
    obtain ⟨x, hx, rfl⟩ := List.mem_map.1 ha
    simp only [Fml.eval]
    exact hle _ (List.mem_map.2 ⟨x, hx, rfl⟩)

theorem list_sum_congr {α} (l : List α) (f g : α → Int) (h : ∀ x ∈ l, f x = g x) : (l.map f).sum = (l.map g).sum := by
  induction l with
  | nil => rfl
  | cons x xs ih =>
      simp only [List.map_cons, List.sum_cons]
      rw [h x (by simp), ih (fun y hy => h y (by simp [hy]))]

/-- the clauses of the C08 twin that `IndicatorDef` covers -/
theorem defF_sound (v : Term) (b : IBody) (ρ : Env) (h : IndicatorDef ρ b (v.eval ρ)) (f : Fml)
    (hnc : ∀ items, b ≠ .resourceCost items) (hf : b.defF v = some f) : f.eval ρ := by
  cases b with
  | expr t extra =>
      simp only [IBody.defF, Option.some.injEq] at hf; subst hf
      simpa [IndicatorDef, Fml.eval] using h
  | utilization busy horizon =>
      cases horizon with
      | some hz =>
          simp only [IBody.defF, Option.some.injEq] at hf; subst hf
          simp only [IndicatorDef] at h
          simp only [Fml.eval, Term.eval, numT, sumOrZero_eval]
          rw [h]
          rfl
      | none =>
          simp only [IBody.defF, Option.some.injEq] at hf; subst hf
          simp only [IndicatorDef] at h
          simp only [Fml.eval, Term.eval, numT, sumOrZero_eval]
          rw [h]
          rfl
  | nbTasksAssigned busy =>
      simp only [IBody.defF, Option.some.injEq] at hf; subst hf
      simp only [IndicatorDef] at h
      simp only [Fml.eval, sumOrZero_eval]
      rw [h]
      apply list_sum_congr
      intro bz _
      have hs : bz.s.eval ρ = bz.sV ρ := rfl
      simp only [Term.eval, Fml.eval, numT, hs]
      by_cases hp : bz.sV ρ > -1
      · have : (0 : Int) ≤ bz.sV ρ := by omega
        simp [hp, this]
      · have : ¬ (0 : Int) ≤ bz.sV ρ := by omega
        simp [hp, this]
  | tardiness ts =>
      simp only [IBody.defF, Option.some.injEq] at hf; subst hf
      simp only [IndicatorDef] at h
      simp only [Fml.eval, sumOrZero_eval]
      rw [h]
      apply list_sum_congr
      intro t _
      unfold tardinessOf
      simp only [Term.eval, maxT_eval, numT, Task.eVar, Task.endV, Task.dueV]
      by_cases hs : Scheduled ρ t
      · rw [if_pos hs, if_pos ((schedF_eval t ρ).2 hs)]
      · rw [if_neg hs, if_neg (fun h' => hs ((schedF_eval t ρ).1 h'))]
  | earliness ts =>
      simp only [IBody.defF, Option.some.injEq] at hf; subst hf
      simp only [IndicatorDef] at h
      simp only [Fml.eval, sumOrZero_eval]
      rw [h]
      apply list_sum_congr
      intro t _
      unfold earlinessOf
      simp only [Term.eval, maxT_eval, numT, Task.eVar, Task.endV, Task.dueV]
      by_cases hs : Scheduled ρ t
      · rw [if_pos hs, if_pos ((schedF_eval t ρ).2 hs)]
      · rw [if_neg hs, if_neg (fun h' => hs ((schedF_eval t ρ).1 h'))]
  | nbTardy ts =>
      simp only [IBody.defF, Option.some.injEq] at hf; subst hf
      simp only [IndicatorDef] at h
      simp only [Fml.eval, sumOrZero_eval]
      rw [h]
      apply list_sum_congr
      intro t _
      unfold isTardy
      simp only [Term.eval]
      have hiff : (Fml.gt t.eVar (numT (t.due.getD 0))).eval ρ ↔ t.endV ρ > t.dueV := by
        simp [Fml.eval, Term.eval, numT, Task.eVar, Task.endV, Task.dueV]
      by_cases hq : t.endV ρ > t.dueV
      · rw [if_pos hq, if_pos (hiff.2 hq)]; rfl
      · rw [if_neg hq, if_neg (fun h' => hq (hiff.1 h'))]; rfl
  | maxLateness ts =>
      simp only [IBody.defF, Option.some.injEq] at hf; subst hf
      simp only [IndicatorDef] at h
      apply maxOfF_sound
      simpa [List.map_map, Function.comp_def, Term.eval, numT, Task.eVar, Task.endV, Task.dueV] using h
  | maxBuffer levels =>
      simp only [IBody.defF, Option.some.injEq] at hf; subst hf
      exact maxOfF_sound v levels ρ h
  | minBuffer levels =>
      simp only [IBody.defF, Option.some.injEq] at hf; subst hf
      exact minOfF_sound v levels ρ h
  | resourceCost items => exact absurd rfl (hnc items)
  | _ => simp [IBody.defF] at hf

theorem evalSum_append (ρ : Env) (a b : List Term) : Term.evalSum ρ (a ++ b) = Term.evalSum ρ a + Term.evalSum ρ b := by
  induction a with
  | nil => simp [Term.evalSum]
  | cons x xs ih => simp only [List.cons_append, Term.evalSum, ih]; omega

theorem costTerms_const (k : Int) (ρ : Env) : ∀ (busy : List BusyRef),
    Term.evalSum ρ (costTerms (.const k) busy).1 = (busy.map (fun b => k * (b.eV ρ - b.sV ρ))).sum ∧
    (costTerms (.const k) busy).2 = []
  | [] => by simp [costTerms, Term.evalSum]
  | b :: rest => by
      have ih := (costTerms_const k ρ rest).1
      refine ⟨?_, rfl⟩
      have hs : b.s.eval ρ = b.sV ρ := rfl
      have he : b.e.eval ρ = b.eV ρ := rfl
      simp only [costTerms] at ih ⊢
      by_cases h0 : k = 0
      · subst h0
        simp only [List.filterMap_cons, beq_self_eq_true, if_true, List.map_cons, List.sum_cons] at ih ⊢
        rw [ih]; omega
      · have hb0 : (k == 0) = false := by simpa using h0
        by_cases h1 : k = 1
        · subst h1
          simp only [List.filterMap_cons, hb0, Bool.false_eq_true, if_false, beq_self_eq_true, if_true, Term.evalSum,
            List.map_cons, List.sum_cons, Term.eval, hs, he] at ih ⊢
          rw [ih]; omega
        · have hb1 : (k == 1) = false := by simpa using h1
          simp only [List.filterMap_cons, hb0, hb1, Bool.false_eq_true, if_false, Term.evalSum,
            List.map_cons, List.sum_cons, Term.eval, numT, hs, he] at ih ⊢
          rw [ih]

/-- sum of the constant-cost terms of all items, as the twin writes it -/
theorem costTwin_eval (ρ : Env) : ∀ (items : List (Cost × List BusyRef)),
    items.all (fun it => it.1.isConst) = true →
    Term.evalSum ρ (items.flatMap (fun (it : Cost × List BusyRef) => (costTerms it.1 it.2).1)) =
      (sumOrZero (items.flatMap constCostTerms)).eval ρ ∧
    items.flatMap (fun (it : Cost × List BusyRef) => (costTerms it.1 it.2).2) = []
  | [], _ => by simp [Term.evalSum, sumOrZero, Term.eval, numT]
  | (c, busy) :: rest, h => by
      simp only [List.all_cons, Bool.and_eq_true] at h
      obtain ⟨ih1, ih2⟩ := costTwin_eval ρ rest h.2
      cases c with
      | const k =>
          obtain ⟨h1, h2⟩ := costTerms_const k ρ busy
          refine ⟨?_, by simp [h2, ih2]⟩
          simp only [List.flatMap_cons, evalSum_append, h1, ih1, constCostTerms]
          -- right-hand side: sumOrZero of an append
          have hsz : ∀ l : List Term, (sumOrZero l).eval ρ = Term.evalSum ρ l := by
            intro l
            unfold sumOrZero
            cases l with
            | nil => simp [Term.eval, Term.evalSum, numT]
            | cons x xs => simp [Term.eval]
          rw [hsz, hsz, evalSum_append]
          congr 1
          rw [evalSum_map]
          apply list_sum_congr
          intro b _
          rfl
      | linear a b => simp [Cost.isConst] at h
      | poly cs => simp [Cost.isConst] at h

theorem sumOrZero_evalSum (ρ : Env) (l : List Term) : (sumOrZero l).eval ρ = Term.evalSum ρ l := by
  unfold sumOrZero
  cases l with
  | nil => simp [Term.eval, Term.evalSum, numT]
  | cons x xs => simp [Term.eval]

/-- constant and trapezoid parts of all items without polynomial cost, as the twin writes them -/
theorem costTwin_eval2 (ρ : Env) : ∀ (items : List (Cost × List BusyRef)),
    items.all (fun it => !it.1.isPoly) = true →
    Term.evalSum ρ (items.flatMap (fun (it : Cost × List BusyRef) => (costTerms it.1 it.2).1)) =
      (sumOrZero (items.flatMap constCostTerms)).eval ρ ∧
    Term.evalSum ρ (items.flatMap (fun (it : Cost × List BusyRef) => (costTerms it.1 it.2).2)) =
      (sumOrZero (items.flatMap linCostTerms)).eval ρ
  | [], _ => by simp [Term.evalSum, sumOrZero, Term.eval, numT]
  | (c, busy) :: rest, h => by
      simp only [List.all_cons, Bool.and_eq_true] at h
      obtain ⟨ih1, ih2⟩ := costTwin_eval2 ρ rest h.2
      rw [sumOrZero_evalSum] at ih1 ih2
      rw [sumOrZero_evalSum, sumOrZero_evalSum]
      simp only [List.flatMap_cons, evalSum_append, ih1, ih2]
      cases c with
      | const k =>
          obtain ⟨h1, h2⟩ := costTerms_const k ρ busy
          refine ⟨?_, by simp [h2, linCostTerms, Term.evalSum]⟩
          rw [h1]
          congr 1
          simp only [constCostTerms]
          rw [evalSum_map]
          apply list_sum_congr
          intro b _
          rfl
      | linear a b =>
          refine ⟨by simp [costTerms, constCostTerms, Term.evalSum], ?_⟩
          congr 1
      | poly cs => simp [Cost.isPoly] at h

theorem costDefF_sound (i : Nat) (v : Term) (items : List (Cost × List BusyRef)) (ρ : Env)
    (h : Sat ρ ((IBody.resourceCost items).fmls i v)) (f : Fml)
    (hf : (IBody.resourceCost items).defF v = some f) : f.eval ρ := by
  simp only [IBody.defF] at hf
  by_cases hall : items.all (fun it => it.1.isConst) = true
  · rw [if_pos hall] at hf
    simp only [Option.some.injEq] at hf; subst hf
    obtain ⟨h1, h2⟩ := costTwin_eval ρ items hall
    simp only [IBody.fmls] at h
    have hvs : (items.flatMap (fun (x : Cost × List BusyRef) => (costTerms x.1 x.2).2)).isEmpty = true := by
      rw [h2]; rfl
    simp only [Fml.eval]
    rw [← h1]
    by_cases hcs : (items.flatMap (fun (x : Cost × List BusyRef) => (costTerms x.1 x.2).1)).isEmpty = true
    · have hnil : items.flatMap (fun (x : Cost × List BusyRef) => (costTerms x.1 x.2).1) = [] := by
        simpa using hcs
      have := h (Fml.reqZero v) (by simp [hvs, hcs])
      simp only [Fml.eval] at this
      rw [this, hnil]; rfl
    · have := h (Fml.reqSum v (.sum (items.flatMap (fun (x : Cost × List BusyRef) => (costTerms x.1 x.2).1)))) (by
        simp [hvs, hcs])
      simpa [Fml.eval, Term.eval] using this
  · rw [if_neg hall] at hf
    by_cases hnp : items.all (fun it => !it.1.isPoly) = true
    · rw [if_pos hnp] at hf
      simp only [Option.some.injEq] at hf; subst hf
      obtain ⟨h1, h2⟩ := costTwin_eval2 ρ items hnp
      simp only [IBody.fmls] at h
      simp only [Fml.eval, Term.eval, numT_eval]
      rw [← h1, ← h2]
      by_cases hvs : (items.flatMap (fun (x : Cost × List BusyRef) => (costTerms x.1 x.2).2)).isEmpty = true
      · have hvnil : items.flatMap (fun (x : Cost × List BusyRef) => (costTerms x.1 x.2).2) = [] := by simpa using hvs
        by_cases hcs : (items.flatMap (fun (x : Cost × List BusyRef) => (costTerms x.1 x.2).1)).isEmpty = true
        · have hcnil : items.flatMap (fun (x : Cost × List BusyRef) => (costTerms x.1 x.2).1) = [] := by simpa using hcs
          have := h (Fml.reqZero v) (by simp [hvs, hcs])
          simp only [Fml.eval] at this
          rw [this, hvnil, hcnil]; simp [Term.evalSum]
        · have := h (Fml.reqSum v (.sum (items.flatMap (fun (x : Cost × List BusyRef) => (costTerms x.1 x.2).1)))) (by
            simp [hvs, hcs])
          simp only [Fml.eval, Term.eval] at this
          rw [this, hvnil]; simp [Term.evalSum]
      · by_cases hcs : (items.flatMap (fun (x : Cost × List BusyRef) => (costTerms x.1 x.2).1)).isEmpty = true
        · have hcnil : items.flatMap (fun (x : Cost × List BusyRef) => (costTerms x.1 x.2).1) = [] := by simpa using hcs
          have := h (Fml.eq v (.add (numT 0) (.div (.sum (items.flatMap (fun (x : Cost × List BusyRef) => (costTerms x.1 x.2).2))) (numT 2)))) (by
            simp [hvs, hcs])
          simp only [Fml.eval, Term.eval, numT_eval] at this
          rw [this, hcnil]; simp [Term.evalSum]
        · have := h (Fml.eq v (.add (.sum (items.flatMap (fun (x : Cost × List BusyRef) => (costTerms x.1 x.2).1)))
              (.div (.sum (items.flatMap (fun (x : Cost × List BusyRef) => (costTerms x.1 x.2).2))) (numT 2)))) (by
            simp [hvs, hcs])
          simp only [Fml.eval, Term.eval, numT_eval] at this
          exact this
    · rw [if_neg hnp] at hf
      simp at hf

/-- **the C08 twin follows from the assertions of `initialize`** -/
theorem C08_spec_sound (cfg : Config) (st : State) (ρ : Env) (hρ : Sat ρ (initFmls cfg st)) :
    Sat ρ (specC08 st) := by
  unfold specC08
  rw [Sat.append]
  constructor
  · intro a ha
    obtain ⟨ind, hi, hf⟩ := List.mem_filterMap.1 ha
    by_cases hcost : ∃ items, ind.body = .resourceCost items
    · obtain ⟨items, hb⟩ := hcost
      rw [hb] at hf
      apply costDefF_sound ind.id (.var ind.var) items ρ _ a hf
      intro x hx
      apply hρ x
      apply mem_init_indicator hi
      unfold Indicator.asserts
      rw [hb]; exact hx
    · have hdef := C08_indicator_value cfg st ρ hρ ind hi
      apply defF_sound (.var ind.var) ind.body ρ (by simpa [Term.eval] using hdef) a _ hf
      intro items hb
      exact hcost ⟨items, hb⟩
  · intro a ha
    obtain ⟨c, hc, hca⟩ := List.mem_flatMap.1 ha
    obtain ⟨hcm, hop⟩ := List.mem_filter.1 hc
    have hop' : c.operand = false := by simpa using hop
    obtain ⟨ht, hb⟩ := C08_target_bounds cfg st ρ hρ c hcm hop'
    cases hbody : c.body with
    | indicatorTarget v value =>
        simp only [hbody, List.mem_singleton] at hca; subst hca
        simpa [Fml.eval, Term.eval, numT] using ht v value hbody
    | indicatorBounds v lo hi =>
        simp only [hbody, List.mem_append] at hca
        obtain ⟨h1, h2⟩ := hb v lo hi hbody
        rcases hca with hca | hca
        · cases lo with
          | none => simp at hca
          | some l =>
              simp only [List.mem_singleton] at hca; subst hca
              simpa [Fml.eval, Term.eval, numT] using h1 l rfl
        · cases hi with
          | none => simp at hca
          | some u =>
              simp only [List.mem_singleton] at hca; subst hca
              simpa [Fml.eval, Term.eval, numT] using h2 u rfl
    | _ => simp [hbody] at hca

/-- **every SEM twin at once.** -/
theorem SEM_twins_sound (cfg : Config) (st : State) (ρ : Env) (hρ : Sat ρ (initFmls cfg st))
    (hwf : ∀ ev ∈ st.reqLog, ev.WF) :
    Sat ρ (specC01 st ++ specC02 st ++ specC03 st ++ specC04 st ++ specC08 st ++ specC10 st ++ specC09 st) := by
  simp only [Sat.append]
  refine ⟨⟨⟨⟨⟨⟨C01_spec_sound cfg st ρ hρ, C02_spec_sound cfg st ρ hρ hwf⟩, C03_spec_sound cfg st ρ hρ⟩,
    C04_spec_sound cfg st ρ hρ⟩, C08_spec_sound cfg st ρ hρ⟩, C10_spec_sound cfg st ρ hρ⟩, ?_⟩
  intro a ha
  unfold specC09 at ha
  obtain ⟨b, hb, hab⟩ := List.mem_flatMap.1 ha
  exact C09_spec_sound st b ρ (fun x hx => hρ x (mem_init_buffer hb hx)) a hab

end PS
