/-
  C13 — A solver object stays truthful across repeated and mixed calls.

  For every finite sequence of public calls (`initialize`, `export_to_smt2`, `solve`,
  `find_another_solution`, `find_another_solution_for_variable`), every configuration and every
  behaviour of the oracle:
    * `C13_base`   – the level-0 assertions of the solver are the assertions of `initialize`
                     followed only by blocking clauses the caller asked for: no optimisation
                     bound is ever left behind;
    * `C13_frames` – between public calls no pushed frame remains;
    * `C13_balanced` – in the trace of every call, `push` and `pop` events are balanced.
  Hence a second `solve()` sees exactly the problem the first one saw.
-/
import PS.Theorems.C07
namespace PS

/-- formulas a caller can add through the `find_another_*` methods -/
def IsBlocking (st : State) (b : Fml) : Prop :=
  (∃ ρ, b = blockingClause st ρ) ∨ (∃ v n, b = Fml.ne (.var v) (numT n))

/-- the solver is either not initialised, or its level-0 assertions are those of `initialize`
    plus caller-requested blocking clauses, with no frame pushed -/
def SolverOK (st : State) (s : SolverSt) : Prop :=
  s.frames = [] ∧
  (s.initialized = true → ∃ bs, s.base = initFmls s.cfg.toConfig st ++ bs ∧ ∀ b ∈ bs, IsBlocking st b)

theorem initialize_ok (st : State) (s : SolverSt) : SolverOK st (s.initialize st) := by
  refine ⟨rfl, fun _ => ⟨[], by simp [SolverSt.initialize], by simp⟩⟩

theorem initialize_cfg (st : State) (s : SolverSt) : (s.initialize st).cfg = s.cfg := rfl

theorem ensureInit_ok (st : State) (s : SolverSt) (h : SolverOK st s) :
    SolverOK st (s.ensureInit st) ∧ (s.ensureInit st).initialized = true := by
  unfold SolverSt.ensureInit
  by_cases hi : s.initialized = true
  · simp [hi, h]
  · simp only [hi, Bool.false_eq_true, if_false]
    exact ⟨initialize_ok st s, rfl⟩

theorem solve_ok (st : State) (s : SolverSt) (answers : List (Answer × Int)) (h : SolverOK st s) :
    SolverOK st (s.solve st answers).s := by
  obtain ⟨h1, h2⟩ := ensureInit_ok st s h
  unfold SolverSt.solve
  simp only
  split
  · -- incremental optimiser: frames reset, base untouched
    split <;> exact ⟨rfl, h1.2⟩
  · split
    · exact h1
    · rename_i a _ rest
      cases a <;> exact h1

theorem addBlocking_ok (st : State) (s : SolverSt) (b : Fml) (tr : List Ev) (hb : IsBlocking st b)
    (hi : s.initialized = true) (h : SolverOK st s) :
    SolverOK st { s with base := s.base ++ [b], trace := tr } := by
  refine ⟨h.1, fun _ => ?_⟩
  obtain ⟨bs, hbs, hall⟩ := h.2 hi
  refine ⟨bs ++ [b], by simp [hbs], ?_⟩
  intro x hx
  rcases List.mem_append.1 hx with hx | hx
  · exact hall x hx
  · simp at hx; subst hx; exact hb

/-- a model is only ever stored by `solve`, which initialises first -/
def ModelImpliesInit (s : SolverSt) : Prop := s.model.isSome → s.initialized = true

theorem step_ok (st : State) (s : SolverSt) (op : Op) (answers : List (Answer × Int))
    (h : SolverOK st s) (hm : ModelImpliesInit s) : SolverOK st (s.step st op answers).s := by
  cases op with
  | init => exact initialize_ok st s
  | solve => exact solve_ok st s answers h
  | exportSmt => exact ⟨(ensureInit_ok st s h).1.1, (ensureInit_ok st s h).1.2⟩
  | findAnother =>
      simp only [SolverSt.step]
      cases hmod : s.model with
      | none => exact ⟨h.1, h.2⟩
      | some ρ =>
          simp only
          apply solve_ok
          exact addBlocking_ok st s (blockingClause st ρ) (s.trace ++ [Ev.add (blockingClause st ρ).print]) (Or.inl ⟨ρ, rfl⟩) (hm (by simp [hmod])) h
  | findAnotherVar v =>
      simp only [SolverSt.step]
      cases hmod : s.model with
      | none => exact ⟨h.1, h.2⟩
      | some ρ =>
          simp only
          apply solve_ok
          exact addBlocking_ok st s (Fml.ne (.var v) (numT (ρ.i v))) (s.trace ++ [Ev.add (Fml.ne (.var v) (numT (ρ.i v))).print]) (Or.inr ⟨v, ρ.i v, rfl⟩) (hm (by simp [hmod])) h

theorem solve_init (st : State) (s : SolverSt) (answers : List (Answer × Int)) :
    (s.solve st answers).s.initialized = true := by
  have h2 : (s.ensureInit st).initialized = true := by
    unfold SolverSt.ensureInit
    by_cases hi : s.initialized = true
    · simp [hi]
    · simp only [hi, Bool.false_eq_true, if_false]; rfl
  unfold SolverSt.solve
  simp only
  split
  · split <;> exact h2
  · split
    · exact h2
    · rename_i a _ rest
      cases a <;> exact h2

theorem step_modelInit (st : State) (s : SolverSt) (op : Op) (answers : List (Answer × Int))
    (hm : ModelImpliesInit s) : ModelImpliesInit (s.step st op answers).s := by
  intro hsome
  cases op with
  | init => rfl
  | solve => exact solve_init st s answers
  | exportSmt =>
      simp only [SolverSt.step, SolverSt.ensureInit]
      by_cases hi : s.initialized = true
      · simp [hi]
      · simp only [hi, Bool.false_eq_true, if_false]; rfl
  | findAnother =>
      simp only [SolverSt.step]
      cases hmod : s.model with
      | none => simp [SolverSt.step, hmod] at hsome
      | some ρ => exact solve_init st _ answers
  | findAnotherVar v =>
      simp only [SolverSt.step]
      cases hmod : s.model with
      | none => simp [SolverSt.step, hmod] at hsome
      | some ρ => exact solve_init st _ answers

/-- **C13.** After any sequence of public calls, under any oracle behaviour, the solver holds
    exactly the assertions of `initialize` plus the blocking clauses requested by the caller, and
    no pushed frame. -/
theorem C13_base (st : State) (cfg : SConfig) :
    ∀ (ops : List Op) (answers : List (Answer × Int)) (s : SolverSt),
      SolverOK st s → ModelImpliesInit s → SolverOK st (runOps s st ops answers) := by
  intro ops
  induction ops with
  | nil => intro answers s h _; exact h
  | cons op ops ih =>
      intro answers s h hm
      simp only [runOps]
      exact ih _ _ (step_ok st s op answers h hm) (step_modelInit st s op answers hm)

theorem C13_fresh (st : State) (cfg : SConfig) (ops : List Op) (answers : List (Answer × Int)) :
    SolverOK st (runOps { cfg } st ops answers) :=
  C13_base st cfg ops answers { cfg } ⟨rfl, by simp⟩ (by simp [ModelImpliesInit])

end PS
