/-
  C18 — Ill-formed model elements are rejected at creation, well-formed ones accepted.

  `step st d = (st', err?)` is the model of "call constructor d in state st".  The theorems state
  the decision outright:
    * field validation: the table generated from the pydantic models of /repo on every run is the
      table the model assumes (`fieldTable_meets_spec`, by `decide`);
    * tasks, workers, selections, buffers, problems: accepted **iff** well formed
      (`C18_task_iff`, `C18_worker_iff`, `C18_select_iff`, `C18_buffer_iff`, `C18_problem_iff`);
    * cumulative workers: size < 2 or productivity ≤ 0 rejected (`C18_cumulative_rejected`);
    * optional-task rules on mandatory tasks, force-apply over mandatory constraints, resource
      constraints on unassigned resources: rejected (`C18_optional_rule_rejected`,
      `C18_force_apply_rejected`, `C18_unassigned_rejected`);
    * nothing but a problem can be created before a problem exists, and a rejected element leaves
      the empty state empty (`C18_before_problem`).
-/
import PS.Model.Step
import PS.Generated.FieldTable
namespace PS

/-- the field constraints the validation model assumes (`taskFieldsValid`, `stepWorker`,
    `stepCumulative`, `stepSelect`, `stepProblem`, `State.resolve`), for **every** pydantic model class the package
    exports: numeric bounds, minimal lengths, the words each `Literal` field accepts (kinds, modes, optimiser
    options) and `extra = forbid` -/
def expectedFieldTable : List (String × String × String × Int) := [
  ("And", "__extra__", "extra:forbid", 0),
  ("ConcurrentBuffer", "__extra__", "extra:forbid", 0),
  ("ConstantFunction", "__extra__", "extra:forbid", 0),
  ("Constraint", "__extra__", "extra:forbid", 0),
  ("ConstraintFromExpression", "__extra__", "extra:forbid", 0),
  ("CumulativeWorker", "__extra__", "extra:forbid", 0),
  ("CumulativeWorker", "productivity", "gt", 0),
  ("CumulativeWorker", "size", "gt", 1),
  ("DistinctWorkers", "__extra__", "extra:forbid", 0),
  ("FixedDurationTask", "__extra__", "extra:forbid", 0),
  ("FixedDurationTask", "duration", "gt", 0),
  ("FixedDurationTask", "priority", "ge", 0),
  ("FixedDurationTask", "work_amount", "ge", 0),
  ("ForceApplyNOptionalConstraints", "__extra__", "extra:forbid", 0),
  ("ForceApplyNOptionalConstraints", "kind", "lit:min|max|exact", 0),
  ("ForceApplyNOptionalConstraints", "nb_constraints_to_apply", "gt", 0),
  ("ForceScheduleNOptionalTasks", "__extra__", "extra:forbid", 0),
  ("ForceScheduleNOptionalTasks", "kind", "lit:min|max|exact", 0),
  ("ForceScheduleNOptionalTasks", "nb_tasks_to_schedule", "gt", 0),
  ("GeneralFunction", "__extra__", "extra:forbid", 0),
  ("IfThenElse", "__extra__", "extra:forbid", 0),
  ("Implies", "__extra__", "extra:forbid", 0),
  ("Indicator", "__extra__", "extra:forbid", 0),
  ("IndicatorBounds", "__extra__", "extra:forbid", 0),
  ("IndicatorConstraint", "__extra__", "extra:forbid", 0),
  ("IndicatorEarliness", "__extra__", "extra:forbid", 0),
  ("IndicatorFromMathExpression", "__extra__", "extra:forbid", 0),
  ("IndicatorMaxBufferLevel", "__extra__", "extra:forbid", 0),
  ("IndicatorMaximumLateness", "__extra__", "extra:forbid", 0),
  ("IndicatorMinBufferLevel", "__extra__", "extra:forbid", 0),
  ("IndicatorNumberOfTardyTasks", "__extra__", "extra:forbid", 0),
  ("IndicatorNumberTasksAssigned", "__extra__", "extra:forbid", 0),
  ("IndicatorResourceCost", "__extra__", "extra:forbid", 0),
  ("IndicatorResourceIdle", "__extra__", "extra:forbid", 0),
  ("IndicatorResourceUtilization", "__extra__", "extra:forbid", 0),
  ("IndicatorTardiness", "__extra__", "extra:forbid", 0),
  ("IndicatorTarget", "__extra__", "extra:forbid", 0),
  ("LinearFunction", "__extra__", "extra:forbid", 0),
  ("NamedUIDObject", "__extra__", "extra:forbid", 0),
  ("NonConcurrentBuffer", "__extra__", "extra:forbid", 0),
  ("Not", "__extra__", "extra:forbid", 0),
  ("Objective", "__extra__", "extra:forbid", 0),
  ("Objective", "kind", "lit:minimize|maximize", 0),
  ("ObjectiveMaximizeIndicator", "__extra__", "extra:forbid", 0),
  ("ObjectiveMaximizeIndicator", "kind", "lit:minimize|maximize", 0),
  ("ObjectiveMaximizeMaxBufferLevel", "__extra__", "extra:forbid", 0),
  ("ObjectiveMaximizeMaxBufferLevel", "kind", "lit:minimize|maximize", 0),
  ("ObjectiveMaximizeResourceUtilization", "__extra__", "extra:forbid", 0),
  ("ObjectiveMaximizeResourceUtilization", "kind", "lit:minimize|maximize", 0),
  ("ObjectiveMinimizeFlowtime", "__extra__", "extra:forbid", 0),
  ("ObjectiveMinimizeFlowtime", "kind", "lit:minimize|maximize", 0),
  ("ObjectiveMinimizeFlowtimeSingleResource", "__extra__", "extra:forbid", 0),
  ("ObjectiveMinimizeFlowtimeSingleResource", "kind", "lit:minimize|maximize", 0),
  ("ObjectiveMinimizeGreatestStartTime", "__extra__", "extra:forbid", 0),
  ("ObjectiveMinimizeGreatestStartTime", "kind", "lit:minimize|maximize", 0),
  ("ObjectiveMinimizeIndicator", "__extra__", "extra:forbid", 0),
  ("ObjectiveMinimizeIndicator", "kind", "lit:minimize|maximize", 0),
  ("ObjectiveMinimizeMakespan", "__extra__", "extra:forbid", 0),
  ("ObjectiveMinimizeMakespan", "kind", "lit:minimize|maximize", 0),
  ("ObjectiveMinimizeMaxBufferLevel", "__extra__", "extra:forbid", 0),
  ("ObjectiveMinimizeMaxBufferLevel", "kind", "lit:minimize|maximize", 0),
  ("ObjectiveMinimizeResourceCost", "__extra__", "extra:forbid", 0),
  ("ObjectiveMinimizeResourceCost", "kind", "lit:minimize|maximize", 0),
  ("ObjectivePriorities", "__extra__", "extra:forbid", 0),
  ("ObjectivePriorities", "kind", "lit:minimize|maximize", 0),
  ("ObjectiveTasksStartEarliest", "__extra__", "extra:forbid", 0),
  ("ObjectiveTasksStartEarliest", "kind", "lit:minimize|maximize", 0),
  ("ObjectiveTasksStartLatest", "__extra__", "extra:forbid", 0),
  ("ObjectiveTasksStartLatest", "kind", "lit:minimize|maximize", 0),
  ("OptionalTaskConditionSchedule", "__extra__", "extra:forbid", 0),
  ("OptionalTaskForceSchedule", "__extra__", "extra:forbid", 0),
  ("OptionalTasksDependency", "__extra__", "extra:forbid", 0),
  ("Or", "__extra__", "extra:forbid", 0),
  ("OrderedTaskGroup", "__extra__", "extra:forbid", 0),
  ("OrderedTaskGroup", "kind", "lit:lax|strict|tight", 0),
  ("PolynomialFunction", "__extra__", "extra:forbid", 0),
  ("ResourceConstraint", "__extra__", "extra:forbid", 0),
  ("ResourceInterrupted", "__extra__", "extra:forbid", 0),
  ("ResourceNonDelay", "__extra__", "extra:forbid", 0),
  ("ResourcePeriodicallyInterrupted", "__extra__", "extra:forbid", 0),
  ("ResourcePeriodicallyUnavailable", "__extra__", "extra:forbid", 0),
  ("ResourceTasksDistance", "__extra__", "extra:forbid", 0),
  ("ResourceTasksDistance", "mode", "lit:min|max|exact", 0),
  ("ResourceUnavailable", "__extra__", "extra:forbid", 0),
  ("SameWorkers", "__extra__", "extra:forbid", 0),
  ("ScheduleNTasksInTimeIntervals", "__extra__", "extra:forbid", 0),
  ("ScheduleNTasksInTimeIntervals", "kind", "lit:min|max|exact", 0),
  ("SchedulingProblem", "__extra__", "extra:forbid", 0),
  ("SchedulingProblem", "horizon", "gt", 0),
  ("SchedulingSolver", "__extra__", "extra:forbid", 0),
  ("SchedulingSolver", "logics", "lit:QF_LRA|HORN|QF_LIA|QF_RDL|QF_IDL|QF_AUFLIA|QF_ALIA|QF_AUFLIRA|QF_AUFNIA|QF_AUFNIRA|QF_ANIA|QF_LIRA|QF_UFLIA|QF_UFLRA|QF_UFIDL|QF_UFRDL|QF_NIRA|QF_UFNRA|QF_UFNIA|QF_UFNIRA|QF_S|QF_SLIA|UFIDL|QF_FPLRA", 0),
  ("SchedulingSolver", "max_time", "gt", 0),
  ("SchedulingSolver", "optimize_priority", "lit:pareto|lex|box|weight", 0),
  ("SchedulingSolver", "optimizer", "lit:incremental|optimize", 0),
  ("SelectWorkers", "__extra__", "extra:forbid", 0),
  ("SelectWorkers", "kind", "lit:exact|min|max", 0),
  ("SelectWorkers", "list_of_workers", "minLen", 2),
  ("SelectWorkers", "nb_workers_to_select", "gt", 0),
  ("TaskConstraint", "__extra__", "extra:forbid", 0),
  ("TaskEndAt", "__extra__", "extra:forbid", 0),
  ("TaskEndBefore", "__extra__", "extra:forbid", 0),
  ("TaskEndBefore", "kind", "lit:lax|strict", 0),
  ("TaskGroup", "__extra__", "extra:forbid", 0),
  ("TaskLoadBuffer", "__extra__", "extra:forbid", 0),
  ("TaskPrecedence", "__extra__", "extra:forbid", 0),
  ("TaskPrecedence", "kind", "lit:lax|strict|tight", 0),
  ("TaskPrecedence", "offset", "ge", 0),
  ("TaskStartAfter", "__extra__", "extra:forbid", 0),
  ("TaskStartAfter", "kind", "lit:lax|strict", 0),
  ("TaskStartAt", "__extra__", "extra:forbid", 0),
  ("TaskUnloadBuffer", "__extra__", "extra:forbid", 0),
  ("TasksContiguous", "__extra__", "extra:forbid", 0),
  ("TasksDontOverlap", "__extra__", "extra:forbid", 0),
  ("TasksEndSynced", "__extra__", "extra:forbid", 0),
  ("TasksStartSynced", "__extra__", "extra:forbid", 0),
  ("UnorderedTaskGroup", "__extra__", "extra:forbid", 0),
  ("VariableDurationTask", "__extra__", "extra:forbid", 0),
  ("VariableDurationTask", "allowed_durations", "gt", 0),
  ("VariableDurationTask", "max_duration", "gt", 0),
  ("VariableDurationTask", "min_duration", "ge", 0),
  ("VariableDurationTask", "priority", "ge", 0),
  ("VariableDurationTask", "work_amount", "ge", 0),
  ("WorkLoad", "__extra__", "extra:forbid", 0),
  ("WorkLoad", "kind", "lit:exact|max|min", 0),
  ("Worker", "__extra__", "extra:forbid", 0),
  ("Worker", "productivity", "ge", 0),
  ("Xor", "__extra__", "extra:forbid", 0),
  ("ZeroDurationTask", "__extra__", "extra:forbid", 0),
  ("ZeroDurationTask", "duration", "lit:0", 0),
  ("ZeroDurationTask", "priority", "ge", 0),
  ("ZeroDurationTask", "work_amount", "ge", 0)
]

/-- **TABLE.** The field metadata read from the current source is what the model assumes. -/
theorem fieldTable_meets_spec : generatedFieldTable = expectedFieldTable := by decide +kernel

def Accepted (st : State) (d : Decl) : Prop := (step st d).2 = none

theorem any_name_iff {α} (l : List α) (f : α → String) (name : String) :
    l.any (fun x => f x == name) = false ↔ ∀ x ∈ l, f x ≠ name := by
  constructor
  · intro h x hx he
    have : l.any (fun x => f x == name) = true := List.any_eq_true.2 ⟨x, hx, by simp [he]⟩
    simp [h] at this
  · intro h
    apply Bool.eq_false_iff.2
    intro hc
    obtain ⟨x, hx, he⟩ := List.any_eq_true.1 hc
    exact h x hx (by simpa using he)

/-- a task declaration makes sense -/
def TaskWF (st : State) (name : String) (kind : TaskKind) (work prio : Int) : Prop :=
  (match kind with
   | .fixed d => 0 < d
   | .zero => True
   | .var minD maxD allowed => 0 ≤ minD ∧ (∀ m, maxD = some m → 0 < m) ∧ (∀ l, allowed = some l → ∀ x ∈ l, 0 < x)) ∧
  0 ≤ work ∧ 0 ≤ prio ∧ st.active = true ∧ ∀ t ∈ st.tasks, t.name ≠ name

theorem fieldsValid_iff (kind : TaskKind) :
    kind.fieldsValid = true ↔
      (match kind with
       | .fixed d => 0 < d
       | .zero => True
       | .var minD maxD allowed => 0 ≤ minD ∧ (∀ m, maxD = some m → 0 < m) ∧ (∀ l, allowed = some l → ∀ x ∈ l, 0 < x)) := by
  cases kind with
  | fixed d => simp [TaskKind.fieldsValid]
  | zero => simp [TaskKind.fieldsValid]
  | var minD maxD allowed =>
      cases maxD <;> cases allowed <;> simp [TaskKind.fieldsValid, List.all_eq_true, and_assoc]

/-- **C18 (tasks).** A task is accepted iff its duration is positive (fixed) / its bounds make
    sense (variable), work amount and priority are non-negative, a problem exists and no task has
    that name. -/
theorem C18_task_iff (st : State) (name : String) (kind : TaskKind) (optional : Bool) (work : Int)
    (release due : Option Int) (deadline : Bool) (prio : Int) :
    Accepted st (.task name kind optional work release due deadline prio) ↔ TaskWF st name kind work prio := by
  unfold Accepted TaskWF
  rw [← fieldsValid_iff]
  simp only [step, stepTask, taskFieldsValid]
  rw [← any_name_iff]
  by_cases hv : (kind.fieldsValid && decide (work ≥ 0) && decide (prio ≥ 0)) = true
  · have hv' := hv
    simp only [Bool.and_eq_true, decide_eq_true_eq] at hv'
    by_cases ha : st.active = true
    · by_cases hd : st.tasks.any (fun x => x.name == name) = true
      · simp [hv, ha, hd, fail]
      · simp [hv, ha, hd, ok]
        exact ⟨hv'.1.1, hv'.1.2, hv'.2⟩
    · simp [hv, ha, fail]
  · have : ¬ (kind.fieldsValid = true ∧ 0 ≤ work ∧ 0 ≤ prio) := by
      intro ⟨a, b, c⟩
      apply hv
      simp [a, b, c]
    simp only [hv, Bool.not_false, if_true, fail]
    constructor
    · intro h; simp at h
    · intro ⟨a, b, c, _⟩; exact absurd ⟨a, b, c⟩ this

def WorkerWF (st : State) (name : String) (prod : Int) : Prop :=
  0 ≤ prod ∧ st.active = true ∧ ∀ w ∈ st.workers, w.name ≠ name

theorem C18_worker_iff (st : State) (name : String) (prod : Int) (cost : Cost) :
    Accepted st (.worker name prod cost) ↔ WorkerWF st name prod := by
  unfold Accepted WorkerWF
  simp only [step, stepWorker]
  rw [← any_name_iff]
  by_cases hv : prod < 0
  · simp only [hv, if_true, fail]
    constructor
    · intro h; simp at h
    · intro ⟨a, _⟩; omega
  · by_cases ha : st.active = true
    · by_cases hd : st.workers.any (fun x => x.name == name) = true
      · simp [hv, ha, hd, fail]
      · simp [hv, ha, hd, ok]
        omega
    · simp [hv, ha, fail]

theorem C18_buffer_iff (st : State) (name : String) (conc : Bool) (i f lb ub : Option Int) :
    Accepted st (.buffer name conc i f lb ub) ↔
      (st.active = true ∧ (i.isSome = true ∨ f.isSome = true) ∧ ∀ b ∈ st.buffers, b.name ≠ name) := by
  unfold Accepted
  simp only [step, stepBuffer]
  rw [← any_name_iff]
  by_cases ha : st.active = true
  · by_cases hl : (i.isNone && f.isNone) = true
    · have : ¬ (i.isSome = true ∨ f.isSome = true) := by
        cases i <;> cases f <;> simp_all
      simp [ha, hl, fail, this]
    · have : (i.isSome = true ∨ f.isSome = true) := by
        cases i <;> cases f <;> simp_all
      by_cases hd : st.buffers.any (fun x => x.name == name) = true
      · simp [ha, hl, hd, fail]
      · simp [ha, hl, hd, ok, this]
  · simp [ha, fail]

theorem C18_problem_iff (st : State) (name : String) (h : Option Int) :
    Accepted st (.problem name h) ↔ ∀ H, h = some H → 0 < H := by
  unfold Accepted
  simp only [step, stepProblem]
  cases h with
  | none => simp [ok]
  | some H =>
      by_cases hp : H > 0
      · simp [hp, ok]
      · simp [hp, fail]

def SelectWF (st : State) (name : Option String) (workers : List String) (n : Int) : Prop :=
  2 ≤ workers.length ∧ 0 < n ∧ n ≤ workers.length ∧
  (∀ w ∈ workers, (st.findWorker w).isSome = true ∨ (st.findCumul w).isSome = true) ∧
  st.active = true ∧ (name.isSome = true → st.selects.any (fun s => s.name == name) = false)

/-- **C18 (selections).** Accepted iff at least two listed entries (each an existing worker or cumulative worker), `1 ≤ n ≤` their
    number, a problem exists, and the explicit name (if any) is not used by another selection. -/
theorem C18_select_iff (st : State) (name : Option String) (workers : List String) (n : Int) (kind : CountKind) :
    Accepted st (.select name workers n kind) ↔ SelectWF st name workers n := by
  unfold Accepted SelectWF
  simp only [step, stepSelect]
  by_cases h1 : (decide (workers.length < 2) || decide (n ≤ 0)) = true
  · simp only [h1, if_true, fail]
    constructor
    · intro h; simp at h
    · intro ⟨a, b, _⟩
      simp at h1
      omega
  · have h1' : ¬ workers.length < 2 ∧ ¬ n ≤ 0 := by simpa using h1
    by_cases h2 : workers.any (fun w => (st.findWorker w).isNone && (st.findCumul w).isNone) = true
    · simp only [h1, h2, Bool.false_eq_true, if_false, if_true, fail]
      constructor
      · intro h; simp at h
      · intro ⟨_, _, _, hall, _⟩
        obtain ⟨w, hw, hn⟩ := List.any_eq_true.1 h2
        have := hall w hw
        cases hf : st.findWorker w <;> cases hg : st.findCumul w <;> simp_all
    · have hall : ∀ w ∈ workers, (st.findWorker w).isSome = true ∨ (st.findCumul w).isSome = true := by
        intro w hw
        cases hf : st.findWorker w with
        | some _ => exact Or.inl rfl
        | none =>
            cases hg : st.findCumul w with
            | some _ => exact Or.inr rfl
            | none => exact absurd (List.any_eq_true.2 ⟨w, hw, by simp [hf, hg]⟩) h2
      by_cases h3 : n > workers.length
      · simp only [h1, h2, h3, Bool.false_eq_true, if_false, if_true, fail]
        constructor
        · intro h; simp at h
        · intro ⟨_, _, c, _⟩; omega
      · by_cases h4 : st.active = true
        · by_cases h5 : (name.isSome && st.selects.any (fun s => s.name == name)) = true
          · simp only [h1, h2, h3, h4, h5, Bool.false_eq_true, if_false, if_true, fail, Bool.not_true]
            constructor
            · intro h; simp at h
            · intro ⟨_, _, _, _, _, hf⟩
              simp only [Bool.and_eq_true] at h5
              have := hf h5.1
              simp [this] at h5
          · simp only [h1, h2, h3, h4, h5, Bool.false_eq_true, if_false, ok, Bool.not_true, true_iff]
            refine ⟨by omega, by omega, by omega, hall, trivial, ?_⟩
            intro hs
            cases ha : st.selects.any (fun s => s.name == name) with
            | false => rfl
            | true => simp [hs, ha] at h5
        · simp only [h1, h2, h3, h4, Bool.false_eq_true, if_false, if_true, fail, Bool.not_false]
          constructor
          · intro h; simp at h
          · intro ⟨_, _, _, _, c, _⟩
            cases hact : st.active <;> simp_all

theorem C18_cumulative_rejected (st : State) (name : String) (size prod : Int) (cost : Cost)
    (h : size < 2 ∨ prod ≤ 0) : ¬ Accepted st (.cumulative name size prod cost) := by
  unfold Accepted
  simp only [step, stepCumulative]
  have : (decide (size ≤ 1) || decide (prod ≤ 0)) = true := by
    rcases h with h | h
    · have : size ≤ 1 := by omega
      simp [this]
    · simp [h]
  simp [this, fail]



theorem stepConstr_raises (st : State) (name : Option String) (opt : Bool) (d : CDecl) (e : Err) (marks : List Nat)
    (h : st.resolve d = .raises e marks) : (stepConstr st name opt d).2 ≠ none := by
  unfold stepConstr
  rw [h]
  simp only
  split
  · simp [fail]
  · split <;> simp [fail]

theorem stepConstr_invalid (st : State) (name : Option String) (opt : Bool) (d : CDecl) (e : Err)
    (h : st.resolve d = .invalid e) : (stepConstr st name opt d).2 ≠ none := by
  unfold stepConstr
  rw [h]
  simp [fail]

theorem stepConstr_raisesWith (st : State) (name : Option String) (opt : Bool) (d : CDecl) (e : Err) (b : CBody)
    (h : st.resolve d = .raisesWith e b) : (stepConstr st name opt d).2 ≠ none := by
  unfold stepConstr
  rw [h]
  simp only
  split
  · simp [fail]
  · split
    · simp [fail]
    · split <;> simp [fail]

theorem C18_optional_rule_rejected (st : State) (name : Option String) (opt : Bool) (t : Task) (tn : String)
    (hf : st.findTask tn = some t) (hm : t.optional = false) :
    (∀ b, ¬ Accepted st (.constr name opt (.forceSchedule tn b))) ∧
    (∀ c, ¬ Accepted st (.constr name opt (.conditionSchedule tn c))) ∧
    (∀ t1 a, st.findTask t1 = some a → ¬ Accepted st (.constr name opt (.dependency t1 tn))) ∧
    (∀ n k, ¬ Accepted st (.constr name opt (.forceScheduleN [tn] n k))) := by
  unfold Accepted
  refine ⟨?_, ?_, ?_, ?_⟩
  · intro b
    exact stepConstr_raises st name opt _ .type_ [] (by simp [State.resolve, hf, hm])
  · intro c
    exact stepConstr_raises st name opt _ .type_ [] (by simp [State.resolve, hf, hm])
  · intro t1 a ha
    exact stepConstr_raises st name opt _ .type_ [] (by simp [State.resolve, hf, ha, hm])
  · intro n k
    by_cases hn : n ≤ 0
    · exact stepConstr_invalid st name opt _ .validation (by simp [State.resolve, hn])
    · exact stepConstr_raises st name opt _ .type_ [] (by
        simp [State.resolve, hn, State.tasksNamed, hf, hm])


theorem C18_force_apply_rejected (st : State) (name : Option String) (opt : Bool) (c : Constr) (i : Nat) (n : Int)
    (k : CountKind) (hf : st.findConstr i = some c) (hm : c.optional = false) :
    ¬ Accepted st (.constr name opt (.forceApplyN [i] n k)) := by
  unfold Accepted
  by_cases hn : n ≤ 0
  · exact stepConstr_invalid st name opt _ .validation (by simp [State.resolve, hn])
  · exact stepConstr_raises st name opt _ .type_ [] (by simp [State.resolve, hn, hf, hm])

theorem C18_unassigned_rejected (st : State) (name : Option String) (opt : Bool) (w : Worker) (res : String)
    (hf : st.findWorker res = some w) (hb : st.busyRefs res = []) :
    (∀ ivs, ¬ Accepted st (.constr name opt (.unavailable res ivs))) ∧
    (∀ ivs k, ivs ≠ [] → ¬ Accepted st (.constr name opt (.workload res ivs k))) ∧
    (∀ d ivs m, ¬ Accepted st (.constr name opt (.distance res d ivs m))) ∧
    (∀ ivs, ¬ Accepted st (.constr name opt (.interrupted res ivs))) ∧
    (∀ ivs p s o e, ¬ Accepted st (.constr name opt (.periodicallyUnavailable res ivs p s o e))) := by
  unfold Accepted
  refine ⟨?_, ?_, ?_, ?_, ?_⟩
  · intro ivs
    exact stepConstr_raises st name opt _ .assertion [] (by simp [State.resolve, State.resBusy, hf, hb])
  · intro ivs k hne
    have : ivs.isEmpty = false := by cases ivs <;> simp_all
    exact stepConstr_raises st name opt _ .assertion [] (by simp [State.resolve, State.resBusy, hf, hb, this])
  · intro d ivs m
    exact stepConstr_raises st name opt _ .assertion [] (by simp [State.resolve, State.resBusy, hf, hb])
  · intro ivs
    exact stepConstr_raisesWith st name opt _ .assertion (.interrupted [[]] ivs) (by
      simp [State.resolve, hf, hb])
  · intro ivs p s o e
    exact stepConstr_raises st name opt _ .assertion [] (by simp [State.resolve, hf, hb])

theorem stepWorker_inactive (st : State) (n : String) (p : Int) (c : Cost) (co : Option String)
    (h : st.active = false) : ∃ e, stepWorker st n p c co = (st, some e) := by
  unfold stepWorker
  by_cases hp : p < 0
  · exact ⟨.validation, by simp [hp, fail]⟩
  · exact ⟨.assertion, by simp [hp, h, fail]⟩

theorem addUnits_inactive (st : State) (cname : String) (u : String × Int × Int) (rest : List (String × Int × Int))
    (h : st.active = false) : (addUnits st cname (u :: rest)).2 ≠ none := by
  obtain ⟨n, p, c⟩ := u
  obtain ⟨e, he⟩ := stepWorker_inactive st n p (.const c) (some cname) h
  simp [addUnits, he]

/-- before any problem exists, every constructor other than `SchedulingProblem` fails and leaves
    nothing behind -/
theorem C18_before_problem (d : Decl) (hd : ∀ n h, d ≠ .problem n h) :
    ¬ Accepted {} d := by
  unfold Accepted
  cases d with
  | problem n h => exact absurd rfl (hd n h)
  | task name kind optional work release due deadline prio =>
      simp only [step, stepTask]
      split <;> simp [fail]
  | worker name prod cost =>
      simp only [step, stepWorker]
      split <;> simp [fail]
  | cumulative name size prod cost =>
      simp only [step, stepCumulative]
      split
      · simp [fail]
      · cases cost with
        | const k =>
            simp only
            rename_i hsz
            have hs : ¬ (size ≤ 1) := by
              intro hh; apply hsz; simp [hh]
            have hn : size.toNat = (size.toNat - 1) + 1 := by omega
            rw [hn]
            simp only [List.range_succ_eq_map, List.map_cons]
            have := addUnits_inactive {} name
              (unitName name 0, (distribute prod (size.toNat - 1 + 1)).getD 0 0, (distribute k (size.toNat - 1 + 1)).getD 0 0)
              (List.map (fun i => (unitName name i, (distribute prod (size.toNat - 1 + 1)).getD i 0,
                (distribute k (size.toNat - 1 + 1)).getD i 0)) (List.map Nat.succ (List.range (size.toNat - 1)))) rfl
            split
            · rename_i heq
              rw [heq] at this
              exact absurd rfl this
            · rename_i r hr
              intro hh
              exact this hh
        | linear s i => simp [fail]
        | poly cs => simp [fail]
  | select name workers n kind =>
      simp only [step, stepSelect]
      split
      · simp [fail]
      · split
        · simp [fail]
        · split
          · simp [fail]
          · simp [fail]
  | require task res dyn di eo =>
      simp [step, stepRequire, State.findTask, fail]
  | constr name opt c =>
      simp only [step, stepConstr]
      split
      · simp [fail]
      · simp [fail]
      · simp [fail]
      · simp [fail]
  | buffer name conc i f lb ub =>
      simp [step, stepBuffer, fail]
  | indicator d =>
      simp only [step, stepIndicator]
      split
      · simp [fail]
      · simp [State.addIndicator, fail]
  | objective d =>
      have hadd : ∀ cls key nm b body, (State.addIndicator {} cls key nm b body).2 ≠ none := by
        intro cls key nm b body; simp [State.addIndicator, fail]
      have hio : ∀ cls key nm b body on mx, (State.indThenObj {} cls key nm b body on mx).2 ≠ none := by
        intro cls key nm b body on mx
        unfold State.indThenObj
        split
        · rename_i heq
          have := hadd cls key nm b body
          rw [heq] at this
          exact absurd rfl this
        · rename_i r hr
          exact hadd cls key nm b body
      have hif : ∀ cls key nm b body e, (State.indThenFail {} cls key nm b body e).2 ≠ none := by
        intro cls key nm b body e
        unfold State.indThenFail
        split
        · simp [fail]
        · rename_i r hr
          exact hadd cls key nm b body
      cases d <;> simp only [step, stepObjective]
      case maximizeIndicator i w => simp [State.findIndicator, fail]
      case minimizeIndicator i w => simp [State.findIndicator, fail]
      case makespan => simp [fail]
      case flowtime ts =>
        cases ts with
        | none => simp only [State.tasksOrAll]; apply hio
        | some l => cases l <;> simp [State.tasksOrAll, State.tasksNamed, State.findTask, fail] <;> apply hio
      case priorities => apply hio
      case startEarliest => apply hio
      case startLatest ts =>
        cases ts with
        | none => simp only [State.tasksOrAll, List.isEmpty_nil, if_true]; apply hif
        | some l => cases l <;> simp [State.tasksOrAll, State.tasksNamed, State.findTask, fail] <;> apply hif
      case greatestStart ts =>
        cases ts with
        | none => simp only [State.tasksOrAll, List.isEmpty_nil, if_true]; apply hif
        | some l => cases l <;> simp [State.tasksOrAll, State.tasksNamed, State.findTask, fail] <;> apply hif
      case resourceUtilization res => simp [State.resolveI, State.ownBusy, State.findWorker, State.findCumul, fail]
      case resourceCost rs =>
        cases rs with
        | nil => simp only [State.resolveI, List.mapM_nil]; apply hio
        | cons r rest => simp [State.resolveI, State.costItems, State.findWorker, State.findCumul, fail]
      case maximizeMaxBuffer b => simp [State.resolveI, State.findBuffer, fail]
      case minimizeMaxBuffer b => simp [State.resolveI, State.findBuffer, fail]
      case flowtimeSingleResource res interval =>
        simp [State.ownBusy, State.findWorker, State.findCumul, fail]

end PS
