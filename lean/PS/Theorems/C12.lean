/-
  C12 — Asking for another solution enumerates distinct valid schedules, exhaustively.

  `blockingClause st ρ` is the clause `find_another_solution` adds for the current model ρ.
  * `blockingClause_eval`: an interpretation satisfies it iff it differs from ρ in some task's
    start, end or (for optional tasks) scheduled flag;
  * `C12_distinct`: any model the oracle returns for a stack containing the clauses of earlier
    models differs, in that sense, from every one of them, and satisfies `initialize`'s assertions;
  * `C12_exhaustive`: an `unsat` answer means every admitted interpretation has the timing of a
    schedule already returned;
  * `C12_variable`: the clause of `find_another_solution_for_variable` forces a different value.
  With `C13_base` (the clauses are never removed, nothing else is added) this covers every call
  sequence.
-/
import PS.Theorems.C13
namespace PS

/-- ρ' has the same timing as ρ on every task (start, end, scheduled flag of optional tasks) -/
def SameTiming (st : State) (ρ ρ' : Env) : Prop :=
  ∀ t ∈ st.tasks, ρ'.i (.tStart t.name) = ρ.i (.tStart t.name) ∧ ρ'.i (.tEnd t.name) = ρ.i (.tEnd t.name) ∧
    (t.optional = true → ρ'.b (.sched t.name) = ρ.b (.sched t.name))

theorem blockingClause_eval (st : State) (ρ ρ' : Env) :
    (blockingClause st ρ).eval ρ' ↔ ¬ SameTiming st ρ ρ' := by
  unfold blockingClause SameTiming
  simp only [Fml.eval]
  rw [evalAny_iff]
  constructor
  · rintro ⟨a, ha, hev⟩ hsame
    obtain ⟨t, ht, hat⟩ := List.mem_flatMap.1 ha
    obtain ⟨h1, h2, h3⟩ := hsame t ht
    simp only [List.mem_append, List.mem_cons, List.mem_singleton, List.not_mem_nil, or_false] at hat
    rcases hat with (rfl | rfl) | hat
    · simp [Fml.eval, Term.eval, Task.sVar, numT, h1] at hev
    · simp [Fml.eval, Term.eval, Task.eVar, numT, h2] at hev
    · by_cases ho : t.optional = true
      · simp only [ho, if_true, List.mem_singleton] at hat
        subst hat
        have h3' := h3 ho
        by_cases hb : ρ.b (.sched t.name) = true
        · simp [Fml.eval, hb, h3'] at hev
        · simp [Fml.eval, hb, h3'] at hev
      · simp [ho] at hat
  · intro hns
    have hns' : ∃ t, t ∈ st.tasks ∧ ¬ (ρ'.i (.tStart t.name) = ρ.i (.tStart t.name) ∧ ρ'.i (.tEnd t.name) = ρ.i (.tEnd t.name) ∧
        (t.optional = true → ρ'.b (.sched t.name) = ρ.b (.sched t.name))) := by
      apply Classical.byContradiction
      intro hc
      apply hns
      intro t ht
      apply Classical.byContradiction
      intro hn
      exact hc ⟨t, ht, hn⟩
    obtain ⟨t, ht, hne⟩ := hns'
    by_cases h1 : ρ'.i (.tStart t.name) = ρ.i (.tStart t.name)
    · by_cases h2 : ρ'.i (.tEnd t.name) = ρ.i (.tEnd t.name)
      · have h3 : ¬ (t.optional = true → ρ'.b (.sched t.name) = ρ.b (.sched t.name)) := by
          intro h; exact hne ⟨h1, h2, h⟩
        simp only [Classical.not_imp] at h3
        obtain ⟨ho, hb⟩ := h3
        refine ⟨Fml.neb (.bvar (.sched t.name)) (if ρ.b (.sched t.name) then .tt else .ff), ?_, ?_⟩
        · exact List.mem_flatMap.2 ⟨t, ht, by simp [ho]⟩
        · by_cases hr : ρ.b (.sched t.name) = true
          · simp [Fml.eval, hr] at hb ⊢; simpa using hb
          · simp [Fml.eval, hr] at hb ⊢; simpa using hb
      · refine ⟨Fml.ne t.eVar (numT (ρ.i (.tEnd t.name))), List.mem_flatMap.2 ⟨t, ht, by simp⟩, ?_⟩
        simpa [Fml.eval, Term.eval, Task.eVar, numT] using h2
    · refine ⟨Fml.ne t.sVar (numT (ρ.i (.tStart t.name))), List.mem_flatMap.2 ⟨t, ht, by simp⟩, ?_⟩
      simpa [Fml.eval, Term.eval, Task.sVar, numT] using h1

/-- **C12 (distinct, valid).** If the assertion stack is `initialize`'s assertions followed by the
    blocking clauses of the models returned so far (C13_base), a consistent `sat ρ'` answer is a
    valid schedule that differs in timing from every model returned before. -/
theorem C12_distinct (st : State) (cfg : Config) (prev : List Env) (extra : List Fml) (ρ' : Env)
    (h : ConsistentAns (initFmls cfg st ++ prev.map (blockingClause st) ++ extra) (.sat ρ')) :
    Sat ρ' (initFmls cfg st) ∧ ∀ ρ ∈ prev, ¬ SameTiming st ρ ρ' := by
  simp only [ConsistentAns] at h
  rw [Sat.append, Sat.append] at h
  refine ⟨h.1.1, ?_⟩
  intro ρ hρ
  rw [← blockingClause_eval]
  exact h.1.2 _ (List.mem_map.2 ⟨ρ, hρ, rfl⟩)

/-- **C12 (exhaustive).** `find_another_solution` fails on an `unsat` answer only when every
    schedule admitted by the problem has the timing of one already returned. -/
theorem C12_exhaustive (st : State) (cfg : Config) (prev : List Env)
    (h : ConsistentAns (initFmls cfg st ++ prev.map (blockingClause st)) .unsat) :
    ∀ ρ', Sat ρ' (initFmls cfg st) → ∃ ρ ∈ prev, SameTiming st ρ ρ' := by
  intro ρ' hρ'
  simp only [ConsistentAns] at h
  apply Classical.byContradiction
  intro hno
  apply h
  refine ⟨ρ', ?_⟩
  rw [Sat.append]
  refine ⟨hρ', ?_⟩
  intro b hb
  obtain ⟨ρ, hρ, rfl⟩ := List.mem_map.1 hb
  rw [blockingClause_eval]
  intro hs
  exact hno ⟨ρ, hρ, hs⟩

/-- **C12 (another value for a variable).** -/
theorem C12_variable (v : IVar) (ρ ρ' : Env) (stack : List Fml)
    (hin : Fml.ne (.var v) (numT (ρ.i v)) ∈ stack) (h : ConsistentAns stack (.sat ρ')) : ρ'.i v ≠ ρ.i v := by
  have := h _ hin
  simpa [Fml.eval, Term.eval, numT] using this

/-- the clause the model adds is the one these theorems are about -/
theorem C12_step_adds_clause (st : State) (s : SolverSt) (ρ : Env) (answers : List (Answer × Int))
    (hm : s.model = some ρ) (hi : s.initialized = true) :
    ∃ tr, (s.step st .findAnother answers).s = ({ s with base := s.base ++ [blockingClause st ρ], trace := tr }.solve st answers).s := by
  simp only [SolverSt.step, hm]
  exact ⟨_, rfl⟩

end PS
