/-
  PS.Theorems.CleanSpec — the specification `Valid` without the encoding's parking instants.

  `Valid.no_overlap` is stated on *every* entry of a worker's busy dictionary under the witness interpretation,
  parked intervals of unscheduled tasks and unselected workers included, so a reader has to trust that parked
  intervals never get in the way.  Here the clause is restated on the *real* intervals only —

      two different scheduled tasks that both really use a worker (required directly, or selected) have disjoint
      busy intervals on it                                                                  (`RealNoOverlap`)

  — and proved **equivalent** to the original (`Valid_iff_clean`) for problems of the fragment whose delays stay
  below the task number.  That hypothesis is exactly the recorded defect F19 (a delayed requirement of an
  unscheduled optional task keeps its worker busy at non-negative instants): with it the documented meaning and the
  encoder's agree, without it they do not — the theorem says where the line is.
-/
import PS.Theorems.Absent
namespace PS

/-- the requirement really occupies its worker: the task is scheduled and, through a selection, the worker selected -/
def Sched.active (σ : Sched) (t : Task) (r : Req) : Bool :=
  σ.isSched t && (match r.sel with | some s => σ.sel s r.worker | none => true)

/-- the interval a really occupied worker is busy: the task span (selection), the joined span (dynamic), the span
    shortened by the declared delays (static) -/
def realBusy (σ : Sched) (t : Task) (r : Req) : Int × Int :=
  match r.sel with
  | some _ => (σ.start t.name, σ.end_ t.name)
  | none =>
      if r.dynamic then (σ.dynS r.worker t.name, σ.dynE r.worker t.name)
      else (σ.start t.name + max 0 r.delayIn, σ.end_ t.name - max 0 r.earlyOut)

theorem busyOfReq_active (σ : Sched) (t : Task) (r : Req) (h : σ.active t r = true) :
    busyOfReq σ t r = realBusy σ t r := by
  unfold Sched.active at h
  simp only [Bool.and_eq_true] at h
  unfold busyOfReq realBusy tStartOf tEndOf
  cases hs : r.sel with
  | some s => simp only [hs] at h; simp [h.1, h.2]
  | none => simp [h.1]

/-- no worker is really busy with two different scheduled tasks at overlapping times -/
def RealNoOverlap (st : State) (σ : Sched) : Prop :=
  ∀ w ∈ st.workers, ∀ t1 ∈ st.tasks, ∀ t2 ∈ st.tasks, t1.name ≠ t2.name →
    ∀ r1 ∈ st.reqsOf t1.name, ∀ r2 ∈ st.reqsOf t2.name, r1.worker = w.name → r2.worker = w.name →
      σ.active t1 r1 = true → σ.active t2 r2 = true →
        (realBusy σ t1 r1).2 ≤ (realBusy σ t2 r2).1 ∨ (realBusy σ t2 r2).2 ≤ (realBusy σ t1 r1).1

/-- `Valid` with the non-overlap clause stated on real intervals only -/
structure ValidClean (st : State) (σ : Sched) : Prop where
  horizon_nonneg : 0 ≤ σ.horizon
  horizon_le : ∀ H, st.horizon = some H → σ.horizon ≤ H
  tasks : ∀ t ∈ st.tasks, σ.isSched t = true → TaskValid σ t
  dyn : ∀ t ∈ st.tasks, ∀ r ∈ st.reqsOf t.name, r.sel = none → r.dynamic = true → σ.isSched t = true → DynValid σ t r
  counts : ∀ t ∈ st.tasks, ∀ s rs, ReqEvent.viaSelect t.name s rs true ∈ st.eventsOf t.name →
    CountOK s.kind (σ.nSelected s) s.n
  no_overlap : RealNoOverlap st σ
  work : ∀ t ∈ st.tasks, 0 < t.work → workTerms st t ≠ [] → σ.isSched t = true →
    t.work ≤ Term.evalSum (envOf st σ) (workTerms st t)
  constrs : ∀ c ∈ st.constrs, c.operand = false → (c.optional = true → σ.applied c.id = true) → CoreMeaning st σ c.body

/-- a requirement that does not really occupy its worker gives it an empty or inverted interval before time 0 -/
theorem busyOfReq_inactive (σ : Sched) (t : Task) (r : Req) (h : σ.active t r = false) (hdel : r.delayIn ≤ t.num0) :
    (busyOfReq σ t r).2 ≤ (busyOfReq σ t r).1 ∧ (busyOfReq σ t r).2 < 0 := by
  by_cases hs : σ.isSched t = true
  · -- scheduled, hence through a selection that did not pick the worker
    unfold Sched.active at h
    simp only [hs, Bool.true_and] at h
    unfold busyOfReq
    cases hsel : r.sel with
    | none => simp [hsel] at h
    | some s =>
        simp only [hsel] at h
        simp only [h, Bool.false_eq_true, if_false, Req.past]
        omega
  · have hs' : σ.isSched t = false := by cases hh : σ.isSched t <;> simp_all
    obtain ⟨a, b, _⟩ := busyOfReq_unscheduled σ t r hs' hdel
    exact ⟨a, b⟩

/-- an entry of a worker's busy dictionary belongs to a declared task and to one of its requirements on that worker -/
theorem busy_entry (st : State) (σ : Sched) (hc : InCoreS st) (w : String) (e : String × Bool)
    (he : e ∈ st.busyOf w) :
    ∃ t ∈ st.tasks, ∃ r ∈ st.reqsOf t.name, t.name = e.1 ∧ r.worker = w ∧
      (envOf st σ).i (.busyS w e.1 e.2) = (busyOfReq σ t r).1 ∧ (envOf st σ).i (.busyE w e.1 e.2) = (busyOfReq σ t r).2 := by
  obtain ⟨ev, hev, r, hr, h1, h2, h3⟩ := busyOf_mem st w e he
  obtain ⟨t, ht, hn⟩ := hc.req_tasks ev hev
  have hev' : ev ∈ st.eventsOf t.name := List.mem_filter.2 ⟨hev, by simp [hn]⟩
  have hrr : r ∈ st.reqsOf t.name := List.mem_flatMap.2 ⟨ev, hev', hr⟩
  obtain ⟨e1, e2⟩ := envOf_busy st σ t r r.maybe (hc.names t ht) (hc.reqs t ht r hrr)
  refine ⟨t, ht, r, hrr, hn.trans h2, h1, ?_, ?_⟩
  · rw [← h1, ← h2, ← h3, ← hn]; exact e1
  · rw [← h1, ← h2, ← h3, ← hn]; exact e2

theorem pairwise_of_forall_ne {α} (R : α → α → Prop) (l : List α) (hnd : l.Nodup)
    (h : ∀ a ∈ l, ∀ b ∈ l, a ≠ b → R a b) : l.Pairwise R := by
  induction l with
  | nil => exact List.Pairwise.nil
  | cons x xs ih =>
      rw [List.nodup_cons] at hnd
      rw [List.pairwise_cons]
      refine ⟨?_, ih hnd.2 (fun a ha b hb => h a (List.mem_cons_of_mem _ ha) b (List.mem_cons_of_mem _ hb))⟩
      intro y hy
      exact h x (List.mem_cons_self ..) y (List.mem_cons_of_mem _ hy) (fun hxy => hnd.1 (hxy ▸ hy))

theorem forall_of_pairwise_symm {α} (R : α → α → Prop) (hsymm : ∀ a b, R a b → R b a) (l : List α)
    (hp : l.Pairwise R) : ∀ a ∈ l, ∀ b ∈ l, a ≠ b → R a b := by
  induction l with
  | nil => intro a ha; simp at ha
  | cons x xs ih =>
      rw [List.pairwise_cons] at hp
      intro a ha b hb hne
      rcases List.mem_cons.1 ha with rfl | ha' <;> rcases List.mem_cons.1 hb with rfl | hb'
      · exact absurd rfl hne
      · exact hp.1 b hb'
      · exact hsymm _ _ (hp.1 a ha')
      · exact ih hp.2 a ha' b hb' hne

/-- the delays of every requirement stay below the task number (what finding F19 violates) -/
def DelaysBelowNumber (st : State) : Prop := ∀ t ∈ st.tasks, ∀ r ∈ st.reqsOf t.name, r.delayIn ≤ t.num0

/-- the two non-overlap clauses say the same, given the rest of a valid schedule -/
theorem no_overlap_iff_real (st : State) (σ : Sched) (hc : InCoreS st) (hdel : DelaysBelowNumber st)
    (htasks : ∀ t ∈ st.tasks, σ.isSched t = true → TaskValid σ t)
    (hdyn : ∀ t ∈ st.tasks, ∀ r ∈ st.reqsOf t.name, r.sel = none → r.dynamic = true → σ.isSched t = true → DynValid σ t r) :
    (∀ w ∈ st.workers, (st.busyOf w.name).Pairwise (Disjoint2 (envOf st σ) w.name)) ↔ RealNoOverlap st σ := by
  have symm : ∀ (w : String) (a b : String × Bool), Disjoint2 (envOf st σ) w a b → Disjoint2 (envOf st σ) w b a := by
    intro w a b h; unfold Disjoint2 at h ⊢; exact h.symm
  constructor
  · intro h w hw t1 ht1 t2 ht2 hne r1 hr1 r2 hr2 hw1 hw2 ha1 ha2
    have hall := forall_of_pairwise_symm _ (symm w.name) _ (h w hw)
    -- the dictionary entries of the two tasks
    obtain ⟨m1, he1⟩ := (busyOf_keys st w.name t1.name).2 ⟨r1, hr1, hw1⟩
    obtain ⟨m2, he2⟩ := (busyOf_keys st w.name t2.name).2 ⟨r2, hr2, hw2⟩
    have hd := hall (t1.name, m1) he1 (t2.name, m2) he2 (by intro heq; exact hne (congrArg Prod.fst heq))
    -- their values under the witness interpretation
    have v1 := envOf_busy st σ t1 r1 m1 (hc.names t1 ht1) (hc.reqs t1 ht1 r1 hr1)
    have v2 := envOf_busy st σ t2 r2 m2 (hc.names t2 ht2) (hc.reqs t2 ht2 r2 hr2)
    unfold Disjoint2 at hd
    rw [hw1] at v1; rw [hw2] at v2
    simp only at hd
    rw [v1.1, v1.2, v2.1, v2.2, busyOfReq_active σ t1 r1 ha1, busyOfReq_active σ t2 r2 ha2] at hd
    exact hd
  · intro h w hw
    have hkeys := busyOf_keys_nodup st w.name
    refine pairwise_of_forall_ne _ _ (List.Nodup.of_map _ hkeys) ?_
    intro a ha b hb hab
    have hk : a.1 ≠ b.1 := fun hk => hab (eq_of_key_nodup _ hkeys a b ha hb hk)
    obtain ⟨t1, ht1, r1, hr1, hn1, hw1, s1, e1⟩ := busy_entry st σ hc w.name a ha
    obtain ⟨t2, ht2, r2, hr2, hn2, hw2, s2, e2⟩ := busy_entry st σ hc w.name b hb
    have hne : t1.name ≠ t2.name := by rw [hn1, hn2]; exact hk
    unfold Disjoint2
    rw [s1, e1, s2, e2]
    by_cases ha1 : σ.active t1 r1 = true
    · by_cases ha2 : σ.active t2 r2 = true
      · have := h w hw t1 ht1 t2 ht2 hne r1 hr1 r2 hr2 hw1 hw2 ha1 ha2
        rw [busyOfReq_active σ t1 r1 ha1, busyOfReq_active σ t2 r2 ha2]
        exact this
      · have i2 := busyOfReq_inactive σ t2 r2 (by cases hh : σ.active t2 r2 <;> simp_all) (hdel t2 ht2 r2 hr2)
        have sh := busyOfReq_shape σ t1 r1 (fun hs => (htasks t1 ht1 hs).start_nonneg)
          (fun x y z => hdyn t1 ht1 r1 hr1 x y z)
        omega
    · have i1 := busyOfReq_inactive σ t1 r1 (by cases hh : σ.active t1 r1 <;> simp_all) (hdel t1 ht1 r1 hr1)
      have sh := busyOfReq_shape σ t2 r2 (fun hs => (htasks t2 ht2 hs).start_nonneg)
        (fun x y z => hdyn t2 ht2 r2 hr2 x y z)
      omega

/-- **the specification without parking instants.** On the fragment, for problems whose delays stay below the task
    number (finding F19 otherwise), `Valid` — the meaning the completeness, exactness and C06 theorems are stated
    against — is the same as `ValidClean`, whose non-overlap clause only speaks about the intervals during which a
    scheduled task really uses a worker. -/
theorem Valid_iff_clean (st : State) (σ : Sched) (hc : InCoreS st) (hdel : DelaysBelowNumber st) :
    Valid st σ ↔ ValidClean st σ := by
  constructor
  · intro h
    exact ⟨h.horizon_nonneg, h.horizon_le, h.tasks, h.dyn, h.counts,
      (no_overlap_iff_real st σ hc hdel h.tasks h.dyn).1 h.no_overlap, h.work, h.constrs⟩
  · intro h
    exact ⟨h.horizon_nonneg, h.horizon_le, h.tasks, h.dyn, h.counts,
      (no_overlap_iff_real st σ hc hdel h.tasks h.dyn).2 h.no_overlap, h.work, h.constrs⟩

/-! ### the work amount, on real intervals -/

/-- productivity × real busy time of each required worker of `t` (a worker that is not selected contributes nothing) -/
def realWork (st : State) (σ : Sched) (t : Task) : List Int :=
  (st.reqsOf t.name).filterMap (fun r =>
    match st.findWorker r.worker with
    | none => none
    | some w => some (w.prod * (if σ.active t r then (realBusy σ t r).2 - (realBusy σ t r).1 else 0)))

theorem evalSum_filterMap (ρ : Env) {α} (f : α → Option Term) (g : α → Option Int) (l : List α)
    (h : ∀ x ∈ l, (f x).map (fun T => T.eval ρ) = g x) :
    Term.evalSum ρ (l.filterMap f) = (l.filterMap g).sum := by
  induction l with
  | nil => simp [Term.evalSum]
  | cons x xs ih =>
      have hx := h x (List.mem_cons_self ..)
      have ih' := ih (fun y hy => h y (List.mem_cons_of_mem _ hy))
      cases hf : f x with
      | none =>
          rw [hf] at hx
          simp only [Option.map_none] at hx
          simp only [List.filterMap_cons, hf, ← hx, ih']
      | some T =>
          rw [hf] at hx
          simp only [Option.map_some] at hx
          simp only [List.filterMap_cons, hf, ← hx, Term.evalSum, List.sum_cons, ih']

/-- for a scheduled task, the work sum the encoder asserts about is the sum of productivity × real busy time -/
theorem workSum_real (st : State) (σ : Sched) (hc : InCoreS st) (t : Task) (ht : t ∈ st.tasks)
    (hs : σ.isSched t = true) :
    Term.evalSum (envOf st σ) (workTerms st t) = (realWork st σ t).sum := by
  unfold workTerms realWork
  apply evalSum_filterMap
  intro r hr
  cases hfw : st.findWorker r.worker with
  | none => simp
  | some w =>
      have hwn : w.name = r.worker := by
        have := List.find?_some hfw
        exact eq_of_beq this
      simp only [Option.map_some, Option.some.injEq]
      obtain ⟨e1, e2⟩ := envOf_busy st σ t r (st.busyFlag w.name t.name r.maybe) (hc.names t ht) (hc.reqs t ht r hr)
      rw [← hwn] at e1 e2
      simp only [Term.eval, numT, bE, bS, e1, e2]
      by_cases ha : σ.active t r = true
      · simp only [ha, if_true, busyOfReq_active σ t r ha]
      · have ha' : σ.active t r = false := by cases hh : σ.active t r <;> simp_all
        simp only [ha', Bool.false_eq_true, if_false]
        -- scheduled, so inactive means: through a selection that did not pick the worker — parked at one instant
        unfold Sched.active at ha'
        simp only [hs, Bool.true_and] at ha'
        unfold busyOfReq
        cases hsel : r.sel with
        | none => simp [hsel] at ha'
        | some s =>
            simp only [hsel] at ha'
            simp [ha']

/-- the work-amount clause of `Valid`, on real intervals: a scheduled task with a work amount and at least one
    required worker gets at least that amount of productivity × real busy time -/
theorem Valid_work_real (st : State) (σ : Sched) (hc : InCoreS st) (hv : Valid st σ) (t : Task) (ht : t ∈ st.tasks)
    (hw : 0 < t.work) (hne : workTerms st t ≠ []) (hs : σ.isSched t = true) : t.work ≤ (realWork st σ t).sum := by
  rw [← workSum_real st σ hc t ht hs]
  exact hv.work t ht hw hne hs

/-- hence: the constraint system has a model iff a schedule exists that is valid in the clean sense -/
theorem C05_feasible_iff_clean (cfg : Config) (st : State) (hc : InCoreS st) (hdel : DelaysBelowNumber st) :
    (∃ ρ, Sat ρ (initFmls cfg st) ∧ 0 ≤ ρ.i .horizon) ↔ ∃ σ, ValidClean st σ := by
  rw [C05_feasible_iff cfg st hc]
  exact ⟨fun ⟨σ, h⟩ => ⟨σ, (Valid_iff_clean st σ hc hdel).1 h⟩, fun ⟨σ, h⟩ => ⟨σ, (Valid_iff_clean st σ hc hdel).2 h⟩⟩

example : DelaysBelowNumber Absent_exState := by unfold DelaysBelowNumber; decide +kernel

end PS
