/-
  C19 — Infeasibility diagnosis names constraints that really conflict.

  Debug mode tracks assertion number `i` of `initialize` with literal `i`, and records its owner
  when the owner is a constraint (`append_z3_assertion(…, constraint.name)`).  On `unsat`, the
  diagnosis lists the owners of the core's literals that have one.
  * `C19_listed_are_constraints` – every listed id is the id of a (non-operand) constraint of the
    problem;
  * `C19_conflict` – if the core is unsatisfiable (z3's contract), then the assertions of the
    listed constraints together with the basic rules (everything not owned by a constraint) are
    unsatisfiable: the listing is a genuine conflict;
  * `C15_tracked_equiv` – debug mode does not change the constraint system (verdict part).
-/
import PS.Theorems.C15
namespace PS

/-- the owner id recorded in `_map_boolrefs_to_constraints` for tracked assertion `i` -/
def ownerConstr : Owner → Option Nat
  | .constr id _ => some id
  | _ => none

/-- the constraint ids the diagnosis prints for an unsat core (a list of assertion indices) -/
def listedIds (cfg : Config) (st : State) (core : List Nat) : List Nat :=
  core.filterMap (fun i => ((initializeO cfg st)[i]?).bind (fun p => ownerConstr p.1))

/-- formulas of the core -/
def coreFormulas (cfg : Config) (st : State) (core : List Nat) : List Fml :=
  core.filterMap (fun i => ((initializeO cfg st)[i]?).map (·.2))

/-- basic rules: everything `initialize` asserts that is not owned by a constraint -/
def basicRules (cfg : Config) (st : State) : List Fml :=
  ((initializeO cfg st).filter (fun p => (ownerConstr p.1).isNone)).map (·.2)

/-- all assertions owned by the listed constraints -/
def listedAssertions (cfg : Config) (st : State) (ids : List Nat) : List Fml :=
  ((initializeO cfg st).filter (fun p => match ownerConstr p.1 with | some id => ids.contains id | none => false)).map (·.2)

theorem owner_constr_mem (cfg : Config) (st : State) (p : Owner × Fml) (hp : p ∈ initializeO cfg st)
    (id : Nat) (h : ownerConstr p.1 = some id) : ∃ c ∈ st.constrs, c.id = id ∧ c.operand = false := by
  unfold initializeO at hp
  simp only [List.mem_append, List.mem_flatMap, List.mem_map, List.mem_filter] at hp
  rcases hp with ((((((hp | hp) | hp) | hp) | hp) | hp) | hp) | hp
  · obtain ⟨t, _, h1⟩ := hp
    simp only [List.mem_append, List.mem_map, List.mem_singleton] at h1
    rcases h1 with (⟨_, _, rfl⟩ | ⟨_, _, rfl⟩) | rfl <;> simp [ownerConstr] at h
  · obtain ⟨w, _, f, _, rfl⟩ := hp; simp [ownerConstr] at h
  · obtain ⟨c, ⟨hc, hop⟩, f, _, rfl⟩ := hp
    simp only [ownerConstr, Option.some.injEq] at h
    exact ⟨c, hc, h, by simpa using hop⟩
  · obtain ⟨i, _, f, _, rfl⟩ := hp; simp [ownerConstr] at h
  · obtain ⟨t, _, f, _, rfl⟩ := hp; simp [ownerConstr] at h
  · obtain ⟨b, _, f, _, rfl⟩ := hp; simp [ownerConstr] at h
  · obtain ⟨f, _, rfl⟩ := hp; simp [ownerConstr] at h
  · obtain ⟨f, _, rfl⟩ := hp; simp [ownerConstr] at h

/-- **C19 (a).** Everything the diagnosis lists is a constraint of the problem. -/
theorem C19_listed_are_constraints (cfg : Config) (st : State) (core : List Nat) :
    ∀ id ∈ listedIds cfg st core, ∃ c ∈ st.constrs, c.id = id ∧ c.operand = false := by
  intro id hid
  unfold listedIds at hid
  obtain ⟨i, _, hi⟩ := List.mem_filterMap.1 hid
  cases hg : (initializeO cfg st)[i]? with
  | none => simp [hg] at hi
  | some p =>
      simp only [hg, Option.bind_some] at hi
      exact owner_constr_mem cfg st p (List.mem_of_getElem? hg) id hi

/-- **C19 (b).** If the core is unsatisfiable, so are the listed constraints together with the
    basic task / resource / buffer rules: every formula of the core is either a basic rule or an
    assertion of a listed constraint. -/
theorem C19_conflict (cfg : Config) (st : State) (core : List Nat)
    (hcore : ¬ ∃ ρ, Sat ρ (coreFormulas cfg st core)) :
    ¬ ∃ ρ, Sat ρ (basicRules cfg st ++ listedAssertions cfg st (listedIds cfg st core)) := by
  rintro ⟨ρ, hρ⟩
  apply hcore
  refine ⟨ρ, ?_⟩
  intro a ha
  apply hρ
  unfold coreFormulas at ha
  obtain ⟨i, hi, hia⟩ := List.mem_filterMap.1 ha
  cases hg : (initializeO cfg st)[i]? with
  | none => simp [hg] at hia
  | some p =>
      simp only [hg, Option.map_some, Option.some.injEq] at hia
      subst hia
      have hpm : p ∈ initializeO cfg st := List.mem_of_getElem? hg
      rw [List.mem_append]
      cases ho : ownerConstr p.1 with
      | none =>
          left
          unfold basicRules
          exact List.mem_map.2 ⟨p, List.mem_filter.2 ⟨hpm, by simp [ho]⟩, rfl⟩
      | some id =>
          right
          unfold listedAssertions
          refine List.mem_map.2 ⟨p, List.mem_filter.2 ⟨hpm, ?_⟩, rfl⟩
          simp only [ho]
          rw [List.contains_iff_mem]
          unfold listedIds
          exact List.mem_filterMap.2 ⟨i, hi, by simp [hg, ho]⟩

end PS
