/-
  C06 — Optional tasks: scheduled like mandatory ones, or inert when not scheduled.

  (a) *scheduled ⇒ as mandatory*: C01–C04 are stated with the guard `Scheduled ρ t`, which for an
      optional task is its scheduled flag: `C06_scheduled_as_mandatory` instantiates them.
  (b) *rules honoured*: `TaskMeaning` of OptionalTaskForceSchedule / ConditionSchedule /
      TasksDependency / ForceScheduleNOptionalTasks (C03).
  (c) *unscheduled ⇒ inert*, for every interpretation admitted by `initialize`:
      `C06_parked`            – the task sits at `-(task number)` with zero length;
      `C06_busy_parked`       – each worker it requires is "busy" for it at a negative instant
                                 only (so it blocks nobody: `C06_blocks_nobody`);
      `C06_constraint_inert`  – every one- or two-task constraint naming it holds whatever the
                                 other task does;
      `C06_no_indicator_contribution` – it adds 0 to tardiness, earliness, flow time / weighted
                                 completion / weighted start sums;
      `C11_unscheduled_no_assignment` – it is reported without resources.
  That the schedules of the remaining tasks are *exactly* those of the problem with the task deleted
  is decided by the exact ENC correspondence and the deletion search of the check (RUN), within
  the fragment; usages where it fails on the unchanged tree are recorded findings (F7, F16, F18,
  F24, F26).
-/
import PS.Theorems.C11
import PS.Theorems.C08
namespace PS

/-- (a) a scheduled optional task obeys everything a mandatory task obeys -/
theorem C06_scheduled_as_mandatory (cfg : Config) (st : State) (ρ : Env) (hρ : Sat ρ (initFmls cfg st))
    (t : Task) (ht : t ∈ st.tasks) (hopt : t.optional = true) (hs : ρ.b (.sched t.name) = true) :
    TaskTimingOK st.horizon t ρ :=
  C01_task_timing cfg st ρ hρ t ht (Or.inr hs)

/-- (c) an unscheduled optional task is parked at `-(task number)`, with zero length -/
theorem C06_parked (cfg : Config) (st : State) (ρ : Env) (hρ : Sat ρ (initFmls cfg st))
    (t : Task) (ht : t ∈ st.tasks) (hopt : t.optional = true) (hs : ρ.b (.sched t.name) = false) :
    t.startV ρ = -((t.num0 : Int) + 1) ∧ t.endV ρ = -((t.num0 : Int) + 1) ∧ (t.isVar = true → ρ.i (.tDur t.name) = 0) := by
  have hT : Sat ρ (st.taskAsserts t) := fun a ha => hρ a (mem_init_task ht ha)
  have hSA := Sat_taskAsserts_init hT
  unfold Task.setAssertions at hSA
  simp only [hopt, if_true] at hSA
  have h1 := hSA _ (List.mem_cons_self ..)
  simp only [Fml.eval, hs] at h1
  have h2 := h1.2 (by simp)
  unfold Task.notScheduled at h2
  simp only [Fml.eval] at h2
  rw [evalAll_iff] at h2
  have ha := h2 (.eq t.sVar (numT t.pastPoint)) (by simp)
  have hb := h2 (.eq t.eVar (numT t.pastPoint)) (by simp)
  simp [Fml.eval, Term.eval, Task.sVar, Task.eVar, numT, Task.pastPoint] at ha hb
  refine ⟨by unfold Task.startV; omega, by unfold Task.endV; omega, ?_⟩
  intro hv
  have hc := h2 (.eq t.dVar (numT 0)) (by simp [hv])
  simpa [Fml.eval, Term.eval, Task.dVar, numT] using hc

/-- (c) every worker an unscheduled task requires is busy for it only at negative instants:
    both ends of the busy interval are negative (delay-in below the task number, finding F19) -/
theorem C06_busy_parked (cfg : Config) (st : State) (ρ : Env) (hρ : Sat ρ (initFmls cfg st))
    (hwf : ∀ ev ∈ st.reqLog, ev.WF)
    (t : Task) (ht : t ∈ st.tasks) (hopt : t.optional = true) (hs : ρ.b (.sched t.name) = false)
    (ev : ReqEvent) (hev : ev ∈ st.eventsOf t.name) (r : Req) (hr : r ∈ ev.reqs)
    (hdel : r.delayIn ≤ t.num0) :
    ρ.i (.busyS r.worker t.name r.maybe) < 0 ∧ ρ.i (.busyE r.worker t.name r.maybe) < 0 := by
  obtain ⟨h1, h2, _⟩ := C06_parked cfg st ρ hρ t ht hopt hs
  have hspan := C02_busy_span cfg st ρ hρ hwf t ht ev hev r hr
  unfold ReqSpanOK at hspan
  cases hsel : r.sel with
  | some s =>
      simp only [hsel] at hspan
      by_cases hb : ρ.b (.sel s r.worker) = true
      · have := hspan.1 hb; omega
      · have hb' : ρ.b (.sel s r.worker) = false := by cases hh : ρ.b (.sel s r.worker) <;> simp_all
        have := hspan.2 hb'; omega
  | none =>
      simp only [hsel] at hspan
      by_cases hd : r.dynamic = true
      · simp only [hd, if_true] at hspan; omega
      · simp only [hd, Bool.false_eq_true, if_false] at hspan; omega

/-- (c) an interval that lies at negative instants does not overlap an interval of a scheduled task
    (which starts at a non-negative instant): it blocks nobody -/
theorem C06_blocks_nobody (s e s' e' : Int) (hneg : e < 0) (hpos : 0 ≤ s') : e ≤ s' ∨ e' ≤ s := by
  left; omega

/-- (c) constraints naming an unscheduled optional task hold whatever the other task does -/
theorem C06_constraint_inert (ρ : Env) (t : Task) (hopt : t.optional = true) (hs : ρ.b (.sched t.name) = false) (c : Nat) :
    (∀ v, Sat ρ ((CBody.startAt t v).raw c)) ∧ (∀ v s, Sat ρ ((CBody.startAfter t v s).raw c)) ∧
    (∀ v, Sat ρ ((CBody.endAt t v).raw c)) ∧ (∀ v s, Sat ρ ((CBody.endBefore t v s).raw c)) ∧
    (∀ u off k, Sat ρ ((CBody.precedence t u off k).raw c) ∧ Sat ρ ((CBody.precedence u t off k).raw c)) ∧
    (∀ u, Sat ρ ((CBody.startSynced t u).raw c) ∧ Sat ρ ((CBody.startSynced u t).raw c)) ∧
    (∀ u, Sat ρ ((CBody.endSynced t u).raw c) ∧ Sat ρ ((CBody.endSynced u t).raw c)) ∧
    (∀ u, Sat ρ ((CBody.dontOverlap t u).raw c) ∧ Sat ρ ((CBody.dontOverlap u t).raw c)) := by
  have hns : ¬ Scheduled ρ t := by
    unfold Scheduled; simp [hopt, hs]
  have g1 : ∀ f, (guard1 t f).eval ρ := fun f => (guard1_eval t f ρ).2 (fun h => absurd h hns)
  have g2a : ∀ u f, (guard2 t u f).eval ρ := fun u f => (guard2_eval t u f ρ).2 (fun h _ => absurd h hns)
  have g2b : ∀ u f, (guard2 u t f).eval ρ := fun u f => (guard2_eval u t f ρ).2 (fun _ h => absurd h hns)
  refine ⟨?_, ?_, ?_, ?_, ?_, ?_, ?_, ?_⟩
  · intro v; simp [CBody.raw, Sat, g1]
  · intro v s; simp [CBody.raw, Sat, g1]
  · intro v; simp [CBody.raw, Sat, g1]
  · intro v s; simp [CBody.raw, Sat, g1]
  · intro u off k; constructor <;> simp [CBody.raw, Sat, g2a, g2b]
  · intro u; constructor <;> simp [CBody.raw, Sat, g2a, g2b]
  · intro u; constructor <;> simp [CBody.raw, Sat, g2a, g2b]
  · intro u; constructor <;> simp [CBody.raw, Sat, g2a, g2b]

/-- (c) an unscheduled task contributes nothing to tardiness, earliness, and to the guarded sums of
    the flow-time / weighted-completion / weighted-start objectives -/
theorem C06_no_indicator_contribution (ρ : Env) (t : Task) (hopt : t.optional = true) (hs : ρ.b (.sched t.name) = false) :
    tardinessOf ρ t = 0 ∧ earlinessOf ρ t = 0 ∧
    (∀ f : Task → Term, Term.evalSum ρ (schedTimes f [t]) = 0) := by
  have hns : ¬ Scheduled ρ t := by unfold Scheduled; simp [hopt, hs]
  refine ⟨by simp [tardinessOf, hns], by simp [earlinessOf, hns], ?_⟩
  intro f
  simp [schedTimes, hopt, Term.evalSum, Term.eval, Fml.eval, hs, numT]

end PS
