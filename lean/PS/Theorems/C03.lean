/-
  C03 — Every declared task constraint holds in every returned schedule.

  `TaskMeaning ρ b` is the documented relation of constraint body `b` among the tasks it names
  (guarded by the scheduled flags of optional tasks, as the documentation says).
  `C03_raw_sound` : the raw assertions of a constraint imply its meaning — for every class,
  every parameter value, every mix of task types;  `C03_task_constraints` lifts this to
  `initialize`: every mandatory, non-operand task constraint of the problem holds in every
  admitted interpretation, whatever else the problem contains.
-/
import PS.Theorems.C10
import PS.Spec.Basic
import PS.Proofs.Sort
namespace PS

def ordHolds (k : OrdKind) (a b : Int) : Prop :=
  match k with
  | .lax => a ≤ b
  | .strict => a < b
  | .tight => a = b

theorem ordRel_eval (k : OrdKind) (a b : Term) (ρ : Env) : (ordRel k a b).eval ρ ↔ ordHolds k (a.eval ρ) (b.eval ρ) := by
  cases k <;> simp [ordRel, ordHolds, Fml.eval]

/-- consecutive members of the list satisfy the order relation `end ⋈ next start` -/
def ConsecutiveOK (k : OrdKind) (ρ : Env) : List Task → Prop
  | a :: b :: rest => ordHolds k (a.endV ρ) (b.startV ρ) ∧ ConsecutiveOK k ρ (b :: rest)
  | _ => True

def countSched (ρ : Env) (ts : List Task) : Nat := ts.countP (fun t => ρ.b (.sched t.name))

/-- all members inside the window; without a window, the span from the earliest start to the latest
    end is at most `len` -/
def GroupWindowOK (ρ : Env) (ts : List Task) (window : Option (Int × Int)) (len : Int) : Prop :=
  match window with
  | some (lo, hi) => ∀ t ∈ ts, lo ≤ t.startV ρ ∧ t.endV ρ ≤ hi
  | none => ∀ t ∈ ts, ∀ t' ∈ ts, t.endV ρ - t'.startV ρ ≤ len

/-- ordered by start (resp. by end), the (i+1)-th start equals the i-th end whenever both are
    non-negative instants (negative instants are where unscheduled tasks are parked); the encoding
    also forces pairwise distinct starts and pairwise distinct ends -/
def ContiguousOK (ρ : Env) (ts : List Task) : Prop :=
  (ts.map (fun t => t.startV ρ)).Nodup ∧ (ts.map (fun t => t.endV ρ)).Nodup ∧
  ∀ i, i + 1 < ts.length →
    0 ≤ (sortInts (ts.map (fun t => t.endV ρ))).getD i 0 → 0 ≤ (sortInts (ts.map (fun t => t.startV ρ))).getD (i + 1) 0 →
    (sortInts (ts.map (fun t => t.startV ρ))).getD (i + 1) 0 = (sortInts (ts.map (fun t => t.endV ρ))).getD i 0

/-- the documented meaning of each task-constraint class -/
def TaskMeaning (ρ : Env) : CBody → Prop
  | .startAt t v => Scheduled ρ t → t.startV ρ = v
  | .startAfter t v strict => Scheduled ρ t → (if strict then v < t.startV ρ else v ≤ t.startV ρ)
  | .endAt t v => Scheduled ρ t → t.endV ρ = v
  | .endBefore t v strict => Scheduled ρ t → (if strict then t.endV ρ < v else t.endV ρ ≤ v)
  | .precedence b a off kind => Scheduled ρ b → Scheduled ρ a → ordHolds kind (b.endV ρ + max 0 off) (a.startV ρ)
  | .startSynced t1 t2 => Scheduled ρ t1 → Scheduled ρ t2 → t1.startV ρ = t2.startV ρ
  | .endSynced t1 t2 => Scheduled ρ t1 → Scheduled ρ t2 → t1.endV ρ = t2.endV ρ
  | .dontOverlap t1 t2 => Scheduled ρ t1 → Scheduled ρ t2 → (t1.endV ρ ≤ t2.startV ρ ∨ t2.endV ρ ≤ t1.startV ρ)
  | .unorderedGroup ts window len => GroupWindowOK ρ ts window len
  | .orderedGroup ts window len kind => GroupWindowOK ρ ts window len ∧ ConsecutiveOK kind ρ ts
  | .contiguous ts => ContiguousOK ρ ts
  | .forceSchedule t b => ρ.b (.sched t.name) = b
  | .conditionSchedule t cond => (ρ.b (.sched t.name) = true ↔ cond.eval ρ)
  | .dependency t1 t2 => (ρ.b (.sched t2.name) = true ↔ Scheduled ρ t1)
  | .forceScheduleN ts n kind =>
      (match kind with | .exact => countSched ρ ts = n | .min => n ≤ countSched ρ ts | .max => countSched ρ ts ≤ n)
  | _ => True

theorem guard1_eval (t : Task) (f : Fml) (ρ : Env) : (guard1 t f).eval ρ ↔ (Scheduled ρ t → f.eval ρ) := by
  unfold guard1 Scheduled
  by_cases h : t.optional = true <;> simp [h, Fml.eval]

theorem schedF_eval (t : Task) (ρ : Env) : t.schedF.eval ρ ↔ Scheduled ρ t := by
  unfold Task.schedF Scheduled
  by_cases h : t.optional = true <;> simp [h, Fml.eval]

theorem guard2_eval (t1 t2 : Task) (f : Fml) (ρ : Env) :
    (guard2 t1 t2 f).eval ρ ↔ (Scheduled ρ t1 → Scheduled ρ t2 → f.eval ρ) := by
  unfold guard2
  by_cases h : (t1.optional || t2.optional) = true
  · simp only [h, if_true, Fml.eval, Fml.evalAll, schedF_eval, and_true]
    constructor
    · intro hh a b; exact hh ⟨a, b⟩
    · intro hh ⟨a, b⟩; exact hh a b
  · simp only [h, Bool.false_eq_true, if_false]
    have h1 : t1.optional = false := by
      cases ho : t1.optional <;> simp_all
    have h2 : t2.optional = false := by
      cases ho : t2.optional <;> simp_all
    simp [Scheduled, h1, h2]

theorem count_sched (ρ : Env) (ts : List Task) :
    Fml.count ρ (ts.map (fun t => Fml.bvar (.sched t.name))) = countSched ρ ts := by
  unfold countSched
  induction ts with
  | nil => simp [Fml.count]
  | cons t ts ih =>
      simp only [List.map_cons, Fml.count, ih, List.countP_cons, Fml.eval]
      by_cases h : ρ.b (.sched t.name) = true <;> simp [h, Nat.add_comm]

theorem consecutive_sound (k : OrdKind) (ρ : Env) (ts : List Task)
    (h : ∀ f ∈ consecutive k ts, f.eval ρ) : ConsecutiveOK k ρ ts := by
  induction ts with
  | nil => simp [ConsecutiveOK]
  | cons a rest ih =>
      cases rest with
      | nil => simp [ConsecutiveOK]
      | cons b rest' =>
          simp only [consecutive, List.mem_cons, forall_eq_or_imp] at h
          refine ⟨?_, ih h.2⟩
          have := (ordRel_eval k a.eVar b.sVar ρ).1 h.1
          simpa [Task.eVar, Task.sVar, Term.eval, Task.endV, Task.startV] using this

theorem groupBase_sound (c : Nat) (ts : List Task) (window : Option (Int × Int)) (len : Int) (ρ : Env)
    (h : ∀ f ∈ groupBase c ts window len, f.eval ρ) : GroupWindowOK ρ ts window len := by
  unfold GroupWindowOK
  have hm : ∀ t ∈ ts, ρ.i (.grpS c) ≤ t.startV ρ ∧ t.endV ρ ≤ ρ.i (.grpE c) := by
    intro t ht
    have h1 := h (Fml.ge t.sVar (.var (.grpS c))) (by
      unfold groupBase; simp only [List.mem_append, List.mem_flatMap]; right; exact ⟨t, ht, by simp⟩)
    have h2 := h (Fml.le t.eVar (.var (.grpE c))) (by
      unfold groupBase; simp only [List.mem_append, List.mem_flatMap]; right; exact ⟨t, ht, by simp⟩)
    simp [Fml.eval, Term.eval, Task.sVar, Task.eVar] at h1 h2
    exact ⟨h1, h2⟩
  cases window with
  | some w =>
      obtain ⟨lo, hi⟩ := w
      simp only
      have h1 := h (Fml.ge (.var (.grpS c)) (numT lo)) (by unfold groupBase; simp)
      have h2 := h (Fml.le (.var (.grpE c)) (numT hi)) (by unfold groupBase; simp)
      simp [Fml.eval, Term.eval, numT] at h1 h2
      intro t ht
      have := hm t ht
      omega
  | none =>
      simp only
      have h1 := h (Fml.le (.var (.grpE c)) (.add (.var (.grpS c)) (numT len))) (by unfold groupBase; simp)
      simp [Fml.eval, Term.eval, numT] at h1
      intro t ht t' ht'
      have a := hm t ht
      have b := hm t' ht'
      omega

/-- **C03 (per class).** The raw assertions of a task constraint imply its documented meaning. -/
theorem C03_raw_sound (c : Nat) (b : CBody) (ρ : Env) (h : Sat ρ (b.raw c)) : TaskMeaning ρ b := by
  cases b <;> simp only [TaskMeaning] <;> try trivial
  case startAt t v =>
    have := h _ (List.mem_cons_self ..)
    rw [guard1_eval] at this
    intro hs; simpa [Fml.eval, Term.eval, Task.sVar, numT, Task.startV] using this hs
  case startAfter t v strict =>
    have := h _ (List.mem_cons_self ..)
    rw [guard1_eval] at this
    intro hs
    have := this hs
    cases strict <;> simpa [Fml.eval, Term.eval, Task.sVar, numT, Task.startV] using this
  case endAt t v =>
    have := h _ (List.mem_cons_self ..)
    rw [guard1_eval] at this
    intro hs; simpa [Fml.eval, Term.eval, Task.eVar, numT, Task.endV] using this hs
  case endBefore t v strict =>
    have := h _ (List.mem_cons_self ..)
    rw [guard1_eval] at this
    intro hs
    have := this hs
    cases strict <;> simpa [Fml.eval, Term.eval, Task.eVar, numT, Task.endV] using this
  case precedence bt at_ off kind =>
    have := h _ (List.mem_cons_self ..)
    rw [guard2_eval] at this
    intro h1 h2
    have := (ordRel_eval _ _ _ ρ).1 (this h1 h2)
    by_cases ho : off > 0
    · simp only [ho, if_true] at this
      have hm : max 0 off = off := by omega
      simpa [Term.eval, Task.eVar, Task.sVar, numT, Task.endV, Task.startV, hm] using this
    · simp only [ho, if_false] at this
      have hm : max 0 off = 0 := by omega
      simpa [Term.eval, Task.eVar, Task.sVar, Task.endV, Task.startV, hm] using this
  case startSynced t1 t2 =>
    have := h _ (List.mem_cons_self ..)
    rw [guard2_eval] at this
    intro h1 h2; simpa [Fml.eval, Term.eval, Task.sVar, Task.startV] using this h1 h2
  case endSynced t1 t2 =>
    have := h _ (List.mem_cons_self ..)
    rw [guard2_eval] at this
    intro h1 h2; simpa [Fml.eval, Term.eval, Task.eVar, Task.endV] using this h1 h2
  case dontOverlap t1 t2 =>
    have := h _ (List.mem_cons_self ..)
    rw [guard2_eval] at this
    intro h1 h2
    have := this h1 h2
    simp only [Fml.eval, Term.eval, Task.sVar, Task.eVar] at this
    unfold Task.endV Task.startV
    by_cases hx : ρ.i (.tEnd t1.name) ≤ ρ.i (.tStart t2.name)
    · exact Or.inl hx
    · right
      apply Classical.byContradiction
      intro hy
      exact this ⟨fun a => absurd a hx, fun a => absurd a hy⟩
  case unorderedGroup ts window len =>
    have := h _ (List.mem_cons_self ..)
    simp only [Fml.eval] at this
    rw [evalAll_iff] at this
    exact groupBase_sound c ts window len ρ this
  case orderedGroup ts window len kind =>
    have := h _ (List.mem_cons_self ..)
    simp only [Fml.eval] at this
    rw [evalAll_iff] at this
    constructor
    · exact groupBase_sound c ts window len ρ (fun f hf => this f (List.mem_append_left _ hf))
    · exact consecutive_sound kind ρ ts (fun f hf => this f (List.mem_append_right _ hf))
  case contiguous ts =>
    have hg := gaps_sound (fun i => IVar.fresh c i) (fun i => IVar.fresh c (ts.length + i))
      (ts.map (·.sVar)) (ts.map (·.eVar)) ρ
      (fun (p : Term × Term) => Fml.imp (.or [.and [.ge p.1 (numT 0), .ge p.2 (numT 0)]]) (.eq p.2 p.1))
      (fun e s => 0 ≤ e → 0 ≤ s → s = e)
      (by
        intro e s hev he hs
        simp only [Fml.eval, Fml.evalAny, Fml.evalAll, Term.eval, numT, and_true, or_false] at hev
        exact hev ⟨he, hs⟩)
      (by simp)
      (by simpa [CBody.raw] using h)
    have e1 : (ts.map (·.sVar)).map (fun t => t.eval ρ) = ts.map (fun t => t.startV ρ) := by
      simp [List.map_map, Function.comp_def, Task.sVar, Term.eval, Task.startV]
    have e2 : (ts.map (·.eVar)).map (fun t => t.eval ρ) = ts.map (fun t => t.endV ρ) := by
      simp [List.map_map, Function.comp_def, Task.eVar, Term.eval, Task.endV]
    rw [e1, e2] at hg
    unfold ContiguousOK
    refine ⟨hg.1, hg.2.1, ?_⟩
    intro i hi
    exact hg.2.2 i (by simpa using hi)
  case forceSchedule t b =>
    have := h _ (List.mem_cons_self ..)
    cases b <;> simpa [Fml.eval] using this
  case conditionSchedule t cond =>
    have := h _ (List.mem_cons_self ..)
    simp only [Fml.eval] at this
    constructor
    · intro hs
      apply Classical.byContradiction
      intro hc
      have := (this.2 hc)
      simp [hs] at this
    · intro hc
      have := this.1 hc
      simpa using this
  case dependency t1 t2 =>
    have := h _ (List.mem_cons_self ..)
    unfold Scheduled
    by_cases ho : t1.optional = true
    · simp only [ho, if_true, Fml.eval] at this
      simp [ho, this]
    · simp only [ho, Bool.false_eq_true, if_false, Fml.eval] at this
      have ho' : t1.optional = false := by cases hh : t1.optional <;> simp_all
      simp [ho', this]
  case forceScheduleN ts n kind =>
    have := h _ (List.mem_cons_self ..)
    cases kind <;> simpa [pbFun, Fml.eval, count_sched] using this

/-- a constraint of the problem that is enforced on its own: mandatory and not an operand -/
def Enforced (st : State) (c : Constr) : Prop := c ∈ st.constrs ∧ c.optional = false ∧ c.operand = false

/-- **C03.** Every mandatory task constraint of the problem holds, with its documented meaning,
    in every interpretation the constraint system admits — whatever other elements the problem has. -/
theorem C03_task_constraints (cfg : Config) (st : State) (ρ : Env) (hρ : Sat ρ (initFmls cfg st)) :
    ∀ c, Enforced st c → TaskMeaning ρ c.body := by
  intro c ⟨hc, hopt, hop⟩
  apply C03_raw_sound c.id
  rw [← C10_mandatory c hopt]
  exact C10_constraint_part cfg st ρ hρ c hc hop

/-- an optional task constraint binds when it is applied -/
theorem C03_optional_constraints (cfg : Config) (st : State) (ρ : Env) (hρ : Sat ρ (initFmls cfg st)) :
    ∀ c ∈ st.constrs, c.operand = false → c.optional = true → c.body.direct = false →
      ρ.b (.applied c.id) = true → TaskMeaning ρ c.body := by
  intro c hc hop hopt hd happ
  apply C03_raw_sound c.id
  exact (C10_optional c hopt hd ρ).1 (C10_constraint_part cfg st ρ hρ c hc hop) happ

end PS
