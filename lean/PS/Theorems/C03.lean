/-
  C03 — Every declared task constraint holds in every returned schedule.

  `TaskMeaning ρ b` is the documented relation of constraint body `b` among the tasks it names
  (guarded by the scheduled flags of optional tasks, as the documentation says).
  `C03_raw_sound` : the raw assertions of a constraint imply its meaning — for every class,
  every parameter value, every mix of task types;  `C03_task_constraints` lifts this to
  `initialize`: every mandatory, non-operand task constraint of the problem holds in every
  admitted interpretation, whatever else the problem contains.
-/
import PS.Theorems.C10
import PS.Spec.Basic
import PS.Proofs.Sort
import PS.Proofs.Rank
namespace PS

def ordHolds (k : OrdKind) (a b : Int) : Prop :=
  match k with
  | .lax => a ≤ b
  | .strict => a < b
  | .tight => a = b

theorem ordRel_eval (k : OrdKind) (a b : Term) (ρ : Env) : (ordRel k a b).eval ρ ↔ ordHolds k (a.eval ρ) (b.eval ρ) := by
  cases k <;> simp [ordRel, ordHolds, Fml.eval]

/-- consecutive members of the list satisfy the order relation `end ⋈ next start` -/
def ConsecutiveOK (k : OrdKind) (ρ : Env) : List Task → Prop
  | a :: b :: rest => ordHolds k (a.endV ρ) (b.startV ρ) ∧ ConsecutiveOK k ρ (b :: rest)
  | _ => True

def countSched (ρ : Env) (ts : List Task) : Nat := ts.countP (fun t => ρ.b (.sched t.name))

/-- all members inside the window; without a window, the span from the earliest start to the latest
    end is at most `len` -/
def GroupWindowOK (ρ : Env) (ts : List Task) (window : Option (Int × Int)) (len : Int) : Prop :=
  match window with
  | some (lo, hi) => ∀ t ∈ ts, lo ≤ t.startV ρ ∧ t.endV ρ ≤ hi
  | none => ∀ t ∈ ts, ∀ t' ∈ ts, t.endV ρ - t'.startV ρ ≤ len

/-- ordered by start (resp. by end), the (i+1)-th start equals the i-th end whenever both are
    non-negative instants (negative instants are where unscheduled tasks are parked); the encoding
    also forces pairwise distinct starts and pairwise distinct ends -/
def ContiguousOK (ρ : Env) (ts : List Task) : Prop :=
  (ts.map (fun t => t.startV ρ)).Nodup ∧ (ts.map (fun t => t.endV ρ)).Nodup ∧
  ∀ i, i + 1 < ts.length →
    0 ≤ (sortInts (ts.map (fun t => t.endV ρ))).getD i 0 → 0 ≤ (sortInts (ts.map (fun t => t.startV ρ))).getD (i + 1) 0 →
    (sortInts (ts.map (fun t => t.startV ρ))).getD (i + 1) 0 = (sortInts (ts.map (fun t => t.endV ρ))).getD i 0

/-- the documented meaning of each task-constraint class -/
def TaskMeaning (ρ : Env) : CBody → Prop
  | .startAt t v => Scheduled ρ t → t.startV ρ = v
  | .startAfter t v strict => Scheduled ρ t → (if strict then v < t.startV ρ else v ≤ t.startV ρ)
  | .endAt t v => Scheduled ρ t → t.endV ρ = v
  | .endBefore t v strict => Scheduled ρ t → (if strict then t.endV ρ < v else t.endV ρ ≤ v)
  | .precedence b a off kind => Scheduled ρ b → Scheduled ρ a → ordHolds kind (b.endV ρ + max 0 off) (a.startV ρ)
  | .startSynced t1 t2 => Scheduled ρ t1 → Scheduled ρ t2 → t1.startV ρ = t2.startV ρ
  | .endSynced t1 t2 => Scheduled ρ t1 → Scheduled ρ t2 → t1.endV ρ = t2.endV ρ
  | .dontOverlap t1 t2 => Scheduled ρ t1 → Scheduled ρ t2 → (t1.endV ρ ≤ t2.startV ρ ∨ t2.endV ρ ≤ t1.startV ρ)
  | .unorderedGroup ts window len => GroupWindowOK ρ ts window len
  | .orderedGroup ts window len kind => GroupWindowOK ρ ts window len ∧ ConsecutiveOK kind ρ ts
  | .contiguous ts => ContiguousOK ρ ts
  | .forceSchedule t b => ρ.b (.sched t.name) = b
  | .conditionSchedule t cond => (ρ.b (.sched t.name) = true ↔ cond.eval ρ)
  | .dependency t1 t2 => (ρ.b (.sched t2.name) = true ↔ Scheduled ρ t1)
  | .forceScheduleN ts n kind =>
      (match kind with | .exact => countSched ρ ts = n | .min => n ≤ countSched ρ ts | .max => countSched ρ ts ≤ n)
  | _ => True

theorem guard1_eval (t : Task) (f : Fml) (ρ : Env) : (guard1 t f).eval ρ ↔ (Scheduled ρ t → f.eval ρ) := by
  unfold guard1 Scheduled
  by_cases h : t.optional = true <;> simp [h, Fml.eval]

theorem schedF_eval (t : Task) (ρ : Env) : t.schedF.eval ρ ↔ Scheduled ρ t := by
  unfold Task.schedF Scheduled
  by_cases h : t.optional = true <;> simp [h, Fml.eval]

theorem guard2_eval (t1 t2 : Task) (f : Fml) (ρ : Env) :
    (guard2 t1 t2 f).eval ρ ↔ (Scheduled ρ t1 → Scheduled ρ t2 → f.eval ρ) := by
  unfold guard2
  by_cases h : (t1.optional || t2.optional) = true
  · simp only [h, if_true, Fml.eval, Fml.evalAll, schedF_eval, and_true]
    constructor
    · intro hh a b; exact hh ⟨a, b⟩
    · intro hh ⟨a, b⟩; exact hh a b
  · simp only [h, Bool.false_eq_true, if_false]
    have h1 : t1.optional = false := by
      cases ho : t1.optional <;> simp_all
    have h2 : t2.optional = false := by
      cases ho : t2.optional <;> simp_all
    simp [Scheduled, h1, h2]

theorem count_sched (ρ : Env) (ts : List Task) :
    Fml.count ρ (ts.map (fun t => Fml.bvar (.sched t.name))) = countSched ρ ts := by
  unfold countSched
  induction ts with
  | nil => simp [Fml.count]
  | cons t ts ih =>
      simp only [List.map_cons, Fml.count, ih, List.countP_cons, Fml.eval]
      by_cases h : ρ.b (.sched t.name) = true <;> simp [h, Nat.add_comm]

theorem consecutive_sound (k : OrdKind) (ρ : Env) (ts : List Task)
    (h : ∀ f ∈ consecutive k ts, f.eval ρ) : ConsecutiveOK k ρ ts := by
  induction ts with
  | nil => simp [ConsecutiveOK]
  | cons a rest ih =>
      cases rest with
      | nil => simp [ConsecutiveOK]
      | cons b rest' =>
          simp only [consecutive, List.mem_cons, forall_eq_or_imp] at h
          refine ⟨?_, ih h.2⟩
          have := (ordRel_eval k a.eVar b.sVar ρ).1 h.1
          simpa [Task.eVar, Task.sVar, Term.eval, Task.endV, Task.startV] using this

theorem groupBase_sound (c : Nat) (ts : List Task) (window : Option (Int × Int)) (len : Int) (ρ : Env)
    (h : ∀ f ∈ groupBase c ts window len, f.eval ρ) : GroupWindowOK ρ ts window len := by
  unfold GroupWindowOK
  have hm : ∀ t ∈ ts, ρ.i (.grpS c) ≤ t.startV ρ ∧ t.endV ρ ≤ ρ.i (.grpE c) := by
    intro t ht
    have h1 := h (Fml.ge t.sVar (.var (.grpS c))) (by
      unfold groupBase; simp only [List.mem_append, List.mem_flatMap]; right; exact ⟨t, ht, by simp⟩)
    have h2 := h (Fml.le t.eVar (.var (.grpE c))) (by
      unfold groupBase; simp only [List.mem_append, List.mem_flatMap]; right; exact ⟨t, ht, by simp⟩)
    simp [Fml.eval, Term.eval, Task.sVar, Task.eVar] at h1 h2
    exact ⟨h1, h2⟩
  cases window with
  | some w =>
      obtain ⟨lo, hi⟩ := w
      simp only
      have h1 := h (Fml.ge (.var (.grpS c)) (numT lo)) (by unfold groupBase; simp)
      have h2 := h (Fml.le (.var (.grpE c)) (numT hi)) (by unfold groupBase; simp)
      simp [Fml.eval, Term.eval, numT] at h1 h2
      intro t ht
      have := hm t ht
      omega
  | none =>
      simp only
      have h1 := h (Fml.le (.var (.grpE c)) (.add (.var (.grpS c)) (numT len))) (by unfold groupBase; simp)
      simp [Fml.eval, Term.eval, numT] at h1
      intro t ht t' ht'
      have a := hm t ht
      have b := hm t' ht'
      omega

/-- **C03 (per class).** The raw assertions of a task constraint imply its documented meaning. -/
theorem C03_raw_sound (c : Nat) (b : CBody) (ρ : Env) (h : Sat ρ (b.raw c)) : TaskMeaning ρ b := by
  cases b <;> simp only [TaskMeaning] <;> try trivial
  case startAt t v =>
    have := h _ (List.mem_cons_self ..)
    rw [guard1_eval] at this
    intro hs; simpa [Fml.eval, Term.eval, Task.sVar, numT, Task.startV] using this hs
  case startAfter t v strict =>
    have := h _ (List.mem_cons_self ..)
    rw [guard1_eval] at this
    intro hs
    have := this hs
    cases strict <;> simpa [Fml.eval, Term.eval, Task.sVar, numT, Task.startV] using this
  case endAt t v =>
    have := h _ (List.mem_cons_self ..)
    rw [guard1_eval] at this
    intro hs; simpa [Fml.eval, Term.eval, Task.eVar, numT, Task.endV] using this hs
  case endBefore t v strict =>
    have := h _ (List.mem_cons_self ..)
    rw [guard1_eval] at this
    intro hs
    have := this hs
    cases strict <;> simpa [Fml.eval, Term.eval, Task.eVar, numT, Task.endV] using this
  case precedence bt at_ off kind =>
    have := h _ (List.mem_cons_self ..)
    rw [guard2_eval] at this
    intro h1 h2
    have := (ordRel_eval _ _ _ ρ).1 (this h1 h2)
    by_cases ho : off > 0
    · simp only [ho, if_true] at this
      have hm : max 0 off = off := by omega
      simpa [Term.eval, Task.eVar, Task.sVar, numT, Task.endV, Task.startV, hm] using this
    · simp only [ho, if_false] at this
      have hm : max 0 off = 0 := by omega
      simpa [Term.eval, Task.eVar, Task.sVar, Task.endV, Task.startV, hm] using this
  case startSynced t1 t2 =>
    have := h _ (List.mem_cons_self ..)
    rw [guard2_eval] at this
    intro h1 h2; simpa [Fml.eval, Term.eval, Task.sVar, Task.startV] using this h1 h2
  case endSynced t1 t2 =>
    have := h _ (List.mem_cons_self ..)
    rw [guard2_eval] at this
    intro h1 h2; simpa [Fml.eval, Term.eval, Task.eVar, Task.endV] using this h1 h2
  case dontOverlap t1 t2 =>
    have := h _ (List.mem_cons_self ..)
    rw [guard2_eval] at this
    intro h1 h2
    have := this h1 h2
    simp only [Fml.eval, Term.eval, Task.sVar, Task.eVar] at this
    unfold Task.endV Task.startV
    by_cases hx : ρ.i (.tEnd t1.name) ≤ ρ.i (.tStart t2.name)
    · exact Or.inl hx
    · right
      apply Classical.byContradiction
      intro hy
      exact this ⟨fun a => absurd a hx, fun a => absurd a hy⟩
  case unorderedGroup ts window len =>
    have := h _ (List.mem_cons_self ..)
    simp only [Fml.eval] at this
    rw [evalAll_iff] at this
    exact groupBase_sound c ts window len ρ this
  case orderedGroup ts window len kind =>
    have := h _ (List.mem_cons_self ..)
    simp only [Fml.eval] at this
    rw [evalAll_iff] at this
    constructor
    · exact groupBase_sound c ts window len ρ (fun f hf => this f (List.mem_append_left _ hf))
    · exact consecutive_sound kind ρ ts (fun f hf => this f (List.mem_append_right _ hf))
  case contiguous ts =>
    have hg := gaps_sound (fun i => IVar.fresh c i) (fun i => IVar.fresh c (ts.length + i))
      (ts.map (·.sVar)) (ts.map (·.eVar)) ρ
      (fun (p : Term × Term) => Fml.imp (.or [.and [.ge p.1 (numT 0), .ge p.2 (numT 0)]]) (.eq p.2 p.1))
      (fun e s => 0 ≤ e → 0 ≤ s → s = e)
      (by
        intro e s hev he hs
        simp only [Fml.eval, Fml.evalAny, Fml.evalAll, Term.eval, numT, and_true, or_false] at hev
        exact hev ⟨he, hs⟩)
      (by simp)
      (by simpa [CBody.raw] using h)
    have e1 : (ts.map (·.sVar)).map (fun t => t.eval ρ) = ts.map (fun t => t.startV ρ) := by
      simp [List.map_map, Function.comp_def, Task.sVar, Term.eval, Task.startV]
    have e2 : (ts.map (·.eVar)).map (fun t => t.eval ρ) = ts.map (fun t => t.endV ρ) := by
      simp [List.map_map, Function.comp_def, Task.eVar, Term.eval, Task.endV]
    rw [e1, e2] at hg
    unfold ContiguousOK
    refine ⟨hg.1, hg.2.1, ?_⟩
    intro i hi
    exact hg.2.2 i (by simpa using hi)
  case forceSchedule t b =>
    have := h _ (List.mem_cons_self ..)
    cases b <;> simpa [Fml.eval] using this
  case conditionSchedule t cond =>
    have := h _ (List.mem_cons_self ..)
    simp only [Fml.eval] at this
    constructor
    · intro hs
      apply Classical.byContradiction
      intro hc
      have := (this.2 hc)
      simp [hs] at this
    · intro hc
      have := this.1 hc
      simpa using this
  case dependency t1 t2 =>
    have := h _ (List.mem_cons_self ..)
    unfold Scheduled
    by_cases ho : t1.optional = true
    · simp only [ho, if_true, Fml.eval] at this
      simp [ho, this]
    · simp only [ho, Bool.false_eq_true, if_false, Fml.eval] at this
      have ho' : t1.optional = false := by cases hh : t1.optional <;> simp_all
      simp [ho', this]
  case forceScheduleN ts n kind =>
    have := h _ (List.mem_cons_self ..)
    cases kind <;> simpa [pbFun, Fml.eval, count_sched] using this

/-- a constraint of the problem that is enforced on its own: mandatory and not an operand -/
def Enforced (st : State) (c : Constr) : Prop := c ∈ st.constrs ∧ c.optional = false ∧ c.operand = false

/-- **C03.** Every mandatory task constraint of the problem holds, with its documented meaning,
    in every interpretation the constraint system admits — whatever other elements the problem has. -/
theorem C03_task_constraints (cfg : Config) (st : State) (ρ : Env) (hρ : Sat ρ (initFmls cfg st)) :
    ∀ c, Enforced st c → TaskMeaning ρ c.body := by
  intro c ⟨hc, hopt, hop⟩
  apply C03_raw_sound c.id
  rw [← C10_mandatory c hopt]
  exact C10_constraint_part cfg st ρ hρ c hc hop

/-- an optional task constraint binds when it is applied -/
theorem C03_optional_constraints (cfg : Config) (st : State) (ρ : Env) (hρ : Sat ρ (initFmls cfg st)) :
    ∀ c ∈ st.constrs, c.operand = false → c.optional = true → c.body.direct = false →
      ρ.b (.applied c.id) = true → TaskMeaning ρ c.body := by
  intro c hc hop hopt hd happ
  apply C03_raw_sound c.id
  exact (C10_optional c hopt hd ρ).1 (C10_constraint_part cfg st ρ hρ c hc hop) happ

end PS
namespace PS
open List

/-! ### ScheduleNTasksInTimeIntervals: the lower side (kinds `min` and `exact`) -/

/-- task `t` lies inside one of the listed intervals -/
def InsideAny (ρ : Env) (t : Task) (ivs : List (Int × Int)) : Prop :=
  ∃ iv ∈ ivs, iv.1 ≤ t.startV ρ ∧ t.endV ρ ≤ iv.2

open Classical in
/-- number of tasks of the list lying inside one of the intervals -/
noncomputable def countInside (ρ : Env) (ts : List Task) (ivs : List (Int × Int)) : Nat :=
  ts.countP (fun t => decide (InsideAny ρ t ivs))

theorem count_append (ρ : Env) (a b : List Fml) : Fml.count ρ (a ++ b) = Fml.count ρ a + Fml.count ρ b := by
  induction a with
  | nil => simp [Fml.count]
  | cons x a ih => simp only [List.cons_append, Fml.count, ih]; omega

theorem count_pos_exists (ρ : Env) (l : List Fml) (h : 0 < Fml.count ρ l) : ∃ a ∈ l, a.eval ρ := by
  induction l with
  | nil => simp [Fml.count] at h
  | cons x l ih =>
      simp only [Fml.count] at h
      by_cases hx : x.eval ρ
      · exact ⟨x, by simp, hx⟩
      · rw [if_neg hx] at h
        obtain ⟨a, ha, hae⟩ := ih (by omega)
        exact ⟨a, by simp [ha], hae⟩

/-- the Booleans of one task: at most one is true, and a true one puts the task inside its interval -/
theorem perTask_count (ρ : Env) (c : Nat) (t : Task) (base : Nat) (ivs : List (Int × Int))
    (h : Sat ρ ((((List.range ivs.length).map (fun j => Fml.bvar (.inInterval c t.name (base + j)))).zip ivs).map
                  (fun (b, iv) => inIntervalFml b t iv) ++
                [Fml.atMost ((List.range ivs.length).map (fun j => Fml.bvar (.inInterval c t.name (base + j)))) 1])) :
    open Classical in
    Fml.count ρ ((List.range ivs.length).map (fun j => Fml.bvar (.inInterval c t.name (base + j)))) ≤
      (if InsideAny ρ t ivs then 1 else 0) := by
  rw [Sat.append] at h
  obtain ⟨himp, hmost⟩ := h
  have hle := hmost _ (List.mem_singleton.2 rfl)
  simp only [Fml.eval] at hle
  by_cases hin : InsideAny ρ t ivs
  · rw [if_pos hin]; exact hle
  · rw [if_neg hin]
    by_contra hpos
    obtain ⟨a, ha, hae⟩ := count_pos_exists ρ _ (Nat.lt_of_not_le hpos)
    obtain ⟨j, hj, rfl⟩ := List.mem_map.1 ha
    have hj' := List.mem_range.1 hj
    apply hin
    refine ⟨ivs[j], List.getElem_mem _, ?_⟩
    have := himp (inIntervalFml (Fml.bvar (.inInterval c t.name (base + j))) t ivs[j]) (by
      apply List.mem_map.2
      refine ⟨(Fml.bvar (.inInterval c t.name (base + j)), ivs[j]), ?_, rfl⟩
      rw [List.mem_iff_getElem]
      refine ⟨j, by simp; exact hj', ?_⟩
      simp)
    simp only [inIntervalFml, Fml.eval, Fml.evalAll] at this
    have := this hae
    simp only [Term.eval, numT, Task.sVar, Task.eVar] at this
    exact ⟨this.1, this.2.1⟩

end PS

namespace PS
open List

/-- the pair (formulas, Booleans) that `ScheduleNTasksInTimeIntervals` creates for the i-th task -/
def schedNPer (c : Nat) (ts : List Task) (ivs : List (Int × Int)) (i : Nat) : List Fml × List Fml :=
  let t := ts.getD i default
  let bs := (List.range ivs.length).map (fun j => Fml.bvar (.inInterval c t.name (i * ivs.length + j)))
  (((bs.zip ivs).map (fun (b, iv) => inIntervalFml b t iv)) ++ [Fml.atMost bs 1], bs)

theorem schedN_raw (c : Nat) (ts : List Task) (n : Nat) (ivs : List (Int × Int)) (kind : CountKind) :
    (CBody.scheduleN ts n ivs kind).raw c =
      ((List.range ts.length).map (schedNPer c ts ivs)).flatMap (·.1) ++
      [pbFun kind (((List.range ts.length).map (schedNPer c ts ivs)).flatMap (·.2)) n] := rfl

open Classical in
theorem schedN_count (ρ : Env) (c : Nat) (ts : List Task) (ivs : List (Int × Int)) : ∀ (is : List Nat),
    Sat ρ ((is.map (schedNPer c ts ivs)).flatMap (·.1)) →
    Fml.count ρ ((is.map (schedNPer c ts ivs)).flatMap (·.2)) ≤
      (is.map (fun i => ts.getD i default)).countP (fun t => decide (InsideAny ρ t ivs))
  | [], _ => by simp [Fml.count]
  | i :: is, h => by
      simp only [List.map_cons, List.flatMap_cons, Sat.append] at h
      have ih := schedN_count ρ c ts ivs is h.2
      have h1 := perTask_count ρ c (ts.getD i default) (i * ivs.length) ivs (by
        have := h.1
        simpa [schedNPer, Sat.append] using this)
      simp only [List.map_cons, List.flatMap_cons, count_append, List.countP_cons]
      have : (schedNPer c ts ivs i).2 =
          (List.range ivs.length).map (fun j => Fml.bvar (.inInterval c (ts.getD i default).name (i * ivs.length + j))) := rfl
      rw [this]
      by_cases hin : InsideAny ρ (ts.getD i default) ivs
      · rw [if_pos hin] at h1
        have : decide (InsideAny ρ (ts.getD i default) ivs) = true := decide_eq_true hin
        rw [if_pos this]; omega
      · rw [if_neg hin] at h1
        have : ¬ decide (InsideAny ρ (ts.getD i default) ivs) = true := fun h' => hin (of_decide_eq_true h')
        rw [if_neg this]; omega

theorem range_getD (ts : List Task) : (List.range ts.length).map (fun i => ts.getD i default) = ts := by
  apply List.ext_getElem
  · simp
  · intro i h1 h2
    simp [List.getD, h2]

/-- **C03 (ScheduleNTasksInTimeIntervals, lower side).**  With kind `min` or `exact`, at least `n`
    tasks of the list lie inside one of the listed intervals, in every interpretation satisfying the
    constraint's assertions — for any number of tasks and intervals, overlapping or not.  (The upper
    side of `max` / `exact` is not enforced by the library: finding F11.) -/
theorem C03_scheduleN_lower (c : Nat) (ts : List Task) (n : Nat) (ivs : List (Int × Int)) (kind : CountKind)
    (ρ : Env) (hk : kind ≠ .max) (h : Sat ρ ((CBody.scheduleN ts n ivs kind).raw c)) :
    n ≤ countInside ρ ts ivs := by
  rw [schedN_raw, Sat.append] at h
  have hcount := schedN_count ρ c ts ivs (List.range ts.length) h.1
  rw [range_getD] at hcount
  have hpb := h.2 _ (List.mem_singleton.2 rfl)
  unfold countInside
  cases kind with
  | max => exact absurd rfl hk
  | min => simp only [pbFun, Fml.eval] at hpb; omega
  | exact => simp only [pbFun, Fml.eval] at hpb; omega

/-- lifted to `initialize`: every enforced ScheduleNTasksInTimeIntervals constraint of kind `min` / `exact` -/
theorem C03_scheduleN_enforced (cfg : Config) (st : State) (ρ : Env) (hρ : Sat ρ (initFmls cfg st))
    (cst : Constr) (he : Enforced st cst) (ts : List Task) (n : Nat) (ivs : List (Int × Int)) (kind : CountKind)
    (hb : cst.body = .scheduleN ts n ivs kind) (hk : kind ≠ .max) : n ≤ countInside ρ ts ivs := by
  obtain ⟨hc, hopt, hop⟩ := he
  apply C03_scheduleN_lower cst.id ts n ivs kind ρ hk
  rw [← hb, ← C10_mandatory cst hopt]
  exact C10_constraint_part cfg st ρ hρ cst hc hop

/-! ### TasksContiguous, read pairwise -/

/-- starts and ends of the tasks are ordered alike -/
def TasksComonotone (ρ : Env) (ts : List Task) : Prop :=
  ∀ x ∈ ts, ∀ y ∈ ts, x.startV ρ < y.startV ρ → x.endV ρ < y.endV ρ

/-- **C03 (TasksContiguous, pairwise).**  Whenever the listed tasks are ordered alike by start and by end, every task
    of the list that ends at a non-negative instant is followed without a gap by its immediate successor by start
    (if that one starts at a non-negative instant: negative instants are where unscheduled tasks are parked). -/
theorem ContiguousOK_pairwise (ρ : Env) (ts : List Task) (h : ContiguousOK ρ ts) (hco : TasksComonotone ρ ts) :
    ∀ a ∈ ts, ∀ b ∈ ts, a.startV ρ < b.startV ρ →
      (∀ c ∈ ts, ¬ (a.startV ρ < c.startV ρ ∧ c.startV ρ < b.startV ρ)) →
      0 ≤ a.endV ρ → 0 ≤ b.startV ρ → b.startV ρ = a.endV ρ := by
  intro a ha b hb hab hsucc
  obtain ⟨hS, hE, hg⟩ := h
  have := gaps_pairwise (ts.map (fun x => (x.startV ρ, x.endV ρ))) (fun e s => 0 ≤ e → 0 ≤ s → s = e)
    (by simpa [List.map_map, Function.comp_def] using hS)
    (by simpa [List.map_map, Function.comp_def] using hE)
    (by
      intro x hx y hy hxy
      obtain ⟨x', hx', rfl⟩ := List.mem_map.1 hx
      obtain ⟨y', hy', rfl⟩ := List.mem_map.1 hy
      exact hco x' hx' y' hy' hxy)
    (by
      intro i hi
      simp only [List.length_map] at hi
      simpa [List.map_map, Function.comp_def] using hg i hi)
    (a.startV ρ, a.endV ρ) (b.startV ρ, b.endV ρ) (List.mem_map.2 ⟨a, ha, rfl⟩) (List.mem_map.2 ⟨b, hb, rfl⟩) hab
    (by
      intro c hc
      obtain ⟨c', hc', rfl⟩ := List.mem_map.1 hc
      exact hsucc c' hc')
  exact this

end PS
