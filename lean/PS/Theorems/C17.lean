/-
  C17 — The Gantt chart draws exactly the reported assignments at the right place.

  `ganttBars s taskMode` is the list of bars `render_gantt_matplotlib` draws (row, left edge, width,
  label; coordinates exact, in units of 1/20), tied to the matplotlib artists by the OUT channel.
  * `C17_resource_bars` – resource view: bar k of resource i is assignment k of resource i, on row
    i, from its start to its end (`mkBar_span`);
  * `C17_task_bars`     – task view: one bar per scheduled task, in order, none for the others;
  * `C17_marker_centred`– a zero-length item is a marker of width 1/10 centred on its instant;
  * `C17_buffer_steps`  – segment k of a buffer spans `[x_k, x_{k+1}]` at `level_k`, with
    `x = 0 :: change times ++ [horizon]`.
-/
import PS.Theorems.C16
namespace PS

/-- a non-empty item is drawn from its start over its length -/
theorem mkBar_span (row : Nat) (start length : Int) (label : String) (h : length ≠ 0) :
    (mkBar row start length label).row = row ∧ (mkBar row start length label).x20 = 20 * start ∧
    (mkBar row start length label).w20 = 20 * length ∧ (mkBar row start length label).label = label := by
  unfold mkBar
  have : (length == 0) = false := by simpa using h
  simp [this]

/-- **C17 (marker).** left edge + half the width = the instant -/
theorem C17_marker_centred (row : Nat) (start : Int) (label : String) :
    let b := mkBar row start 0 label
    2 * b.x20 + b.w20 = 2 * (20 * start) ∧ b.w20 = 2 := by
  simp [mkBar]
  omega

theorem enumFrom_map {α β} (f : Nat × α → β) (l : List α) (k : Nat) :
    (enumFrom k l).map f = (List.range l.length).zipWith (fun i x => f (k + i, x)) l := by
  induction l generalizing k with
  | nil => simp [enumFrom]
  | cons x xs ih =>
      simp only [enumFrom, List.map_cons, List.length_cons, List.range_succ_eq_map, List.zipWith_cons_cons,
        Nat.add_zero]
      congr 1
      rw [ih (k + 1), List.zipWith_map_left]
      congr 1
      funext i y
      congr 2
      omega

theorem enumFrom_length {α} (l : List α) (k : Nat) : (enumFrom k l).length = l.length := by
  induction l generalizing k with
  | nil => rfl
  | cons x xs ih => simp [enumFrom, ih]

/-- **C17 (task view).** Exactly one bar per scheduled task, none for unscheduled ones. -/
theorem C17_task_bars (s : Solution) :
    (ganttBars s true).length = (s.tasks.filter (·.scheduled)).length ∧
    ganttRowLabels s true = (s.tasks.filter (·.scheduled)).map (·.name) := by
  constructor
  · simp [ganttBars, effectiveTaskMode, enumFrom_length]
  · simp [ganttRowLabels, effectiveTaskMode]

theorem getElem?_enumFrom {α} (l : List α) (k i : Nat) : (enumFrom k l)[i]? = (l[i]?).map (fun x => (k + i, x)) := by
  induction l generalizing k i with
  | nil => simp [enumFrom]
  | cons y ys ih =>
      cases i with
      | zero => simp [enumFrom]
      | succ j =>
          simp only [enumFrom, List.getElem?_cons_succ, ih]
          cases ys[j]? <;> simp
          omega

/-- the k-th bar of the task view is the k-th scheduled task, on row k, from its start over its
    duration -/
theorem C17_task_bar_at (s : Solution) (k : Nat) (t : TaskSol) (h : (s.tasks.filter (·.scheduled))[k]? = some t) :
    (ganttBars s true)[k]? =
      some (mkBar k t.start t.duration (if t.assigned.isEmpty then emptySet else ",".intercalate t.assigned)) := by
  simp only [ganttBars, effectiveTaskMode, Bool.true_or, if_true, List.getElem?_map, getElem?_enumFrom, h,
    Option.map_some, Nat.zero_add]

/-- **C17 (resource view).** The bars are, resource by resource in row order, the reported
    assignments, each drawn on the row of its resource from its start to its end. -/
theorem C17_resource_bars (s : Solution) (hres : s.resources ≠ []) :
    ganttBars s false =
      (enumFrom 0 s.resources).flatMap (fun p => p.2.assignments.map (fun a => mkBar p.1 a.2.1 (a.2.2 - a.2.1) a.1)) ∧
    ganttRowLabels s false = s.resources.map (·.name) := by
  have : s.resources.isEmpty = false := by cases hr : s.resources <;> simp_all
  constructor
  · simp [ganttBars, effectiveTaskMode, this]
  · simp [ganttRowLabels, effectiveTaskMode, this]

theorem C17_resource_bar_count (s : Solution) (hres : s.resources ≠ []) :
    (ganttBars s false).length = (s.resources.map (fun r => r.assignments.length)).sum := by
  rw [(C17_resource_bars s hres).1]
  generalize (0 : Nat) = k
  induction s.resources generalizing k with
  | nil => simp [enumFrom]
  | cons r rs ih => simp [enumFrom, ih]

/-- **C17 (buffers).** -/
theorem C17_buffer_steps (horizon : Int) (b : BufSol) (k : Nat) (y : Int) (h : b.levels[k]? = some y) :
    (bufferSteps horizon b)[k]? =
      some (((0 :: b.times) ++ [horizon]).getD k 0, ((0 :: b.times) ++ [horizon]).getD (k + 1) 0, y) := by
  simp only [bufferSteps, List.getElem?_map, getElem?_enumFrom, h, Option.map_some, Nat.zero_add]

end PS
