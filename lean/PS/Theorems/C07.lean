/-
  C07 — Optimisation returns a best schedule; early stops still return valid ones.

  The incremental optimiser is `incLoop` (PS/Model/Solver.lean) run against an arbitrary
  oracle.  "z3 is trusted" is the hypothesis `ConsistentAns`: a `sat ρ` answer satisfies the
  assertion stack the check saw, an `unsat` answer means the stack has no model.  Under it, for
  every list of answers / durations, every `max_iter`, `max_time`:
    * `C07_anytime`  – whatever the exit, the returned model satisfies the problem's assertions
                        and is at least as good as every value found before;
    * `C07_optimal`  – if the loop ends on `unsat`, no admitted schedule is strictly better;
  The bound-stop exit (the declared bound was reached) is tied to the code by the SM channel and
  sampled by RUN; it has no separate theorem (see DESIGN.md §6).
-/
import PS.Model.Solver
import PS.Proofs.InitMem
namespace PS

def ConsistentAns (stk : List Fml) : Answer → Prop
  | .sat ρ => Sat ρ stk
  | .unsat => ¬ ∃ ρ, Sat ρ stk
  | .unknown => True

/-- `a` is strictly better than `b` for the goal -/
def Goal.better (g : Goal) (a b : Int) : Prop := if g.isMin then a < b else b < a
def Goal.noWorse (g : Goal) (a b : Int) : Prop := if g.isMin then a ≤ b else b ≤ a

theorem boundFml_eval (g : Goal) (v : Int) (ρ : Env) : (boundFml g v).eval ρ ↔ g.better (ρ.i g.target) v := by
  unfold boundFml Goal.better
  by_cases h : g.isMin = true <;> simp [h, Fml.eval, Term.eval, numT]

theorem Goal.better_trans (g : Goal) {a b c : Int} (h1 : g.better a b) (h2 : g.better b c) : g.better a c := by
  unfold Goal.better at *; by_cases h : g.isMin = true <;> simp [h] at * <;> omega

theorem Goal.not_better_noWorse (g : Goal) {a b : Int} (h : ¬ g.better a b) : g.noWorse b a := by
  unfold Goal.better at h; unfold Goal.noWorse; by_cases hm : g.isMin = true <;> simp [hm] at * <;> omega

theorem Goal.better_noWorse (g : Goal) {a b : Int} (h : g.better a b) : g.noWorse a b := by
  unfold Goal.better at h; unfold Goal.noWorse; by_cases hm : g.isMin = true <;> simp [hm] at * <;> omega

/-- what holds of the loop state at every iteration and at every exit -/
structure LoopInv (base : List Fml) (g : Goal) (l : LoopSt) : Prop where
  frames_sub : ∀ b ∈ l.frames, ∃ v ∈ l.values, b = boundFml g v
  sorted : l.values.Pairwise g.better
  best_ok : ∀ v vs, l.values = v :: vs → ∃ ρ, l.best = some ρ ∧ ρ.i g.target = v ∧ Sat ρ base
  best_none : l.values = [] → l.best = none

/-- the frames pushed so far cover every value found (used only while the loop continues) -/
def FramesFull (g : Goal) (l : LoopSt) : Prop := ∀ v ∈ l.values, boundFml g v ∈ l.frames

theorem found_seen (l : LoopSt) (base : List Fml) (g : Goal) (ρ : Env) (d : Int) :
    (l.found base g ρ d).seen = l.seen ++ [(base ++ l.frames.reverse, Answer.sat ρ)] := rfl

theorem seen_mono (base : List Fml) (g : Goal) (mi : Option Nat) (mt : Int) :
    ∀ (answers : List (Answer × Int)) (l : LoopSt), ∀ p ∈ l.seen, p ∈ (incLoop base g mi mt answers l).seen := by
  intro answers
  induction answers with
  | nil =>
      intro l p hp
      simp only [incLoop]
      split <;> exact hp
  | cons ad rest ih =>
      intro l p hp
      obtain ⟨a, d⟩ := ad
      simp only [incLoop]
      by_cases h1 : iterExceeded mi (l.iter + 1) = true
      · simp [h1, hp]
      · simp only [h1, Bool.false_eq_true, if_false]
        cases a with
        | unsat => simp [hp]
        | unknown => simp [hp]
        | sat ρ =>
            have hp1 : p ∈ (l.found base g ρ d).seen := by rw [found_seen]; simp [hp]
            simp only
            by_cases h2 : (l.found base g ρ d).total > mt
            · simp [h2, hp1]
            · simp only [h2, if_false]
              by_cases h3 : (g.bound == some (ρ.i g.target)) = true
              · simp [h3, hp1]
              · simp only [h3, Bool.false_eq_true, if_false]
                by_cases h4 : (nextThree l.three (l.found base g ρ d).total mt).2 = true
                · simp [h4, hp1]
                · simp only [h4, Bool.false_eq_true, if_false]
                  apply ih
                  exact hp1

/-- optimality statement at an `unsat` exit -/
def OptimalAtUnsat (base : List Fml) (g : Goal) (f : LoopSt) : Prop :=
  f.exit = "unsat" →
    (f.values = [] → ¬ ∃ ρ, Sat ρ base) ∧
    (∀ v vs, f.values = v :: vs → ∀ ρ', Sat ρ' base → g.noWorse v (ρ'.i g.target))

/-- the invariant after a consistent `sat ρ` answer -/
theorem found_inv (base : List Fml) (g : Goal) (l : LoopSt) (ρ : Env) (d : Int)
    (hinv : LoopInv base g l) (hfull : FramesFull g l) (hsat : Sat ρ (base ++ l.frames.reverse))
    (l' : LoopSt) (hv : l'.values = ρ.i g.target :: l.values) (hb : l'.best = some ρ)
    (hf : ∀ b ∈ l'.frames, ∃ v ∈ l'.values, b = boundFml g v) : LoopInv base g l' := by
  rw [Sat.append] at hsat
  refine ⟨hf, ?_, ?_, ?_⟩
  · rw [hv, List.pairwise_cons]
    refine ⟨?_, hinv.sorted⟩
    intro w hw
    have := hsat.2 (boundFml g w) (List.mem_reverse.2 (hfull w hw))
    exact (boundFml_eval g w ρ).1 this
  · intro v vs hvv
    rw [hv] at hvv
    injection hvv with h1 _
    exact ⟨ρ, hb, h1, hsat.1⟩
  · intro h; rw [hv] at h; simp at h

theorem incLoop_spec (base : List Fml) (g : Goal) (mi : Option Nat) (mt : Int) :
    ∀ (answers : List (Answer × Int)) (l : LoopSt),
      LoopInv base g l → FramesFull g l → l.exit ≠ "unsat" →
      (∀ p ∈ (incLoop base g mi mt answers l).seen, ConsistentAns p.1 p.2) →
      LoopInv base g (incLoop base g mi mt answers l) ∧ OptimalAtUnsat base g (incLoop base g mi mt answers l) := by
  intro answers
  induction answers with
  | nil =>
      intro l hinv _ _ _
      simp only [incLoop]
      split
      · exact ⟨⟨hinv.frames_sub, hinv.sorted, hinv.best_ok, hinv.best_none⟩, by intro h; simp at h⟩
      · exact ⟨⟨hinv.frames_sub, hinv.sorted, hinv.best_ok, hinv.best_none⟩, by intro h; simp at h⟩
  | cons ad rest ih =>
      intro l hinv hfull hex hcons
      obtain ⟨a, d⟩ := ad
      simp only [incLoop] at hcons ⊢
      by_cases h1 : iterExceeded mi (l.iter + 1) = true
      · simp only [h1, if_true]
        refine ⟨⟨hinv.frames_sub, hinv.sorted, hinv.best_ok, hinv.best_none⟩, ?_⟩
        intro h; simp at h
      · simp only [h1, Bool.false_eq_true, if_false] at hcons ⊢
        cases a with
        | unknown =>
            refine ⟨⟨hinv.frames_sub, hinv.sorted, hinv.best_ok, hinv.best_none⟩, ?_⟩
            intro h; simp at h
        | unsat =>
            simp only at hcons ⊢
            refine ⟨⟨hinv.frames_sub, hinv.sorted, hinv.best_ok, hinv.best_none⟩, ?_⟩
            intro _
            have hc := hcons (base ++ l.frames.reverse, Answer.unsat) (by simp)
            simp only [ConsistentAns] at hc
            constructor
            · intro hv
              intro ⟨ρ, hρ⟩
              apply hc
              refine ⟨ρ, ?_⟩
              rw [Sat.append]
              refine ⟨hρ, ?_⟩
              intro b hb
              obtain ⟨v, hvm, _⟩ := hinv.frames_sub b (List.mem_reverse.1 hb)
              have hv' : l.values = [] := hv
              rw [hv'] at hvm
              simp at hvm
            · intro v vs hv0 ρ' hρ'
              have hv : l.values = v :: vs := hv0
              apply g.not_better_noWorse
              intro hbet
              apply hc
              refine ⟨ρ', ?_⟩
              rw [Sat.append]
              refine ⟨hρ', ?_⟩
              intro b hb
              obtain ⟨w, hwm, rfl⟩ := hinv.frames_sub b (List.mem_reverse.1 hb)
              rw [boundFml_eval]
              rw [hv] at hwm
              rcases List.mem_cons.1 hwm with rfl | hw
              · exact hbet
              · have hs := hinv.sorted
                rw [hv, List.pairwise_cons] at hs
                exact g.better_trans hbet (hs.1 w hw)
        | sat ρ =>
            simp only at hcons ⊢
            have oldFr : ∀ b ∈ l.frames, ∃ v ∈ (ρ.i g.target :: l.values), b = boundFml g v := by
              intro b hb
              obtain ⟨v, hv, rfl⟩ := hinv.frames_sub b hb
              exact ⟨v, List.mem_cons_of_mem _ hv, rfl⟩
            have hmem : (base ++ l.frames.reverse, Answer.sat ρ) ∈ (l.found base g ρ d).seen := by
              rw [found_seen]; simp
            by_cases h2 : (l.found base g ρ d).total > mt
            · simp only [h2, if_true] at hcons ⊢
              have hs : Sat ρ (base ++ l.frames.reverse) := hcons _ hmem
              exact ⟨found_inv base g l ρ d hinv hfull hs _ rfl rfl oldFr, by intro h; simp at h⟩
            · simp only [h2, if_false] at hcons ⊢
              by_cases h3 : (g.bound == some (ρ.i g.target)) = true
              · simp only [h3, if_true] at hcons ⊢
                have hs : Sat ρ (base ++ l.frames.reverse) := hcons _ hmem
                exact ⟨found_inv base g l ρ d hinv hfull hs _ rfl rfl oldFr, by intro h; simp at h⟩
              · simp only [h3, Bool.false_eq_true, if_false] at hcons ⊢
                by_cases h4 : (nextThree l.three (l.found base g ρ d).total mt).2 = true
                · simp only [h4, if_true] at hcons ⊢
                  have hs : Sat ρ (base ++ l.frames.reverse) := hcons _ hmem
                  exact ⟨found_inv base g l ρ d hinv hfull hs _ rfl rfl oldFr, by intro h; simp at h⟩
                · simp only [h4, Bool.false_eq_true, if_false] at hcons ⊢
                  have hs : Sat ρ (base ++ l.frames.reverse) :=
                    hcons _ (seen_mono base g mi mt rest _ _ hmem)
                  apply ih
                  · apply found_inv base g l ρ d hinv hfull hs _ rfl rfl
                    intro b hb
                    rcases List.mem_cons.1 hb with rfl | hb
                    · exact ⟨_, List.mem_cons_self .., rfl⟩
                    · exact oldFr b hb
                  · intro v hv
                    rcases List.mem_cons.1 hv with rfl | hv
                    · exact List.mem_cons_self ..
                    · exact List.mem_cons_of_mem _ (hfull v hv)
                  · exact hex
                  · exact hcons

/-- initial loop state -/
theorem LoopInv_init (base : List Fml) (g : Goal) : LoopInv base g {} :=
  ⟨by simp, by simp, by simp, by simp⟩

/-- **C07 (anytime).** Whatever stops the loop — unsat, unknown, `max_iter`, `max_time`, the
    expected-time guard, the declared bound, or the end of the oracle's answers — if a model is
    returned it satisfies the problem's assertions, its objective value is the last value found,
    and that value is strictly better than every value found earlier. -/
theorem C07_anytime (base : List Fml) (g : Goal) (mi : Option Nat) (mt : Int) (answers : List (Answer × Int))
    (hcons : ∀ p ∈ (incLoop base g mi mt answers {}).seen, ConsistentAns p.1 p.2) :
    let f := incLoop base g mi mt answers {}
    (∀ ρ, f.best = some ρ → Sat ρ base ∧ ∃ vs, f.values = ρ.i g.target :: vs ∧ ∀ w ∈ vs, g.better (ρ.i g.target) w) ∧
    (f.best = none ↔ f.values = []) := by
  intro f
  have h := (incLoop_spec base g mi mt answers {} (LoopInv_init base g) (by simp [FramesFull]) (by simp) hcons).1
  constructor
  · intro ρ hb
    cases hv : f.values with
    | nil => have := h.best_none hv; rw [this] at hb; exact absurd hb (by simp)
    | cons v vs =>
        obtain ⟨ρ', hb', hval, hsat⟩ := h.best_ok v vs hv
        rw [hb] at hb'; injection hb' with hb'; subst hb'
        refine ⟨hsat, vs, by rw [hval], ?_⟩
        have hs := h.sorted
        rw [hv, List.pairwise_cons] at hs
        rw [hval]; exact hs.1
  · constructor
    · intro hb
      cases hv : f.values with
      | nil => rfl
      | cons v vs =>
          obtain ⟨ρ', hb', _, _⟩ := h.best_ok v vs hv
          rw [hb] at hb'; exact absurd hb' (by simp)
    · exact h.best_none

/-- **C07 (optimal).** If the loop ends because the oracle answered `unsat`, the returned model
    attains the best value of the objective over *all* interpretations admitted by the
    problem's assertions (and if nothing was found, the problem has no model). -/
theorem C07_optimal (base : List Fml) (g : Goal) (mi : Option Nat) (mt : Int) (answers : List (Answer × Int))
    (hcons : ∀ p ∈ (incLoop base g mi mt answers {}).seen, ConsistentAns p.1 p.2)
    (hexit : (incLoop base g mi mt answers {}).exit = "unsat") :
    let f := incLoop base g mi mt answers {}
    (f.best = none → ¬ ∃ ρ, Sat ρ base) ∧
    (∀ ρ, f.best = some ρ → ∀ ρ', Sat ρ' base → g.noWorse (ρ.i g.target) (ρ'.i g.target)) := by
  intro f
  obtain ⟨hinv, hopt⟩ := incLoop_spec base g mi mt answers {} (LoopInv_init base g) (by simp [FramesFull]) (by simp) hcons
  obtain ⟨h1, h2⟩ := hopt hexit
  constructor
  · intro hb
    apply h1
    cases hv : f.values with
    | nil => rfl
    | cons v vs =>
        obtain ⟨ρ', hb', _, _⟩ := hinv.best_ok v vs hv
        rw [hb] at hb'; exact absurd hb' (by simp)
  · intro ρ hb ρ' hρ'
    cases hv : f.values with
    | nil => have := hinv.best_none hv; rw [this] at hb; exact absurd hb (by simp)
    | cons v vs =>
        obtain ⟨ρ2, hb2, hval, _⟩ := hinv.best_ok v vs hv
        rw [hb] at hb2; injection hb2 with hb2; subst hb2
        rw [hval]; exact h2 v vs hv ρ' hρ'

/-! ### the bound-stop exit and the weighted sum -/

/-- if the loop stops because the declared bound was reached, the returned model attains that bound -/
theorem incLoop_bound (base : List Fml) (g : Goal) (mi : Option Nat) (mt : Int) :
    ∀ (answers : List (Answer × Int)) (l : LoopSt), l.exit ≠ "bound" →
      (incLoop base g mi mt answers l).exit = "bound" →
      ∃ ρ, (incLoop base g mi mt answers l).best = some ρ ∧ g.bound = some (ρ.i g.target) := by
  intro answers
  induction answers with
  | nil =>
      intro l hne h
      simp only [incLoop] at h
      split at h <;> simp at h <;> exact absurd h hne
  | cons ad rest ih =>
      intro l hne h
      obtain ⟨a, d⟩ := ad
      simp only [incLoop] at h ⊢
      by_cases h1 : iterExceeded mi (l.iter + 1) = true
      · simp [h1] at h
      · simp only [h1, Bool.false_eq_true, if_false] at h ⊢
        cases a with
        | unsat => simp at h
        | unknown => simp at h
        | sat ρ =>
            simp only at h ⊢
            by_cases h2 : (l.found base g ρ d).total > mt
            · simp [h2] at h
            · simp only [h2, if_false] at h ⊢
              by_cases h3 : (g.bound == some (ρ.i g.target)) = true
              · simp only [h3, if_true]
                exact ⟨ρ, rfl, by simpa using h3⟩
              · simp only [h3, Bool.false_eq_true, if_false] at h ⊢
                by_cases h4 : (nextThree l.three (l.found base g ρ d).total mt).2 = true
                · simp [h4] at h
                · simp only [h4, Bool.false_eq_true, if_false] at h ⊢
                  exact ih _ (by simpa [LoopSt.pushed, LoopSt.found] using hne) h

/-- **C07 (bound stop).** If the incremental loop stops because the objective reached its declared bound,
    the returned model satisfies the problem's assertions and attains that bound; hence, whenever the declared
    bound is a true bound of the objective over the admitted interpretations (what `bounds=` promises), the
    returned model is optimal. -/
theorem C07_bound_stop (base : List Fml) (g : Goal) (mi : Option Nat) (mt : Int) (answers : List (Answer × Int))
    (hcons : ∀ p ∈ (incLoop base g mi mt answers {}).seen, ConsistentAns p.1 p.2)
    (hexit : (incLoop base g mi mt answers {}).exit = "bound") :
    ∃ ρ b, (incLoop base g mi mt answers {}).best = some ρ ∧ Sat ρ base ∧ g.bound = some b ∧ ρ.i g.target = b ∧
      ((∀ ρ', Sat ρ' base → g.noWorse b (ρ'.i g.target)) →
        ∀ ρ', Sat ρ' base → g.noWorse (ρ.i g.target) (ρ'.i g.target)) := by
  obtain ⟨ρ, hb, hbound⟩ := incLoop_bound base g mi mt answers {} (by simp) hexit
  have hany := (C07_anytime base g mi mt answers hcons).1 ρ hb
  refine ⟨ρ, ρ.i g.target, hb, hany.1, hbound, rfl, ?_⟩
  intro htrue ρ' hρ'
  exact htrue ρ' hρ'

/-- the weighted sum of the objectives' targets -/
noncomputable def weightedSum (os : List Objective) (ρ : Env) : Int :=
  (os.map (fun o => o.weight * o.target.eval ρ)).sum

theorem evalSum_weighted (ρ : Env) (os : List Objective) :
    Term.evalSum ρ (os.map (fun o => Term.mul (numT o.weight) o.target)) = weightedSum os ρ := by
  unfold weightedSum
  induction os with
  | nil => simp [Term.evalSum]
  | cons o rest ih =>
      simp only [List.map_cons, Term.evalSum, List.sum_cons, Term.eval, numT]
      simp only [numT] at ih
      rw [ih]

/-- **C07 (weighted sum).** With several objectives and the incremental optimiser (or the built-in one in
    `weight` priority mode), the variable the optimiser works on equals, in every interpretation admitted by
    `initialize`, the weighted sum of the objectives' targets — so `C07_optimal` / `C07_bound_stop` /
    `C07_anytime` for the goal installed by `create_objective` are statements about that weighted sum. -/
theorem C07_weighted (cfg : Config) (st : State) (ρ : Env) (hρ : Sat ρ (initFmls cfg st))
    (hmany : st.objectives.length > 1) (hmode : cfg.optimize = false ∨ cfg.priority = "weight") :
    ρ.i (.ind "EquivalentIndicator") = weightedSum st.objectives ρ := by
  have hcond : (decide (st.objectives.length > 1) && (!cfg.optimize || cfg.priority == "weight")) = true := by
    rcases hmode with h | h <;> simp [hmany, h]
  have hmem : ∀ f ∈ objectiveFmls cfg st, f.eval ρ := by
    intro f hf
    apply hρ
    unfold initFmls
    exact List.mem_append_right _ hf
  unfold objectiveFmls at hmem
  rw [if_pos hcond] at hmem
  have h1 := hmem _ (List.mem_cons_self ..)
  have h2 := hmem _ (List.mem_cons_of_mem _ (List.mem_cons_self ..))
  simp only [Fml.eval, Term.eval] at h1 h2
  rw [h2, h1, evalSum_weighted]

/-- … and that variable is the target of the goal the solver installs -/
theorem C07_weighted_goal (cfg : SConfig) (st : State) (g : Goal) (hmany : st.objectives.length > 1)
    (hg : mkGoal cfg st = some g) : g.target = .ind "EquivalentIndicator" := by
  unfold mkGoal at hg
  match hos : st.objectives with
  | [] => rw [hos] at hmany; simp at hmany
  | [o] => rw [hos] at hmany; simp at hmany
  | o1 :: o2 :: rest =>
      rw [hos] at hg
      simp only at hg
      split at hg
      · simp only [Option.some.injEq] at hg; rw [← hg]
      · simp at hg

end PS
