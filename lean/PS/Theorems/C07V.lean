/-
  PS.Theorems.C07V — optimality, read on schedules: when the incremental loop ends on `unsat`, the value of the
  returned model is no worse than the value of the objective's indicator on **every valid schedule** of the problem
  (`C07_optimal` says it for admitted interpretations; `C05_complete_core` turns valid schedules into admitted
  interpretations, and the indicator takes its defined value there).
-/
import PS.Theorems.C07
import PS.Theorems.Exact
namespace PS

/-- **C07 (optimal, on schedules).** -/
theorem C07_optimal_valid (cfg : Config) (st : State) (hc : InCore st) (g : Goal) (mi : Option Nat) (mt : Int)
    (answers : List (Answer × Int))
    (hcons : ∀ p ∈ (incLoop (initFmls cfg st) g mi mt answers {}).seen, ConsistentAns p.1 p.2)
    (hexit : (incLoop (initFmls cfg st) g mi mt answers {}).exit = "unsat") :
    let f := incLoop (initFmls cfg st) g mi mt answers {}
    (f.best = none → ¬ ∃ σ, Valid st σ) ∧
    (∀ ρ, f.best = some ρ → ∀ σ, Valid st σ → g.noWorse (ρ.i g.target) ((envOf st σ).i g.target)) := by
  intro f
  obtain ⟨h1, h2⟩ := C07_optimal (initFmls cfg st) g mi mt answers hcons hexit
  constructor
  · intro hb ⟨σ, hv⟩
    exact h1 hb ⟨envOf st σ, C05_complete_core cfg st σ hc hv⟩
  · intro ρ hb σ hv
    exact h2 ρ hb (envOf st σ) (C05_complete_core cfg st σ hc hv)

end PS
