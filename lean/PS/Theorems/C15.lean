/-
  C15 — Solver options change performance and search order only, never validity.

  What the repository's own logic contributes (the behaviour of z3 under its options is trusted):
  * `C15_core_cfg_free`  – the assertion list of `initialize` is `coreFmls st`, which does not
    depend on the configuration at all, followed by the objective plumbing, which depends only on
    whether the weighted-sum objective is built; `parallel`, `random_values`, `verbosity`,
    `debug`, `logics` do not enter;
  * `C15_tracked_equiv`  – debug mode asserts `p_i ⇒ a_i` for fresh tracking literals `p_i` and
    checks under the assumption that all `p_i` hold: equivalent to asserting the `a_i`;
  * every soundness theorem (C01–C04, C08–C10) is stated for *every* `cfg`, so any schedule
    returned under any configuration is valid.
-/
import PS.Theorems.C01
import PS.Model.Solver
namespace PS

/-- everything `initialize` asserts except the objective plumbing -/
def coreFmls (st : State) : List Fml :=
  (st.tasks.flatMap (fun t => st.taskAsserts t ++ [t.horizonFml])) ++
  (st.workers.flatMap (fun w => noOverlapPairs w.name (st.busyOf w.name))) ++
  ((st.constrs.filter (fun c => !c.operand)).flatMap (fun c => c.asserts)) ++
  (st.indicators.flatMap (fun i => i.asserts)) ++
  (st.tasks.flatMap (fun t => workAmount st t)) ++
  (st.buffers.flatMap (fun b => bufferFmls st b)) ++
  st.problemAsserts

/-- **C15.** The configuration enters the constraint system only through the objective plumbing. -/
theorem C15_core_cfg_free (cfg : Config) (st : State) :
    initFmls cfg st = coreFmls st ++ objectiveFmls cfg st := rfl

/-- … and that plumbing depends only on `optimizer` / `optimize_priority` -/
theorem C15_objective_plumbing (c1 c2 : Config) (st : State)
    (h : (!c1.optimize || c1.priority == "weight") = (!c2.optimize || c2.priority == "weight")) :
    objectiveFmls c1 st = objectiveFmls c2 st := by
  unfold objectiveFmls
  rw [h]

theorem C15_same_assertions (c1 c2 : Config) (st : State)
    (h : (!c1.optimize || c1.priority == "weight") = (!c2.optimize || c2.priority == "weight")) :
    initFmls c1 st = initFmls c2 st := by
  rw [C15_core_cfg_free, C15_core_cfg_free, C15_objective_plumbing c1 c2 st h]

/-- with at most one objective nothing depends on the configuration -/
theorem C15_single_objective (c1 c2 : Config) (st : State) (h : st.objectives.length ≤ 1) :
    initFmls c1 st = initFmls c2 st := by
  rw [C15_core_cfg_free, C15_core_cfg_free]
  congr 1
  unfold objectiveFmls
  have : ¬ (st.objectives.length > 1) := by omega
  simp [this]

/-- debug mode: assertion `i` is tracked by literal `i` -/
def trackAll (fs : List Fml) : List Fml := (List.range fs.length).map (fun i => Fml.tracked i (fs.getD i .tt))

/-- **C15 / C19.** Under the assumption that every tracking literal holds (which is how z3
    checks a solver with tracked assertions), the tracked assertions say exactly what the plain
    ones say: debug mode does not change the constraint system. -/
theorem C15_tracked_equiv (ρ : Env) (fs : List Fml) (hp : ∀ n, ρ.p n = true) :
    Sat ρ (trackAll fs) ↔ Sat ρ fs := by
  unfold trackAll Sat
  constructor
  · intro h a ha
    obtain ⟨i, hi, rfl⟩ := List.getElem_of_mem ha
    have := h (Fml.tracked i (fs.getD i .tt)) (List.mem_map.2 ⟨i, List.mem_range.2 hi, rfl⟩)
    simp only [Fml.eval, hp, true_implies] at this
    simpa [List.getD, hi] using this
  · intro h a ha
    obtain ⟨i, hi, rfl⟩ := List.mem_map.1 ha
    have hi' := List.mem_range.1 hi
    simp only [Fml.eval, hp, true_implies]
    apply h
    simp [List.getD, hi']

/-- validity under every configuration: the C01 statement does not mention `cfg` on the right -/
theorem C15_valid_any_cfg (cfg : Config) (st : State) (ρ : Env) (hρ : Sat ρ (initFmls cfg st)) :
    ∀ t ∈ st.tasks, Scheduled ρ t → TaskTimingOK st.horizon t ρ := C01_task_timing cfg st ρ hρ

end PS
