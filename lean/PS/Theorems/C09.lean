/-
  C09 — Buffer levels follow loads/unloads in time order and stay within bounds.

  For an interpretation ρ that satisfies the assertions `bufferFmls st b` that `initialize` emits for
  buffer `b` (solver.py:263-385), with `bufEvents` the accesses of `b` as (instant, signed quantity):
  unloading tasks at their start with `−q`, loading tasks at their end with `+q`:

  * `C09_levels_nonconcurrent` / `C09_levels_concurrent` – the change times are the access instants
    in increasing order, and after the i-th change time the level is the initial level plus the
    quantities of **all** accesses at instants ≤ that time (so: in time order, −q at the start of an
    unloading task, +q at the completion of a loading task; simultaneous accesses of a concurrent
    buffer are applied together and the duplicate change time repeats the level);
  * `C09_exclusive` – a non-concurrent buffer is never accessed by two tasks at the same instant;
    `C09_concurrent_tie_possible` – a concurrent buffer may be (a concrete satisfying interpretation);
  * `C09_initial`, `C09_final`, `C09_bounds` – the sequence starts at the declared initial level,
    ends at the required final level, and every level lies within the declared bounds.
  Hypothesis `hlen` (one change time per access): no task is declared twice as unloading (or twice
  as loading) the same buffer — the real registries are dicts keyed by task, the change-time list is
  not (recorded in DESIGN.md as outside the modelled use).
-/
import PS.Proofs.Buffer
import PS.Proofs.InitMem
import PS.Proofs.EvalB
import PS.Model.Step
import PS.Model.Solution
import PS.Spec.Twins
namespace PS
open List

/-- the accesses of buffer `b` as (instant, signed quantity) under ρ -/
def bufEvents (st : State) (b : Buffer) (ρ : Env) : List (Int × Int) :=
  (st.bufUnloading b.name).map (fun e => (ρ.i (.tStart e.1), - e.2)) ++
  (st.bufLoading b.name).map (fun e => (ρ.i (.tEnd e.1), e.2))

/-- the instants handed to the sorting network -/
def bufInputs (st : State) (b : Buffer) : List Term :=
  (st.bufUnloading b.name).map (fun e => Term.var (.tStart e.1)) ++
  (st.bufLoading b.name).map (fun e => Term.var (.tEnd e.1))

/-- value of the i-th level variable (`0` = the initial level) and of the i-th change time -/
noncomputable def levelAt (st : State) (b : Buffer) (ρ : Env) (i : Nat) : Int :=
  ((b.levelVars (st.bufAccesses b.name)).getD i default).eval ρ

noncomputable def changeTimes (st : State) (b : Buffer) (ρ : Env) : List Int :=
  (b.timeVars (st.bufAccesses b.name)).map (fun t => t.eval ρ)

theorem bufInputs_eval (st : State) (b : Buffer) (ρ : Env) :
    (bufInputs st b).map (fun t => t.eval ρ) = (bufEvents st b ρ).map (·.1) := by
  simp [bufInputs, bufEvents, Term.eval, Function.comp_def]

theorem bufInputs_length (st : State) (b : Buffer) (ρ : Env) : (bufInputs st b).length = (bufEvents st b ρ).length := by
  simp [bufInputs, bufEvents]

/-! ### the parts of `bufferFmls` -/

def bufEqs (sorted times : List Term) : List Fml := (sorted.zip times).map (fun x => Fml.eq x.1 x.2)

def bufFinal (b : Buffer) (levels : List Term) : List Fml :=
  match b.final with
  | some f => [Fml.eq (levels.getLastD default) (numT f)]
  | none => []

def bufLbs (b : Buffer) (levels : List Term) : List Fml :=
  match b.lb with | some l => levels.map (fun v => Fml.ge v (numT l)) | none => []

def bufUbs (b : Buffer) (levels : List Term) : List Fml :=
  match b.ub with | some u => levels.map (fun v => Fml.le v (numT u)) | none => []

def bufArr (b : Buffer) : String := "Buffer_" ++ b.name ++ "_mapping"

def bufStores (st : State) (b : Buffer) : List Fml :=
  (st.bufUnloading b.name).map (fun e => Fml.storeFix (bufArr b) (.var (.tStart e.1)) (numT (- e.2))) ++
  (st.bufLoading b.name).map (fun e => Fml.storeFix (bufArr b) (.var (.tEnd e.1)) (numT e.2))

def bufStepsNC (b : Buffer) (levels times : List Term) : List Fml :=
  (List.range (levels.length - 1)).map (fun i =>
    Fml.eq (levels.getD (i + 1) default) (.add (levels.getD i default) (.select (bufArr b) (times.getD i default))))

/-- (function name, access instant, signed quantity) of the concurrent encoding -/
def bufFuns (st : State) (b : Buffer) : List (String × Term × Int) :=
  (st.bufUnloading b.name).map (fun e => (b.name ++ "_" ++ e.1 ++ "_quantity_unloading", Term.var (.tStart e.1), - e.2)) ++
  (st.bufLoading b.name).map (fun e => (b.name ++ "_" ++ e.1 ++ "_quantity_loading", Term.var (.tEnd e.1), e.2))

def bufPulses (st : State) (b : Buffer) : List Fml :=
  (bufFuns st b).map (fun (f, p, q) => Fml.pulse ("t_" ++ b.name ++ "_variable") f p q)

def bufStepsC (st : State) (b : Buffer) (levels times : List Term) : List Fml :=
  (List.range (levels.length - 1)).map (fun i =>
    let li := levels.getD i default
    let li1 := levels.getD (i + 1) default
    let ti := times.getD i default
    let upd := Fml.eq li1 (.add li (.sum ((bufFuns st b).map (fun (f, _, _) => Term.app f ti))))
    if i == 0 then upd
    else Fml.ite (.eq ti (times.getD (i - 1) default)) (.eq li1 li) upd)

theorem bufferFmls_nonconc (st : State) (b : Buffer) (hc : b.concurrent = false) :
    bufferFmls st b =
      b.ownAsserts ++ (sortNoDup (fun i => .bfresh b.name i) (bufInputs st b)).2 ++
      bufEqs (sortNoDup (fun i => .bfresh b.name i) (bufInputs st b)).1 (b.timeVars (st.bufAccesses b.name)) ++
      bufFinal b (b.levelVars (st.bufAccesses b.name)) ++ bufLbs b (b.levelVars (st.bufAccesses b.name)) ++
      bufUbs b (b.levelVars (st.bufAccesses b.name)) ++
      (bufStores st b ++ bufStepsNC b (b.levelVars (st.bufAccesses b.name)) (b.timeVars (st.bufAccesses b.name))) := by
  unfold bufferFmls
  simp only [hc, Bool.false_eq_true, if_false]
  rfl

theorem bufferFmls_conc (st : State) (b : Buffer) (hc : b.concurrent = true) :
    bufferFmls st b =
      b.ownAsserts ++ (sortDup b.name (bufInputs st b)).2 ++
      bufEqs (sortDup b.name (bufInputs st b)).1 (b.timeVars (st.bufAccesses b.name)) ++
      bufFinal b (b.levelVars (st.bufAccesses b.name)) ++ bufLbs b (b.levelVars (st.bufAccesses b.name)) ++
      bufUbs b (b.levelVars (st.bufAccesses b.name)) ++
      (bufPulses st b ++ bufStepsC st b (b.levelVars (st.bufAccesses b.name)) (b.timeVars (st.bufAccesses b.name))) := by
  unfold bufferFmls
  simp only [hc, if_true]
  rfl

/-- the parts that do not depend on the kind of buffer -/
theorem bufferFmls_common (st : State) (b : Buffer) (ρ : Env) (h : Sat ρ (bufferFmls st b)) :
    Sat ρ b.ownAsserts ∧ Sat ρ (bufFinal b (b.levelVars (st.bufAccesses b.name))) ∧
    Sat ρ (bufLbs b (b.levelVars (st.bufAccesses b.name))) ∧ Sat ρ (bufUbs b (b.levelVars (st.bufAccesses b.name))) := by
  cases hc : b.concurrent with
  | false =>
      rw [bufferFmls_nonconc st b hc] at h
      simp only [Sat.append] at h
      exact ⟨h.1.1.1.1.1.1, h.1.1.1.2, h.1.1.2, h.1.2⟩
  | true =>
      rw [bufferFmls_conc st b hc] at h
      simp only [Sat.append] at h
      exact ⟨h.1.1.1.1.1.1, h.1.1.1.2, h.1.1.2, h.1.2⟩

/-! ### start, end, bounds -/

/-- **C09 (start).** the level sequence starts at the declared initial level -/
theorem C09_initial (st : State) (b : Buffer) (ρ : Env) (h : Sat ρ (bufferFmls st b)) (i0 : Int)
    (hi : b.initial = some i0) : levelAt st b ρ 0 = i0 := by
  have := (bufferFmls_common st b ρ h).1
  unfold Buffer.ownAsserts at this
  rw [hi] at this
  have := this _ (List.mem_singleton.2 rfl)
  simpa [levelAt, Buffer.levelVars, Fml.eval, Term.eval, numT] using this

/-- **C09 (end).** the last level is the required final level -/
theorem C09_final (st : State) (b : Buffer) (ρ : Env) (h : Sat ρ (bufferFmls st b)) (f : Int)
    (hf : b.final = some f) : levelAt st b ρ (st.bufAccesses b.name).length = f := by
  have := (bufferFmls_common st b ρ h).2.1
  unfold bufFinal at this
  rw [hf] at this
  have := this _ (List.mem_singleton.2 rfl)
  simp only [Fml.eval, Term.eval, numT] at this
  rw [← this]
  unfold levelAt
  congr 1
  simp only [Buffer.levelVars]
  rw [List.getLastD_eq_getLast?, List.getD_eq_getElem?_getD, List.getLast?_eq_getElem?]
  simp

/-- **C09 (bounds).** every level – the initial one and the one after the accesses of every change
    time – lies within the declared bounds -/
theorem C09_bounds (st : State) (b : Buffer) (ρ : Env) (h : Sat ρ (bufferFmls st b)) (i : Nat)
    (hi : i ≤ (st.bufAccesses b.name).length) :
    (∀ l, b.lb = some l → l ≤ levelAt st b ρ i) ∧ (∀ u, b.ub = some u → levelAt st b ρ i ≤ u) := by
  obtain ⟨_, _, hl, hu⟩ := bufferFmls_common st b ρ h
  have hlen : (b.levelVars (st.bufAccesses b.name)).length = (st.bufAccesses b.name).length + 1 := by
    simp [Buffer.levelVars]
  have hmem : (b.levelVars (st.bufAccesses b.name)).getD i default ∈ b.levelVars (st.bufAccesses b.name) := by
    rw [List.getD_eq_getElem?_getD, List.getElem?_eq_getElem (by omega)]
    exact List.getElem_mem _
  constructor
  · intro l hlb
    unfold bufLbs at hl
    rw [hlb] at hl
    have := hl _ (List.mem_map.2 ⟨_, hmem, rfl⟩)
    simpa [levelAt, Fml.eval, Term.eval, numT] using this
  · intro u hub
    unfold bufUbs at hu
    rw [hub] at hu
    have := hu _ (List.mem_map.2 ⟨_, hmem, rfl⟩)
    simpa [levelAt, Fml.eval, Term.eval, numT] using this

end PS

namespace PS
open List

/-! ### change times and levels -/

theorem sortInts_sorted (X : List Int) : (sortInts X).Pairwise (· ≤ ·) := by
  have := List.pairwise_mergeSort (le := leB) (by intro a b c; simp [leB]; omega) (by intro a b; simp [leB]; omega) X
  unfold sortInts
  exact this.imp (by intro a b h; simpa [leB] using h)

theorem sortInts_perm (X : List Int) : (sortInts X).Perm X := List.mergeSort_perm X _

theorem zip_eqs_sound (ρ : Env) : ∀ (A B : List Term), A.length = B.length → Sat ρ (bufEqs A B) →
    B.map (fun t => t.eval ρ) = A.map (fun t => t.eval ρ)
  | [], [], _, _ => rfl
  | [], _ :: _, h, _ => by simp at h
  | _ :: _, [], h, _ => by simp at h
  | a :: A, b :: B, hlen, h => by
      simp only [bufEqs, List.zip_cons_cons, List.map_cons] at h
      rw [Sat.cons] at h
      have ih := zip_eqs_sound ρ A B (by simpa using hlen) h.2
      have h1 := h.1
      simp only [Fml.eval] at h1
      simp [h1, ih]

theorem getD_of_lt (T : List Int) (i : Nat) (hi : i < T.length) : T.getD i 0 = T[i] := by
  simp [List.getD, hi]

theorem levelAt_eval (st : State) (b : Buffer) (ρ : Env) (i : Nat) :
    ((b.levelVars (st.bufAccesses b.name)).getD i default).eval ρ = levelAt st b ρ i := rfl

theorem time_eval (st : State) (b : Buffer) (ρ : Env) (i : Nat) :
    ((b.timeVars (st.bufAccesses b.name)).getD i default).eval ρ = (changeTimes st b ρ).getD i 0 := by
  unfold changeTimes
  exact eval_getD _ _ _

theorem levels_length (st : State) (b : Buffer) :
    (b.levelVars (st.bufAccesses b.name)).length - 1 = (st.bufAccesses b.name).length := by
  simp [Buffer.levelVars]

theorem changeTimes_length (st : State) (b : Buffer) (ρ : Env) :
    (changeTimes st b ρ).length = (st.bufAccesses b.name).length := by
  simp [changeTimes, Buffer.timeVars]

/-- **C09 (non-concurrent buffer).**  The accesses happen at pairwise distinct instants; the change
    times are those instants in increasing order; after the i-th change time the level is the initial
    level plus the quantity of every access at an instant ≤ that time. -/
theorem C09_levels_nonconcurrent (st : State) (b : Buffer) (ρ : Env) (hc : b.concurrent = false)
    (hlen : (st.bufAccesses b.name).length = (bufEvents st b ρ).length)
    (h : Sat ρ (bufferFmls st b)) :
    ((bufEvents st b ρ).map (·.1)).Nodup ∧
    changeTimes st b ρ = sortInts ((bufEvents st b ρ).map (·.1)) ∧
    ∀ i, i < (st.bufAccesses b.name).length →
      levelAt st b ρ (i + 1) = levelAt st b ρ 0 + sumUpTo (bufEvents st b ρ) ((changeTimes st b ρ).getD i 0) := by
  rw [bufferFmls_nonconc st b hc] at h
  simp only [Sat.append] at h
  obtain ⟨⟨⟨⟨⟨⟨_, hsort⟩, heqs⟩, _⟩, _⟩, _⟩, hstores, hsteps⟩ := h
  obtain ⟨hS, hnd⟩ := sortNoDup_sound _ _ ρ hsort
  rw [bufInputs_eval] at hS hnd
  have hT : changeTimes st b ρ = sortInts ((bufEvents st b ρ).map (·.1)) := by
    rw [← hS]
    exact zip_eqs_sound ρ _ _ (by simp [sortNoDup, Buffer.timeVars, bufInputs_length st b ρ, hlen]) heqs
  refine ⟨hnd, hT, ?_⟩
  set ev := bufEvents st b ρ with hev
  set T := changeTimes st b ρ with hTdef
  have hTlen : T.length = (st.bufAccesses b.name).length := changeTimes_length st b ρ
  have hTperm : T.Perm (ev.map (·.1)) := by rw [hT]; exact sortInts_perm _
  have hTnd : T.Nodup := hTperm.nodup_iff.2 hnd
  -- the array holds the quantity of each access at its instant
  have harr : ∀ e ∈ ev, ρ.a (bufArr b) e.1 = e.2 := by
    intro e he
    simp only [hev, bufEvents, List.mem_append, List.mem_map] at he
    rcases he with ⟨x, hx, rfl⟩ | ⟨x, hx, rfl⟩
    · have := hstores (Fml.storeFix (bufArr b) (.var (.tStart x.1)) (numT (- x.2))) (by
        simp only [bufStores, List.mem_append, List.mem_map]; exact Or.inl ⟨x, hx, rfl⟩)
      simpa [Fml.eval, Term.eval, numT] using this
    · have := hstores (Fml.storeFix (bufArr b) (.var (.tEnd x.1)) (numT x.2)) (by
        simp only [bufStores, List.mem_append, List.mem_map]; exact Or.inr ⟨x, hx, rfl⟩)
      simpa [Fml.eval, Term.eval, numT] using this
  -- one step of the recurrence
  have hrec : ∀ i, i < T.length → levelAt st b ρ (i + 1) = levelAt st b ρ i + sumAt ev (T.getD i 0) := by
    intro i hi
    have := hsteps _ (List.mem_map.2 ⟨i, List.mem_range.2 (by rw [levels_length]; omega), rfl⟩)
    simp only [Fml.eval, Term.eval, levelAt_eval, time_eval] at this
    rw [this]
    congr 1
    have hmem : T.getD i 0 ∈ ev.map (·.1) := by
      rw [getD_of_lt T i hi]
      exact hTperm.subset (List.getElem_mem _)
    obtain ⟨e, he, he1⟩ := List.mem_map.1 hmem
    rw [← he1, sumAt_unique ev hnd e he, harr e he]
  rw [← hTlen]
  apply levels_closed_form T (levelAt st b ρ) ev
  · rw [hT]; exact sortInts_sorted _
  · intro e he
    exact hTperm.symm.subset (List.mem_map.2 ⟨e, he, rfl⟩)
  · intro h0; exact hrec 0 h0
  · intro i hi0 hi
    have hne : T.getD i 0 ≠ T.getD (i - 1) 0 := by
      rw [getD_of_lt T i hi, getD_of_lt T (i - 1) (by omega)]
      intro heq
      have := (List.Nodup.getElem_inj_iff hTnd).1 heq
      omega
    rw [if_neg hne]
    exact hrec i hi

/-- **C09 (exclusive access).** a non-concurrent buffer is never accessed by two tasks at the same
    instant -/
theorem C09_exclusive (st : State) (b : Buffer) (ρ : Env) (hc : b.concurrent = false)
    (h : Sat ρ (bufferFmls st b)) : ((bufEvents st b ρ).map (·.1)).Nodup := by
  rw [bufferFmls_nonconc st b hc] at h
  simp only [Sat.append] at h
  have := (sortNoDup_sound _ _ ρ h.1.1.1.1.1.2).2
  rwa [bufInputs_eval] at this

end PS

namespace PS
open List

theorem pulses_sum (ρ : Env) (ti : Term) : ∀ (fs : List (String × Term × Int)),
    (∀ x ∈ fs, ∀ t : Int, ρ.f x.1 t = if t = x.2.1.eval ρ then x.2.2 else 0) →
    (Term.sum (fs.map (fun (x : String × Term × Int) => Term.app x.1 ti))).eval ρ =
      sumAt (fs.map (fun x => (x.2.1.eval ρ, x.2.2))) (ti.eval ρ)
  | [], _ => by simp [Term.eval, Term.evalSum, sumAt]
  | x :: fs, hp => by
      have ih := pulses_sum ρ ti fs (fun y hy => hp y (by simp [hy]))
      simp only [Term.eval] at ih
      simp only [List.map_cons, Term.eval, Term.evalSum, sumAt_cons, ih]
      rw [hp x (by simp)]
      by_cases h : ti.eval ρ = x.2.1.eval ρ
      · simp [h]
      · have : ¬ x.2.1.eval ρ = ti.eval ρ := fun h' => h h'.symm
        simp [h, this]

theorem bufFuns_events (st : State) (b : Buffer) (ρ : Env) :
    (bufFuns st b).map (fun x => (x.2.1.eval ρ, x.2.2)) = bufEvents st b ρ := by
  simp [bufFuns, bufEvents, Term.eval, Function.comp_def]

/-- **C09 (concurrent buffer).**  The change times are the access instants in non-decreasing order
    (simultaneous accesses give repeated change times); after the i-th change time the level is the
    initial level plus the quantity of every access at an instant ≤ that time – all the accesses of one
    instant are applied together, and a repeated change time repeats the level. -/
theorem C09_levels_concurrent (st : State) (b : Buffer) (ρ : Env) (hc : b.concurrent = true)
    (hlen : (st.bufAccesses b.name).length = (bufEvents st b ρ).length)
    (h : Sat ρ (bufferFmls st b)) :
    (changeTimes st b ρ).Pairwise (· ≤ ·) ∧
    (changeTimes st b ρ).Perm ((bufEvents st b ρ).map (·.1)) ∧
    ∀ i, i < (st.bufAccesses b.name).length →
      levelAt st b ρ (i + 1) = levelAt st b ρ 0 + sumUpTo (bufEvents st b ρ) ((changeTimes st b ρ).getD i 0) := by
  rw [bufferFmls_conc st b hc] at h
  simp only [Sat.append] at h
  obtain ⟨⟨⟨⟨⟨⟨_, hsort⟩, heqs⟩, _⟩, _⟩, _⟩, hpulses, hsteps⟩ := h
  obtain ⟨hSs, hSp⟩ := sortDup_sound b.name (bufInputs st b) ρ hsort
  have hSl := sortDup_length b.name (bufInputs st b) ρ hsort
  rw [bufInputs_eval] at hSp
  have hT : changeTimes st b ρ = (sortDup b.name (bufInputs st b)).1.map (fun t => t.eval ρ) :=
    zip_eqs_sound ρ _ _ (by simp [hSl, Buffer.timeVars, bufInputs_length st b ρ, hlen]) heqs
  rw [← hT] at hSs hSp
  refine ⟨hSs, hSp, ?_⟩
  set ev := bufEvents st b ρ with hev
  set T := changeTimes st b ρ with hTdef
  have hTlen : T.length = (st.bufAccesses b.name).length := changeTimes_length st b ρ
  have hp : ∀ x ∈ bufFuns st b, ∀ t : Int, ρ.f x.1 t = if t = x.2.1.eval ρ then x.2.2 else 0 := by
    intro x hx t
    have := hpulses _ (List.mem_map.2 ⟨x, hx, rfl⟩)
    simp only [Fml.eval] at this
    by_cases ht : t = x.2.1.eval ρ
    · rw [if_pos ht]; exact (this t).1 ht
    · rw [if_neg ht]; exact (this t).2 ht
  have hsum : ∀ i, (Term.sum ((bufFuns st b).map (fun (x : String × Term × Int) =>
        Term.app x.1 ((b.timeVars (st.bufAccesses b.name)).getD i default)))).eval ρ = sumAt ev (T.getD i 0) := by
    intro i
    rw [pulses_sum ρ _ (bufFuns st b) hp, bufFuns_events, time_eval]
  rw [← hTlen]
  apply levels_closed_form T (levelAt st b ρ) ev hSs
  · intro e he
    exact hSp.symm.subset (List.mem_map.2 ⟨e, he, rfl⟩)
  · intro h0
    have := hsteps _ (List.mem_map.2 ⟨0, List.mem_range.2 (by rw [levels_length]; omega), rfl⟩)
    simp only [beq_self_eq_true, if_true, Fml.eval] at this
    rw [levelAt_eval] at this
    rw [this]
    simp only [Term.eval] at hsum ⊢
    rw [levelAt_eval]
    congr 1
    exact hsum 0
  · intro i hi0 hi
    have := hsteps _ (List.mem_map.2 ⟨i, List.mem_range.2 (by rw [levels_length]; omega), rfl⟩)
    have hne : (i == 0) = false := by simp; omega
    simp only [hne, Bool.false_eq_true, if_false, Fml.eval, time_eval, levelAt_eval] at this
    by_cases heq : T.getD i 0 = T.getD (i - 1) 0
    · rw [if_pos heq]; exact this.1 heq
    · rw [if_neg heq]
      have := this.2 heq
      simp only [Term.eval] at this hsum
      rw [levelAt_eval] at this
      rw [this, hsum i]

end PS

/-! ### non-vacuity: concrete interpretations that meet the hypotheses (kernel-checked) -/
namespace PS

def C09_exState (conc : Bool) : State :=
  run [.problem "p" (some 12),
       .task "A" (.fixed 2) false 0 none none true 1,
       .task "B" (.fixed 3) false 0 none none true 1,
       .task "C" (.fixed 1) false 0 none none true 1,
       .buffer "S" conc (some 10) (some 8) (some 4) (some 20),
       .constr none false (.unloadBuffer "A" "S" 3),
       .constr none false (.loadBuffer "B" "S" 5),
       .constr none false (.unloadBuffer "C" "S" 4)]

def C09_exBuffer (conc : Bool) : Buffer := (C09_exState conc).buffers.headD default

/-- non-concurrent: A unloads 3 at 0, C unloads 4 at 2, B loads 5 at 4: levels 10, 7, 3?? — no: bound 4;
    so C unloads at 5 after B's load: 10 → 7 → 12 → 8 -/
def C09_exEnvNC : Env :=
  { i := fun v => match v with
      | .tStart "A" => 0 | .tEnd "A" => 2
      | .tStart "B" => 1 | .tEnd "B" => 4
      | .tStart "C" => 5 | .tEnd "C" => 6
      | .bfresh "S" 0 => 0 | .bfresh "S" 1 => 4 | .bfresh "S" 2 => 5
      | .bufInit "S" => 10
      | .bufTime "S" "A_unloading" => 0 | .bufTime "S" "B_loading" => 4 | .bufTime "S" "C_unloading" => 5
      | .bufLevel "S" "A_unloading" => 7 | .bufLevel "S" "B_loading" => 12 | .bufLevel "S" "C_unloading" => 8
      | _ => 0
    b := fun _ => true
    a := fun _ x => if x = 0 then -3 else if x = 4 then 5 else if x = 5 then -4 else 0 }

example : (C09_exBuffer false).concurrent = false ∧
    ((C09_exState false).bufAccesses "S").length = (bufEvents (C09_exState false) (C09_exBuffer false) C09_exEnvNC).length := by
  decide +kernel

example : Sat C09_exEnvNC (bufferFmls (C09_exState false) (C09_exBuffer false)) :=
  satB_sound _ _ (by decide +kernel) (by decide +kernel)

/-- **C09: a concurrent buffer may be accessed by two tasks at the same instant.**  A unloads 3 at 4
    while B loads 5 at 4 (A=[4,6], B=[1,4]); C unloads 4 at 7: change times 4,4,7, levels 10,12,12,8.
    The quantifier-free part is evaluated by the kernel, the three pulse functions are checked below. -/
def C09_exEnvC : Env :=
  { i := fun v => match v with
      | .tStart "A" => 4 | .tEnd "A" => 6
      | .tStart "B" => 1 | .tEnd "B" => 4
      | .tStart "C" => 7 | .tEnd "C" => 8
      | .bufInit "S" => 10
      | .bufTime "S" "A_unloading" => 4 | .bufTime "S" "B_loading" => 4 | .bufTime "S" "C_unloading" => 7
      | .bufLevel "S" "A_unloading" => 12 | .bufLevel "S" "B_loading" => 12 | .bufLevel "S" "C_unloading" => 8
      -- the bubble network on the inputs [A.start = 4, C.start = 7, B.end = 4]
      | .bfresh "S" 0 => 4 | .bfresh "S" 1 => 7 | .bfresh "S" 2 => 4 | .bfresh "S" 3 => 7
      | .bfresh "S" 4 => 4 | .bfresh "S" 5 => 4 | .bfresh "S" 6 => 4 | .bfresh "S" 7 => 7
      | .bfresh "S" 8 => 4 | .bfresh "S" 9 => 4 | .bfresh "S" 10 => 4 | .bfresh "S" 11 => 7
      | _ => 0
    b := fun _ => true
    f := fun f x =>
      if f = "S_A_quantity_unloading" then (if x = 4 then -3 else 0)
      else if f = "S_C_quantity_unloading" then (if x = 7 then -4 else 0)
      else if f = "S_B_quantity_loading" then (if x = 4 then 5 else 0)
      else 0 }

theorem C09_concurrent_tie_possible :
    Sat C09_exEnvC (bufferFmls (C09_exState true) (C09_exBuffer true)) ∧
    ¬ ((bufEvents (C09_exState true) (C09_exBuffer true) C09_exEnvC).map (·.1)).Nodup := by
  constructor
  · rw [bufferFmls_conc _ _ (by decide +kernel)]
    simp only [Sat.append]
    refine ⟨⟨⟨⟨⟨⟨?_, ?_⟩, ?_⟩, ?_⟩, ?_⟩, ?_⟩, ?_, ?_⟩
    · exact satB_sound _ _ (by decide +kernel) (by decide +kernel)
    · exact satB_sound _ _ (by decide +kernel) (by decide +kernel)
    · exact satB_sound _ _ (by decide +kernel) (by decide +kernel)
    · exact satB_sound _ _ (by decide +kernel) (by decide +kernel)
    · exact satB_sound _ _ (by decide +kernel) (by decide +kernel)
    · exact satB_sound _ _ (by decide +kernel) (by decide +kernel)
    · -- the pulses: each function is its quantity at its instant and 0 elsewhere
      have hf : bufFuns (C09_exState true) (C09_exBuffer true) =
          [("S_A_quantity_unloading", Term.var (.tStart "A"), -3), ("S_C_quantity_unloading", Term.var (.tStart "C"), -4),
           ("S_B_quantity_loading", Term.var (.tEnd "B"), 5)] := by rfl
      intro a ha
      simp only [bufPulses, hf, List.map_cons, List.map_nil, List.mem_cons, List.not_mem_nil, or_false] at ha
      rcases ha with rfl | rfl | rfl <;>
      · simp only [Fml.eval, Term.eval, C09_exEnvC]
        intro x
        constructor
        · intro hx; subst hx; decide
        · intro hx; simp [hx]
    · exact satB_sound _ _ (by decide +kernel) (by decide +kernel)
  · decide +kernel

end PS

/-! ### the reported sequence (`clean_buffer_levels`, solver.py:601-621) -/
namespace PS
open List

def cleanStep (acc : List Int × List Int) (p : Int × Int) : List Int × List Int :=
  if acc.2.contains p.2 then acc else (acc.1 ++ [p.1], acc.2 ++ [p.2])

theorem cleanFold_inv (S : List (Int × Int)) : ∀ (ps : List (Int × Int)) (acc : List Int × List Int),
    (∀ p ∈ ps, p ∈ S) → (∀ q ∈ acc.1.zip acc.2, q ∈ S) → acc.1.length = acc.2.length → acc.2.Nodup →
    let r := ps.foldl cleanStep acc
    (∀ q ∈ r.1.zip r.2, q ∈ S) ∧ r.1.length = r.2.length ∧ r.2.Nodup ∧
    (∀ τ ∈ acc.2, τ ∈ r.2) ∧ (∀ p ∈ ps, p.2 ∈ r.2)
  | [], acc, _, h1, h2, h3 => ⟨h1, h2, h3, fun _ h => h, by simp⟩
  | p :: ps, acc, hps, h1, h2, h3 => by
      simp only [List.foldl_cons]
      by_cases hc : acc.2.contains p.2 = true
      · have hstep : cleanStep acc p = acc := by unfold cleanStep; rw [if_pos hc]
        rw [hstep]
        obtain ⟨a, b, c, d, e⟩ := cleanFold_inv S ps acc (fun q hq => hps q (by simp [hq])) h1 h2 h3
        refine ⟨a, b, c, d, ?_⟩
        intro q hq
        rcases List.mem_cons.1 hq with rfl | hq
        · exact d _ (by simpa using hc)
        · exact e q hq
      · have hstep : cleanStep acc p = (acc.1 ++ [p.1], acc.2 ++ [p.2]) := by unfold cleanStep; rw [if_neg hc]
        rw [hstep]
        have hnot : p.2 ∉ acc.2 := by simpa using hc
        obtain ⟨a, b, c, d, e⟩ := cleanFold_inv S ps (acc.1 ++ [p.1], acc.2 ++ [p.2])
          (fun q hq => hps q (by simp [hq]))
          (by
            intro q hq
            rw [List.zip_append h2] at hq
            rcases List.mem_append.1 hq with hq | hq
            · exact h1 q hq
            · simp at hq; rw [hq]; exact hps p (by simp))
          (by simp [h2])
          (by
            rw [List.nodup_append]
            refine ⟨h3, by simp, ?_⟩
            intro x hx y hy
            simp at hy; subst hy
            intro hxy; subst hxy; exact hnot hx)
        refine ⟨a, b, c, fun τ hτ => d τ (by simp [hτ]), ?_⟩
        intro q hq
        rcases List.mem_cons.1 hq with rfl | hq
        · exact d _ (by simp)
        · exact e q hq

/-- what `clean_buffer_levels` keeps: the initial level, then (level, change time) pairs taken from the
    encoder's sequences, with pairwise distinct change times, none of the change times lost -/
theorem cleanBufferLevels_spec (l0 : Int) (Ls T : List Int) :
    let r := cleanBufferLevels (l0 :: Ls) T
    r.1.head? = some l0 ∧ (∀ q ∈ r.1.tail.zip r.2, q ∈ Ls.zip T) ∧ r.2.Nodup ∧ r.1.tail.length = r.2.length ∧
    (∀ p ∈ Ls.zip T, p.2 ∈ r.2) := by
  have := cleanFold_inv (Ls.zip T) (Ls.zip T) ([], []) (fun _ h => h) (by simp) rfl (by simp)
  simp only [cleanBufferLevels]
  obtain ⟨a, b, c, _, e⟩ := this
  exact ⟨rfl, a, c, b, e⟩

/-- **C09 (reported sequence).**  In the solution built from an admitted interpretation, the buffer's
    reported levels start at the initial level and every reported (level, change time) pair satisfies
    `level = initial + Σ quantities of the accesses at instants ≤ change time`; reported change times are
    pairwise distinct and every access instant is among them. -/
theorem C09_reported (st : State) (b : Buffer) (ρ : Env)
    (hlen : (st.bufAccesses b.name).length = (bufEvents st b ρ).length)
    (h : Sat ρ (bufferFmls st b)) :
    let s := bufferSol st ρ b
    s.levels.head? = some (levelAt st b ρ 0) ∧ s.times.Nodup ∧
    (∀ q ∈ s.levels.tail.zip s.times, q.1 = levelAt st b ρ 0 + sumUpTo (bufEvents st b ρ) q.2) ∧
    (∀ e ∈ bufEvents st b ρ, e.1 ∈ s.times) := by
  -- the closed form and the cover, whichever kind of buffer
  have hcf : (∀ i, i < (st.bufAccesses b.name).length →
        levelAt st b ρ (i + 1) = levelAt st b ρ 0 + sumUpTo (bufEvents st b ρ) ((changeTimes st b ρ).getD i 0)) ∧
      (∀ e ∈ bufEvents st b ρ, e.1 ∈ changeTimes st b ρ) := by
    cases hc : b.concurrent with
    | false =>
        obtain ⟨_, hT, hl⟩ := C09_levels_nonconcurrent st b ρ hc hlen h
        refine ⟨hl, ?_⟩
        intro e he; rw [hT]
        exact (sortInts_perm _).symm.subset (List.mem_map.2 ⟨e, he, rfl⟩)
    | true =>
        obtain ⟨_, hp, hl⟩ := C09_levels_concurrent st b ρ hc hlen h
        exact ⟨hl, fun e he => hp.symm.subset (List.mem_map.2 ⟨e, he, rfl⟩)⟩
  obtain ⟨hl, hcov⟩ := hcf
  set acc := st.bufAccesses b.name with hacc
  have hlev : (b.levelVars acc).map (fun t => t.evalB ρ) =
      levelAt st b ρ 0 :: (List.range acc.length).map (fun i => levelAt st b ρ (i + 1)) := by
    simp only [Buffer.levelVars, List.map_cons, Term.evalB, List.map_map]
    congr 1
    apply List.ext_getElem
    · simp
    · intro i h1 h2
      simp [levelAt, Buffer.levelVars, Term.eval, Term.evalB, ← hacc, List.getD, (by simpa using h1 : i < acc.length)]
  have htim : (b.timeVars acc).map (fun t => t.evalB ρ) = changeTimes st b ρ := by
    simp [changeTimes, Buffer.timeVars, Term.evalB, Term.eval, ← hacc]
  intro s
  have hs : s = { name := b.name,
                  levels := (cleanBufferLevels (levelAt st b ρ 0 :: (List.range acc.length).map (fun i => levelAt st b ρ (i + 1)))
                              (changeTimes st b ρ)).1,
                  times := (cleanBufferLevels (levelAt st b ρ 0 :: (List.range acc.length).map (fun i => levelAt st b ρ (i + 1)))
                              (changeTimes st b ρ)).2 } := by
    simp only [s, bufferSol, ← hacc, hlev, htim]
  obtain ⟨h1, h2, h3, _, h5⟩ := cleanBufferLevels_spec (levelAt st b ρ 0)
    ((List.range acc.length).map (fun i => levelAt st b ρ (i + 1))) (changeTimes st b ρ)
  have hTlen : (changeTimes st b ρ).length = acc.length := changeTimes_length st b ρ
  rw [hs]
  refine ⟨h1, h3, ?_, ?_⟩
  · intro q hq
    have hq' := h2 q hq
    obtain ⟨i, hi, hqi⟩ := List.getElem_of_mem hq'
    simp only [List.length_zip, List.length_map, List.length_range, hTlen, min_self] at hi
    rw [List.getElem_zip] at hqi
    have h1' : q.1 = levelAt st b ρ (i + 1) := by rw [← hqi]; simp
    have h2' : q.2 = (changeTimes st b ρ).getD i 0 := by
      rw [← hqi]; simp [List.getD, (by omega : i < (changeTimes st b ρ).length)]
    rw [h1', h2']
    exact hl i hi
  · intro e he
    have hmem := hcov e he
    obtain ⟨i, hi, hei⟩ := List.getElem_of_mem hmem
    apply h5 (levelAt st b ρ (i + 1), e.1)
    rw [← hei]
    have : i < ((List.range acc.length).map (fun i => levelAt st b ρ (i + 1))).length := by simp; omega
    have hz := List.getElem_mem (l := ((List.range acc.length).map (fun i => levelAt st b ρ (i + 1))).zip (changeTimes st b ρ))
      (n := i) (by simp [List.length_zip]; omega)
    rw [List.getElem_zip] at hz
    simpa using hz

end PS

/-! ### the spec twin used by the SEM channel is a consequence of the theorems -/
namespace PS
open List

theorem bufEventTerms_eval (st : State) (b : Buffer) (ρ : Env) :
    (bufEventTerms st b).map (fun e => (e.1.eval ρ, e.2)) = bufEvents st b ρ := by
  simp [bufEventTerms, bufEvents, Term.eval, Function.comp_def]

theorem sumIte_eval (ρ : Env) (ti : Term) : ∀ (evs : List (Term × Int)),
    (Term.sum (evs.map (fun e => Term.ite (.le e.1 ti) (numT e.2) (numT 0)))).eval ρ =
      sumUpTo (evs.map (fun e => (e.1.eval ρ, e.2))) (ti.eval ρ)
  | [] => by simp [Term.eval, Term.evalSum, sumUpTo]
  | e :: evs => by
      have ih := sumIte_eval ρ ti evs
      simp only [Term.eval, numT] at ih
      simp only [List.map_cons, Term.eval, Term.evalSum, sumUpTo_cons, Fml.eval, numT]
      rw [ih]
      by_cases hle : e.1.eval ρ ≤ ti.eval ρ <;> simp [hle]

theorem pairwiseNe_sound (ρ : Env) : ∀ (xs : List Term), (xs.map (fun t => t.eval ρ)).Nodup → Sat ρ (pairwiseNe xs)
  | [], _ => by simp [pairwiseNe, Sat]
  | x :: rest, h => by
      rw [List.map_cons, List.nodup_cons] at h
      simp only [pairwiseNe, Sat.append]
      refine ⟨?_, pairwiseNe_sound ρ rest h.2⟩
      intro a ha
      obtain ⟨y, hy, rfl⟩ := List.mem_map.1 ha
      simp only [Fml.eval]
      intro heq
      exact h.1 (List.mem_map.2 ⟨y, hy, heq.symm⟩)

/-- **the SEM twin of C09 follows from the buffer assertions** -/
theorem C09_spec_sound (st : State) (b : Buffer) (ρ : Env) (h : Sat ρ (bufferFmls st b)) :
    Sat ρ (specC09buf st b) := by
  unfold specC09buf
  by_cases hl : ((st.bufAccesses b.name).length != (bufEventTerms st b).length) = true
  · simp only [hl, if_true]; exact Sat.nil
  simp only [hl, Bool.false_eq_true, if_false]
  have hlen : (st.bufAccesses b.name).length = (bufEvents st b ρ).length := by
    have : (st.bufAccesses b.name).length = (bufEventTerms st b).length := by simpa using hl
    rw [this, ← bufEventTerms_eval st b ρ]; simp
  obtain ⟨hini, hfin, hlb, hub⟩ := bufferFmls_common st b ρ h
  -- sortedness, cover, closed form, exclusivity for either kind of buffer
  have hall : (changeTimes st b ρ).Pairwise (· ≤ ·) ∧ (changeTimes st b ρ).Perm ((bufEvents st b ρ).map (·.1)) ∧
      (∀ i, i < (st.bufAccesses b.name).length →
        levelAt st b ρ (i + 1) = levelAt st b ρ 0 + sumUpTo (bufEvents st b ρ) ((changeTimes st b ρ).getD i 0)) ∧
      (b.concurrent = false → ((bufEvents st b ρ).map (·.1)).Nodup) := by
    cases hc : b.concurrent with
    | false =>
        obtain ⟨hnd, hT, hcl⟩ := C09_levels_nonconcurrent st b ρ hc hlen h
        exact ⟨by rw [hT]; exact sortInts_sorted _, by rw [hT]; exact sortInts_perm _, hcl, fun _ => hnd⟩
    | true =>
        obtain ⟨hs, hp, hcl⟩ := C09_levels_concurrent st b ρ hc hlen h
        exact ⟨hs, hp, hcl, fun h' => by simp at h'⟩
  obtain ⟨hsorted, hperm, hclosed, hexcl⟩ := hall
  have hTlen := changeTimes_length st b ρ
  simp only [Sat.append]
  refine ⟨⟨⟨⟨⟨⟨⟨?_, ?_⟩, ?_⟩, ?_⟩, ?_⟩, ?_⟩, ?_⟩, ?_⟩
  · intro a ha
    obtain ⟨i, hi, rfl⟩ := List.mem_map.1 ha
    have hi' := List.mem_range.1 hi
    simp only [Fml.eval, Term.eval]
    have := sumIte_eval ρ ((b.timeVars (st.bufAccesses b.name)).getD i default) (bufEventTerms st b)
    simp only [Term.eval] at this
    rw [levelAt_eval, levelAt_eval, this, bufEventTerms_eval, time_eval]
    exact hclosed i hi'
  · intro a ha
    obtain ⟨i, hi, rfl⟩ := List.mem_map.1 ha
    have hi' := List.mem_range.1 hi
    simp only [Fml.eval, time_eval]
    rw [getD_of_lt _ i (by omega), getD_of_lt _ (i + 1) (by omega)]
    exact List.pairwise_iff_getElem.1 hsorted i (i + 1) (by omega) (by omega) (by omega)
  · intro a ha
    obtain ⟨e, he, rfl⟩ := List.mem_map.1 ha
    simp only [Fml.eval]
    rw [evalAny_iff]
    have hmem : e.1.eval ρ ∈ changeTimes st b ρ := by
      apply hperm.symm.subset
      rw [← bufEventTerms_eval]
      simp only [List.map_map]
      exact List.mem_map.2 ⟨e, he, rfl⟩
    obtain ⟨t, ht, hte⟩ := List.mem_map.1 hmem
    exact ⟨Fml.eq t e.1, List.mem_map.2 ⟨t, ht, rfl⟩, by simpa [Fml.eval] using hte⟩
  · cases hc : b.concurrent with
    | true => simp only [if_true]; exact Sat.nil
    | false =>
        simp only [Bool.false_eq_true, if_false]
        apply pairwiseNe_sound
        have := hexcl hc
        rw [← bufEventTerms_eval] at this
        simpa [List.map_map, Function.comp_def] using this
  · cases hi : b.initial with
    | none => exact Sat.nil
    | some i0 =>
        intro a ha
        simp only [List.mem_singleton] at ha; subst ha
        simp only [Fml.eval, Term.eval, numT]
        rw [levelAt_eval]
        exact C09_initial st b ρ h i0 hi
  · cases hf : b.final with
    | none => exact Sat.nil
    | some f =>
        intro a ha
        simp only [List.mem_singleton] at ha; subst ha
        simp only [Fml.eval, Term.eval, numT]
        rw [levelAt_eval]
        exact C09_final st b ρ h f hf
  · exact hlb
  · exact hub

end PS
