/-
  PS.Theorems.Renumber — C14 for the declaration order of **tasks** on the scheduling core.

  Declaring the tasks in another order gives them other task numbers — and with them other parking instants for
  unscheduled optional tasks, so the two constraint systems are *not* the same formulas.  The documented meaning,
  however, never reads a task number: `ValidClean2` (the specification of `CleanSpec.lean`, with the work amount also
  on real intervals) only reads names, kinds, dates, requirements and flags.  Hence

  * `ValidClean2_renumber`: two problems that are "the same up to task numbers" (`SameUpToNumbers`: the same task
    declarations with possibly different numbers, the same workers, requirement logs per task and constraints of
    corresponding meaning) have the same valid schedules;
  * `Valid_renumber` / `C14_tasks_order_verdict`: hence — through `Valid_iff_clean2` and the exactness theorems — the
    same schedules in the sense of `Valid`, the same feasibility verdict of the encoder and the same admitted
    schedules, although the emitted formulas differ.  The hypothesis `DelaysBelowNumber` on both sides is finding F19;
  * `CoreMeaning_renumTasks`: the time and scheduling constraint classes mean the same over renumbered tasks.
-/
import PS.Theorems.CleanSpec
namespace PS

/-- the task with another number -/
def Task.renum (t : Task) (k : Nat) : Task := { t with num0 := k }

theorem TaskValid_renum (σ : Sched) (t : Task) (k : Nat) : TaskValid σ (t.renum k) ↔ TaskValid σ t :=
  ⟨fun h => ⟨h.start_nonneg, h.end_le, h.dur_eq, h.durOK, h.release, h.deadline⟩,
   fun h => ⟨h.start_nonneg, h.end_le, h.dur_eq, h.durOK, h.release, h.deadline⟩⟩

/-! ### the specification, free of the encoding -/

/-- `ValidClean` with the work amount on real intervals as well: no clause but the user formulas inside
    `CoreMeaning` mentions the witness interpretation any more -/
structure ValidClean2 (st : State) (σ : Sched) : Prop where
  horizon_nonneg : 0 ≤ σ.horizon
  horizon_le : ∀ H, st.horizon = some H → σ.horizon ≤ H
  tasks : ∀ t ∈ st.tasks, σ.isSched t = true → TaskValid σ t
  dyn : ∀ t ∈ st.tasks, ∀ r ∈ st.reqsOf t.name, r.sel = none → r.dynamic = true → σ.isSched t = true → DynValid σ t r
  counts : ∀ t ∈ st.tasks, ∀ s rs, ReqEvent.viaSelect t.name s rs true ∈ st.eventsOf t.name →
    CountOK s.kind (σ.nSelected s) s.n
  no_overlap : RealNoOverlap st σ
  work : ∀ t ∈ st.tasks, 0 < t.work → realWork st σ t ≠ [] → σ.isSched t = true → t.work ≤ (realWork st σ t).sum
  constrs : ∀ c ∈ st.constrs, c.operand = false → (c.optional = true → σ.applied c.id = true) → CoreMeaning st σ c.body

theorem filterMap_isNone_congr {α β γ} (f : α → Option β) (g : α → Option γ) (l : List α)
    (h : ∀ x ∈ l, (f x).isSome = (g x).isSome) : (l.filterMap f = []) ↔ (l.filterMap g = []) := by
  induction l with
  | nil => simp
  | cons x xs ih =>
      have hx := h x (List.mem_cons_self ..)
      have ih' := ih (fun y hy => h y (List.mem_cons_of_mem _ hy))
      cases hf : f x <;> cases hg : g x <;> simp_all

theorem realWork_nil_iff (st : State) (σ : Sched) (t : Task) : realWork st σ t = [] ↔ workTerms st t = [] := by
  unfold realWork workTerms
  apply filterMap_isNone_congr
  intro r _
  cases st.findWorker r.worker <;> rfl

theorem ValidClean_iff_clean2 (st : State) (σ : Sched) (hc : InCoreS st) : ValidClean st σ ↔ ValidClean2 st σ := by
  constructor
  · intro h
    refine ⟨h.horizon_nonneg, h.horizon_le, h.tasks, h.dyn, h.counts, h.no_overlap, ?_, h.constrs⟩
    intro t ht hw hne hs
    rw [← workSum_real st σ hc t ht hs]
    exact h.work t ht hw (fun he => hne ((realWork_nil_iff st σ t).2 he)) hs
  · intro h
    refine ⟨h.horizon_nonneg, h.horizon_le, h.tasks, h.dyn, h.counts, h.no_overlap, ?_, h.constrs⟩
    intro t ht hw hne hs
    rw [workSum_real st σ hc t ht hs]
    exact h.work t ht hw (fun he => hne ((realWork_nil_iff st σ t).1 he)) hs

theorem Valid_iff_clean2 (st : State) (σ : Sched) (hc : InCoreS st) (hdel : DelaysBelowNumber st) :
    Valid st σ ↔ ValidClean2 st σ :=
  (Valid_iff_clean st σ hc hdel).trans (ValidClean_iff_clean2 st σ hc)

/-! ### the same problem up to task numbers -/

/-- one direction of "the same problem up to task numbers" -/
structure NumbersInto (st st' : State) : Prop where
  horizon : st.horizon = st'.horizon
  tasks : ∀ t ∈ st.tasks, ∃ t' ∈ st'.tasks, t' = t.renum t'.num0
  workers : ∀ w, w ∈ st.workers → w ∈ st'.workers
  findWorker : ∀ n, st.findWorker n = st'.findWorker n
  reqs : ∀ n, st.reqsOf n = st'.reqsOf n
  events : ∀ n, st.eventsOf n = st'.eventsOf n
  constrs : ∀ c ∈ st.constrs, c.operand = false → ∃ c' ∈ st'.constrs, c'.operand = false ∧
    (c.optional = true → c'.id = c.id) ∧
    c'.optional = c.optional ∧ ∀ σ, CoreMeaning st σ c.body ↔ CoreMeaning st' σ c'.body

/-- the same task declarations (possibly with other numbers), workers, requirement logs per task, and constraints of
    corresponding meaning -/
def SameUpToNumbers (st st' : State) : Prop := NumbersInto st st' ∧ NumbersInto st' st

theorem realWork_renum (st st' : State) (σ : Sched) (h : NumbersInto st st') (t : Task) (k : Nat) :
    realWork st' σ (t.renum k) = realWork st σ t := by
  unfold realWork
  have hr : st'.reqsOf (t.renum k).name = st.reqsOf t.name := (h.reqs t.name).symm
  rw [hr]
  apply List.filterMap_congr
  intro r _
  rw [← h.findWorker r.worker]
  rfl

/-- a valid schedule (clean sense) of a problem is one of every problem that is the same up to task numbers -/
theorem ValidClean2_into (st st' : State) (σ : Sched) (h : NumbersInto st' st) (hv : ValidClean2 st σ) :
    ValidClean2 st' σ := by
  refine ⟨hv.horizon_nonneg, ?_, ?_, ?_, ?_, ?_, ?_, ?_⟩
  · intro H hH; exact hv.horizon_le H (h.horizon ▸ hH)
  · intro t' ht' hs
    obtain ⟨t, ht, he⟩ := h.tasks t' ht'
    have := hv.tasks t ht (by rw [he]; exact hs)
    rw [he] at this
    exact (TaskValid_renum σ t' t.num0).1 this
  · intro t' ht' r hr hsel hdyn hs
    obtain ⟨t, ht, he⟩ := h.tasks t' ht'
    have hr' : r ∈ st.reqsOf t.name := by rw [he, ← h.reqs]; exact hr
    have := hv.dyn t ht r hr' hsel hdyn (by rw [he]; exact hs)
    rw [he] at this
    exact this
  · intro t' ht' s rs hmem
    obtain ⟨t, ht, he⟩ := h.tasks t' ht'
    have hm' : ReqEvent.viaSelect t.name s rs true ∈ st.eventsOf t.name := by rw [he, ← h.events]; exact hmem
    exact hv.counts t ht s rs hm'
  · intro w hw t1' ht1' t2' ht2' hne r1 hr1 r2 hr2 hw1 hw2 ha1 ha2
    obtain ⟨t1, ht1, he1⟩ := h.tasks t1' ht1'
    obtain ⟨t2, ht2, he2⟩ := h.tasks t2' ht2'
    have hr1' : r1 ∈ st.reqsOf t1.name := by rw [he1, ← h.reqs]; exact hr1
    have hr2' : r2 ∈ st.reqsOf t2.name := by rw [he2, ← h.reqs]; exact hr2
    have := hv.no_overlap w (h.workers w hw) t1 ht1 t2 ht2 (by rw [he1, he2]; exact hne) r1 hr1' r2 hr2' hw1 hw2
      (by rw [he1]; exact ha1) (by rw [he2]; exact ha2)
    rw [he1, he2] at this
    exact this
  · intro t' ht' hw hne hs
    obtain ⟨t, ht, he⟩ := h.tasks t' ht'
    have hrw : realWork st σ t = realWork st' σ t' := by
      rw [he]; exact realWork_renum st' st σ h t' t.num0
    rw [← hrw]
    have ew : t.work = t'.work := by rw [he]; rfl
    have := hv.work t ht (by rw [ew]; exact hw) (by rw [hrw]; exact hne) (by rw [he]; exact hs)
    rw [← ew]
    exact this
  · intro c' hc' hop happ
    obtain ⟨c, hc, hop2, hid, hopt, hm⟩ := h.constrs c' hc' hop
    exact (hm σ).2 (hv.constrs c hc hop2 (fun ho => by
      have ho' : c'.optional = true := hopt ▸ ho
      rw [hid ho']; exact happ ho'))

/-- **C14 (task order, meaning).** -/
theorem ValidClean2_renumber (st st' : State) (σ : Sched) (h : SameUpToNumbers st st') :
    ValidClean2 st σ ↔ ValidClean2 st' σ :=
  ⟨ValidClean2_into st st' σ h.2, ValidClean2_into st' st σ h.1⟩

/-- … in the sense of `Valid`, given that neither numbering runs into finding F19 -/
theorem Valid_renumber (st st' : State) (σ : Sched) (h : SameUpToNumbers st st') (hc : InCoreS st) (hc' : InCoreS st')
    (hdel : DelaysBelowNumber st) (hdel' : DelaysBelowNumber st') : Valid st σ ↔ Valid st' σ := by
  rw [Valid_iff_clean2 st σ hc hdel, Valid_iff_clean2 st' σ hc' hdel']
  exact ValidClean2_renumber st st' σ h

/-- **C14 (task order, encoder).** Two declaration orders of the tasks of one problem of the fragment: the emitted
    formulas differ (other parking instants), the feasibility verdict and the admitted schedules do not. -/
theorem C14_tasks_order_verdict (cfg cfg' : Config) (st st' : State) (h : SameUpToNumbers st st')
    (hc : InCoreS st) (hc' : InCoreS st') (hdel : DelaysBelowNumber st) (hdel' : DelaysBelowNumber st') :
    ((∃ ρ, Sat ρ (initFmls cfg st) ∧ 0 ≤ ρ.i .horizon) ↔ (∃ ρ, Sat ρ (initFmls cfg' st') ∧ 0 ≤ ρ.i .horizon)) ∧
    (∀ ρ, Sat ρ (initFmls cfg st) → 0 ≤ ρ.i .horizon → Sat (envOf st' (schedOf ρ)) (initFmls cfg' st')) :=
  ⟨C14_core_verdict cfg cfg' st st' hc hc' (fun σ => Valid_renumber st st' σ h hc hc' hdel hdel'),
   fun ρ hρ hH => C14_core_schedules cfg cfg' st st' hc hc' (fun σ => Valid_renumber st st' σ h hc hc' hdel hdel') ρ hρ hH⟩

/-! ### constraints over renumbered tasks -/

/-- the constraint with its tasks replaced (the classes whose meaning reads task times and flags) -/
def CBody.mapTasks (f : Task → Task) : CBody → CBody
  | .startAt t v => .startAt (f t) v
  | .startAfter t v s => .startAfter (f t) v s
  | .endAt t v => .endAt (f t) v
  | .endBefore t v s => .endBefore (f t) v s
  | .precedence a b off k => .precedence (f a) (f b) off k
  | .startSynced a b => .startSynced (f a) (f b)
  | .endSynced a b => .endSynced (f a) (f b)
  | .dontOverlap a b => .dontOverlap (f a) (f b)
  | .forceSchedule t b => .forceSchedule (f t) b
  | .dependency a b => .dependency (f a) (f b)
  | .forceScheduleN ts n k => .forceScheduleN (ts.map f) n k
  | b => b

def CBody.isTimeClass : CBody → Bool
  | .startAt .. | .startAfter .. | .endAt .. | .endBefore .. | .precedence .. | .startSynced .. | .endSynced ..
  | .dontOverlap .. | .forceSchedule .. | .dependency .. | .forceScheduleN .. | .forceApplyN .. | .sameWorkers .. => true
  | _ => false

theorem countP_sched_map (σ : Sched) (f : Task → Task) (hf : ∀ t, ∃ k, f t = t.renum k) (ts : List Task) :
    (ts.map f).countP (fun t => σ.sched t.name) = ts.countP (fun t => σ.sched t.name) := by
  induction ts with
  | nil => rfl
  | cons t rest ih =>
      obtain ⟨k, hk⟩ := hf t
      simp only [List.map_cons, List.countP_cons, ih, hk]
      rfl

/-- the time and scheduling classes mean the same over renumbered tasks, in whatever problem -/
theorem CoreMeaning_renumTasks (st st' : State) (σ : Sched) (f : Task → Task) (hf : ∀ t, ∃ k, f t = t.renum k)
    (b : CBody) (hb : b.isTimeClass = true) : CoreMeaning st σ b ↔ CoreMeaning st' σ (b.mapTasks f) := by
  cases b <;> simp only [CBody.isTimeClass, Bool.false_eq_true] at hb <;> simp only [CBody.mapTasks, CoreMeaning]
  case startAt t v => obtain ⟨k, hk⟩ := hf t; rw [hk]; exact Iff.rfl
  case startAfter t v s => obtain ⟨k, hk⟩ := hf t; rw [hk]; exact Iff.rfl
  case endAt t v => obtain ⟨k, hk⟩ := hf t; rw [hk]; exact Iff.rfl
  case endBefore t v s => obtain ⟨k, hk⟩ := hf t; rw [hk]; exact Iff.rfl
  case precedence a b off kd =>
    obtain ⟨k, hk⟩ := hf a; obtain ⟨k', hk'⟩ := hf b; rw [hk, hk']; exact Iff.rfl
  case startSynced a b => obtain ⟨k, hk⟩ := hf a; obtain ⟨k', hk'⟩ := hf b; rw [hk, hk']; exact Iff.rfl
  case endSynced a b => obtain ⟨k, hk⟩ := hf a; obtain ⟨k', hk'⟩ := hf b; rw [hk, hk']; exact Iff.rfl
  case dontOverlap a b => obtain ⟨k, hk⟩ := hf a; obtain ⟨k', hk'⟩ := hf b; rw [hk, hk']; exact Iff.rfl
  case forceSchedule t bb => obtain ⟨k, hk⟩ := hf t; rw [hk]; exact Iff.rfl
  case dependency a b => obtain ⟨k, hk⟩ := hf a; obtain ⟨k', hk'⟩ := hf b; rw [hk, hk']; exact Iff.rfl
  case forceScheduleN ts n kd => rw [countP_sched_map σ f hf ts]


/-! ### the executable relation (`State.numbersIntoB`, evaluated by the driver on pairs of scripts) is sound -/

theorem sameDecl_renum {t t' : Task} (h : t.sameDecl t' = true) : t' = t.renum t'.num0 := by
  unfold Task.sameDecl at h
  exact eq_of_beq h

theorem sameDeclList_countP (σ : Sched) : ∀ (ts ts' : List Task), sameDeclList ts ts' = true →
    ts'.countP (fun t => σ.sched t.name) = ts.countP (fun t => σ.sched t.name)
  | [], [], _ => rfl
  | t :: ts, t' :: ts', h => by
      simp only [sameDeclList, Bool.and_eq_true] at h
      have ih := sameDeclList_countP σ ts ts' h.2
      have hn : t'.name = t.name := by rw [sameDecl_renum h.1]; rfl
      simp only [List.countP_cons, ih, hn]
  | [], _ :: _, h => by simp [sameDeclList] at h
  | _ :: _, [], h => by simp [sameDeclList] at h

/-- constraints that `sameUpTo` relates mean the same, in whatever problems -/
theorem CoreMeaning_sameUpTo (st st' : State) (σ : Sched) (b b' : CBody) (h : b.sameUpTo b' = true) :
    CoreMeaning st σ b ↔ CoreMeaning st' σ b' := by
  cases b <;> cases b' <;> simp only [CBody.sameUpTo, Bool.and_eq_true, beq_iff_eq, Bool.false_eq_true] at h <;>
    simp only [CoreMeaning]
  case startAt.startAt t v t' v' => rw [sameDecl_renum h.1, h.2]; exact Iff.rfl
  case startAfter.startAfter t v s t' v' s' => rw [sameDecl_renum h.1.1, h.1.2, h.2]; exact Iff.rfl
  case endAt.endAt t v t' v' => rw [sameDecl_renum h.1, h.2]; exact Iff.rfl
  case endBefore.endBefore t v s t' v' s' => rw [sameDecl_renum h.1.1, h.1.2, h.2]; exact Iff.rfl
  case precedence.precedence a b off k a' b' off' k' =>
    rw [sameDecl_renum h.1.1.1, sameDecl_renum h.1.1.2, h.1.2, h.2]; exact Iff.rfl
  case startSynced.startSynced a b a' b' => rw [sameDecl_renum h.1, sameDecl_renum h.2]; exact Iff.rfl
  case endSynced.endSynced a b a' b' => rw [sameDecl_renum h.1, sameDecl_renum h.2]; exact Iff.rfl
  case dontOverlap.dontOverlap a b a' b' => rw [sameDecl_renum h.1, sameDecl_renum h.2]; exact Iff.rfl
  case forceSchedule.forceSchedule t bb t' bb' => rw [sameDecl_renum h.1, h.2]; exact Iff.rfl
  case dependency.dependency a b a' b' => rw [sameDecl_renum h.1, sameDecl_renum h.2]; exact Iff.rfl
  case forceScheduleN.forceScheduleN ts n k ts' n' k' =>
    rw [sameDeclList_countP σ ts ts' h.1.1, h.1.2, h.2]
  case forceApplyN.forceApplyN cs n k cs' n' k' => rw [h.1.1, h.1.2, h.2]
  case sameWorkers.sameWorkers s1 s2 s1' s2' => rw [h.1, h.2]

theorem numbersIntoB_sound {st st' : State} (h : st.numbersIntoB st' = true) : NumbersInto st st' := by
  unfold State.numbersIntoB at h
  simp only [Bool.and_eq_true, decide_eq_true_eq] at h
  obtain ⟨⟨⟨⟨hh, ht⟩, hw⟩, hl⟩, hc⟩ := h
  refine ⟨hh, ?_, fun w hm => hw ▸ hm, ?_, ?_, ?_, ?_⟩
  · intro t htm
    obtain ⟨t', ht', hs⟩ := List.any_eq_true.1 ((List.all_eq_true.1 ht) t htm)
    exact ⟨t', ht', sameDecl_renum hs⟩
  · intro n; unfold State.findWorker; rw [hw]
  · intro n; unfold State.reqsOf State.eventsOf; rw [hl]
  · intro n; unfold State.eventsOf; rw [hl]
  · intro c hcm hop
    have := (List.all_eq_true.1 hc) c hcm
    simp only [hop, Bool.false_or] at this
    obtain ⟨c', hc', h1⟩ := List.any_eq_true.1 this
    simp only [Bool.and_eq_true, Bool.not_eq_true', beq_iff_eq, Bool.or_eq_true] at h1
    refine ⟨c', hc', h1.1.1.1, ?_, h1.1.2, fun σ => CoreMeaning_sameUpTo st st' σ c.body c'.body h1.2⟩
    intro ho
    rcases h1.1.1.2 with h | h
    · rw [ho] at h; exact absurd h (by simp)
    · exact h

theorem delaysBelowB_sound {st : State} (h : st.delaysBelowB = true) : DelaysBelowNumber st := by
  intro t ht r hr
  have := (List.all_eq_true.1 ((List.all_eq_true.1 h) t ht)) r hr
  simpa using this

/-- **the executable test is sufficient**: two reachable states that pass `tasksOrderTheoremB` — which the driver
    evaluates on the models of a script and of its task-permuted twin — get the same feasibility verdict from the
    encoder and admit the same schedules -/
theorem tasksOrderTheoremB_sound (cfg cfg' : Config) (st st' : State) (hr : Reachable st) (hr' : Reachable st')
    (h : st.tasksOrderTheoremB st' = true) :
    ((∃ ρ, Sat ρ (initFmls cfg st) ∧ 0 ≤ ρ.i .horizon) ↔ (∃ ρ, Sat ρ (initFmls cfg' st') ∧ 0 ≤ ρ.i .horizon)) ∧
    (∀ ρ, Sat ρ (initFmls cfg st) → 0 ≤ ρ.i .horizon → Sat (envOf st' (schedOf ρ)) (initFmls cfg' st')) := by
  unfold State.tasksOrderTheoremB at h
  simp only [Bool.and_eq_true] at h
  obtain ⟨⟨⟨⟨⟨h1, h2⟩, h3⟩, h4⟩, h5⟩, h6⟩ := h
  exact C14_tasks_order_verdict cfg cfg' st st' ⟨numbersIntoB_sound h1, numbersIntoB_sound h2⟩
    (fragmentB_sound hr h3) (fragmentB_sound hr' h4) (delaysBelowB_sound h5) (delaysBelowB_sound h6)

/-! ### non-vacuity: one problem, its two tasks declared in either order -/

def Renum_exA : State :=
  run [.problem "p" (some 12),
       .task "A" (.fixed 3) false 2 (some 1) (some 9) true 1,
       .task "B" (.var 1 (some 4) (some [2, 3])) true 0 none none true 1,
       .worker "W" 1 (.const 0),
       .require "A" (.worker "W") false 0 0,
       .require "B" (.worker "W") false 0 0,
       .constr none false (.precedence "A" "B" 1 .lax),
       .constr none true (.startAt "A" 2)]

def Renum_exB : State :=
  run [.problem "p" (some 12),
       .task "B" (.var 1 (some 4) (some [2, 3])) true 0 none none true 1,
       .task "A" (.fixed 3) false 2 (some 1) (some 9) true 1,
       .worker "W" 1 (.const 0),
       .require "A" (.worker "W") false 0 0,
       .require "B" (.worker "W") false 0 0,
       .constr none false (.precedence "A" "B" 1 .lax),
       .constr none true (.startAt "A" 2)]

/-- the renumbering between the two orders -/
def Renum_f (t : Task) : Task := if t.name == "A" then t.renum 1 else if t.name == "B" then t.renum 0 else t
def Renum_g (t : Task) : Task := if t.name == "A" then t.renum 0 else if t.name == "B" then t.renum 1 else t

theorem Renum_f_renum (t : Task) : ∃ k, Renum_f t = t.renum k := by
  unfold Renum_f
  split
  · exact ⟨1, rfl⟩
  · split
    · exact ⟨0, rfl⟩
    · exact ⟨t.num0, rfl⟩
theorem Renum_g_renum (t : Task) : ∃ k, Renum_g t = t.renum k := by
  unfold Renum_g
  split
  · exact ⟨0, rfl⟩
  · split
    · exact ⟨1, rfl⟩
    · exact ⟨t.num0, rfl⟩

theorem Renum_ex_constrsB : Renum_exB.constrs = Renum_exA.constrs.map (fun c => { c with body := c.body.mapTasks Renum_f }) := by
  rfl
theorem Renum_ex_constrsA : Renum_exA.constrs = Renum_exB.constrs.map (fun c => { c with body := c.body.mapTasks Renum_g }) := by
  rfl


theorem numbersInto_of (st st' : State) (f : Task → Task) (hf : ∀ t, ∃ k, f t = t.renum k)
    (hh : st.horizon = st'.horizon)
    (ht : ∀ t ∈ st.tasks, ∃ t' ∈ st'.tasks, t' = t.renum t'.num0)
    (hw : st.workers = st'.workers) (hl : st.reqLog = st'.reqLog)
    (hc : st'.constrs = st.constrs.map (fun c => { c with body := c.body.mapTasks f }))
    (htc : ∀ c ∈ st.constrs, c.body.isTimeClass = true) : NumbersInto st st' where
  horizon := hh
  tasks := ht
  workers := fun w h => hw ▸ h
  findWorker := fun n => by unfold State.findWorker; rw [hw]
  reqs := fun n => by unfold State.reqsOf State.eventsOf; rw [hl]
  events := fun n => by unfold State.eventsOf; rw [hl]
  constrs := by
    intro c hcm hop
    refine ⟨{ c with body := c.body.mapTasks f }, ?_, hop, fun _ => rfl, rfl, ?_⟩
    · rw [hc]; exact List.mem_map.2 ⟨c, hcm, rfl⟩
    · intro σ
      exact CoreMeaning_renumTasks st st' σ f hf c.body (htc c hcm)

theorem Renum_ex_same : SameUpToNumbers Renum_exA Renum_exB :=
  ⟨numbersInto_of _ _ Renum_f Renum_f_renum (by decide +kernel) (by decide +kernel) (by decide +kernel) (by decide +kernel)
      Renum_ex_constrsB (by decide +kernel),
   numbersInto_of _ _ Renum_g Renum_g_renum (by decide +kernel) (by decide +kernel) (by decide +kernel) (by decide +kernel)
      Renum_ex_constrsA (by decide +kernel)⟩

theorem Renum_exA_core : InCoreS Renum_exA := fragmentB_sound ⟨_, rfl⟩ (by decide +kernel)
theorem Renum_exB_core : InCoreS Renum_exB := fragmentB_sound ⟨_, rfl⟩ (by decide +kernel)

-- the two problems emit different formulas: the optional task "B" is parked at −2 in one and at −1 in the other
example : (Renum_exA.tasks.map (fun t => (t.name, t.pastPoint))) = [("A", -1), ("B", -2)] ∧
    (Renum_exB.tasks.map (fun t => (t.name, t.pastPoint))) = [("B", -1), ("A", -2)] := by decide +kernel

/-- … and yet the encoder's verdict and admitted schedules are the same for both declaration orders -/
theorem Renum_ex_verdict :
    ((∃ ρ, Sat ρ (initFmls {} Renum_exA) ∧ 0 ≤ ρ.i .horizon) ↔ (∃ ρ, Sat ρ (initFmls {} Renum_exB) ∧ 0 ≤ ρ.i .horizon)) ∧
    (∀ ρ, Sat ρ (initFmls {} Renum_exA) → 0 ≤ ρ.i .horizon → Sat (envOf Renum_exB (schedOf ρ)) (initFmls {} Renum_exB)) :=
  C14_tasks_order_verdict {} {} _ _ Renum_ex_same Renum_exA_core Renum_exB_core
    (by unfold DelaysBelowNumber; decide +kernel) (by unfold DelaysBelowNumber; decide +kernel)


/-- the same instance through the executable test -/
example : Renum_exA.tasksOrderTheoremB Renum_exB = true := by decide +kernel


/-! ### C06 on pairs of scripts: the script without the task, checked by evaluation -/

theorem dropTaskB_eq (st : State) (n : String) : st.dropTaskB n = st.dropTask n := rfl

theorem isGuardedB_eq (b : CBody) : b.isGuardedB = b.isGuarded := by cases b <;> rfl

theorem WFInv_dropTask {st : State} (w : WFInv st) (n : String) : WFInv (st.dropTask n) where
  nodup := by
    have : ((st.dropTask n).tasks.map (·.name)).Sublist (st.tasks.map (·.name)) :=
      List.Sublist.map _ List.filter_sublist
    exact List.Sublist.nodup this w.nodup
  events := fun ev hev => w.events ev (List.mem_filter.1 hev).1
  req_tasks := by
    intro ev hev
    obtain ⟨hm, hne⟩ := List.mem_filter.1 hev
    obtain ⟨t, ht, hn⟩ := w.req_tasks ev hm
    refine ⟨t, List.mem_filter.2 ⟨ht, ?_⟩, hn⟩
    rw [hn]; exact hne

/-- **C06 on a pair of scripts.** `full` is the state of a script, `without` the state of the script with every
    declaration about the optional task `n` removed.  If the pair passes the executable test `dropTaskTheoremB` (which
    the driver evaluates), then a schedule that leaves `n` unscheduled is valid for the full problem iff it is valid
    for the problem the shorter script declares. -/
theorem C06_deletion_sound (full without : State) (n : String) (hr : Reachable full) (hr' : Reachable without)
    (h : full.dropTaskTheoremB without n = true) (σ : Sched) (hu : σ.sched n = false) :
    Valid full σ ↔ Valid without σ := by
  unfold State.dropTaskTheoremB at h
  simp only [Bool.and_eq_true, dropTaskB_eq] at h
  obtain ⟨⟨⟨⟨⟨⟨⟨⟨⟨⟨hopt, n1⟩, n2⟩, f1⟩, f2⟩, f3⟩, d1⟩, d2⟩, d3⟩, hsel⟩, hgd⟩ := h
  have cF : InCoreS full := fragmentB_sound hr f1
  have cD : InCoreS (full.dropTask n) := fragmentB_sound_wf (WFInv_dropTask (reachable_wf full hr) n) f2
  have cW : InCoreS without := fragmentB_sound hr' f3
  -- the task
  cases hft : full.findTask n with
  | none => simp [hft] at hopt
  | some t =>
      simp only [hft] at hopt
      obtain ⟨htm, htn⟩ := findTask_mem hft
      have step2 : Valid (full.dropTask n) σ ↔ Valid without σ :=
        Valid_renumber _ _ σ ⟨numbersIntoB_sound n1, numbersIntoB_sound n2⟩ cD cW (delaysBelowB_sound d2)
          (delaysBelowB_sound d3)
      constructor
      · intro hv
        exact step2.1 (C06_absent_restrict full n σ cD hv)
      · intro hv
        refine C06_absent_extend full n σ cF cD t htm htn hopt hu ?_ ?_ ?_ (step2.2 hv)
        · intro r hr2
          exact delaysBelowB_sound d1 t htm r (htn ▸ hr2)
        · intro s rs hmem
          have := (List.all_eq_true.1 hsel) _ hmem
          simp at this
        · intro c hc hop hnam _
          have := (List.all_eq_true.1 hgd) c hc
          simp only [hop, hnam, Bool.false_or, Bool.not_true, isGuardedB_eq] at this
          obtain ⟨t', ht', hn'⟩ := List.any_eq_true.1 hnam
          have hname : t'.name = n := eq_of_beq hn'
          -- the named task is `t`: the constraint's tasks are declared tasks of the problem
          have hfind := (cF.constrs c hc hop).2.2 t' ht'
          have ht'eq : t' = t := by
            rw [hname] at hfind
            exact Option.some.inj (hfind.symm.trans hft)
          apply C06_inert_guarded full σ c.body this t' ht'
          rw [ht'eq]
          unfold Sched.isSched
          rw [htn, hu, hopt]; rfl

end PS
