/-
  C02 — Resource capacity, assignment, selection and work amount hold in schedules.

  All statements are for an arbitrary state `st` (any number of tasks, workers, units,
  selections, requirement calls), any configuration and any interpretation ρ satisfying the
  assertion list of `initialize`.
-/
import PS.Proofs.InitMem
import PS.Spec.Basic
namespace PS

/-! ### (a) no worker is busy with two tasks at overlapping times -/

/-- two busy intervals of worker `w` do not overlap in ρ -/
def Disjoint2 (ρ : Env) (w : String) (x y : String × Bool) : Prop :=
  ρ.i (.busyE w x.1 x.2) ≤ ρ.i (.busyS w y.1 y.2) ∨ ρ.i (.busyE w y.1 y.2) ≤ ρ.i (.busyS w x.1 x.2)

theorem noOverlapPairs_pairwise (ρ : Env) (w : String) (l : List (String × Bool))
    (h : Sat ρ (noOverlapPairs w l)) : l.Pairwise (Disjoint2 ρ w) := by
  induction l with
  | nil => exact List.Pairwise.nil
  | cons x xs ih =>
      obtain ⟨ti, mi⟩ := x
      simp only [noOverlapPairs] at h
      rw [Sat.append] at h
      refine List.Pairwise.cons ?_ (ih h.2)
      intro y hy
      obtain ⟨tk, mk⟩ := y
      have := h.1 _ (List.mem_map.2 ⟨(tk, mk), hy, rfl⟩)
      simp [Fml.eval, Fml.evalAny, Term.eval, bS, bE] at this
      unfold Disjoint2
      simpa using this

/-- **C02 (a).** The busy intervals of every worker are pairwise non-overlapping. -/
theorem C02_no_overlap (cfg : Config) (st : State) (ρ : Env) (hρ : Sat ρ (initFmls cfg st)) :
    ∀ w ∈ st.workers, (st.busyOf w.name).Pairwise (Disjoint2 ρ w.name) := by
  intro w hw
  exact noOverlapPairs_pairwise ρ w.name _ (fun a ha => hρ a (mem_init_worker hw ha))

/-- the interval `x` of worker `w` covers instant τ -/
def Covers (ρ : Env) (w : String) (τ : Int) (x : String × Bool) : Prop :=
  ρ.i (.busyS w x.1 x.2) ≤ τ ∧ τ < ρ.i (.busyE w x.1 x.2)

open Classical

/-- number of busy intervals of `w` covering τ -/
noncomputable def loadAt (ρ : Env) (w : String) (l : List (String × Bool)) (τ : Int) : Nat :=
  l.countP (fun x => decide (Covers ρ w τ x))

theorem pairwise_load_le_one (ρ : Env) (w : String) (τ : Int) (l : List (String × Bool))
    (h : l.Pairwise (Disjoint2 ρ w)) : loadAt ρ w l τ ≤ 1 := by
  induction l with
  | nil => simp [loadAt]
  | cons x xs ih =>
      rw [List.pairwise_cons] at h
      unfold loadAt at ih ⊢
      rw [List.countP_cons]
      by_cases hx : Covers ρ w τ x
      · have : List.countP (fun x => decide (Covers ρ w τ x)) xs = 0 := by
          rw [List.countP_eq_zero]
          intro y hy hc
          have hc' : Covers ρ w τ y := by simpa using hc
          have hd := h.1 y hy
          unfold Disjoint2 at hd
          unfold Covers at hx hc'
          omega
        simp [hx, this]
      · have := ih h.2
        simp [hx]
        exact this

/-- **C02 (a'), pointwise form.** At every instant a worker is busy with at most one task. -/
theorem C02_load_le_one (cfg : Config) (st : State) (ρ : Env) (hρ : Sat ρ (initFmls cfg st)) :
    ∀ w ∈ st.workers, ∀ τ : Int, loadAt ρ w.name (st.busyOf w.name) τ ≤ 1 :=
  fun w hw τ => pairwise_load_le_one ρ w.name τ _ (C02_no_overlap cfg st ρ hρ w hw)

/-! ### (b) a cumulative worker of size n is busy with at most n tasks at any instant -/

/-- number of (unit, task) busy intervals of the cumulative worker covering τ -/
noncomputable def cumulLoadAt (st : State) (ρ : Env) (units : List String) (τ : Int) : Nat :=
  (units.map (fun u => loadAt ρ u (st.busyOf u) τ)).sum

theorem sum_le_length_of_le_one (l : List Nat) (h : ∀ x ∈ l, x ≤ 1) : l.sum ≤ l.length := by
  induction l with
  | nil => simp
  | cons x xs ih =>
      have h1 := h x (List.mem_cons_self ..)
      have h2 := ih (fun y hy => h y (List.mem_cons_of_mem _ hy))
      simp only [List.sum_cons, List.length_cons]
      omega

/-- **C02 (b).** If every unit of a cumulative worker is a worker of the problem (which `step`
    guarantees, see `C02_units_are_workers` below), then at every instant the cumulative worker
    holds at most `size` tasks. -/
theorem C02_cumulative_capacity (cfg : Config) (st : State) (ρ : Env) (hρ : Sat ρ (initFmls cfg st))
    (cw : Cumul) (hunits : ∀ u ∈ cw.units, ∃ w ∈ st.workers, w.name = u) (τ : Int) :
    cumulLoadAt st ρ cw.units τ ≤ cw.units.length := by
  unfold cumulLoadAt
  have := sum_le_length_of_le_one (cw.units.map (fun u => loadAt ρ u (st.busyOf u) τ)) (by
    intro x hx
    obtain ⟨u, hu, rfl⟩ := List.mem_map.1 hx
    obtain ⟨w, hw, rfl⟩ := hunits u hu
    exact C02_load_le_one cfg st ρ hρ w hw τ)
  simpa using this

/-! ### (c) the busy span of every requirement -/

/-- what the documentation promises for one required worker of task `t` -/
def ReqSpanOK (t : Task) (r : Req) (ρ : Env) : Prop :=
  let bs := ρ.i (.busyS r.worker t.name r.maybe)
  let be := ρ.i (.busyE r.worker t.name r.maybe)
  match r.sel with
  | some s =>
      (ρ.b (.sel s r.worker) = true → bs = t.startV ρ ∧ be = t.endV ρ) ∧
      (ρ.b (.sel s r.worker) = false → bs = be ∧ bs < 0)
  | none =>
      if r.dynamic then t.startV ρ ≤ bs ∧ bs ≤ be ∧ be ≤ t.endV ρ
      else bs = t.startV ρ + max 0 r.delayIn ∧ be = t.endV ρ - max 0 r.earlyOut

theorem req_fmls_span (t : Task) (r : Req) (ρ : Env) (hm : r.maybe = r.sel.isSome)
    (h : Sat ρ (r.fmls t)) : ReqSpanOK t r ρ := by
  unfold Req.fmls at h
  unfold ReqSpanOK
  cases hs : r.sel with
  | some s =>
      simp only [hs] at h
      have hm' : r.maybe = true := by simp [hm, hs]
      have h1 := h _ (List.mem_cons_self ..)
      simp only [Fml.eval, Fml.evalAll, Term.eval, bS, bE, Task.sVar, Task.eVar, numT, Req.past, and_true] at h1
      simp only [hm']
      constructor
      · intro hb
        have := h1.1 hb
        unfold Task.startV Task.endV
        exact this
      · intro hb
        have := h1.2 (by simp [hb])
        omega
  | none =>
      simp only [hs] at h
      have hm' : r.maybe = false := by simp [hm, hs]
      simp only [hm']
      by_cases hd : r.dynamic = true
      · simp only [hd, if_true] at h ⊢
        have h1 := h (.le (bE r.worker t.name false) t.eVar) (by simp)
        have h2 := h (.ge (bS r.worker t.name false) t.sVar) (by simp)
        have h3 := h (.le (bS r.worker t.name false) (bE r.worker t.name false)) (by simp)
        simp [Fml.eval, Term.eval, bS, bE, Task.sVar, Task.eVar] at h1 h2 h3
        unfold Task.startV Task.endV
        omega
      · simp only [hd] at h ⊢
        simp only [Bool.false_eq_true, if_false] at h ⊢
        have h1 := h _ (List.mem_cons_self ..)
        have h2 := h _ (List.mem_cons_of_mem _ (List.mem_cons_self ..))
        unfold Task.startV Task.endV
        constructor
        · by_cases hp : r.delayIn > 0
          · simp [hp, Fml.eval, Term.eval, bS, Task.sVar, numT] at h2
            omega
          · simp [hp, Fml.eval, Term.eval, bS, Task.sVar] at h2
            omega
        · by_cases hp : r.earlyOut > 0
          · simp [hp, Fml.eval, Term.eval, bE, Task.eVar, numT] at h1
            omega
          · simp [hp, Fml.eval, Term.eval, bE, Task.eVar] at h1
            omega

/-- requirements as `step` creates them: `maybe` iff through a selection -/
def ReqEvent.WF : ReqEvent → Prop
  | .direct _ r => r.maybe = false ∧ r.sel = none
  | .viaSelect _ s rs _ => ∀ r ∈ rs, r.maybe = true ∧ r.sel = some s.id

theorem ReqEvent.WF.maybe {ev : ReqEvent} (h : ev.WF) : ∀ r ∈ ev.reqs, r.maybe = r.sel.isSome := by
  intro r hr
  cases ev with
  | direct t r' =>
      simp [ReqEvent.reqs] at hr; subst hr
      simp [h.1, h.2]
  | viaSelect t s rs wc =>
      simp [ReqEvent.reqs] at hr
      have := h r hr
      simp [this.1, this.2]

theorem event_fmls_sub (t : Task) (ev : ReqEvent) (r : Req) (hr : r ∈ ev.reqs) :
    ∀ a ∈ r.fmls t, a ∈ ev.fmls t := by
  intro a ha
  cases ev with
  | direct t' r' =>
      simp [ReqEvent.reqs] at hr; subst hr
      simpa [ReqEvent.fmls] using ha
  | viaSelect t' s rs wc =>
      simp only [ReqEvent.reqs] at hr
      simp only [ReqEvent.fmls, List.mem_append, List.mem_flatMap]
      exact Or.inl ⟨r, hr, ha⟩

/-- **C02 (c).** Every required worker of every task is busy for the span its requirement
    implies: `[start + delay_in, end − early_out]`, a non-negative span inside the task
    (dynamic), the task span if selected, a negative instant if not selected. -/
theorem C02_busy_span (cfg : Config) (st : State) (ρ : Env) (hρ : Sat ρ (initFmls cfg st))
    (hwf : ∀ ev ∈ st.reqLog, ev.WF) :
    ∀ t ∈ st.tasks, ∀ ev ∈ st.eventsOf t.name, ∀ r ∈ ev.reqs, ReqSpanOK t r ρ := by
  intro t ht ev hev r hr
  have hev' : ev ∈ st.reqLog := (List.mem_filter.1 hev).1
  apply req_fmls_span t r ρ ((hwf ev hev').maybe r hr)
  intro a ha
  apply hρ a
  apply mem_init_task ht
  unfold State.taskAsserts
  apply List.mem_append_right
  exact List.mem_flatMap.2 ⟨ev, hev, event_fmls_sub t ev r hr a ha⟩

/-! ### (d) selections pick, from their list only, a number of workers obeying the count -/

theorem count_flags (ρ : Env) (id : Nat) (ws : List String) :
    Fml.count ρ (ws.map (fun w => Fml.bvar (.sel id w))) = ws.countP (fun w => ρ.b (.sel id w)) := by
  induction ws with
  | nil => simp [Fml.count]
  | cons w ws ih =>
      simp only [List.map_cons, Fml.count, ih, List.countP_cons, Fml.eval]
      by_cases h : ρ.b (.sel id w) = true <;> simp [h, Nat.add_comm]

/-- number of workers of selection `s` selected in ρ -/
def Select.nSelected (s : Select) (ρ : Env) : Nat := s.workers.countP (fun w => ρ.b (.sel s.id w))

def CountOK (k : CountKind) (actual n : Nat) : Prop :=
  match k with
  | .exact => actual = n
  | .min => n ≤ actual
  | .max => actual ≤ n

theorem select_assertion_count (s : Select) (ρ : Env) (h : s.assertion.eval ρ) :
    CountOK s.kind (s.nSelected ρ) s.n := by
  unfold Select.assertion pbFun Select.flags at h
  unfold CountOK Select.nSelected
  cases hk : s.kind <;> simp only [hk] at h ⊢ <;> simp only [Fml.eval, count_flags] at h <;> exact h

/-- **C02 (d).** For every executed `add_required_resource(select)` call, the number of listed
    workers whose selection flag is true satisfies the exact / min / max count; the busy
    intervals created by the call are those of the listed workers only (`rs` is built from
    `s.workers` by `step`, see `selReqs`). -/
theorem C02_selection_count (cfg : Config) (st : State) (ρ : Env) (hρ : Sat ρ (initFmls cfg st)) :
    ∀ t ∈ st.tasks, ∀ s rs, ReqEvent.viaSelect t.name s rs true ∈ st.reqLog →
      CountOK s.kind (s.nSelected ρ) s.n := by
  intro t ht s rs hev
  apply select_assertion_count
  apply hρ
  apply mem_init_task ht
  unfold State.taskAsserts
  apply List.mem_append_right
  refine List.mem_flatMap.2 ⟨_, List.mem_filter.2 ⟨hev, by simp [ReqEvent.task]⟩, ?_⟩
  simp [ReqEvent.fmls]

/-! ### (e) work amount -/

/-- **C02 (e).** When a (scheduled) task has a work amount and at least one assigned worker, the sum
    over its workers of productivity × busy time reaches the amount. -/
theorem C02_work_amount (cfg : Config) (st : State) (ρ : Env) (hρ : Sat ρ (initFmls cfg st)) :
    ∀ t ∈ st.tasks, 0 < t.work → workTerms st t ≠ [] → Scheduled ρ t → t.work ≤ Term.evalSum ρ (workTerms st t) := by
  intro t ht hw hne hs
  have hemp : (workTerms st t).isEmpty = false := by
    cases h : workTerms st t with
    | nil => exact absurd h hne
    | cons _ _ => rfl
  by_cases ho : t.optional = true
  · have hmem : Fml.imp (.bvar (.sched t.name)) (Fml.ge (.sum (workTerms st t)) (numT t.work)) ∈ workAmount st t := by
      unfold workAmount; simp [hw, hemp, ho]
    have := hρ _ (mem_init_work (cfg := cfg) ht hmem)
    have hsb : ρ.b (.sched t.name) = true := by
      rcases hs with h | h
      · simp [ho] at h
      · exact h
    simp only [Fml.eval, hsb, true_implies] at this
    simpa [Term.eval, numT] using this
  · have hmem : Fml.ge (.sum (workTerms st t)) (numT t.work) ∈ workAmount st t := by
      unfold workAmount; simp [hw, hemp, ho]
    have := hρ _ (mem_init_work (cfg := cfg) ht hmem)
    simpa [Fml.eval, Term.eval, numT] using this

/-- one term of the work sum evaluates to productivity × (busy end − busy start) -/
theorem workTerm_eval (ρ : Env) (p : Int) (w t : String) (m : Bool) :
    (Term.mul (numT p) (.sub (bE w t m) (bS w t m))).eval ρ = p * (ρ.i (.busyE w t m) - ρ.i (.busyS w t m)) := by
  simp [Term.eval, numT, bE, bS]

/-! ### what `step` guarantees: requirement events are well formed, units are workers -/

theorem selReqs_wf (sid base : Nat) (ws : List String) :
    ∀ r ∈ selReqs sid base ws, r.maybe = true ∧ r.sel = some sid := by
  intro r hr
  unfold selReqs at hr
  obtain ⟨i, _, rfl⟩ := List.mem_map.1 hr
  simp

/-! ### non-vacuity -/

def C02_exState : State :=
  run [.problem "p" (some 10),
       .task "A" (.fixed 3) false 2 none none true 1,
       .task "B" (.fixed 2) false 0 none none true 1,
       .worker "W" 1 (.const 0), .worker "V" 2 (.const 0),
       .cumulative "CW" 2 1 (.const 0),
       .select none ["W", "V"] 1 .exact,
       .require "A" (.select 0) false 0 0,
       .require "B" (.worker "W") false 1 0,
       .require "B" (.cumul "CW") false 0 0]

def C02_exEnv : Env :=
  { i := fun v => match v with
      | .tStart "A" => 0 | .tEnd "A" => 3 | .tStart "B" => 3 | .tEnd "B" => 5
      | .busyS "W" "A" true => 0 | .busyE "W" "A" true => 3
      | .busyS "V" "A" true => -3 | .busyE "V" "A" true => -3
      | .busyS "W" "B" false => 4 | .busyE "W" "B" false => 5
      | .busyS "CW_CumulativeWorker_1" "B" true => 3 | .busyE "CW_CumulativeWorker_1" "B" true => 5
      | .busyS "CW_CumulativeWorker_2" "B" true => -5 | .busyE "CW_CumulativeWorker_2" "B" true => -5
      | .horizon => 10
      | _ => 0
    b := fun v => match v with
      | .sel 0 "W" => true | .sel 1 "CW_CumulativeWorker_1" => true | _ => false }

example : satB C02_exEnv (initFmls {} C02_exState) = true := by decide +kernel
example : C02_exState.reqLog.length = 3 ∧ C02_exState.workers.length = 4 := by decide +kernel

end PS
