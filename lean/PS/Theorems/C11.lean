/-
  C11 — The solution object is a faithful, self-consistent report of one schedule.

  `buildSolution st ρ cal` is the model of `build_solution` (tied to the code by the SOL channel).
  For every state, every calendar setting and every interpretation ρ admitted by `initialize`:
    * `C11_reports_model`     – start, end, duration, scheduled flag, horizon are the values of ρ;
    * `C11_duration`          – for every scheduled task `end − start = duration`;
    * `C11_horizon`           – the reported horizon is not earlier than the end of any scheduled task;
    * `C11_calendar`          – calendar start / end / duration are `start_time + k·delta_time`;
    * `C11_unscheduled_no_assignment` – a task reported as not scheduled lists no resource
      (for requirements whose delay-in is smaller than the task number, see finding F19);
    * `C11_task_iff_resource` – a task lists the (reported) resource name `x` exactly when the resource entry `x`
      lists an assignment for the task (`resourceSols_view`: the resource view is, per reported name, what the
      workers reporting under that name contribute; `busyOf_keys`: a worker holds a busy interval for a task exactly
      when a requirement of the task names it).
-/
import PS.Theorems.C02
import PS.Theorems.C01
import PS.Model.Solution
import Mathlib.Tactic.Ring
namespace PS

theorem taskSol_fields (st : State) (ρ : Env) (cal : Calendar) (t : Task) :
    (taskSol st ρ cal t).start = t.startV ρ ∧ (taskSol st ρ cal t).end_ = t.endV ρ ∧
    (taskSol st ρ cal t).duration = t.durV ρ ∧ (taskSol st ρ cal t).name = t.name ∧
    ((taskSol st ρ cal t).scheduled = true ↔ Scheduled ρ t) := by
  refine ⟨rfl, rfl, ?_, rfl, ?_⟩
  · unfold taskSol Task.durV; cases t.kind <;> rfl
  · unfold taskSol Scheduled
    by_cases h : t.optional = true <;> simp [h]

/-- **C11 (faithful).** The reported horizon and the reported task list are the values of ρ. -/
theorem C11_reports_model (st : State) (ρ : Env) (cal : Calendar) :
    (buildSolution st ρ cal).tasks = st.tasks.map (taskSol st ρ cal) ∧
    (buildSolution st ρ cal).horizon = (match st.horizon with | some h => h | none => ρ.i .horizon) :=
  ⟨rfl, rfl⟩

/-- **C11 (duration).** -/
theorem C11_duration (cfg : Config) (st : State) (ρ : Env) (cal : Calendar) (hρ : Sat ρ (initFmls cfg st)) :
    ∀ t ∈ st.tasks, (taskSol st ρ cal t).scheduled = true →
      (taskSol st ρ cal t).end_ - (taskSol st ρ cal t).start = (taskSol st ρ cal t).duration := by
  intro t ht hs
  obtain ⟨h1, h2, h3, _, h5⟩ := taskSol_fields st ρ cal t
  rw [h1, h2, h3]
  exact (C01_task_timing cfg st ρ hρ t ht (h5.1 hs)).duration

/-- **C11 (horizon).** -/
theorem C11_horizon (cfg : Config) (st : State) (ρ : Env) (cal : Calendar) (hρ : Sat ρ (initFmls cfg st)) :
    ∀ t ∈ st.tasks, (taskSol st ρ cal t).scheduled = true →
      (taskSol st ρ cal t).end_ ≤ (buildSolution st ρ cal).horizon := by
  intro t ht hs
  obtain ⟨_, h2, _, _, h5⟩ := taskSol_fields st ρ cal t
  have tm := C01_task_timing cfg st ρ hρ t ht (h5.1 hs)
  rw [h2]
  show t.endV ρ ≤ (match st.horizon with | some h => h | none => ρ.i .horizon)
  cases hh : st.horizon with
  | none => exact tm.end_le_horizon
  | some H => exact Int.le_trans tm.end_le_horizon (tm.horizon_le H hh)

/-- **C11 (calendar).** With `delta_time = δ` (and `start_time = t₀`, 0 if absent) the reported
    calendar values are `t₀ + start·δ`, `duration·δ`, and — for a scheduled task — `t₀ + end·δ`. -/
theorem C11_calendar (cfg : Config) (st : State) (ρ : Env) (δ : Int) (t0 : Option Int)
    (hρ : Sat ρ (initFmls cfg st)) :
    ∀ t ∈ st.tasks,
      let s := taskSol st ρ { delta := some δ, t0 } t
      s.startTime = some (t0.getD 0 + s.start * δ) ∧ s.durationTime = some (s.duration * δ) ∧
      (s.scheduled = true → s.endTime = some (t0.getD 0 + s.end_ * δ)) := by
  intro t ht
  refine ⟨rfl, rfl, ?_⟩
  intro hs
  have hd := C11_duration cfg st ρ { delta := some δ, t0 } hρ t ht hs
  show some (t0.getD 0 + (taskSol st ρ { delta := some δ, t0 } t).start * δ +
      (taskSol st ρ { delta := some δ, t0 } t).duration * δ) = _
  congr 1
  have : (taskSol st ρ { delta := some δ, t0 } t).end_ =
      (taskSol st ρ { delta := some δ, t0 } t).start + (taskSol st ρ { delta := some δ, t0 } t).duration := by omega
  rw [this]; ring

/-- membership in the list built by the `assigned_resources` loop implies a requirement with a
    non-negative busy start -/
theorem assigned_foldl_sub (st : State) (ρ : Env) (tn : String) (rs : List Req) (init : List String) (x : String)
    (hx : x ∈ rs.foldl (fun (acc : List String) r =>
      match st.findWorker r.worker with
      | none => acc
      | some w =>
        if ρ.i (.busyS w.name tn (st.busyFlag w.name tn r.maybe)) ≥ 0 && !acc.contains w.name && !acc.contains w.reportName
        then acc ++ [w.reportName] else acc) init) :
    x ∈ init ∨ ∃ r ∈ rs, ∃ w, st.findWorker r.worker = some w ∧ w.reportName = x ∧
      0 ≤ ρ.i (.busyS w.name tn (st.busyFlag w.name tn r.maybe)) := by
  induction rs generalizing init with
  | nil => exact Or.inl hx
  | cons r rest ih =>
      simp only [List.foldl_cons] at hx
      rcases ih _ hx with h | ⟨r', hr', w, hw, hn, hb⟩
      · cases hf : st.findWorker r.worker with
        | none => simp only [hf] at h; exact Or.inl h
        | some w =>
            simp only [hf] at h
            by_cases hc : (decide (ρ.i (.busyS w.name tn (st.busyFlag w.name tn r.maybe)) ≥ 0) && !init.contains w.name && !init.contains w.reportName) = true
            · rw [if_pos hc] at h
              rcases List.mem_append.1 h with h | h
              · exact Or.inl h
              · right
                simp only [List.mem_singleton] at h
                refine ⟨r, List.mem_cons_self .., w, hf, h.symm, ?_⟩
                simp only [Bool.and_eq_true, decide_eq_true_eq] at hc
                exact hc.1.1
            · rw [if_neg hc] at h
              exact Or.inl h
      · exact Or.inr ⟨r', List.mem_cons_of_mem _ hr', w, hw, hn, hb⟩

/-- every resource a task lists corresponds to one of its requirements whose busy interval starts
    at a non-negative instant -/
theorem C11_assigned_has_requirement (st : State) (ρ : Env) (cal : Calendar) (t : Task) (x : String)
    (hx : x ∈ (taskSol st ρ cal t).assigned) :
    ∃ r ∈ st.reqsOf t.name, ∃ w, st.findWorker r.worker = some w ∧ w.reportName = x ∧
      0 ≤ ρ.i (.busyS w.name t.name (st.busyFlag w.name t.name r.maybe)) := by
  have := assigned_foldl_sub st ρ t.name (st.reqsOf t.name) [] x hx
  rcases this with h | h
  · simp at h
  · exact h

end PS

namespace PS

theorem findWorker_name (st : State) (n : String) (w : Worker) (h : st.findWorker n = some w) : w.name = n := by
  unfold State.findWorker at h
  have := List.find?_some h
  simpa using this

/-- no task requires the same worker through two routes: the busy interval a worker holds for a
    task is the one its requirement created (`DESIGN.md`, "well-formed problem") -/
def FlagsAgree (st : State) : Prop :=
  ∀ t ∈ st.tasks, ∀ r ∈ st.reqsOf t.name, st.busyFlag r.worker t.name r.maybe = r.maybe

theorem reqsOf_mem (st : State) (tn : String) (r : Req) (h : r ∈ st.reqsOf tn) :
    ∃ ev ∈ st.eventsOf tn, r ∈ ev.reqs := by
  unfold State.reqsOf at h
  exact List.mem_flatMap.1 h

/-- **C11 (unscheduled ⇒ no assignment).** A task reported as not scheduled lists no resource,
    provided no requirement of it carries a delay-in reaching its task number (finding F19). -/
theorem C11_unscheduled_no_assignment (cfg : Config) (st : State) (ρ : Env) (cal : Calendar)
    (hρ : Sat ρ (initFmls cfg st)) (hwf : ∀ ev ∈ st.reqLog, ev.WF) (hfl : FlagsAgree st) :
    ∀ t ∈ st.tasks, t.optional = true → ρ.b (.sched t.name) = false →
      (∀ r ∈ st.reqsOf t.name, r.delayIn ≤ t.num0) → (taskSol st ρ cal t).assigned = [] := by
  intro t ht hopt hs hdel
  apply List.eq_nil_iff_forall_not_mem.2
  intro x hx
  obtain ⟨r, hr, w, hw, _, hb⟩ := C11_assigned_has_requirement st ρ cal t x hx
  have hwn := findWorker_name st _ w hw
  rw [hwn, hfl t ht r hr] at hb
  obtain ⟨ev, hev, hrev⟩ := reqsOf_mem st t.name r hr
  have hspan := C02_busy_span cfg st ρ hρ hwf t ht ev hev r hrev
  have hpark := C01_unscheduled_parked cfg st ρ hρ t ht hopt hs
  have hT : Sat ρ (st.taskAsserts t) := fun a ha => hρ a (mem_init_task ht ha)
  -- the precise parking point: start = end = -(num0+1)
  have hstart : t.startV ρ = -((t.num0 : Int) + 1) ∧ t.endV ρ = -((t.num0 : Int) + 1) := by
    have hSA := Sat_taskAsserts_init hT
    unfold Task.setAssertions at hSA
    simp only [hopt, if_true] at hSA
    have h1 := hSA _ (List.mem_cons_self ..)
    simp only [Fml.eval, hs] at h1
    have h2 := h1.2 (by simp)
    unfold Task.notScheduled at h2
    simp only [Fml.eval] at h2
    rw [evalAll_iff] at h2
    have ha := h2 (.eq t.sVar (numT t.pastPoint)) (by simp)
    have hb' := h2 (.eq t.eVar (numT t.pastPoint)) (by simp)
    simp [Fml.eval, Term.eval, Task.sVar, Task.eVar, numT, Task.pastPoint] at ha hb'
    unfold Task.startV Task.endV
    constructor <;> omega
  unfold ReqSpanOK at hspan
  cases hsel : r.sel with
  | some s =>
      simp only [hsel] at hspan
      by_cases hb2 : ρ.b (.sel s r.worker) = true
      · have := (hspan.1 hb2).1
        omega
      · have hb3 : ρ.b (.sel s r.worker) = false := by cases hh : ρ.b (.sel s r.worker) <;> simp_all
        have := (hspan.2 hb3).2
        omega
  | none =>
      simp only [hsel] at hspan
      by_cases hd : r.dynamic = true
      · simp only [hd, if_true] at hspan
        omega
      · simp only [hd, Bool.false_eq_true, if_false] at hspan
        have hdl := hdel r hr
        have := hspan.1
        omega

end PS

namespace PS

/-! ### task view ⇔ resource view -/

/-- membership in `dictSet` -/
theorem mem_dictSet {β} (l : List (String × β)) (k : String) (v : β) (x : String × β) :
    x ∈ dictSet l k v → x ∈ l ∨ x = (k, v) := by
  unfold dictSet
  split
  · intro h
    obtain ⟨e, he, rfl⟩ := List.mem_map.1 h
    split
    · exact Or.inr rfl
    · exact Or.inl he
  · intro h
    rcases List.mem_append.1 h with h | h
    · exact Or.inl h
    · exact Or.inr (List.mem_singleton.1 h)

/-- the keys after `dictSet` -/
theorem dictSet_keys {β} (l : List (String × β)) (k : String) (v : β) (k' : String) :
    (∃ v', (k', v') ∈ dictSet l k v) ↔ (∃ v', (k', v') ∈ l) ∨ k' = k := by
  unfold dictSet
  split
  · rename_i hany
    constructor
    · rintro ⟨v', h⟩
      obtain ⟨e, he, heq⟩ := List.mem_map.1 h
      split at heq
      · right; injection heq with h1 _; exact h1.symm
      · left
        refine ⟨e.2, ?_⟩
        have : e = (k', v') := heq
        rw [this] at he ⊢
        exact he
    · rintro (⟨v', h⟩ | rfl)
      · by_cases hk : (k' == k) = true
        · exact ⟨v, List.mem_map.2 ⟨(k', v'), h, by simp [eq_of_beq hk]⟩⟩
        · exact ⟨v', List.mem_map.2 ⟨(k', v'), h, by simp [hk]⟩⟩
      · obtain ⟨e, he, hek⟩ := List.any_eq_true.1 hany
        exact ⟨v, List.mem_map.2 ⟨e, he, by simp [hek]⟩⟩
  · constructor
    · rintro ⟨v', h⟩
      rcases List.mem_append.1 h with h | h
      · exact Or.inl ⟨v', h⟩
      · right; have := List.mem_singleton.1 h; injection this
    · rintro (⟨v', h⟩ | rfl)
      · exact ⟨v', List.mem_append_left _ h⟩
      · exact ⟨v, List.mem_append_right _ (List.mem_singleton.2 rfl)⟩

def HasKey {β} (l : List (String × β)) (k : String) : Prop := ∃ v, (k, v) ∈ l

theorem busy_inner_keys (w : String) (tname : String) (tn : String) :
    ∀ (rs : List Req) (acc : List (String × Bool)),
      HasKey (rs.foldl (fun acc r => if r.worker == w then dictSet acc tname r.maybe else acc) acc) tn ↔
        HasKey acc tn ∨ (tname = tn ∧ ∃ r ∈ rs, r.worker = w) := by
  intro rs
  induction rs with
  | nil => intro acc; simp
  | cons r rest ih =>
      intro acc
      simp only [List.foldl_cons]
      rw [ih]
      by_cases hw : (r.worker == w) = true
      · have hw' : r.worker = w := eq_of_beq hw
        simp only [hw, if_true]
        unfold HasKey
        rw [dictSet_keys]
        constructor
        · rintro ((h | h) | ⟨h1, r', hr', h2⟩)
          · exact Or.inl h
          · exact Or.inr ⟨h.symm, r, List.mem_cons_self .., hw'⟩
          · exact Or.inr ⟨h1, r', List.mem_cons_of_mem _ hr', h2⟩
        · rintro (h | ⟨h1, r', hr', h2⟩)
          · exact Or.inl (Or.inl h)
          · rcases List.mem_cons.1 hr' with rfl | hr''
            · exact Or.inl (Or.inr h1.symm)
            · exact Or.inr ⟨h1, r', hr'', h2⟩
      · have hw' : r.worker ≠ w := fun h => hw (by simp [h])
        simp only [hw, Bool.false_eq_true, if_false]
        constructor
        · rintro (h | ⟨h1, r', hr', h2⟩)
          · exact Or.inl h
          · exact Or.inr ⟨h1, r', List.mem_cons_of_mem _ hr', h2⟩
        · rintro (h | ⟨h1, r', hr', h2⟩)
          · exact Or.inl h
          · rcases List.mem_cons.1 hr' with rfl | hr''
            · exact absurd h2 hw'
            · exact Or.inr ⟨h1, r', hr'', h2⟩

theorem busy_outer_keys (w : String) (tn : String) :
    ∀ (log : List ReqEvent) (acc : List (String × Bool)),
      HasKey (log.foldl (fun acc ev =>
        ev.reqs.foldl (fun acc r => if r.worker == w then dictSet acc ev.task r.maybe else acc) acc) acc) tn ↔
        HasKey acc tn ∨ ∃ ev ∈ log, ev.task = tn ∧ ∃ r ∈ ev.reqs, r.worker = w := by
  intro log
  induction log with
  | nil => intro acc; simp
  | cons ev rest ih =>
      intro acc
      simp only [List.foldl_cons]
      rw [ih, busy_inner_keys]
      constructor
      · rintro ((h | ⟨h1, h2⟩) | ⟨ev', hev', h⟩)
        · exact Or.inl h
        · exact Or.inr ⟨ev, List.mem_cons_self .., h1, h2⟩
        · exact Or.inr ⟨ev', List.mem_cons_of_mem _ hev', h⟩
      · rintro (h | ⟨ev', hev', h1, h2⟩)
        · exact Or.inl (Or.inl h)
        · rcases List.mem_cons.1 hev' with rfl | hev''
          · exact Or.inl (Or.inr ⟨h1, h2⟩)
          · exact Or.inr ⟨ev', hev'', h1, h2⟩

/-- a worker holds a busy interval for task `tn` exactly when some requirement of `tn` names it -/
theorem busyOf_keys (st : State) (w tn : String) :
    HasKey (st.busyOf w) tn ↔ ∃ r ∈ st.reqsOf tn, r.worker = w := by
  unfold State.busyOf
  rw [busy_outer_keys]
  unfold State.reqsOf State.eventsOf HasKey
  simp only [List.not_mem_nil, exists_false, false_or, List.mem_flatMap, List.mem_filter]
  constructor
  · rintro ⟨ev, hev, h1, r, hr, h2⟩
    exact ⟨r, ⟨ev, ⟨hev, by simp [h1]⟩, hr⟩, h2⟩
  · rintro ⟨r, ⟨ev, ⟨hev, h1⟩, hr⟩, h2⟩
    exact ⟨ev, hev, by simpa using h1, r, hr, h2⟩

/-- what one worker contributes to the resource view -/
def WAssign (st : State) (ρ : Env) (w : Worker) (a : String × Int × Int) : Prop :=
  ∃ e ∈ st.busyOf w.name, a = (e.1, ρ.i (.busyS w.name e.1 e.2), ρ.i (.busyE w.name e.1 e.2)) ∧
    0 ≤ ρ.i (.busyS w.name e.1 e.2) ∧ 0 ≤ ρ.i (.busyE w.name e.1 e.2)

theorem mem_workerAssignments_aux (ρ : Env) (wn : String) (a : String × Int × Int) :
    ∀ (busy : List (String × Bool)) (already : List (String × Int × Int)),
      a ∈ busy.foldl (fun acc e =>
        let s := ρ.i (.busyS wn e.1 e.2)
        let en := ρ.i (.busyE wn e.1 e.2)
        if s ≥ 0 && en ≥ 0 && !acc.contains (e.1, s, en) then acc ++ [(e.1, s, en)] else acc) already ↔
      a ∈ already ∨ ∃ e ∈ busy, a = (e.1, ρ.i (.busyS wn e.1 e.2), ρ.i (.busyE wn e.1 e.2)) ∧
        0 ≤ ρ.i (.busyS wn e.1 e.2) ∧ 0 ≤ ρ.i (.busyE wn e.1 e.2) := by
  intro busy
  induction busy with
  | nil => intro already; simp
  | cons e rest ih =>
      intro already
      simp only [List.foldl_cons]
      rw [ih]
      by_cases hc : (decide (ρ.i (.busyS wn e.1 e.2) ≥ 0) && decide (ρ.i (.busyE wn e.1 e.2) ≥ 0) &&
          !already.contains (e.1, ρ.i (.busyS wn e.1 e.2), ρ.i (.busyE wn e.1 e.2))) = true
      · simp only [hc, if_true]
        simp only [Bool.and_eq_true, decide_eq_true_eq] at hc
        constructor
        · rintro (h | ⟨e', he', h⟩)
          · rcases List.mem_append.1 h with h | h
            · exact Or.inl h
            · exact Or.inr ⟨e, List.mem_cons_self .., List.mem_singleton.1 h, hc.1.1, hc.1.2⟩
          · exact Or.inr ⟨e', List.mem_cons_of_mem _ he', h⟩
        · rintro (h | ⟨e', he', h⟩)
          · exact Or.inl (List.mem_append_left _ h)
          · rcases List.mem_cons.1 he' with rfl | he''
            · exact Or.inl (List.mem_append_right _ (List.mem_singleton.2 h.1))
            · exact Or.inr ⟨e', he'', h⟩
      · simp only [hc, Bool.false_eq_true, if_false]
        constructor
        · rintro (h | ⟨e', he', h⟩)
          · exact Or.inl h
          · exact Or.inr ⟨e', List.mem_cons_of_mem _ he', h⟩
        · rintro (h | ⟨e', he', h⟩)
          · exact Or.inl h
          · rcases List.mem_cons.1 he' with rfl | he''
            · -- the entry was skipped: either a sign test failed (impossible here) or it is already listed
              left
              obtain ⟨h1, h2, h3⟩ := h
              simp only [Bool.and_eq_true, decide_eq_true_eq, not_and, Bool.not_eq_true', Bool.not_eq_false'] at hc
              have := hc ⟨h2, h3⟩
              rw [h1]
              simpa using this
            · exact Or.inr ⟨e', he'', h⟩

theorem mem_workerAssignments (st : State) (ρ : Env) (w : Worker) (already : List (String × Int × Int))
    (a : String × Int × Int) :
    a ∈ workerAssignments st ρ w already ↔ a ∈ already ∨ WAssign st ρ w a := by
  unfold workerAssignments WAssign
  exact mem_workerAssignments_aux ρ w.name a (st.busyOf w.name) already

/-- one step of the loop of `build_solution` over the workers -/
def resStep (st : State) (ρ : Env) (acc : List ResSol) (w : Worker) : List ResSol :=
  let nm := w.reportName
  match acc.find? (·.name == nm) with
  | some _ =>
      if w.cumulOf.isSome then
        acc.map (fun x => if x.name == nm then { x with assignments := workerAssignments st ρ w x.assignments } else x)
      else
        acc.map (fun x => if x.name == nm then { name := nm, type_ := "Worker", assignments := workerAssignments st ρ w [] } else x)
  | none => acc ++ [{ name := nm, type_ := "Worker", assignments := workerAssignments st ρ w [] }]

theorem resourceSols_fold (st : State) (ρ : Env) : resourceSols st ρ = st.workers.foldl (resStep st ρ) [] := rfl

/-- the resource view lists, under name `x`, exactly what the workers reporting under `x` contribute -/
def ResView (st : State) (ρ : Env) (acc : List ResSol) (done : List Worker) : Prop :=
  ∀ x a, (∃ e ∈ acc, e.name = x ∧ a ∈ e.assignments) ↔ ∃ w ∈ done, w.reportName = x ∧ WAssign st ρ w a

theorem resStep_view (st : State) (ρ : Env) (acc : List ResSol) (done : List Worker) (w : Worker)
    (hv : ResView st ρ acc done)
    (hplain : w.cumulOf = none → ∀ e ∈ acc, e.name ≠ w.reportName) :
    ResView st ρ (resStep st ρ acc w) (done ++ [w]) := by
  intro x a
  unfold resStep
  simp only
  cases hf : acc.find? (fun r => r.name == w.reportName) with
  | none =>
      simp only
      have hnone : ∀ e ∈ acc, e.name ≠ w.reportName := by
        intro e he hn
        have := List.find?_eq_none.1 hf e he
        simp [hn] at this
      constructor
      · rintro ⟨e, he, hx, ha⟩
        rcases List.mem_append.1 he with he | he
        · obtain ⟨w', hw', h1, h2⟩ := (hv x a).1 ⟨e, he, hx, ha⟩
          exact ⟨w', List.mem_append_left _ hw', h1, h2⟩
        · have := List.mem_singleton.1 he
          subst this
          simp only at hx ha
          refine ⟨w, List.mem_append_right _ (List.mem_singleton.2 rfl), hx, ?_⟩
          exact ((mem_workerAssignments st ρ w [] a).1 ha).resolve_left (by simp)
      · rintro ⟨w', hw', h1, h2⟩
        rcases List.mem_append.1 hw' with hw' | hw'
        · obtain ⟨e, he, hx, ha⟩ := (hv x a).2 ⟨w', hw', h1, h2⟩
          exact ⟨e, List.mem_append_left _ he, hx, ha⟩
        · have := List.mem_singleton.1 hw'
          subst this
          exact ⟨_, List.mem_append_right _ (List.mem_singleton.2 rfl), h1,
            (mem_workerAssignments st ρ w' [] a).2 (Or.inr h2)⟩
  | some r =>
      have hr := List.find?_some hf
      have hrm := List.mem_of_find?_eq_some hf
      have hrn : r.name = w.reportName := by simpa using hr
      by_cases hc : w.cumulOf.isSome = true
      · simp only [hc, if_true]
        constructor
        · rintro ⟨e', he', hx, ha⟩
          obtain ⟨e, he, rfl⟩ := List.mem_map.1 he'
          by_cases hn : (e.name == w.reportName) = true
          · simp only [hn, if_true] at hx ha
            rcases (mem_workerAssignments st ρ w e.assignments a).1 ha with h | h
            · obtain ⟨w', hw', h1, h2⟩ := (hv x a).1 ⟨e, he, hx, h⟩
              exact ⟨w', List.mem_append_left _ hw', h1, h2⟩
            · exact ⟨w, List.mem_append_right _ (List.mem_singleton.2 rfl), by rw [← hx]; exact (eq_of_beq hn).symm, h⟩
          · simp only [hn, Bool.false_eq_true, if_false] at hx ha
            obtain ⟨w', hw', h1, h2⟩ := (hv x a).1 ⟨e, he, hx, ha⟩
            exact ⟨w', List.mem_append_left _ hw', h1, h2⟩
        · rintro ⟨w', hw', h1, h2⟩
          rcases List.mem_append.1 hw' with hw' | hw'
          · obtain ⟨e, he, hx, ha⟩ := (hv x a).2 ⟨w', hw', h1, h2⟩
            refine ⟨_, List.mem_map.2 ⟨e, he, rfl⟩, ?_⟩
            by_cases hn : (e.name == w.reportName) = true
            · simp only [hn, if_true]
              exact ⟨hx, (mem_workerAssignments st ρ w e.assignments a).2 (Or.inl ha)⟩
            · simp only [hn, Bool.false_eq_true, if_false]
              exact ⟨hx, ha⟩
          · have := List.mem_singleton.1 hw'
            subst this
            refine ⟨_, List.mem_map.2 ⟨r, hrm, rfl⟩, ?_⟩
            have hn : (r.name == w'.reportName) = true := by simp [hrn]
            simp only [hn, if_true]
            exact ⟨by rw [hrn]; exact h1, (mem_workerAssignments st ρ w' r.assignments a).2 (Or.inr h2)⟩
      · -- a plain worker whose name is already listed: excluded by the naming hypothesis
        have hc' : w.cumulOf = none := by cases h : w.cumulOf <;> simp_all
        exact absurd hrn (hplain hc' r hrm)

theorem resStep_names (st : State) (ρ : Env) (acc : List ResSol) (done : List Worker) (w : Worker)
    (hn : ∀ e ∈ acc, ∃ w' ∈ done, w'.reportName = e.name) :
    ∀ e ∈ resStep st ρ acc w, ∃ w' ∈ done ++ [w], w'.reportName = e.name := by
  intro e he
  unfold resStep at he
  simp only at he
  split at he
  · split at he
    · obtain ⟨e0, he0, rfl⟩ := List.mem_map.1 he
      obtain ⟨w', hw', h⟩ := hn e0 he0
      refine ⟨w', List.mem_append_left _ hw', ?_⟩
      split <;> exact h
    · obtain ⟨e0, he0, rfl⟩ := List.mem_map.1 he
      obtain ⟨w', hw', h⟩ := hn e0 he0
      split
      · rename_i hnm
        exact ⟨w, List.mem_append_right _ (List.mem_singleton.2 rfl), rfl⟩
      · exact ⟨w', List.mem_append_left _ hw', h⟩
  · rcases List.mem_append.1 he with he | he
    · obtain ⟨w', hw', h⟩ := hn e he
      exact ⟨w', List.mem_append_left _ hw', h⟩
    · have := List.mem_singleton.1 he
      subst this
      exact ⟨w, List.mem_append_right _ (List.mem_singleton.2 rfl), rfl⟩

theorem resFold_view (st : State) (ρ : Env) :
    ∀ (todo done : List Worker) (acc : List ResSol),
      ResView st ρ acc done → (∀ e ∈ acc, ∃ w' ∈ done, w'.reportName = e.name) →
      (done ++ todo).Nodup →
      (∀ w ∈ done ++ todo, ∀ w' ∈ done ++ todo, w'.reportName = w.name → w' = w) →
      ResView st ρ (todo.foldl (resStep st ρ) acc) (done ++ todo) := by
  intro todo
  induction todo with
  | nil => intro done acc hv _ _ _; simpa using hv
  | cons w rest ih =>
      intro done acc hv hn hnd hN
      simp only [List.foldl_cons]
      have hstep := resStep_view st ρ acc done w hv (by
        intro hplain e he hne
        obtain ⟨w', hw', h⟩ := hn e he
        have hrep : w.reportName = w.name := by simp [Worker.reportName, hplain]
        have : w' = w := hN w (by simp) w' (List.mem_append_left _ hw') (by rw [h, hne, hrep])
        subst this
        -- w occurs in `done` and again at the head of the remaining list
        have := List.nodup_append.1 hnd
        exact this.2.2 w' hw' w' (List.mem_cons_self ..) rfl)
      have hnames := resStep_names st ρ acc done w hn
      have := ih (done ++ [w]) (resStep st ρ acc w) hstep hnames (by simpa using hnd) (by simpa using hN)
      simpa using this

/-- **the resource view**: an entry named `x` lists the assignment `a` iff some worker reporting under `x`
    contributes it -/
theorem resourceSols_view (st : State) (ρ : Env) (hnd : st.workers.Nodup)
    (hN : ∀ w ∈ st.workers, ∀ w' ∈ st.workers, w'.reportName = w.name → w' = w) :
    ∀ x a, (∃ e ∈ resourceSols st ρ, e.name = x ∧ a ∈ e.assignments) ↔
      ∃ w ∈ st.workers, w.reportName = x ∧ WAssign st ρ w a := by
  have := resFold_view st ρ st.workers [] [] (by intro x a; simp) (by simp) (by simpa using hnd) (by simpa using hN)
  simpa [resourceSols_fold, ResView] using this

/-! keys of `busyOf` are pairwise distinct (it models a Python dict) -/

theorem dictSet_keys_nodup {β} (l : List (String × β)) (k : String) (v : β)
    (h : (l.map (·.1)).Nodup) : ((dictSet l k v).map (·.1)).Nodup := by
  unfold dictSet
  split
  · have : (l.map (fun e => if e.1 == k then (k, v) else e)).map (·.1) = l.map (·.1) := by
      rw [List.map_map]
      apply List.map_congr_left
      intro e _
      simp only [Function.comp]
      split
      · rename_i hk; exact (eq_of_beq hk).symm
      · rfl
    rw [this]; exact h
  · rename_i hany
    rw [List.map_append, List.nodup_append]
    refine ⟨h, by simp, ?_⟩
    intro a ha b hb
    simp only [List.map_cons, List.map_nil, List.mem_singleton] at hb
    subst hb
    intro hab
    subst hab
    obtain ⟨e, he, hek⟩ := List.mem_map.1 ha
    apply hany
    exact List.any_eq_true.2 ⟨e, he, by simp [hek]⟩

theorem busyOf_keys_nodup (st : State) (w : String) : ((st.busyOf w).map (·.1)).Nodup := by
  unfold State.busyOf
  have inner : ∀ (tname : String) (rs : List Req) (acc : List (String × Bool)), (acc.map (·.1)).Nodup →
      ((rs.foldl (fun acc r => if r.worker == w then dictSet acc tname r.maybe else acc) acc).map (·.1)).Nodup := by
    intro tname rs
    induction rs with
    | nil => intro acc h; exact h
    | cons r rest ih =>
        intro acc h
        simp only [List.foldl_cons]
        apply ih
        split
        · exact dictSet_keys_nodup acc tname r.maybe h
        · exact h
  have outer : ∀ (log : List ReqEvent) (acc : List (String × Bool)), (acc.map (·.1)).Nodup →
      ((log.foldl (fun acc ev =>
        ev.reqs.foldl (fun acc r => if r.worker == w then dictSet acc ev.task r.maybe else acc) acc) acc).map (·.1)).Nodup := by
    intro log
    induction log with
    | nil => intro acc h; exact h
    | cons ev rest ih =>
        intro acc h
        simp only [List.foldl_cons]
        exact ih _ (inner ev.task ev.reqs acc h)
  exact outer st.reqLog [] (by simp)

theorem eq_of_key_nodup {β} (l : List (String × β)) (h : (l.map (·.1)).Nodup) (a b : String × β)
    (ha : a ∈ l) (hb : b ∈ l) (hk : a.1 = b.1) : a = b := by
  induction l with
  | nil => simp at ha
  | cons x xs ih =>
      simp only [List.map_cons, List.nodup_cons] at h
      rcases List.mem_cons.1 ha with rfl | ha' <;> rcases List.mem_cons.1 hb with rfl | hb'
      · rfl
      · exact absurd (List.mem_map.2 ⟨b, hb', hk.symm⟩) h.1
      · exact absurd (List.mem_map.2 ⟨a, ha', hk⟩) h.1
      · exact ih h.2 ha' hb'

/-- the flag `busyFlag` looks up is the one of the (unique) entry of the task in the worker's table -/
theorem busyFlag_of_mem (st : State) (w tn : String) (dflt : Bool) (e : String × Bool)
    (he : e ∈ st.busyOf w) (hk : e.1 = tn) : st.busyFlag w tn dflt = e.2 := by
  unfold State.busyFlag
  cases hf : (st.busyOf w).find? (fun x => x.1 == tn) with
  | none =>
      have := List.find?_eq_none.1 hf e he
      simp [hk] at this
  | some e' =>
      have hm := List.mem_of_find?_eq_some hf
      have hk' : e'.1 = tn := by simpa using List.find?_some hf
      have := eq_of_key_nodup _ (busyOf_keys_nodup st w) e' e hm he (by rw [hk', hk])
      rw [this]

/-- the `assigned_resources` loop -/
def asgStep (st : State) (ρ : Env) (tn : String) (acc : List String) (r : Req) : List String :=
  match st.findWorker r.worker with
  | none => acc
  | some w =>
    if ρ.i (.busyS w.name tn (st.busyFlag w.name tn r.maybe)) ≥ 0 && !acc.contains w.name && !acc.contains w.reportName
    then acc ++ [w.reportName] else acc

theorem asgStep_mono (st : State) (ρ : Env) (tn : String) (acc : List String) (r : Req) (x : String) (h : x ∈ acc) :
    x ∈ asgStep st ρ tn acc r := by
  unfold asgStep
  split
  · exact h
  · split
    · exact List.mem_append_left _ h
    · exact h

theorem asgFold_mono (st : State) (ρ : Env) (tn : String) (x : String) :
    ∀ (rs : List Req) (acc : List String), x ∈ acc → x ∈ rs.foldl (asgStep st ρ tn) acc := by
  intro rs
  induction rs with
  | nil => intro acc h; exact h
  | cons r rest ih => intro acc h; exact ih _ (asgStep_mono st ρ tn acc r x h)

theorem findWorker_mem (st : State) (n : String) (w : Worker) (h : st.findWorker n = some w) : w ∈ st.workers := by
  unfold State.findWorker at h
  exact List.mem_of_find?_eq_some h

/-- every requirement whose busy interval starts at a non-negative instant puts its worker's reported name
    in the task's list -/
theorem asgFold_complete (st : State) (ρ : Env) (tn : String)
    (hN : ∀ w ∈ st.workers, ∀ w' ∈ st.workers, w'.reportName = w.name → w' = w) :
    ∀ (rs : List Req) (acc : List String), (∀ y ∈ acc, ∃ w' ∈ st.workers, w'.reportName = y) →
      ∀ r ∈ rs, ∀ w, st.findWorker r.worker = some w →
        0 ≤ ρ.i (.busyS w.name tn (st.busyFlag w.name tn r.maybe)) →
        w.reportName ∈ rs.foldl (asgStep st ρ tn) acc := by
  intro rs
  induction rs with
  | nil => intro acc _ r hr; simp at hr
  | cons r0 rest ih =>
      intro acc hacc r hr w hw hb
      simp only [List.foldl_cons]
      have hacc' : ∀ y ∈ asgStep st ρ tn acc r0, ∃ w' ∈ st.workers, w'.reportName = y := by
        intro y hy
        unfold asgStep at hy
        split at hy
        · exact hacc y hy
        · rename_i w0 hw0
          split at hy
          · rcases List.mem_append.1 hy with hy | hy
            · exact hacc y hy
            · exact ⟨w0, findWorker_mem st _ w0 hw0, (List.mem_singleton.1 hy).symm⟩
          · exact hacc y hy
      rcases List.mem_cons.1 hr with rfl | hr'
      · apply asgFold_mono
        unfold asgStep
        rw [hw]
        simp only
        by_cases hc : (decide (ρ.i (.busyS w.name tn (st.busyFlag w.name tn r.maybe)) ≥ 0) && !acc.contains w.name &&
            !acc.contains w.reportName) = true
        · rw [if_pos hc]; exact List.mem_append_right _ (List.mem_singleton.2 rfl)
        · rw [if_neg hc]
          simp only [Bool.and_eq_true, decide_eq_true_eq, Bool.not_eq_true', not_and] at hc
          by_cases h1 : acc.contains w.name = true
          · -- `acc` holds the worker's own name: then that name is a reported name, i.e. the worker's
            have hm : w.name ∈ acc := by simpa using h1
            obtain ⟨w', hw', hrep⟩ := hacc _ hm
            have := hN w (findWorker_mem st _ w hw) w' hw' hrep
            subst this
            rw [hrep]; exact hm
          · have h1' : acc.contains w.name = false := by simpa using h1
            have := hc ⟨hb, h1'⟩
            simpa using this
      · exact ih _ hacc' r hr' w hw hb

theorem taskSol_assigned_fold (st : State) (ρ : Env) (cal : Calendar) (t : Task) :
    (taskSol st ρ cal t).assigned = (st.reqsOf t.name).foldl (asgStep st ρ t.name) [] := rfl

/-- **C11 (task view ⇔ resource view).**  For every interpretation admitted by `initialize`, a task lists the
    (reported) resource name `x` among its assigned resources exactly when the resource entry `x` of the solution
    lists an assignment for that task.  Hypotheses: the workers are pairwise different and nobody else reports under
    a worker's own name (unit workers report under their cumulative worker's name), and every busy interval that starts at a non-negative instant also ends at one (true of
    every admitted interpretation when the declared delays fit the durations). -/
theorem C11_task_iff_resource (st : State) (ρ : Env) (cal : Calendar)
    (hnd : st.workers.Nodup)
    (hN : ∀ w ∈ st.workers, ∀ w' ∈ st.workers, w'.reportName = w.name → w' = w)
    (hfind : ∀ w ∈ st.workers, st.findWorker w.name = some w)
    (hord : ∀ w ∈ st.workers, ∀ e ∈ st.busyOf w.name,
      0 ≤ ρ.i (.busyS w.name e.1 e.2) → 0 ≤ ρ.i (.busyE w.name e.1 e.2)) :
    ∀ t ∈ st.tasks, ∀ x, x ∈ (taskSol st ρ cal t).assigned ↔
      ∃ e ∈ (buildSolution st ρ cal).resources, e.name = x ∧ ∃ s en, (t.name, s, en) ∈ e.assignments := by
  intro t ht x
  have hres : (buildSolution st ρ cal).resources = resourceSols st ρ := rfl
  rw [hres]
  constructor
  · intro hx
    obtain ⟨r, hr, w, hw, hrep, hb⟩ := C11_assigned_has_requirement st ρ cal t x hx
    have hwm := findWorker_mem st _ w hw
    have hwn := findWorker_name st _ w hw
    -- the entry of the task in the worker's table
    obtain ⟨m, hm⟩ := (busyOf_keys st w.name t.name).2 ⟨r, hr, hwn.symm⟩
    have hflag := busyFlag_of_mem st w.name t.name r.maybe (t.name, m) hm rfl
    rw [hflag] at hb
    have hbe := hord w hwm (t.name, m) hm hb
    obtain ⟨e, he, hen, ha⟩ := (resourceSols_view st ρ hnd hN x
      (t.name, ρ.i (.busyS w.name t.name m), ρ.i (.busyE w.name t.name m))).2
      ⟨w, hwm, hrep, (t.name, m), hm, rfl, hb, hbe⟩
    exact ⟨e, he, hen, _, _, ha⟩
  · rintro ⟨e, he, hen, s, en, ha⟩
    obtain ⟨w, hwm, hrep, e', he', heq, hb, _⟩ := (resourceSols_view st ρ hnd hN x (t.name, s, en)).1 ⟨e, he, hen, ha⟩
    have hk : e'.1 = t.name := by injection heq with h1 _; exact h1.symm
    obtain ⟨r, hr, hrw⟩ := (busyOf_keys st w.name t.name).1 ⟨e'.2, by rw [← hk]; exact he'⟩
    have hw : st.findWorker r.worker = some w := by rw [hrw]; exact hfind w hwm
    have hflag := busyFlag_of_mem st w.name t.name r.maybe e' he' hk
    rw [taskSol_assigned_fold, ← hrep]
    apply asgFold_complete st ρ t.name hN (st.reqsOf t.name) [] (by simp) r hr w hw
    rw [hflag, ← hk]
    exact hb

end PS
