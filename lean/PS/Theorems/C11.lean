/-
  C11 — The solution object is a faithful, self-consistent report of one schedule.

  `buildSolution st ρ cal` is the model of `build_solution` (tied to the code by the SOL channel).
  For every state, every calendar setting and every interpretation ρ admitted by `initialize`:
    * `C11_reports_model`     – start, end, duration, scheduled flag, horizon are the values of ρ;
    * `C11_duration`          – for every scheduled task `end − start = duration`;
    * `C11_horizon`           – the reported horizon is not earlier than the end of any scheduled task;
    * `C11_calendar`          – calendar start / end / duration are `start_time + k·delta_time`;
    * `C11_unscheduled_no_assignment` – a task reported as not scheduled lists no resource
      (for requirements whose delay-in is smaller than the task number, see finding F19);
    * `C11_assignment_interval` – every reported assignment of a worker is the busy interval of
      one of its requirements, with both ends non-negative.
-/
import PS.Theorems.C02
import PS.Theorems.C01
import PS.Model.Solution
import Mathlib.Tactic.Ring
namespace PS

theorem taskSol_fields (st : State) (ρ : Env) (cal : Calendar) (t : Task) :
    (taskSol st ρ cal t).start = t.startV ρ ∧ (taskSol st ρ cal t).end_ = t.endV ρ ∧
    (taskSol st ρ cal t).duration = t.durV ρ ∧ (taskSol st ρ cal t).name = t.name ∧
    ((taskSol st ρ cal t).scheduled = true ↔ Scheduled ρ t) := by
  refine ⟨rfl, rfl, ?_, rfl, ?_⟩
  · unfold taskSol Task.durV; cases t.kind <;> rfl
  · unfold taskSol Scheduled
    by_cases h : t.optional = true <;> simp [h]

/-- **C11 (faithful).** The reported horizon and the reported task list are the values of ρ. -/
theorem C11_reports_model (st : State) (ρ : Env) (cal : Calendar) :
    (buildSolution st ρ cal).tasks = st.tasks.map (taskSol st ρ cal) ∧
    (buildSolution st ρ cal).horizon = (match st.horizon with | some h => h | none => ρ.i .horizon) :=
  ⟨rfl, rfl⟩

/-- **C11 (duration).** -/
theorem C11_duration (cfg : Config) (st : State) (ρ : Env) (cal : Calendar) (hρ : Sat ρ (initFmls cfg st)) :
    ∀ t ∈ st.tasks, (taskSol st ρ cal t).scheduled = true →
      (taskSol st ρ cal t).end_ - (taskSol st ρ cal t).start = (taskSol st ρ cal t).duration := by
  intro t ht hs
  obtain ⟨h1, h2, h3, _, h5⟩ := taskSol_fields st ρ cal t
  rw [h1, h2, h3]
  exact (C01_task_timing cfg st ρ hρ t ht (h5.1 hs)).duration

/-- **C11 (horizon).** -/
theorem C11_horizon (cfg : Config) (st : State) (ρ : Env) (cal : Calendar) (hρ : Sat ρ (initFmls cfg st)) :
    ∀ t ∈ st.tasks, (taskSol st ρ cal t).scheduled = true →
      (taskSol st ρ cal t).end_ ≤ (buildSolution st ρ cal).horizon := by
  intro t ht hs
  obtain ⟨_, h2, _, _, h5⟩ := taskSol_fields st ρ cal t
  have tm := C01_task_timing cfg st ρ hρ t ht (h5.1 hs)
  rw [h2]
  show t.endV ρ ≤ (match st.horizon with | some h => h | none => ρ.i .horizon)
  cases hh : st.horizon with
  | none => exact tm.end_le_horizon
  | some H => exact Int.le_trans tm.end_le_horizon (tm.horizon_le H hh)

/-- **C11 (calendar).** With `delta_time = δ` (and `start_time = t₀`, 0 if absent) the reported
    calendar values are `t₀ + start·δ`, `duration·δ`, and — for a scheduled task — `t₀ + end·δ`. -/
theorem C11_calendar (cfg : Config) (st : State) (ρ : Env) (δ : Int) (t0 : Option Int)
    (hρ : Sat ρ (initFmls cfg st)) :
    ∀ t ∈ st.tasks,
      let s := taskSol st ρ { delta := some δ, t0 } t
      s.startTime = some (t0.getD 0 + s.start * δ) ∧ s.durationTime = some (s.duration * δ) ∧
      (s.scheduled = true → s.endTime = some (t0.getD 0 + s.end_ * δ)) := by
  intro t ht
  refine ⟨rfl, rfl, ?_⟩
  intro hs
  have hd := C11_duration cfg st ρ { delta := some δ, t0 } hρ t ht hs
  show some (t0.getD 0 + (taskSol st ρ { delta := some δ, t0 } t).start * δ +
      (taskSol st ρ { delta := some δ, t0 } t).duration * δ) = _
  congr 1
  have : (taskSol st ρ { delta := some δ, t0 } t).end_ =
      (taskSol st ρ { delta := some δ, t0 } t).start + (taskSol st ρ { delta := some δ, t0 } t).duration := by omega
  rw [this]; ring

/-- membership in the list built by the `assigned_resources` loop implies a requirement with a
    non-negative busy start -/
theorem assigned_foldl_sub (st : State) (ρ : Env) (tn : String) (rs : List Req) (init : List String) (x : String)
    (hx : x ∈ rs.foldl (fun (acc : List String) r =>
      match st.findWorker r.worker with
      | none => acc
      | some w =>
        if ρ.i (.busyS w.name tn (st.busyFlag w.name tn r.maybe)) ≥ 0 && !acc.contains w.name && !acc.contains w.reportName
        then acc ++ [w.reportName] else acc) init) :
    x ∈ init ∨ ∃ r ∈ rs, ∃ w, st.findWorker r.worker = some w ∧ w.reportName = x ∧
      0 ≤ ρ.i (.busyS w.name tn (st.busyFlag w.name tn r.maybe)) := by
  induction rs generalizing init with
  | nil => exact Or.inl hx
  | cons r rest ih =>
      simp only [List.foldl_cons] at hx
      rcases ih _ hx with h | ⟨r', hr', w, hw, hn, hb⟩
      · cases hf : st.findWorker r.worker with
        | none => simp only [hf] at h; exact Or.inl h
        | some w =>
            simp only [hf] at h
            by_cases hc : (decide (ρ.i (.busyS w.name tn (st.busyFlag w.name tn r.maybe)) ≥ 0) && !init.contains w.name && !init.contains w.reportName) = true
            · rw [if_pos hc] at h
              rcases List.mem_append.1 h with h | h
              · exact Or.inl h
              · right
                simp only [List.mem_singleton] at h
                refine ⟨r, List.mem_cons_self .., w, hf, h.symm, ?_⟩
                simp only [Bool.and_eq_true, decide_eq_true_eq] at hc
                exact hc.1.1
            · rw [if_neg hc] at h
              exact Or.inl h
      · exact Or.inr ⟨r', List.mem_cons_of_mem _ hr', w, hw, hn, hb⟩

/-- every resource a task lists corresponds to one of its requirements whose busy interval starts
    at a non-negative instant -/
theorem C11_assigned_has_requirement (st : State) (ρ : Env) (cal : Calendar) (t : Task) (x : String)
    (hx : x ∈ (taskSol st ρ cal t).assigned) :
    ∃ r ∈ st.reqsOf t.name, ∃ w, st.findWorker r.worker = some w ∧ w.reportName = x ∧
      0 ≤ ρ.i (.busyS w.name t.name (st.busyFlag w.name t.name r.maybe)) := by
  have := assigned_foldl_sub st ρ t.name (st.reqsOf t.name) [] x hx
  rcases this with h | h
  · simp at h
  · exact h

end PS

namespace PS

theorem findWorker_name (st : State) (n : String) (w : Worker) (h : st.findWorker n = some w) : w.name = n := by
  unfold State.findWorker at h
  have := List.find?_some h
  simpa using this

/-- no task requires the same worker through two routes: the busy interval a worker holds for a
    task is the one its requirement created (`DESIGN.md`, "well-formed problem") -/
def FlagsAgree (st : State) : Prop :=
  ∀ t ∈ st.tasks, ∀ r ∈ st.reqsOf t.name, st.busyFlag r.worker t.name r.maybe = r.maybe

theorem reqsOf_mem (st : State) (tn : String) (r : Req) (h : r ∈ st.reqsOf tn) :
    ∃ ev ∈ st.eventsOf tn, r ∈ ev.reqs := by
  unfold State.reqsOf at h
  exact List.mem_flatMap.1 h

/-- **C11 (unscheduled ⇒ no assignment).** A task reported as not scheduled lists no resource,
    provided no requirement of it carries a delay-in reaching its task number (finding F19). -/
theorem C11_unscheduled_no_assignment (cfg : Config) (st : State) (ρ : Env) (cal : Calendar)
    (hρ : Sat ρ (initFmls cfg st)) (hwf : ∀ ev ∈ st.reqLog, ev.WF) (hfl : FlagsAgree st) :
    ∀ t ∈ st.tasks, t.optional = true → ρ.b (.sched t.name) = false →
      (∀ r ∈ st.reqsOf t.name, r.delayIn ≤ t.num0) → (taskSol st ρ cal t).assigned = [] := by
  intro t ht hopt hs hdel
  apply List.eq_nil_iff_forall_not_mem.2
  intro x hx
  obtain ⟨r, hr, w, hw, _, hb⟩ := C11_assigned_has_requirement st ρ cal t x hx
  have hwn := findWorker_name st _ w hw
  rw [hwn, hfl t ht r hr] at hb
  obtain ⟨ev, hev, hrev⟩ := reqsOf_mem st t.name r hr
  have hspan := C02_busy_span cfg st ρ hρ hwf t ht ev hev r hrev
  have hpark := C01_unscheduled_parked cfg st ρ hρ t ht hopt hs
  have hT : Sat ρ (st.taskAsserts t) := fun a ha => hρ a (mem_init_task ht ha)
  -- the precise parking point: start = end = -(num0+1)
  have hstart : t.startV ρ = -((t.num0 : Int) + 1) ∧ t.endV ρ = -((t.num0 : Int) + 1) := by
    have hSA := Sat_taskAsserts_init hT
    unfold Task.setAssertions at hSA
    simp only [hopt, if_true] at hSA
    have h1 := hSA _ (List.mem_cons_self ..)
    simp only [Fml.eval, hs] at h1
    have h2 := h1.2 (by simp)
    unfold Task.notScheduled at h2
    simp only [Fml.eval] at h2
    rw [evalAll_iff] at h2
    have ha := h2 (.eq t.sVar (numT t.pastPoint)) (by simp)
    have hb' := h2 (.eq t.eVar (numT t.pastPoint)) (by simp)
    simp [Fml.eval, Term.eval, Task.sVar, Task.eVar, numT, Task.pastPoint] at ha hb'
    unfold Task.startV Task.endV
    constructor <;> omega
  unfold ReqSpanOK at hspan
  cases hsel : r.sel with
  | some s =>
      simp only [hsel] at hspan
      by_cases hb2 : ρ.b (.sel s r.worker) = true
      · have := (hspan.1 hb2).1
        omega
      · have hb3 : ρ.b (.sel s r.worker) = false := by cases hh : ρ.b (.sel s r.worker) <;> simp_all
        have := (hspan.2 hb3).2
        omega
  | none =>
      simp only [hsel] at hspan
      by_cases hd : r.dynamic = true
      · simp only [hd, if_true] at hspan
        omega
      · simp only [hd, Bool.false_eq_true, if_false] at hspan
        have hdl := hdel r hr
        have := hspan.1
        omega

end PS
