/-
  C01 — Returned schedules obey task timing: window, duration, release, deadline.

  Full statement: for every state `st` of the encoder (reachable or not), every solver
  configuration `cfg`, every interpretation ρ that satisfies the assertion list of
  `initialize`, and every task `t` of the problem that is scheduled in ρ:
  `TaskTimingOK st.horizon t ρ`.  No bound on the number or mix of other elements.
-/
import PS.Proofs.InitMem
import PS.Spec.Basic
namespace PS

/-- the formulas of `t.baseList` give duration and start ≥ 0 -/
theorem baseList_timing (t : Task) (ρ : Env) (h : Sat ρ t.baseList) :
    0 ≤ t.startV ρ ∧ t.endV ρ - t.startV ρ = t.durV ρ ∧ t.DurOK (t.durV ρ) := by
  unfold Task.baseList at h
  unfold Task.startV Task.endV Task.durV Task.DurOK
  cases hk : t.kind with
  | fixed d =>
      simp only [hk] at h
      have h1 := h _ (List.mem_cons_self ..)
      have h2 := h _ (List.mem_cons_of_mem _ (List.mem_cons_self ..))
      simp [Fml.eval, Term.eval, Task.sVar, Task.eVar, numT] at h1 h2
      dsimp only
      omega
  | zero =>
      simp only [hk] at h
      have h1 := h _ (List.mem_cons_self ..)
      have h2 := h _ (List.mem_cons_of_mem _ (List.mem_cons_self ..))
      simp [Fml.eval, Term.eval, Task.sVar, Task.eVar, numT] at h1 h2
      dsimp only
      omega
  | var minD maxD allowed =>
      simp only [hk] at h
      have h1 := h (.eq (.add t.sVar t.dVar) t.eVar) (by simp)
      have h2 := h (.ge t.sVar (numT 0)) (by simp)
      have h3 := h (.ge t.dVar (numT minD)) (by simp)
      simp [Fml.eval, Term.eval, Task.sVar, Task.eVar, Task.dVar, numT] at h1 h2 h3
      dsimp only
      refine ⟨h2, by omega, h3, ?_, ?_⟩
      · intro m hm
        subst hm
        have h4 := h (.le t.dVar (numT m)) (by simp)
        simpa [Fml.eval, Term.eval, Task.dVar, numT] using h4
      · intro l hl
        subst hl
        have h5 := h (.or (l.map (fun d => Fml.eq t.dVar (numT d)))) (by simp)
        simp only [Fml.eval] at h5
        rw [evalAny_iff] at h5
        obtain ⟨a, ha, hev⟩ := h5
        simp only [List.mem_map] at ha
        obtain ⟨d, hd, rfl⟩ := ha
        simp [Fml.eval, Term.eval, Task.dVar, numT] at hev
        rw [hev]; exact hd

/-- what `set_assertions` yields for a scheduled task -/
theorem setAssertions_scheduled (t : Task) (ρ : Env) (h : Sat ρ t.setAssertions) (hs : Scheduled ρ t) :
    Sat ρ t.guarded := by
  unfold Task.setAssertions at h
  by_cases ho : t.optional = true
  · simp only [ho, if_true] at h
    have h1 := h _ (List.mem_cons_self ..)
    rcases hs with hs | hs
    · simp [ho] at hs
    · simp only [Fml.eval, hs, true_implies] at h1
      exact (evalAll_eq_Sat _ _).1 h1.1
  · simpa [ho] using h

/-- … and for an unscheduled one: parked at `-(task number)` -/
theorem setAssertions_unscheduled (t : Task) (ρ : Env) (h : Sat ρ t.setAssertions)
    (ho : t.optional = true) (hs : ρ.b (.sched t.name) = false) : TaskParked t ρ := by
  unfold Task.setAssertions at h
  simp only [ho, if_true] at h
  have h1 := h _ (List.mem_cons_self ..)
  simp only [Fml.eval, hs] at h1
  have h2 := h1.2 (by simp)
  unfold Task.notScheduled at h2
  simp only [Fml.eval] at h2
  rw [evalAll_iff] at h2
  have ha := h2 (.eq t.sVar (numT t.pastPoint)) (by simp)
  have hb := h2 (.eq t.eVar (numT t.pastPoint)) (by simp)
  simp [Fml.eval, Term.eval, Task.sVar, Task.eVar, numT, Task.pastPoint] at ha hb
  constructor
  · unfold Task.startV; omega
  · unfold Task.startV Task.endV; omega

theorem Sat_taskAsserts_init {st : State} {t : Task} {ρ : Env} (h : Sat ρ (st.taskAsserts t)) :
    Sat ρ t.setAssertions := by
  unfold State.taskAsserts Task.initAsserts at h
  rw [Sat.append] at h
  exact h.1

/-- **C01.**  Every scheduled task obeys window, duration, release date and deadline in every
    interpretation admitted by the constraint system, under every solver configuration. -/
theorem C01_task_timing (cfg : Config) (st : State) (ρ : Env) (hρ : Sat ρ (initFmls cfg st)) :
    ∀ t ∈ st.tasks, Scheduled ρ t → TaskTimingOK st.horizon t ρ := by
  intro t ht hs
  have hT : Sat ρ (st.taskAsserts t) := fun a ha => hρ a (mem_init_task ht ha)
  have hSA := Sat_taskAsserts_init hT
  have hG := setAssertions_scheduled t ρ hSA hs
  unfold Task.guarded at hG
  rw [Sat.append] at hG
  obtain ⟨hRD, hB⟩ := hG
  obtain ⟨h0, hd, hok⟩ := baseList_timing t ρ hB
  have hH := hρ _ (mem_init_horizon (cfg := cfg) ht)
  simp [Task.horizonFml, Fml.eval, Term.eval, Task.eVar] at hH
  refine ⟨h0, hH, ?_, hd, hok, ?_, ?_⟩
  · intro H hHz
    have := hρ (.le (.var .horizon) (numT H)) (mem_init_problem (by simp [State.problemAsserts, hHz]))
    simpa [Fml.eval, Term.eval, numT] using this
  · intro r hr
    by_cases hpos : r > 0
    · have := hRD (.ge t.sVar (numT r)) (by simp [Task.releaseDue, hr, hpos])
      simpa [Fml.eval, Term.eval, Task.sVar, numT, Task.startV] using this
    · unfold Task.startV at h0 ⊢; omega
  · intro d hd' hdl
    have := hRD (.le t.eVar (numT d)) (by simp [Task.releaseDue, hd', hdl])
    simpa [Fml.eval, Term.eval, Task.eVar, numT, Task.endV] using this

/-- companion (used by C06/C11): an unscheduled optional task sits at a negative instant -/
theorem C01_unscheduled_parked (cfg : Config) (st : State) (ρ : Env) (hρ : Sat ρ (initFmls cfg st)) :
    ∀ t ∈ st.tasks, t.optional = true → ρ.b (.sched t.name) = false → TaskParked t ρ := by
  intro t ht ho hs
  have hT : Sat ρ (st.taskAsserts t) := fun a ha => hρ a (mem_init_task ht ha)
  exact setAssertions_unscheduled t ρ (Sat_taskAsserts_init hT) ho hs

/-! ### non-vacuity: a concrete state and interpretation meeting the hypotheses -/

def C01_exState : State :=
  run [.problem "p" (some 10),
       .task "A" (.fixed 3) false 0 (some 2) (some 9) true 1,
       .task "B" (.var 1 (some 4) (some [2, 3])) true 0 none none true 1]

def C01_exEnv : Env :=
  { i := fun v => match v with
      | .tStart "A" => 2 | .tEnd "A" => 5
      | .tStart "B" => 5 | .tEnd "B" => 7 | .tDur "B" => 2
      | .horizon => 9
      | _ => 0
    b := fun v => match v with | .sched "B" => true | _ => false }

example : satB C01_exEnv (initFmls {} C01_exState) = true := by decide +kernel
example : C01_exState.tasks.length = 2 := by decide +kernel

end PS
