/-
  C08 — Reported indicator values equal their definition on the reported schedule.

  `IndicatorDef ρ b v` states that `v` is the documented value of indicator body `b` on the
  schedule ρ.  `C08_body_sound`: the assertions of an indicator force its variable to that value;
  `C08_indicator_value` lifts it to `initialize` (every indicator of the problem, any number of
  tasks / busy intervals, any horizon, any cost coefficients); `C08_target_bounds`: indicator
  targets and bounds declared as constraints hold.  `build_solution` reports exactly the value of
  the indicator variable (C11 / SOL channel).
-/
import PS.Theorems.C04
import Mathlib.Tactic.Ring
namespace PS

theorem evalSum_map {α} (ρ : Env) (l : List α) (f : α → Term) :
    Term.evalSum ρ (l.map f) = (l.map (fun x => (f x).eval ρ)).sum := by
  induction l with
  | nil => simp [Term.evalSum]
  | cons x xs ih =>
      show (f x).eval ρ + Term.evalSum ρ (xs.map f) = _
      rw [ih]; simp

theorem sumOrZero_eval {α} (ρ : Env) (l : List α) (f : α → Term) :
    (sumOrZero (l.map f)).eval ρ = (l.map (fun x => (f x).eval ρ)).sum := by
  unfold sumOrZero
  cases l with
  | nil => simp [Term.eval, numT]
  | cons x xs =>
      have : ((x :: xs).map f).isEmpty = false := rfl
      simp only [this, Bool.false_eq_true, if_false, Term.eval]
      exact evalSum_map ρ (x :: xs) f

def Task.dueV (t : Task) : Int := t.due.getD 0

/-- weighted tardiness of one task: `priority · max(0, end − due)` if it is scheduled -/
noncomputable def tardinessOf (ρ : Env) (t : Task) : Int :=
  open Classical in if Scheduled ρ t then t.prio * max 0 (t.endV ρ - t.dueV) else 0

noncomputable def earlinessOf (ρ : Env) (t : Task) : Int :=
  open Classical in if Scheduled ρ t then max 0 (t.dueV - t.endV ρ) else 0

noncomputable def isTardy (ρ : Env) (t : Task) : Int := if t.endV ρ > t.dueV then 1 else 0

def busyLen (ρ : Env) (b : BusyRef) : Int := b.eV ρ - b.sV ρ

/-- `v` is the maximum of the non-empty list `xs` -/
def IsMaxOf (v : Int) (xs : List Int) : Prop := v ∈ xs ∧ ∀ x ∈ xs, x ≤ v
def IsMinOf (v : Int) (xs : List Int) : Prop := v ∈ xs ∧ ∀ x ∈ xs, v ≤ x

/-- documented value of each indicator class -/
def IndicatorDef (ρ : Env) : IBody → Int → Prop
  | .expr t _ => fun v => v = t.eval ρ
  | .utilization busy (some h) => fun v => v = (100 * (busy.map (busyLen ρ)).sum) / h
  | .utilization busy none => fun v => v = (100 * (busy.map (busyLen ρ)).sum) / ρ.i .horizon
  | .nbTasksAssigned busy => fun v => v = (busy.map (fun b => if b.sV ρ > -1 then (1 : Int) else 0)).sum
  | .tardiness ts => fun v => v = (ts.map (tardinessOf ρ)).sum
  | .earliness ts => fun v => v = (ts.map (earlinessOf ρ)).sum
  | .nbTardy ts => fun v => v = (ts.map (isTardy ρ)).sum
  | .maxLateness ts => fun v => IsMaxOf v (ts.map (fun t => t.endV ρ - t.dueV))
  | .maxBuffer levels => fun v => IsMaxOf v (levels.map (fun t => t.eval ρ))
  | .minBuffer levels => fun v => IsMinOf v (levels.map (fun t => t.eval ρ))
  | _ => fun _ => True

theorem getMaximum_sound (m : Term) (xs : List Term) (ρ : Env) (h : Sat ρ (getMaximum m xs)) :
    IsMaxOf (m.eval ρ) (xs.map (fun t => t.eval ρ)) := by
  unfold getMaximum at h
  constructor
  · have := h _ (List.mem_cons_self ..)
    simp only [Fml.eval] at this
    rw [evalAny_iff] at this
    obtain ⟨a, ha, hev⟩ := this
    obtain ⟨x, hx, rfl⟩ := List.mem_map.1 ha
    simp only [Fml.eval] at hev
    exact List.mem_map.2 ⟨x, hx, hev.symm⟩
  · intro v hv
    obtain ⟨x, hx, rfl⟩ := List.mem_map.1 hv
    have := h (Fml.ge m x) (List.mem_cons_of_mem _ (List.mem_map.2 ⟨x, hx, rfl⟩))
    simpa [Fml.eval] using this

theorem getMinimum_sound (m : Term) (xs : List Term) (ρ : Env) (h : Sat ρ (getMinimum m xs)) :
    IsMinOf (m.eval ρ) (xs.map (fun t => t.eval ρ)) := by
  unfold getMinimum at h
  constructor
  · have := h _ (List.mem_cons_self ..)
    simp only [Fml.eval] at this
    rw [evalAny_iff] at this
    obtain ⟨a, ha, hev⟩ := this
    obtain ⟨x, hx, rfl⟩ := List.mem_map.1 ha
    simp only [Fml.eval] at hev
    exact List.mem_map.2 ⟨x, hx, hev.symm⟩
  · intro v hv
    obtain ⟨x, hx, rfl⟩ := List.mem_map.1 hv
    have := h (Fml.le m x) (List.mem_cons_of_mem _ (List.mem_map.2 ⟨x, hx, rfl⟩))
    simpa [Fml.eval] using this

theorem busy_len_eval (ρ : Env) (busy : List BusyRef) :
    (busy.map (fun b => (Term.sub b.e b.s).eval ρ)) = busy.map (busyLen ρ) := by
  simp [Term.eval, BusyRef.e, BusyRef.s, bE, bS, busyLen, BusyRef.eV, BusyRef.sV]

theorem busy_len_eval' (ρ : Env) (busy : List BusyRef) :
    (busy.map (fun b => b.e.eval ρ - b.s.eval ρ)) = busy.map (busyLen ρ) := by
  simp [Term.eval, BusyRef.e, BusyRef.s, bE, bS, busyLen, BusyRef.eV, BusyRef.sV]

/-- **C08 (per class).** The assertions of an indicator force its variable to the documented value. -/
theorem C08_body_sound (i : Nat) (v : Term) (b : IBody) (ρ : Env) (h : Sat ρ (b.fmls i v)) :
    IndicatorDef ρ b (v.eval ρ) := by
  cases b <;> try trivial
  case expr t extra =>
    have := h _ (List.mem_cons_self ..)
    simpa [IndicatorDef, Fml.eval] using this
  case utilization busy horizon =>
    cases horizon with
    | some hz =>
        simp only [IndicatorDef]
        by_cases he : busy = []
        · subst he
          have := h (.reqZero v) (by simp [IBody.fmls])
          simp [Fml.eval] at this
          simp [this]
        · have hne : (busy.map (fun b => Term.sub b.e b.s)).isEmpty = false := by
            cases busy with | nil => exact absurd rfl he | cons _ _ => rfl
          have := h (.eq v (.div (.mul (.sum (busy.map (fun b => Term.sub b.e b.s))) (numT 100)) (numT hz))) (by
            simp [IBody.fmls, hne])
          simp only [Fml.eval, Term.eval, numT, evalSum_map, busy_len_eval'] at this
          rw [this, Int.mul_comm]
    | none =>
        simp only [IndicatorDef]
        by_cases he : busy = []
        · subst he
          have := h (.eq v (.div (numT 0) (.var .horizon))) (by simp [IBody.fmls])
          simp [Fml.eval, Term.eval, numT] at this
          simp [this]
        · have hne : (busy.map (fun b => Term.sub b.e b.s)).isEmpty = false := by
            cases busy with | nil => exact absurd rfl he | cons _ _ => rfl
          have := h (.eq v (.div (.mul (.sum (busy.map (fun b => Term.sub b.e b.s))) (numT 100)) (.var .horizon))) (by
            simp [IBody.fmls, hne])
          simp only [Fml.eval, Term.eval, numT, evalSum_map, busy_len_eval'] at this
          rw [this, Int.mul_comm]
  case nbTasksAssigned busy =>
    have := h _ (List.mem_cons_self ..)
    simp only [IndicatorDef, Fml.eval, sumOrZero_eval] at this ⊢
    rw [this]
    congr 1
    apply List.map_congr_left
    intro b _
    simp only [Term.eval, Fml.eval, numT, BusyRef.s, bS, BusyRef.sV]
    by_cases hc : (-1 : Int) < ρ.i (.busyS b.worker b.task b.maybe) <;> simp [hc]
  case tardiness ts =>
    have := h _ (List.mem_cons_self ..)
    simp only [IndicatorDef, Fml.eval, sumOrZero_eval] at this ⊢
    rw [this]
    congr 1
    apply List.map_congr_left
    intro t _
    simp only [Term.eval, Fml.eval, Fml.evalAny, numT, or_false, Task.eVar, tardinessOf, Task.endV, Task.dueV]
    by_cases hs : Scheduled ρ t
    · have hs' : Fml.eval ρ t.schedF := (schedF_eval t ρ).2 hs
      by_cases hle : ρ.i (.tEnd t.name) ≤ t.due.getD 0
      · have : max 0 (ρ.i (.tEnd t.name) - t.due.getD 0) = 0 := by omega
        simp [hs, hs', hle, this]
      · have : max 0 (ρ.i (.tEnd t.name) - t.due.getD 0) = ρ.i (.tEnd t.name) - t.due.getD 0 := by omega
        simp [hs, hs', hle, this, Int.mul_comm]
    · have hs' : ¬ Fml.eval ρ t.schedF := fun hh => hs ((schedF_eval t ρ).1 hh)
      simp [hs, hs']
  case earliness ts =>
    have := h _ (List.mem_cons_self ..)
    simp only [IndicatorDef, Fml.eval, sumOrZero_eval] at this ⊢
    rw [this]
    congr 1
    apply List.map_congr_left
    intro t _
    simp only [Term.eval, Fml.eval, Fml.evalAll, numT, and_true, Task.eVar, earlinessOf, Task.endV, Task.dueV]
    by_cases hs : Scheduled ρ t
    · have hs' : Fml.eval ρ t.schedF := (schedF_eval t ρ).2 hs
      by_cases hle : 0 ≤ t.due.getD 0 - ρ.i (.tEnd t.name)
      · have : max 0 (t.due.getD 0 - ρ.i (.tEnd t.name)) = t.due.getD 0 - ρ.i (.tEnd t.name) := by omega
        simp [hs, hs', this]
        intro hh; omega
      · have : max 0 (t.due.getD 0 - ρ.i (.tEnd t.name)) = 0 := by omega
        simp [hs, hs', this]
        intro hh; omega
    · have hs' : ¬ Fml.eval ρ t.schedF := fun hh => hs ((schedF_eval t ρ).1 hh)
      simp [hs, hs']
  case nbTardy ts =>
    have := h _ (List.mem_cons_self ..)
    simp only [IndicatorDef, Fml.eval, sumOrZero_eval] at this ⊢
    rw [this]
    congr 1
    apply List.map_congr_left
    intro t _
    simp only [Term.eval, Fml.eval, numT, Task.eVar, isTardy, Task.endV, Task.dueV]
    by_cases hc : t.due.getD 0 < ρ.i (.tEnd t.name) <;> simp [hc]
  case maxLateness ts =>
    simp only [IndicatorDef, IBody.fmls] at h ⊢
    have := getMaximum_sound v _ ρ h
    simpa [List.map_map, Function.comp_def, Term.eval, Task.eVar, numT, Task.endV, Task.dueV] using this
  case maxBuffer levels => exact getMaximum_sound v levels ρ h
  case minBuffer levels => exact getMinimum_sound v levels ρ h

/-- **C08.** In every admitted interpretation every indicator variable of the problem has the
    documented value of its indicator on that very schedule. -/
theorem C08_indicator_value (cfg : Config) (st : State) (ρ : Env) (hρ : Sat ρ (initFmls cfg st)) :
    ∀ ind ∈ st.indicators, IndicatorDef ρ ind.body (ρ.i ind.var) := by
  intro ind hi
  have := C08_body_sound ind.id (.var ind.var) ind.body ρ (fun a ha => hρ a (mem_init_indicator hi ha))
  simpa [Term.eval] using this

/-- **C08 (targets and bounds).** Indicator targets and bounds declared as constraints hold. -/
theorem C08_target_bounds (cfg : Config) (st : State) (ρ : Env) (hρ : Sat ρ (initFmls cfg st)) :
    ∀ c ∈ st.constrs, c.operand = false →
      (∀ v value, c.body = .indicatorTarget v value → ρ.i v = value) ∧
      (∀ v lo hi, c.body = .indicatorBounds v lo hi →
        (∀ l, lo = some l → l ≤ ρ.i v) ∧ (∀ u, hi = some u → ρ.i v ≤ u)) := by
  intro c hc hop
  have hs := C10_constraint_part cfg st ρ hρ c hc hop
  constructor
  · intro v value hb
    have := hs (.eq (.var v) (numT value)) (by simp [Constr.asserts, hb, CBody.direct, CBody.raw])
    simpa [Fml.eval, Term.eval, numT] using this
  · intro v lo hi hb
    constructor
    · intro l hl
      subst hl
      have := hs (.ge (.var v) (numT l)) (by simp [Constr.asserts, hb, CBody.direct, CBody.raw])
      simpa [Fml.eval, Term.eval, numT] using this
    · intro u hu
      subst hu
      have := hs (.le (.var v) (numT u)) (by simp [Constr.asserts, hb, CBody.direct, CBody.raw])
      simpa [Fml.eval, Term.eval, numT] using this

/-- for a linear cost function the (doubled) trapezoid the library accumulates is exact:
    `(f(a) + f(b))·(b − a) = slope·(b² − a²) + 2·intercept·(b − a) = 2·∫ₐᵇ f` -/
theorem linear_trapezoid (s i a b : Int) : ((s * a + i) + (s * b + i)) * (b - a) = s * (b * b - a * a) + 2 * i * (b - a) := by
  ring

theorem cost_at_linear (s i : Int) (x : Term) (ρ : Env) : ((Cost.linear s i).at x).eval ρ = s * x.eval ρ + i := by
  simp [Cost.at, Term.eval, numT]

end PS
