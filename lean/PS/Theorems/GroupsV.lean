/-
  PS.Theorems.GroupsV — optimality and exhaustive enumeration read on schedules (`C07V.lean`, `C12V.lean`) for problems
  with task groups: the same statements, through `C05_complete_groups` / `C05_sound_groups` instead of the theorems of
  the scheduling core.
-/
import PS.Theorems.Groups
import PS.Theorems.C07V
import PS.Theorems.C12V
namespace PS

/-- **C07 (optimal, on schedules, with task groups).** When the incremental loop ends on `unsat`, the value of the
    returned model is no worse than the value the optimised variable takes on every valid schedule of the problem,
    groups included; "nothing found" means no valid schedule exists. -/
theorem C07_optimal_valid_groups (cfg : Config) (st : State) (hc : InCoreS st.noGroups)
    (hok : st.groupsOK = true) (hf : st.freshGroups = true) (g : Goal) (hg : notGrp g.target = true)
    (mi : Option Nat) (mt : Int) (answers : List (Answer × Int))
    (hcons : ∀ p ∈ (incLoop (initFmls cfg st) g mi mt answers {}).seen, ConsistentAns p.1 p.2)
    (hexit : (incLoop (initFmls cfg st) g mi mt answers {}).exit = "unsat") :
    let f := incLoop (initFmls cfg st) g mi mt answers {}
    (f.best = none → ¬ ∃ σ, Valid st σ) ∧
    (∀ ρ, f.best = some ρ → ∀ σ, Valid st σ → g.noWorse (ρ.i g.target) ((envOf st σ).i g.target)) := by
  intro f
  obtain ⟨h1, h2⟩ := C07_optimal (initFmls cfg st) g mi mt answers hcons hexit
  constructor
  · intro hb ⟨σ, hv⟩
    exact h1 hb ⟨withGroups st σ (envOf st σ), C05_complete_groups cfg st σ hc hok hf hv⟩
  · intro ρ hb σ hv
    have := h2 ρ hb (withGroups st σ (envOf st σ)) (C05_complete_groups cfg st σ hc hok hf hv)
    rw [← (withGroups_agree st σ (envOf st σ)).i g.target hg] at this
    exact this

/-- **C12 (exhaustive, on schedules, with task groups).** -/
theorem C12_exhaustive_valid_groups (st : State) (cfg : Config) (prev : List Env) (hc : InCoreS st.noGroups)
    (hok : st.groupsOK = true) (hf : st.freshGroups = true)
    (h : ConsistentAns (initFmls cfg st ++ prev.map (blockingClause st)) .unsat) :
    ∀ σ, Valid st σ → ∃ ρ ∈ prev, ∀ t ∈ st.tasks,
      ρ.i (.tStart t.name) = tStartOf σ t ∧ ρ.i (.tEnd t.name) = tEndOf σ t ∧
      (t.optional = true → ρ.b (.sched t.name) = σ.sched t.name) := by
  intro σ hv
  obtain ⟨ρ, hρ, hsame⟩ := C12_exhaustive st cfg prev h (withGroups st σ (envOf st σ))
    (C05_complete_groups cfg st σ hc hok hf hv)
  refine ⟨ρ, hρ, ?_⟩
  intro t ht
  obtain ⟨h1, h2, h3⟩ := hsame t ht
  have hft : st.findTask t.name = some t := hc.inCore.names t ht
  have e1 : (withGroups st σ (envOf st σ)).i (.tStart t.name) = (envOf st σ).i (.tStart t.name) := rfl
  have e2 : (withGroups st σ (envOf st σ)).i (.tEnd t.name) = (envOf st σ).i (.tEnd t.name) := rfl
  rw [e1, envOf_tStart st σ t hft] at h1
  rw [e2, envOf_tEnd st σ t hft] at h2
  exact ⟨h1.symm, h2.symm, fun ho => (h3 ho).symm⟩

/-- … and every schedule returned is a valid one of the problem with its groups -/
theorem C12_returned_valid_groups (st : State) (cfg : Config) (prev : List Env) (extra : List Fml) (ρ' : Env)
    (hc : InCoreS st.noGroups) (hH : 0 ≤ ρ'.i .horizon)
    (h : ConsistentAns (initFmls cfg st ++ prev.map (blockingClause st) ++ extra) (.sat ρ')) :
    Valid st (schedOf ρ') ∧ ∀ ρ ∈ prev, ¬ SameTiming st ρ ρ' := by
  obtain ⟨h1, h2⟩ := C12_distinct st cfg prev extra ρ' h
  exact ⟨C05_sound_groups cfg st ρ' hc h1 hH, h2⟩

end PS

namespace PS

/-- **C05 (verdict, with task groups).** On a problem with top-level groups that has a valid schedule, a consistent
    oracle cannot answer `unsat` to the assertions of `initialize` … -/
theorem C05_unsat_means_no_valid_schedule_groups (cfg : Config) (st : State) (hc : InCoreS st.noGroups)
    (hok : st.groupsOK = true) (hf : st.freshGroups = true)
    (hunsat : ConsistentAns (initFmls cfg st) .unsat) : ¬ ∃ σ, Valid st σ := by
  rintro ⟨σ, hv⟩
  exact hunsat ⟨withGroups st σ (envOf st σ), C05_complete_groups cfg st σ hc hok hf hv⟩

/-- … and a `sat` answer with a non-negative horizon denotes a valid schedule of the problem, groups included -/
theorem C05_sat_means_valid_schedule_groups (cfg : Config) (st : State) (hc : InCoreS st.noGroups) (ρ : Env)
    (hsat : ConsistentAns (initFmls cfg st) (.sat ρ)) (hH : 0 ≤ ρ.i .horizon) : Valid st (schedOf ρ) :=
  C05_sound_groups cfg st ρ hc hsat hH

end PS
