/-
  PS.Theorems.Absent — C06, the headline claim, as a theorem on the scheduling core: a schedule that leaves an
  optional task unscheduled is valid for the problem iff it is valid for the problem *without* that task (its
  requirements and the constraints naming it removed) — provided the constraints naming it let it be unscheduled.

  * `State.dropTask st n` removes task `n`, its requirement events and the constraints that mention it;
  * `busyOf_dropTask`: a worker's busy-interval dictionary of the smaller problem is the dictionary of the full
    problem without the entry of `n`;
  * `envOf_dropTask_agree`: the witness interpretations of the two problems agree on the smaller problem's own
    variables;
  * `C06_absent_valid` (⇒, ⇐) and, through the exactness theorems, `C06_absent_models`: the interpretations the
    encoder admits for the full problem with `n` unscheduled and those it admits for the smaller problem denote
    the same schedules.
-/
import PS.Theorems.Exact
namespace PS

/-- the problem without task `n`: the task, its `add_required_resource` calls and every constraint that mentions it
    are removed (ids and task numbers stay: the documented meaning does not read them) -/
def State.dropTask (st : State) (n : String) : State :=
  { st with
    tasks := st.tasks.filter (fun t => t.name != n)
    reqLog := st.reqLog.filter (fun ev => ev.task != n)
    constrs := st.constrs.filter (fun c => !(c.body.coreTasks.any (fun t => t.name == n))) }

/-! ### lists and dictionaries -/

theorem find?_filter_ne {α} (p q : α → Bool) (l : List α) (h : ∀ x ∈ l, p x = true → q x = true) :
    (l.filter q).find? p = l.find? p := by
  induction l with
  | nil => rfl
  | cons x xs ih =>
      have ih' := ih (fun y hy => h y (List.mem_cons_of_mem _ hy))
      by_cases hq : q x = true
      · simp only [List.filter_cons, hq, if_true, List.find?_cons, ih']
      · have hp : p x = false := by
          cases hpx : p x with
          | false => rfl
          | true => exact absurd (h x (List.mem_cons_self ..) hpx) hq
        simp only [List.filter_cons, hq, Bool.false_eq_true, if_false, List.find?_cons, hp, ih']

theorem findTask_dropTask (st : State) (n m : String) (h : m ≠ n) :
    (st.dropTask n).findTask m = st.findTask m := by
  unfold State.findTask State.dropTask
  apply find?_filter_ne
  intro t _ ht
  have : t.name = m := eq_of_beq ht
  simp [this, h]

theorem eventsOf_dropTask (st : State) (n m : String) (h : m ≠ n) :
    (st.dropTask n).eventsOf m = st.eventsOf m := by
  unfold State.eventsOf State.dropTask
  simp only [List.filter_filter]
  apply List.filter_congr
  intro ev _
  by_cases he : (ev.task == m) = true
  · have : ev.task = m := eq_of_beq he
    simp [this, h]
  · simp [he]

theorem reqsOf_dropTask (st : State) (n m : String) (h : m ≠ n) :
    (st.dropTask n).reqsOf m = st.reqsOf m := by
  unfold State.reqsOf
  rw [eventsOf_dropTask st n m h]

theorem reqFor_dropTask (st : State) (n w m : String) (h : m ≠ n) :
    (st.dropTask n).reqFor w m = st.reqFor w m := by
  unfold State.reqFor
  rw [reqsOf_dropTask st n m h]

/-- `dictSet` under a key other than `n` commutes with removing the entry of `n` -/
theorem dictSet_filter_ne {β} (l : List (String × β)) (k n : String) (v : β) (h : k ≠ n) :
    (dictSet l k v).filter (fun e => e.1 != n) = dictSet (l.filter (fun e => e.1 != n)) k v := by
  have hany : (l.filter (fun e => e.1 != n)).any (fun e => e.1 == k) = l.any (fun e => e.1 == k) := by
    rw [Bool.eq_iff_iff]
    simp only [List.any_eq_true, List.mem_filter]
    constructor
    · rintro ⟨e, ⟨he, _⟩, hk⟩; exact ⟨e, he, hk⟩
    · rintro ⟨e, he, hk⟩
      refine ⟨e, ⟨he, ?_⟩, hk⟩
      have : e.1 = k := eq_of_beq hk
      simp [this, h]
  unfold dictSet
  rw [hany]
  by_cases ha : l.any (fun e => e.1 == k) = true
  · simp only [ha, if_true]
    rw [List.filter_map]
    congr 1
    apply List.filter_congr
    intro e _
    simp only [Function.comp]
    by_cases hk : (e.1 == k) = true
    · have : e.1 = k := eq_of_beq hk
      simp [hk, this, h]
    · simp [hk]
  · simp only [ha, Bool.false_eq_true, if_false, List.filter_append]
    congr 1
    simp [h]

/-- `dictSet` under key `n` changes nothing once the entry of `n` is removed -/
theorem dictSet_filter_eq {β} (l : List (String × β)) (n : String) (v : β) :
    (dictSet l n v).filter (fun e => e.1 != n) = l.filter (fun e => e.1 != n) := by
  unfold dictSet
  by_cases ha : l.any (fun e => e.1 == n) = true
  · simp only [ha, if_true]
    rw [List.filter_map]
    induction l with
    | nil => rfl
    | cons x xs ih =>
        by_cases hk : (x.1 == n) = true
        · have hx : x.1 = n := eq_of_beq hk
          simp only [List.filter_cons, Function.comp, hk, if_true, bne_self_eq_false, Bool.false_eq_true, if_false]
          have : (x.1 != n) = false := by simp [hx]
          simp only [this, Bool.false_eq_true, if_false]
          by_cases ha' : xs.any (fun e => e.1 == n) = true
          · exact ih ha'
          · -- no further entry of `n`: the map is the identity on the rest
            have hno : ∀ e ∈ xs, (e.1 == n) = false := by
              intro e he
              cases hh : (e.1 == n) with
              | false => rfl
              | true => exact absurd (List.any_eq_true.2 ⟨e, he, hh⟩) ha'
            have : xs.map (fun e => if (e.1 == n) = true then (n, v) else e) = xs := by
              conv => rhs; rw [← List.map_id xs]
              apply List.map_congr_left
              intro e he
              simp [hno e he]
            rw [← List.filter_map, this]
        · simp only [List.filter_cons, Function.comp, hk, Bool.false_eq_true, if_false]
          have hne : (x.1 != n) = true := by simpa [bne] using hk
          simp only [hne, if_true, List.map_cons, hk, Bool.false_eq_true, if_false]
          congr 1
          have ha' : xs.any (fun e => e.1 == n) = true := by
            simp only [List.any_cons, hk, Bool.false_or] at ha
            exact ha
          exact ih ha'
  · simp only [ha, Bool.false_eq_true, if_false, List.filter_append]
    simp


/-- one requirement event written into a worker's dictionary -/
def busyStep (w : String) (acc : List (String × Bool)) (ev : ReqEvent) : List (String × Bool) :=
  ev.reqs.foldl (fun acc r => if r.worker == w then dictSet acc ev.task r.maybe else acc) acc

theorem busyStep_filter (w n : String) (ev : ReqEvent) (acc : List (String × Bool)) :
    (busyStep w acc ev).filter (fun e => e.1 != n) =
      if ev.task != n then busyStep w (acc.filter (fun e => e.1 != n)) ev else acc.filter (fun e => e.1 != n) := by
  unfold busyStep
  generalize ev.reqs = rs
  induction rs generalizing acc with
  | nil => simp
  | cons r rest ih =>
      simp only [List.foldl_cons]
      rw [ih]
      by_cases hn : (ev.task != n) = true
      · have hne : ev.task ≠ n := by simpa [bne] using hn
        simp only [hn, if_true]
        by_cases hw : (r.worker == w) = true
        · simp only [hw, if_true, dictSet_filter_ne _ _ _ _ hne]
        · simp only [hw, Bool.false_eq_true, if_false]
      · have he : ev.task = n := by
          cases hh : (ev.task != n) with
          | true => exact absurd hh hn
          | false => simpa [bne] using hh
        simp only [hn, Bool.false_eq_true, if_false]
        by_cases hw : (r.worker == w) = true
        · simp only [hw, if_true, he, dictSet_filter_eq]
        · simp only [hw, Bool.false_eq_true, if_false]

/-- **the busy-interval dictionary of the smaller problem** is the one of the full problem without the entry of `n` -/
theorem busyOf_dropTask (st : State) (n w : String) :
    (st.dropTask n).busyOf w = (st.busyOf w).filter (fun e => e.1 != n) := by
  have hfold : ∀ (L : List ReqEvent) (acc : List (String × Bool)),
      (L.foldl (busyStep w) acc).filter (fun e => e.1 != n) =
        (L.filter (fun ev => ev.task != n)).foldl (busyStep w) (acc.filter (fun e => e.1 != n)) := by
    intro L
    induction L with
    | nil => intro acc; rfl
    | cons ev rest ih =>
        intro acc
        simp only [List.foldl_cons]
        rw [ih, busyStep_filter]
        by_cases hn : (ev.task != n) = true
        · simp only [hn, if_true, List.filter_cons, List.foldl_cons]
        · simp only [hn, Bool.false_eq_true, if_false, List.filter_cons]
  have h1 : (st.dropTask n).busyOf w = ((st.reqLog.filter (fun ev => ev.task != n)).foldl (busyStep w) []) := rfl
  have h2 : st.busyOf w = st.reqLog.foldl (busyStep w) [] := rfl
  rw [h1, h2, hfold]
  rfl


/-! ### the witness interpretations of the two problems agree on the smaller problem's own variables -/

theorem findTask_dropTask_some (st : State) (n m : String) (t : Task) (h : (st.dropTask n).findTask m = some t) :
    m ≠ n ∧ st.findTask m = some t := by
  have hm : t ∈ (st.dropTask n).tasks := List.mem_of_find?_eq_some h
  have hn : t.name = m := by
    have := List.find?_some h
    exact eq_of_beq this
  have hne : t.name ≠ n := by
    have := (List.mem_filter.1 hm).2
    simpa [bne] using this
  have : m ≠ n := hn ▸ hne
  exact ⟨this, by rw [← findTask_dropTask st n m this]; exact h⟩

theorem envPrim_dropTask (st : State) (n : String) (σ : Sched) (v : IVar) (hv : (st.dropTask n).ownI v = true) :
    (envPrim st σ).i v = (envPrim (st.dropTask n) σ).i v := by
  cases v <;> simp only [State.ownI, Bool.false_eq_true] at hv
  case tStart m =>
    cases hf : (st.dropTask n).findTask m with
    | none => simp [hf] at hv
    | some t =>
        obtain ⟨_, hf'⟩ := findTask_dropTask_some st n m t hf
        simp only [envPrim, hf, hf']
  case tEnd m =>
    cases hf : (st.dropTask n).findTask m with
    | none => simp [hf] at hv
    | some t =>
        obtain ⟨_, hf'⟩ := findTask_dropTask_some st n m t hf
        simp only [envPrim, hf, hf']
  case tDur m =>
    cases hf : (st.dropTask n).findTask m with
    | none => simp [hf] at hv
    | some t =>
        obtain ⟨_, hf'⟩ := findTask_dropTask_some st n m t hf
        simp only [envPrim, hf, hf']
  case busyS w m fl =>
    obtain ⟨ev, hev, h1⟩ := List.any_eq_true.1 hv
    simp only [Bool.and_eq_true] at h1
    have hne : m ≠ n := by
      have h2 := (List.mem_filter.1 hev).2
      have : ev.task = m := eq_of_beq h1.1
      rw [← this]; simpa [bne] using h2
    simp only [envPrim, findTask_dropTask st n m hne, reqFor_dropTask st n w m hne]
  case busyE w m fl =>
    obtain ⟨ev, hev, h1⟩ := List.any_eq_true.1 hv
    simp only [Bool.and_eq_true] at h1
    have hne : m ≠ n := by
      have h2 := (List.mem_filter.1 hev).2
      have : ev.task = m := eq_of_beq h1.1
      rw [← this]; simpa [bne] using h2
    simp only [envPrim, findTask_dropTask st n m hne, reqFor_dropTask st n w m hne]
  case horizon => rfl

theorem ownI_not_isInd (st : State) (v : IVar) (h : st.ownI v = true) : v.isInd = false := by
  cases v <;> simp_all [State.ownI, IVar.isInd]

theorem envOf_dropTask_agree (st : State) (n : String) (σ : Sched) (hc' : InCoreS (st.dropTask n)) :
    Env.AgreeOn2 (st.dropTask n).ownI2 ownB (envOf st σ) (envOf (st.dropTask n) σ) where
  i := by
    intro v hv
    have hprim : Env.AgreeOn2 (st.dropTask n).ownI ownB (envPrim st σ) (envPrim (st.dropTask n) σ) :=
      ⟨fun v hv => envPrim_dropTask st n σ v hv, fun _ _ => rfl⟩
    by_cases ho : (st.dropTask n).ownI v = true
    · have hni := ownI_not_isInd _ v ho
      rw [envOf_prim st σ v hni, envOf_prim _ σ v hni]
      exact envPrim_dropTask st n σ v ho
    · simp only [State.ownI2, ho, Bool.false_or] at hv
      obtain ⟨ind, hi, hv'⟩ := List.any_eq_true.1 hv
      have hvar : ind.var = v := eq_of_beq hv'
      have hok := hc'.indicators
      obtain ⟨T, hT, hqf, _⟩ := hok.simple ind hi
      have hpl := hc'.ind_plain ind hi T hT
      have hinds : (st.dropTask n).indicators = st.indicators := rfl
      have hisInd := hok.isInd ind hi
      have hfind := find?_of_pairwise_var _ hok.distinct ind hi
      have h1 : (envOf st σ).i ind.var = T.evalB (envPrim st σ) := by
        have hfind' : st.indicators.find? (fun x => x.var == ind.var) = some ind := hinds ▸ hfind
        simp only [envOf, hisInd, if_true, hfind', hT]
      have h2 : (envOf (st.dropTask n) σ).i ind.var = T.evalB (envPrim (st.dropTask n) σ) := by
        simp only [envOf, hisInd, if_true, hfind, hT]
      rw [← hvar, h1, h2, Term.evalB_eq _ T hqf, Term.evalB_eq _ T hqf]
      exact eval_congr2_term _ _ _ _ hprim T hpl
  b := fun _ _ => rfl


/-! ### the meaning of a constraint of the smaller problem is the same in both problems -/

theorem CoreMeaning_dropTask (st : State) (n : String) (σ : Sched) (hc' : InCoreS (st.dropTask n))
    (c : Nat) (b : CBody) (hb : b.inCoreS (st.dropTask n) c = true) :
    CoreMeaning st σ b ↔ CoreMeaning (st.dropTask n) σ b := by
  have hag := envOf_dropTask_agree st n σ hc'
  have conn : ∀ b' : CBody, b'.isConn = true → (b'.raw c).all (st.dropTask n).plainF = true →
      (ConnMeaning (envOf st σ) b' ↔ ConnMeaning (envOf (st.dropTask n) σ) b') := by
    intro b' hc hp
    rw [← C10_connective_raw c b' hc, ← C10_connective_raw c b' hc]
    constructor
    · intro hs a ha
      exact (eval_congr2_fml _ _ _ _ hag a ((List.all_eq_true.1 hp) a ha)).1 (hs a ha)
    · intro hs a ha
      exact (eval_congr2_fml _ _ _ _ hag a ((List.all_eq_true.1 hp) a ha)).2 (hs a ha)
  cases b <;> simp only [CBody.inCoreS, CBody.isConn, Bool.false_eq_true, Bool.false_and, Bool.true_and] at hb <;>
    try exact Iff.rfl
  case conditionSchedule t cond =>
    simp only [CoreMeaning]
    rw [eval_congr2_fml _ _ _ _ hag cond hb]
  case unavailable busy ivs =>
    simp only [CoreMeaning]
    constructor
    · intro h b' hb' iv hiv
      have hown := (List.all_eq_true.1 hb) b' hb'
      simp only [Bool.and_eq_true] at hown
      have e1 : b'.sV (envOf (st.dropTask n) σ) = b'.sV (envOf st σ) :=
        (hag.i _ (by simp [State.ownI2, hown.1])).symm
      have e2 : b'.eV (envOf (st.dropTask n) σ) = b'.eV (envOf st σ) :=
        (hag.i _ (by simp [State.ownI2, hown.2])).symm
      rw [e1, e2]; exact h b' hb' iv hiv
    · intro h b' hb' iv hiv
      have hown := (List.all_eq_true.1 hb) b' hb'
      simp only [Bool.and_eq_true] at hown
      have e1 : b'.sV (envOf st σ) = b'.sV (envOf (st.dropTask n) σ) := hag.i _ (by simp [State.ownI2, hown.1])
      have e2 : b'.eV (envOf st σ) = b'.eV (envOf (st.dropTask n) σ) := hag.i _ (by simp [State.ownI2, hown.2])
      rw [e1, e2]; exact h b' hb' iv hiv
  case interrupted ws ivs =>
    simp only [Bool.and_eq_true] at hb
    obtain ⟨_, hrefs⟩ := hb
    simp only [CoreMeaning]
    have key : ∀ w ∈ ws, ∀ bt ∈ w,
        (bt.1.sV (envOf st σ) = bt.1.sV (envOf (st.dropTask n) σ) ∧ bt.1.eV (envOf st σ) = bt.1.eV (envOf (st.dropTask n) σ)) ∧
        (bt.2.isVar = true → (envOf (st.dropTask n) σ).i (.tDur bt.2.name) = (envOf st σ).i (.tDur bt.2.name)) := by
      intro w hw bt hbt
      have hr := (List.all_eq_true.1 ((List.all_eq_true.1 hrefs) w hw)) bt hbt
      simp only [Bool.and_eq_true, beq_iff_eq, State.ownsBusy] at hr
      refine ⟨⟨hag.i _ (by simp [State.ownI2, hr.1.1]), hag.i _ (by simp [State.ownI2, hr.1.2])⟩, ?_⟩
      intro hv
      exact (hag.i _ (by simp [State.ownI2, State.ownI, hr.2, hv])).symm
    constructor
    · rintro ⟨h1, h2⟩
      refine ⟨h1, ?_⟩
      intro w hw bt hbt
      obtain ⟨⟨e1, e2⟩, e3⟩ := key w hw bt hbt
      have := h2 w hw bt hbt
      rw [e1, e2] at this
      exact ⟨this.1, (InterruptedExact_congr _ _ _ _ bt.2 ivs e3).1 this.2⟩
    · rintro ⟨h1, h2⟩
      refine ⟨h1, ?_⟩
      intro w hw bt hbt
      obtain ⟨⟨e1, e2⟩, e3⟩ := key w hw bt hbt
      have := h2 w hw bt hbt
      rw [e1, e2]
      exact ⟨this.1, (InterruptedExact_congr _ _ _ _ bt.2 ivs e3).2 this.2⟩
  case periodicallyUnavailable busy ivs period start offset end_ =>
    simp only [Bool.and_eq_true] at hb
    obtain ⟨_, hrefs⟩ := hb
    simp only [CoreMeaning]
    have key : ∀ b' ∈ busy,
        b'.sV (envOf st σ) = b'.sV (envOf (st.dropTask n) σ) ∧ b'.eV (envOf st σ) = b'.eV (envOf (st.dropTask n) σ) := by
      intro b' hb'
      have hr := (List.all_eq_true.1 hrefs) b' hb'
      simp only [Bool.and_eq_true, State.ownsBusy] at hr
      exact ⟨hag.i _ (by simp [State.ownI2, hr.1]), hag.i _ (by simp [State.ownI2, hr.2])⟩
    constructor
    · rintro ⟨h1, h2⟩
      refine ⟨h1, ?_⟩
      intro b' hb'
      obtain ⟨e1, e2⟩ := key b' hb'
      have := h2 b' hb'
      unfold PeriodicMasked at this ⊢
      rw [e1, e2] at this
      exact this
    · rintro ⟨h1, h2⟩
      refine ⟨h1, ?_⟩
      intro b' hb'
      obtain ⟨e1, e2⟩ := key b' hb'
      have := h2 b' hb'
      unfold PeriodicMasked at this ⊢
      rw [e1, e2]
      exact this
  case periodicallyInterrupted busy ivs period start offset end_ =>
    simp only [Bool.and_eq_true] at hb
    obtain ⟨_, hrefs⟩ := hb
    simp only [CoreMeaning]
    have key : ∀ bt ∈ busy,
        (bt.1.sV (envOf st σ) = bt.1.sV (envOf (st.dropTask n) σ) ∧ bt.1.eV (envOf st σ) = bt.1.eV (envOf (st.dropTask n) σ)) ∧
        (bt.2.isVar = true → (envOf (st.dropTask n) σ).i (.tDur bt.2.name) = (envOf st σ).i (.tDur bt.2.name)) := by
      intro bt hbt
      have hr := (List.all_eq_true.1 hrefs) bt hbt
      simp only [Bool.and_eq_true, beq_iff_eq, State.ownsBusy] at hr
      refine ⟨⟨hag.i _ (by simp [State.ownI2, hr.1.1]), hag.i _ (by simp [State.ownI2, hr.1.2])⟩, ?_⟩
      intro hv
      exact (hag.i _ (by simp [State.ownI2, State.ownI, hr.2, hv])).symm
    constructor
    · rintro ⟨h0, h1, h2⟩
      refine ⟨h0, h1, ?_⟩
      intro bt hbt
      obtain ⟨⟨e1, e2⟩, e3⟩ := key bt hbt
      have := h2 bt hbt
      unfold PeriodicMasked at this ⊢
      rw [e1, e2] at this
      refine ⟨this.1, ?_⟩
      rcases this.2 with hm | he
      · exact Or.inl hm
      · exact Or.inr ((PeriodicInterruptedExact_congr _ _ _ _ bt.2 ivs period offset e3).1 he)
    · rintro ⟨h0, h1, h2⟩
      refine ⟨h0, h1, ?_⟩
      intro bt hbt
      obtain ⟨⟨e1, e2⟩, e3⟩ := key bt hbt
      have := h2 bt hbt
      unfold PeriodicMasked at this ⊢
      rw [e1, e2]
      refine ⟨this.1, ?_⟩
      rcases this.2 with hm | he
      · exact Or.inl hm
      · exact Or.inr ((PeriodicInterruptedExact_congr _ _ _ _ bt.2 ivs period offset e3).2 he)
  case indicatorTarget v value =>
    simp only [CoreMeaning]
    have hv : (st.dropTask n).ownI2 v = true := by simp only [State.ownI2, hb, Bool.or_true]
    rw [hag.i v hv]
  case indicatorBounds v lo hi =>
    simp only [CoreMeaning]
    have hv : (st.dropTask n).ownI2 v = true := by simp only [State.ownI2, hb, Bool.or_true]
    rw [hag.i v hv]
  case fromExpr f =>
    simp only [CoreMeaning]
    exact conn (.fromExpr f) rfl hb
  case not_ o =>
    simp only [CoreMeaning, CBody.isConn, if_true]
    exact conn (.not_ o) rfl hb
  case or_ os =>
    simp only [CoreMeaning, CBody.isConn, if_true]
    exact conn (.or_ os) rfl hb
  case and_ os =>
    simp only [CoreMeaning, CBody.isConn, if_true]
    exact conn (.and_ os) rfl hb
  case xor_ o1 o2 =>
    simp only [CoreMeaning, CBody.isConn, if_true]
    exact conn (.xor_ o1 o2) rfl hb
  case implies cond os =>
    simp only [CoreMeaning, CBody.isConn, if_true]
    exact conn (.implies cond os) rfl hb
  case ifThenElse cond os1 os2 =>
    simp only [CoreMeaning, CBody.isConn, if_true]
    exact conn (.ifThenElse cond os1 os2) rfl hb


/-! ### work amounts -/

/-- the busy-interval flag the work sum of task `t` uses for a required worker was written by a logged requirement -/
theorem workFlag_owned (st : State) (tn : String) (r : Req) (hr : r ∈ st.reqsOf tn) (w : Worker)
    (hfw : st.findWorker r.worker = some w) :
    ∃ ev' ∈ st.reqLog, ∃ r' ∈ ev'.reqs, r'.worker = w.name ∧ ev'.task = tn ∧ r'.maybe = st.busyFlag w.name tn r.maybe := by
  have hwn : w.name = r.worker := by
    have := List.find?_some hfw
    exact eq_of_beq this
  unfold State.reqsOf at hr
  obtain ⟨ev, hev, hrev⟩ := List.mem_flatMap.1 hr
  have hevl : ev ∈ st.reqLog := (List.mem_filter.1 hev).1
  have hevt : ev.task = tn := by
    have := (List.mem_filter.1 hev).2
    exact eq_of_beq this
  unfold State.busyFlag
  cases hfind : (st.busyOf w.name).find? (fun x => x.1 == tn) with
  | none => exact ⟨ev, hevl, r, hrev, hwn.symm, hevt, rfl⟩
  | some e =>
      have hm := List.mem_of_find?_eq_some hfind
      have hk : e.1 = tn := by
        have := List.find?_some hfind
        exact eq_of_beq this
      obtain ⟨ev', hev', r', hr', h1, h2, h3⟩ := busyOf_mem st w.name e hm
      exact ⟨ev', hev', r', hr', h1, h2.trans hk, h3⟩

theorem busyFlag_dropTask (st : State) (n w tn : String) (d : Bool) (h : tn ≠ n) :
    (st.dropTask n).busyFlag w tn d = st.busyFlag w tn d := by
  unfold State.busyFlag
  rw [busyOf_dropTask]
  rw [find?_filter_ne (fun x => x.1 == tn) (fun e => e.1 != n) (st.busyOf w)]
  intro x _ hx
  have : x.1 = tn := eq_of_beq hx
  simp [this, h]

theorem workTerms_dropTask (st : State) (n : String) (t : Task) (h : t.name ≠ n) :
    workTerms (st.dropTask n) t = workTerms st t := by
  unfold workTerms
  rw [reqsOf_dropTask st n t.name h]
  apply List.filterMap_congr
  intro r _
  have hw : (st.dropTask n).findWorker r.worker = st.findWorker r.worker := rfl
  rw [hw]
  cases st.findWorker r.worker with
  | none => rfl
  | some w => simp only [busyFlag_dropTask st n w.name t.name r.maybe h]

/-- the work sum of a task of the smaller problem has the same value under both witness interpretations -/
theorem workSum_dropTask (st : State) (n : String) (σ : Sched) (hc' : InCoreS (st.dropTask n)) (t : Task)
    (h : t.name ≠ n) :
    Term.evalSum (envOf (st.dropTask n) σ) (workTerms (st.dropTask n) t) = Term.evalSum (envOf st σ) (workTerms st t) := by
  have hag := envOf_dropTask_agree st n σ hc'
  rw [workTerms_dropTask st n t h]
  apply evalSum_congr_pointwise
  intro x hx
  rw [← workTerms_dropTask st n t h] at hx
  unfold workTerms at hx
  obtain ⟨r, hr, hx⟩ := List.mem_filterMap.1 hx
  cases hfw : (st.dropTask n).findWorker r.worker with
  | none => simp [hfw] at hx
  | some w =>
      simp only [hfw, Option.some.injEq] at hx
      subst hx
      obtain ⟨ev', hev', r', hr', h1, h2, h3⟩ := workFlag_owned (st.dropTask n) t.name r hr w hfw
      have own : ∀ (mk : String → String → Bool → IVar), (mk = IVar.busyS ∨ mk = IVar.busyE) →
          (st.dropTask n).ownI2 (mk w.name t.name ((st.dropTask n).busyFlag w.name t.name r.maybe)) = true := by
        intro mk hmk
        have hany : (st.dropTask n).reqLog.any (fun ev => ev.task == t.name && ev.reqs.any (fun r'' => r''.worker == w.name &&
            r''.maybe == (st.dropTask n).busyFlag w.name t.name r.maybe)) = true := by
          refine List.any_eq_true.2 ⟨ev', hev', ?_⟩
          simp only [Bool.and_eq_true]
          exact ⟨by simp [h2], List.any_eq_true.2 ⟨r', hr', by simp [h1, h3]⟩⟩
        rcases hmk with rfl | rfl <;> simp only [State.ownI2, State.ownI, hany, Bool.true_or]
      have e1 := hag.i _ (own IVar.busyS (Or.inl rfl))
      have e2 := hag.i _ (own IVar.busyE (Or.inr rfl))
      simp only [Term.eval, numT, bE, bS, e1, e2]


/-! ### C06: the problem with the task and the problem without it -/

theorem mem_dropTask_tasks {st : State} {n : String} {t : Task} (h : t ∈ (st.dropTask n).tasks) :
    t ∈ st.tasks ∧ t.name ≠ n := by
  have := List.mem_filter.1 h
  exact ⟨this.1, by simpa [bne] using this.2⟩

/-- a busy-dictionary entry of the smaller problem is an own busy interval of it -/
theorem busyOf_owned (st : State) (w : String) (e : String × Bool) (he : e ∈ st.busyOf w) :
    st.ownI2 (.busyS w e.1 e.2) = true ∧ st.ownI2 (.busyE w e.1 e.2) = true := by
  obtain ⟨ev, hev, r, hr, h1, h2, h3⟩ := busyOf_mem st w e he
  have hany : st.reqLog.any (fun ev => ev.task == e.1 && ev.reqs.any (fun r'' => r''.worker == w && r''.maybe == e.2)) = true := by
    refine List.any_eq_true.2 ⟨ev, hev, ?_⟩
    simp only [Bool.and_eq_true]
    exact ⟨by simp [h2], List.any_eq_true.2 ⟨r, hr, by simp [h1, h3]⟩⟩
  constructor <;> simp only [State.ownI2, State.ownI, hany, Bool.true_or]

/-- **C06 (⇒).** A valid schedule of the problem is a valid schedule of the problem without task `n` — whether or
    not `n` is scheduled: removing a task, its requirements and the constraints naming it only removes demands. -/
theorem C06_absent_restrict (st : State) (n : String) (σ : Sched) (hc' : InCoreS (st.dropTask n))
    (hv : Valid st σ) : Valid (st.dropTask n) σ where
  horizon_nonneg := hv.horizon_nonneg
  horizon_le := hv.horizon_le
  tasks := fun t ht hs => hv.tasks t (mem_dropTask_tasks ht).1 hs
  dyn := by
    intro t ht r hr
    obtain ⟨htm, hne⟩ := mem_dropTask_tasks ht
    rw [reqsOf_dropTask st n t.name hne] at hr
    exact hv.dyn t htm r hr
  counts := by
    intro t ht s rs hmem
    obtain ⟨htm, hne⟩ := mem_dropTask_tasks ht
    rw [eventsOf_dropTask st n t.name hne] at hmem
    exact hv.counts t htm s rs hmem
  no_overlap := by
    intro w hw
    have hag := envOf_dropTask_agree st n σ hc'
    have hp := (hv.no_overlap w hw).filter (fun e => e.1 != n)
    rw [← busyOf_dropTask st n w.name] at hp
    refine Disjoint2_congr (envOf st σ) _ w.name _ ?_ hp
    intro e he
    obtain ⟨o1, o2⟩ := busyOf_owned (st.dropTask n) w.name e he
    exact ⟨(hag.i _ o1).symm, (hag.i _ o2).symm⟩
  work := by
    intro t ht hw hne hs
    obtain ⟨htm, hnn⟩ := mem_dropTask_tasks ht
    rw [workSum_dropTask st n σ hc' t hnn]
    rw [workTerms_dropTask st n t hnn] at hne
    exact hv.work t htm hw hne hs
  constrs := by
    intro c hc hop happ
    have hcm : c ∈ st.constrs := (List.mem_filter.1 hc).1
    obtain ⟨hin, _, _⟩ := hc'.constrs c hc hop
    exact (CoreMeaning_dropTask st n σ hc' c.id c.body hin).1 (hv.constrs c hcm hop happ)


/-! ### (⇐): putting the unscheduled task back -/

theorem pairwise_of_filter {α} (R : α → α → Prop) (p : α → Bool) (l : List α) (hnd : l.Nodup)
    (hone : ∀ a ∈ l, ∀ b ∈ l, p a = false → p b = false → a = b)
    (hx : ∀ a ∈ l, ∀ b ∈ l, p a = false → p b = true → R a b ∧ R b a)
    (hf : (l.filter p).Pairwise R) : l.Pairwise R := by
  induction l with
  | nil => exact List.Pairwise.nil
  | cons x xs ih =>
      rw [List.nodup_cons] at hnd
      have ih' := ih hnd.2 (fun a ha b hb => hone a (List.mem_cons_of_mem _ ha) b (List.mem_cons_of_mem _ hb))
        (fun a ha b hb => hx a (List.mem_cons_of_mem _ ha) b (List.mem_cons_of_mem _ hb))
      rw [List.pairwise_cons]
      by_cases hpx : p x = true
      · simp only [List.filter_cons, hpx, if_true, List.pairwise_cons] at hf
        refine ⟨?_, ih' hf.2⟩
        intro y hy
        by_cases hpy : p y = true
        · exact hf.1 y (List.mem_filter.2 ⟨hy, hpy⟩)
        · have hpy' : p y = false := by cases h : p y <;> simp_all
          exact (hx y (List.mem_cons_of_mem _ hy) x (List.mem_cons_self ..) hpy' hpx).2
      · have hpx' : p x = false := by cases h : p x <;> simp_all
        simp only [List.filter_cons, hpx, Bool.false_eq_true, if_false] at hf
        refine ⟨?_, ih' hf⟩
        intro y hy
        by_cases hpy : p y = true
        · exact (hx x (List.mem_cons_self ..) y (List.mem_cons_of_mem _ hy) hpx' hpy).1
        · have hpy' : p y = false := by cases h : p y <;> simp_all
          have := hone x (List.mem_cons_self ..) y (List.mem_cons_of_mem _ hy) hpx' hpy'
          exact absurd (this ▸ hy) hnd.1

/-- the busy interval the witness interpretation gives a requirement of an **unscheduled** task lies before time 0
    and is empty or inverted (delay-in below the task number: finding F19 otherwise) -/
theorem busyOfReq_unscheduled (σ : Sched) (t : Task) (r : Req) (hs : σ.isSched t = false) (hdel : r.delayIn ≤ t.num0) :
    (busyOfReq σ t r).2 ≤ (busyOfReq σ t r).1 ∧ (busyOfReq σ t r).2 < 0 ∧ (busyOfReq σ t r).1 < 0 := by
  unfold busyOfReq tStartOf tEndOf
  simp only [hs, Bool.false_eq_true, if_false, Task.pastPoint, Req.past]
  cases r.sel with
  | some s =>
      simp only
      by_cases hsel : σ.sel s r.worker = true
      · simp only [hsel, if_true]; omega
      · simp only [hsel, Bool.false_eq_true, if_false]; omega
  | none =>
      simp only
      by_cases hd : r.dynamic = true
      · simp only [hd, if_true]; omega
      · simp only [hd, Bool.false_eq_true, if_false]; omega

/-- the busy interval of a requirement of any task, under a schedule that is valid for that task: it starts at a
    non-negative instant, or it is empty / inverted -/
theorem busyOfReq_shape (σ : Sched) (t : Task) (r : Req)
    (hstart : σ.isSched t = true → 0 ≤ σ.start t.name)
    (hdyn : r.sel = none → r.dynamic = true → σ.isSched t = true → DynValid σ t r) :
    0 ≤ (busyOfReq σ t r).1 ∨ (busyOfReq σ t r).2 ≤ (busyOfReq σ t r).1 := by
  unfold busyOfReq tStartOf tEndOf
  by_cases hs : σ.isSched t = true
  · have h0 := hstart hs
    simp only [hs, if_true]
    cases hsel : r.sel with
    | some s =>
        simp only
        by_cases hb : σ.sel s r.worker = true
        · simp only [hb, if_true]; exact Or.inl h0
        · simp only [hb, Bool.false_eq_true, if_false]; exact Or.inr (Int.le_refl _)
    | none =>
        simp only
        by_cases hd : r.dynamic = true
        · have := hdyn hsel hd hs
          unfold DynValid at this
          simp only [hd, if_true]; left; omega
        · simp only [hd, Bool.false_eq_true, if_false]; left; omega
  · have hs' : σ.isSched t = false := by cases h : σ.isSched t <;> simp_all
    simp only [hs', Bool.false_eq_true, if_false]
    cases r.sel with
    | some s =>
        simp only
        by_cases hb : σ.sel s r.worker = true
        · simp only [hb, if_true]; exact Or.inr (Int.le_refl _)
        · simp only [hb, Bool.false_eq_true, if_false]; exact Or.inr (Int.le_refl _)
    | none =>
        simp only
        by_cases hd : r.dynamic = true
        · simp only [hd, if_true]; exact Or.inr (Int.le_refl _)
        · simp only [hd, Bool.false_eq_true, if_false]; right; omega


theorem mem_dropTask_of_ne {st : State} {n : String} {t : Task} (h : t ∈ st.tasks) (hne : t.name ≠ n) :
    t ∈ (st.dropTask n).tasks :=
  List.mem_filter.2 ⟨h, by simpa [bne] using hne⟩

/-- the value the witness interpretation gives an own busy interval, with the task and requirement that own it -/
theorem envOf_busy_entry (st : State) (σ : Sched) (hc : InCoreS st) (w : String) (e : String × Bool)
    (he : e ∈ st.busyOf w) :
    ∃ t ∈ st.tasks, ∃ r ∈ st.reqsOf t.name, t.name = e.1 ∧
      (envOf st σ).i (.busyS w e.1 e.2) = (busyOfReq σ t r).1 ∧ (envOf st σ).i (.busyE w e.1 e.2) = (busyOfReq σ t r).2 := by
  obtain ⟨ev, hev, r, hr, h1, h2, h3⟩ := busyOf_mem st w e he
  obtain ⟨t, ht, hn⟩ := hc.req_tasks ev hev
  have hev' : ev ∈ st.eventsOf t.name := List.mem_filter.2 ⟨hev, by simp [hn]⟩
  have hrr : r ∈ st.reqsOf t.name := List.mem_flatMap.2 ⟨ev, hev', hr⟩
  obtain ⟨e1, e2⟩ := envOf_busy st σ t r r.maybe (hc.names t ht) (hc.reqs t ht r hrr)
  refine ⟨t, ht, r, hrr, hn.trans h2, ?_, ?_⟩
  · rw [← h1, ← h2, ← h3, ← hn]; exact e1
  · rw [← h1, ← h2, ← h3, ← hn]; exact e2

/-- **C06 (⇐).** A valid schedule of the problem without the optional task `n`, which leaves `n` unscheduled, is a
    valid schedule of the whole problem — the task occupies nobody and constrains nobody — provided the selections
    `n` required keep their counts and the constraints naming `n` hold with `n` unscheduled (`C06_inert_*`). -/
theorem C06_absent_extend (st : State) (n : String) (σ : Sched) (hc : InCoreS st) (hc' : InCoreS (st.dropTask n))
    (t : Task) (ht : t ∈ st.tasks) (hn : t.name = n) (hopt : t.optional = true) (hu : σ.sched n = false)
    (hdel : ∀ r ∈ st.reqsOf n, r.delayIn ≤ t.num0)
    (hsel : ∀ s rs, ReqEvent.viaSelect n s rs true ∈ st.eventsOf n → CountOK s.kind (σ.nSelected s) s.n)
    (hinert : ∀ c ∈ st.constrs, c.operand = false → c.body.coreTasks.any (fun t' => t'.name == n) = true →
      (c.optional = true → σ.applied c.id = true) → CoreMeaning st σ c.body)
    (hv' : Valid (st.dropTask n) σ) : Valid st σ := by
  -- every task named `n` is `t`, and it is unscheduled
  have same : ∀ t0 ∈ st.tasks, t0.name = n → t0 = t := by
    intro t0 h0 hn0
    have a := hc.names t0 h0
    have b := hc.names t ht
    rw [hn0] at a; rw [hn] at b
    exact Option.some.inj (a.symm.trans b)
  have unsched : σ.isSched t = false := by
    unfold Sched.isSched; rw [hn, hu, hopt]; rfl
  have hag := envOf_dropTask_agree st n σ hc'
  refine ⟨hv'.horizon_nonneg, hv'.horizon_le, ?_, ?_, ?_, ?_, ?_, ?_⟩
  · intro t0 h0 hs
    by_cases hn0 : t0.name = n
    · rw [same t0 h0 hn0, unsched] at hs; exact absurd hs (by simp)
    · exact hv'.tasks t0 (mem_dropTask_of_ne h0 hn0) hs
  · intro t0 h0 r hr hsel' hdyn hs
    by_cases hn0 : t0.name = n
    · rw [same t0 h0 hn0, unsched] at hs; exact absurd hs (by simp)
    · rw [← reqsOf_dropTask st n t0.name hn0] at hr
      exact hv'.dyn t0 (mem_dropTask_of_ne h0 hn0) r hr hsel' hdyn hs
  · intro t0 h0 s rs hmem
    by_cases hn0 : t0.name = n
    · rw [hn0] at hmem; exact hsel s rs hmem
    · rw [← eventsOf_dropTask st n t0.name hn0] at hmem
      exact hv'.counts t0 (mem_dropTask_of_ne h0 hn0) s rs hmem
  · intro w hw
    -- the entries of the other tasks: from the smaller problem
    have hp' := hv'.no_overlap w hw
    rw [busyOf_dropTask st n w.name] at hp'
    have hp : ((st.busyOf w.name).filter (fun e => e.1 != n)).Pairwise (Disjoint2 (envOf st σ) w.name) := by
      refine Disjoint2_congr (envOf (st.dropTask n) σ) _ w.name _ ?_ hp'
      intro e he
      rw [← busyOf_dropTask st n w.name] at he
      obtain ⟨o1, o2⟩ := busyOf_owned (st.dropTask n) w.name e he
      exact ⟨hag.i _ o1, hag.i _ o2⟩
    have hkeys := busyOf_keys_nodup st w.name
    refine pairwise_of_filter _ (fun e => e.1 != n) _ (List.Nodup.of_map _ hkeys) ?_ ?_ hp
    · intro a ha b hb pa pb
      have ka : a.1 = n := by simpa [bne] using pa
      have kb : b.1 = n := by simpa [bne] using pb
      exact eq_of_key_nodup _ hkeys a b ha hb (ka.trans kb.symm)
    · intro a ha b hb pa pb
      have ka : a.1 = n := by simpa [bne] using pa
      have kb : b.1 ≠ n := by simpa [bne] using pb
      -- the entry of `n`: before time 0, empty or inverted
      obtain ⟨ta, hta, ra, hra, hna, sa, ea⟩ := envOf_busy_entry st σ hc w.name a ha
      have hta' : ta = t := same ta hta (hna.trans ka)
      subst hta'
      have hra' : ra ∈ st.reqsOf n := hn ▸ hra
      obtain ⟨a1, a2, a3⟩ := busyOfReq_unscheduled σ ta ra unsched (hdel ra hra')
      -- the other entry: starts at a non-negative instant, or empty / inverted
      obtain ⟨tb, htb, rb, hrb, hnb, sb, eb⟩ := envOf_busy_entry st σ hc w.name b hb
      have hnb' : tb.name ≠ n := hnb ▸ kb
      have htb' := mem_dropTask_of_ne htb hnb'
      have hrb' : rb ∈ (st.dropTask n).reqsOf tb.name := by rw [reqsOf_dropTask st n tb.name hnb']; exact hrb
      have shape := busyOfReq_shape σ tb rb (fun hs => (hv'.tasks tb htb' hs).start_nonneg)
        (fun h1 h2 h3 => hv'.dyn tb htb' rb hrb' h1 h2 h3)
      unfold Disjoint2
      rw [sa, ea, sb, eb]
      constructor <;> omega
  · intro t0 h0 hw hne hs
    by_cases hn0 : t0.name = n
    · rw [same t0 h0 hn0, unsched] at hs; exact absurd hs (by simp)
    · rw [← workSum_dropTask st n σ hc' t0 hn0]
      rw [← workTerms_dropTask st n t0 hn0] at hne
      exact hv'.work t0 (mem_dropTask_of_ne h0 hn0) hw hne hs
  · intro c hcm hop happ
    by_cases hnam : c.body.coreTasks.any (fun t' => t'.name == n) = true
    · exact hinert c hcm hop hnam happ
    · have hcm' : c ∈ (st.dropTask n).constrs := List.mem_filter.2 ⟨hcm, by simp [hnam]⟩
      obtain ⟨hin, _, _⟩ := hc'.constrs c hcm' hop
      exact (CoreMeaning_dropTask st n σ hc' c.id c.body hin).2 (hv'.constrs c hcm' hop happ)


/-! ### constraints that let the task be unscheduled -/

/-- classes whose assertion is guarded by the scheduled flags of the tasks they name -/
def CBody.isGuarded : CBody → Bool
  | .startAt .. | .startAfter .. | .endAt .. | .endBefore .. | .precedence .. | .startSynced .. | .endSynced ..
  | .dontOverlap .. => true
  | _ => false

/-- **C06 (inert constraints).** A guarded constraint that names an unscheduled task holds whatever the others do. -/
theorem C06_inert_guarded (st : State) (σ : Sched) (b : CBody) (hb : b.isGuarded = true) (t : Task)
    (ht : t ∈ b.coreTasks) (hs : σ.isSched t = false) : CoreMeaning st σ b := by
  cases b <;> simp only [CBody.isGuarded, Bool.false_eq_true] at hb <;>
    simp only [CBody.coreTasks, List.mem_cons, List.mem_singleton, List.not_mem_nil, or_false] at ht <;>
    simp only [CoreMeaning]
  case startAt t' v => subst ht; intro h; rw [hs] at h; exact absurd h (by simp)
  case startAfter t' v strict => subst ht; intro h; rw [hs] at h; exact absurd h (by simp)
  case endAt t' v => subst ht; intro h; rw [hs] at h; exact absurd h (by simp)
  case endBefore t' v strict => subst ht; intro h; rw [hs] at h; exact absurd h (by simp)
  case precedence a b' off kind =>
    intro h1 h2
    rcases ht with rfl | rfl
    · rw [hs] at h1; exact absurd h1 (by simp)
    · rw [hs] at h2; exact absurd h2 (by simp)
  case startSynced a b' =>
    intro h1 h2
    rcases ht with rfl | rfl
    · rw [hs] at h1; exact absurd h1 (by simp)
    · rw [hs] at h2; exact absurd h2 (by simp)
  case endSynced a b' =>
    intro h1 h2
    rcases ht with rfl | rfl
    · rw [hs] at h1; exact absurd h1 (by simp)
    · rw [hs] at h2; exact absurd h2 (by simp)
  case dontOverlap a b' =>
    intro h1 h2
    rcases ht with rfl | rfl
    · rw [hs] at h1; exact absurd h1 (by simp)
    · rw [hs] at h2; exact absurd h2 (by simp)

/-! ### the same statements about what the encoder admits (through the exactness theorems) -/

/-- **C06, encoder level (⇒).** The schedule denoted by an interpretation the constraint system of the problem
    admits is admitted by the constraint system of the problem without task `n`. -/
theorem C06_absent_models_restrict (cfg cfg' : Config) (st : State) (n : String) (hc : InCoreS st)
    (hc' : InCoreS (st.dropTask n)) (ρ : Env) (hρ : Sat ρ (initFmls cfg st)) (hH : 0 ≤ ρ.i .horizon) :
    Sat (envOf (st.dropTask n) (schedOf ρ)) (initFmls cfg' (st.dropTask n)) :=
  C05_complete_core cfg' _ _ hc'.inCore (C06_absent_restrict st n _ hc' (C05_sound_core cfg st ρ hc hρ hH))

/-- **C06, encoder level (⇐).** The schedule denoted by an interpretation admitted for the problem without the
    optional task `n` — `n` unscheduled — is admitted for the whole problem. -/
theorem C06_absent_models_extend (cfg cfg' : Config) (st : State) (n : String) (hc : InCoreS st)
    (hc' : InCoreS (st.dropTask n)) (t : Task) (ht : t ∈ st.tasks) (hn : t.name = n) (hopt : t.optional = true)
    (ρ' : Env) (hρ' : Sat ρ' (initFmls cfg' (st.dropTask n))) (hH : 0 ≤ ρ'.i .horizon)
    (hu : ρ'.b (.sched n) = false)
    (hdel : ∀ r ∈ st.reqsOf n, r.delayIn ≤ t.num0)
    (hsel : ∀ s rs, ReqEvent.viaSelect n s rs true ∈ st.eventsOf n → CountOK s.kind ((schedOf ρ').nSelected s) s.n)
    (hinert : ∀ c ∈ st.constrs, c.operand = false → c.body.coreTasks.any (fun t' => t'.name == n) = true →
      (c.optional = true → ρ'.b (.applied c.id) = true) → CoreMeaning st (schedOf ρ') c.body) :
    Sat (envOf st (schedOf ρ')) (initFmls cfg st) :=
  C05_complete_core cfg st _ hc.inCore
    (C06_absent_extend st n _ hc hc' t ht hn hopt hu hdel hsel hinert (C05_sound_core cfg' _ ρ' hc' hρ' hH))

/-! ### non-vacuity: the example problem of `Exact.lean` (without its flow-time objective, whose indicator sums over
    every task — what an unscheduled task contributes to such a sum is `C06_no_indicator_contribution`), and the
    same problem without its optional task "C" -/

def Absent_exState : State :=
  run [.problem "p" (some 12),
       .task "A" (.fixed 3) false 2 (some 1) (some 9) true 1,
       .task "B" (.var 1 (some 4) (some [2, 3])) true 0 none none true 1,
       .task "C" (.zero) true 0 none none true 1,
       .worker "W" 1 (.const 0), .worker "V" 2 (.const 0),
       .select none ["W", "V"] 1 .exact,
       .require "A" (.select 0) false 0 0,
       .require "B" (.worker "W") true 0 0,
       .require "C" (.worker "V") false 0 0,
       .constr none false (.precedence "A" "B" 1 .lax),
       .constr none true (.startAt "A" 2),
       .constr none false (.precedence "B" "C" 0 .lax),
       .constr none false (.dontOverlap "A" "B"),
       .constr none false (.fromExpr (.le (.add (.var (.tEnd "A")) (numT 1)) (.var (.tStart "B")))),
       .constr none false (.not_ (.ref 1)),
       .constr none false (.unavailable "W" [(0, 1)]),
       .indicator (.tardiness (some ["A"])),
       .constr none false (.indicatorBounds 0 none (some 6))]

theorem Absent_ex_full : InCoreS Absent_exState := fragmentB_sound ⟨_, rfl⟩ (by decide +kernel)

theorem Absent_ex_inCoreS : InCoreS (Absent_exState.dropTask "C") where
  names := by unfold NamesOK; decide +kernel
  reqs := by unfold ReqsOK; decide +kernel
  events := by decide +kernel
  req_tasks := by decide +kernel
  constrs := by decide +kernel
  indicators := ⟨by decide +kernel, by decide +kernel, by decide +kernel⟩
  ind_plain := by decide +kernel
  no_buffers := by decide +kernel
  single_objective := by decide +kernel

-- the task "C", its requirement and the precedence naming it are gone
example : (Absent_exState.dropTask "C").tasks.length = 2 ∧ (Absent_exState.dropTask "C").constrs.length = 7 ∧
    Absent_exState.constrs.length = 8 ∧ (Absent_exState.dropTask "C").reqLog.length = 2 ∧
    Absent_exState.reqLog.length = 3 := by decide +kernel

theorem Absent_ex_model : Sat (envOf Absent_exState Exact_exSched) (initFmls {} Absent_exState) :=
  satB_sound _ _ (by decide +kernel) (by decide +kernel)

/-- (⇒) the model of the full problem, restricted: admitted by the constraint system of the problem without "C" -/
example : Sat (envOf (Absent_exState.dropTask "C") (schedOf (envOf Absent_exState Exact_exSched)))
    (initFmls {} (Absent_exState.dropTask "C")) :=
  C06_absent_models_restrict {} {} Absent_exState "C" Absent_ex_full Absent_ex_inCoreS _ Absent_ex_model (by decide +kernel)

/-- (⇐) a valid schedule of the problem without "C" is valid for the whole problem: "C" requires worker "V" and is
    named by a precedence, both inert while it is unscheduled -/
example (σ : Sched) (hu : σ.sched "C" = false) (hv' : Valid (Absent_exState.dropTask "C") σ) : Valid Absent_exState σ := by
  have hfind : Absent_exState.findTask "C" = some ⟨"C", 2, .zero, true, 0, none, none, true, 1⟩ := by decide +kernel
  obtain ⟨htm, _⟩ := findTask_mem hfind
  refine C06_absent_extend Absent_exState "C" σ Absent_ex_full Absent_ex_inCoreS _ htm rfl rfl hu ?_ ?_ ?_ hv'
  · decide +kernel
  · intro s rs hmem
    have hall : ∀ ev ∈ Absent_exState.eventsOf "C",
        (match ev with | .direct _ _ => true | .viaSelect _ _ _ _ => false) = true := by decide +kernel
    exact absurd (hall _ hmem) (by simp)
  · intro c hc hop hnam _
    -- the only constraint naming "C" is the precedence B → C
    have hcs : ∀ c ∈ Absent_exState.constrs, c.body.coreTasks.any (fun t' => t'.name == "C") = true →
        c.body.isGuarded = true := by decide +kernel
    have hg := hcs c hc hnam
    obtain ⟨t', ht', hn'⟩ := List.any_eq_true.1 hnam
    have hall : ∀ c ∈ Absent_exState.constrs, ∀ t' ∈ c.body.coreTasks, t'.name = "C" → t'.optional = true := by decide +kernel
    have hopt' := hall c hc t' ht' (eq_of_beq hn')
    apply C06_inert_guarded _ σ c.body hg t' ht'
    unfold Sched.isSched
    rw [hopt', eq_of_beq hn', hu]; rfl

end PS
