/-
  C04 — Every declared resource constraint holds in every returned schedule.

  `ResMeaning ρ b` is the documented meaning of a resource-constraint body over the busy
  intervals the constraint was declared on.  `C04_raw_sound` proves it from the raw assertions
  for ResourceUnavailable, WorkLoad (exact / max / min, any number of intervals and busy
  intervals), ResourceNonDelay, ResourceTasksDistance (with and without time intervals),
  SameWorkers, DistinctWorkers; `C04_resource_constraints` lifts it to `initialize`.
  ResourceInterrupted and ResourcePeriodicallyUnavailable are in the model (ENC) and in the SEM twin but
  have no theorem yet; ResourcePeriodicallyInterrupted is not modelled (see DESIGN.md §6, §10).
-/
import PS.Theorems.C03
import PS.Proofs.Periodic
import PS.Proofs.Rank
namespace PS

/-- time a busy interval `[s, e]` spends inside `[lo, hi]` -/
def overlapLen (s e lo hi : Int) : Int := max 0 (min e hi - max s lo)

def BusyRef.sV (b : BusyRef) (ρ : Env) : Int := ρ.i (.busyS b.worker b.task b.maybe)
def BusyRef.eV (b : BusyRef) (ρ : Env) : Int := ρ.i (.busyE b.worker b.task b.maybe)

/-- total time the busy intervals spend inside `[lo, hi]` -/
def busyInside (ρ : Env) (busy : List BusyRef) (lo hi : Int) : Int :=
  (busy.map (fun b => overlapLen (b.sV ρ) (b.eV ρ) lo hi)).sum

def cmpHolds (k : CountKind) (a b : Int) : Prop :=
  match k with
  | .exact => a = b
  | .max => a ≤ b
  | .min => b ≤ a

theorem cmpRel_eval (k : CountKind) (a b : Term) (ρ : Env) : (cmpRel k a b).eval ρ ↔ cmpHolds k (a.eval ρ) (b.eval ρ) := by
  cases k <;> simp [cmpRel, cmpHolds, Fml.eval]

/-- gaps between consecutive busy intervals (sorted starts against sorted ends) -/
def GapsOK (ρ : Env) (busy : List BusyRef) (P : Int → Int → Prop) : Prop :=
  (busy.map (fun b => b.sV ρ)).Nodup ∧ (busy.map (fun b => b.eV ρ)).Nodup ∧
  ∀ i, i + 1 < busy.length →
    P ((sortInts (busy.map (fun b => b.eV ρ))).getD i 0) ((sortInts (busy.map (fun b => b.sV ρ))).getD (i + 1) 0)

/-- when ResourceTasksDistance constrains a gap: both instants inside one of the listed intervals,
    or (no interval given) both instants non-negative -/
def DistCond (ivs : Option (List (Int × Int))) (e s : Int) : Prop :=
  match ivs with
  | some l => ∃ iv ∈ l, iv.1 ≤ s ∧ iv.1 ≤ e ∧ s ≤ iv.2 ∧ e ≤ iv.2
  | none => 0 ≤ e ∧ 0 ≤ s

theorem distConds_eval (ivs : Option (List (Int × Int))) (e s : Term) (ρ : Env)
    (h : DistCond ivs (e.eval ρ) (s.eval ρ)) : Fml.evalAny ρ (distConds ivs e s) := by
  rw [evalAny_iff]
  unfold DistCond at h
  unfold distConds
  cases ivs with
  | none =>
      simp only at h ⊢
      exact ⟨_, List.mem_cons_self .., by simp [Fml.eval, Fml.evalAll, Term.eval, numT, h.1, h.2]⟩
  | some l =>
      simp only at h ⊢
      obtain ⟨iv, hiv, h1, h2, h3, h4⟩ := h
      refine ⟨_, List.mem_map.2 ⟨iv, hiv, rfl⟩, ?_⟩
      simp [Fml.eval, Fml.evalAll, Term.eval, numT, h1, h2, h3, h4]

/-- total time `[s, e]` spends inside the listed windows -/
def overlapSum (s e : Int) (ivs : List (Int × Int)) : Int := (ivs.map (fun iv => overlapLen s e iv.1 iv.2)).sum

/-- ResourceInterrupted, for one busy interval `[s, e]` of task `t`: a fixed-duration (or zero-duration) task
    overlaps no window; a variable-duration task neither starts nor ends strictly inside a window and its
    duration is at least its minimum plus the time spent inside the windows (and, the busy interval being
    a real interval, at most its maximum plus that time) -/
def InterruptedOK (ρ : Env) (s e : Int) (t : Task) (ivs : List (Int × Int)) : Prop :=
  match t.kind with
  | .var minD maxD _ =>
      (∀ iv ∈ ivs, (s ≤ iv.1 ∨ iv.2 ≤ s) ∧ (e ≤ iv.1 ∨ iv.2 ≤ e)) ∧
      minD + overlapSum s e ivs ≤ ρ.i (.tDur t.name) ∧
      (s ≤ e → ∀ m, maxD = some m → ρ.i (.tDur t.name) ≤ m + overlapSum s e ivs)
  | _ => ∀ iv ∈ ivs, iv.2 ≤ s ∨ e ≤ iv.1

/-- the busy interval is exempt: the repetition is not active where it lies -/
def PeriodicMasked (ρ : Env) (b : BusyRef) (start : Int) (end_ : Option Int) : Prop :=
  (0 ≤ start ∧ b.eV ρ ≤ start) ∨ (∃ en, end_ = some en ∧ en ≤ b.sV ρ)

/-- time added by the repetitions of the listed windows that lie inside `[s, e]` -/
def periodicOverlapSum (s e : Int) (ivs : List (Int × Int)) (off p : Int) : Int :=
  (ivs.map (fun iv => (iv.2 - iv.1) * repsInside s e iv.1 iv.2 off p)).sum

/-- ResourcePeriodicallyInterrupted, for one busy interval `[s, e]` of task `t` inside the activity window:
    a fixed-duration task does not overlap the repetition of a window in the period it starts in (that it may
    run into the next one is finding F39); a variable-duration task neither starts nor ends strictly inside
    any repetition of any window — so every repetition is disjoint from, or wholly inside, `[s, e]` — and its
    duration is at least its minimum (at most its maximum) plus the total length of the repetitions inside -/
def PeriodicInterruptedOK (ρ : Env) (s e : Int) (t : Task) (ivs : List (Int × Int)) (p off : Int) : Prop :=
  match t.kind with
  | .var minD maxD _ =>
      (∀ iv ∈ ivs, ∀ k : Int, (s ≤ iv.1 + off + p * k ∨ iv.2 + off + p * k ≤ s) ∧
                              (e ≤ iv.1 + off + p * k ∨ iv.2 + off + p * k ≤ e)) ∧
      (s ≤ e → minD + periodicOverlapSum s e ivs off p ≤ ρ.i (.tDur t.name) ∧
               ∀ m, maxD = some m → ρ.i (.tDur t.name) ≤ m + periodicOverlapSum s e ivs off p)
  | _ => ∀ iv ∈ ivs, iv.2 + off + p * ((s - off) / p) ≤ s ∨ e ≤ iv.1 + off + p * ((s - off) / p)

/-- the documented meaning of each resource-constraint class -/
def ResMeaning (ρ : Env) : CBody → Prop
  | .unavailable busy ivs => ∀ b ∈ busy, ∀ iv ∈ ivs, iv.2 ≤ b.sV ρ ∨ b.eV ρ ≤ iv.1
  | .workload busy ivs kind => ∀ iv ∈ ivs, cmpHolds kind (busyInside ρ busy iv.1.1 iv.1.2) iv.2
  | .nonDelay busy => GapsOK ρ busy (fun e s => 0 ≤ e → 0 ≤ s → s = e)
  | .distance busy d ivs mode => GapsOK ρ busy (fun e s => DistCond ivs e s → cmpHolds mode (s - e) d)
  | .interrupted ws ivs => (∀ iv ∈ ivs, iv.1 < iv.2) →
      ∀ w ∈ ws, ∀ bt ∈ w, InterruptedOK ρ (bt.1.sV ρ) (bt.1.eV ρ) bt.2 ivs
  | .periodicallyInterrupted busy ivs period start offset end_ =>
      0 < period → (∀ iv ∈ ivs, 0 ≤ iv.1 ∧ iv.1 < iv.2 ∧ iv.2 ≤ period) →
      ∀ bt ∈ busy, ¬ PeriodicMasked ρ bt.1 start end_ →
        PeriodicInterruptedOK ρ (bt.1.sV ρ) (bt.1.eV ρ) bt.2 ivs period offset
  | .sameWorkers s1 s2 => ∀ w ∈ s1.workers, w ∈ s2.workers → (ρ.b (.sel s1.id w) = ρ.b (.sel s2.id w))
  | .distinctWorkers s1 s2 => ∀ w ∈ s1.workers, w ∈ s2.workers → ¬ (ρ.b (.sel s1.id w) = true ∧ ρ.b (.sel s2.id w) = true)
  | _ => True

/-- the six formulas of one (busy interval, time interval) pair force the Overlap variable to be
    the overlap length -/
theorem workloadOne_sound (d : Term) (b : BusyRef) (lo hi : Int) (ρ : Env) (h : Sat ρ (workloadOne d b lo hi)) :
    d.eval ρ = overlapLen (b.sV ρ) (b.eV ρ) lo hi := by
  unfold workloadOne at h
  have h0 := h _ (List.mem_cons_self ..)
  have h1 := h _ (List.mem_cons_of_mem _ (List.mem_cons_self ..))
  have h2 := h _ (List.mem_cons_of_mem _ (List.mem_cons_of_mem _ (List.mem_cons_self ..)))
  have h3 := h _ (List.mem_cons_of_mem _ (List.mem_cons_of_mem _ (List.mem_cons_of_mem _ (List.mem_cons_self ..))))
  have h4 := h _ (List.mem_cons_of_mem _ (List.mem_cons_of_mem _ (List.mem_cons_of_mem _ (List.mem_cons_of_mem _ (List.mem_cons_self ..)))))
  have h5 := h _ (List.mem_cons_of_mem _ (List.mem_cons_of_mem _ (List.mem_cons_of_mem _ (List.mem_cons_of_mem _ (List.mem_cons_of_mem _ (List.mem_cons_self ..))))))
  simp only [Fml.eval, Fml.evalAll, Fml.evalAny, Term.eval, numT, BusyRef.s, BusyRef.e, bS, bE, and_true, or_false] at h0 h1 h2 h3 h4 h5
  unfold overlapLen BusyRef.sV BusyRef.eV
  generalize ρ.i (.busyS b.worker b.task b.maybe) = s at *
  generalize ρ.i (.busyE b.worker b.task b.maybe) = e at *
  generalize d.eval ρ = dv at *
  omega

theorem workloadBusy_sound (c : Nat) (lo hi : Int) (ρ : Env) :
    ∀ (busy : List BusyRef) (k : Nat), Sat ρ (workloadBusy c lo hi k busy).1 →
      Term.evalSum ρ (workloadBusy c lo hi k busy).2 = busyInside ρ busy lo hi := by
  intro busy
  induction busy with
  | nil => intro k _; simp [workloadBusy, Term.evalSum, busyInside]
  | cons b bs ih =>
      intro k h
      simp only [workloadBusy] at h ⊢
      rw [Sat.append] at h
      simp only [Term.evalSum, busyInside, List.map_cons, List.sum_cons]
      rw [workloadOne_sound _ b lo hi ρ h.1, ih (k + 1) h.2]
      rfl

theorem workloadAll_sound (c : Nat) (busy : List BusyRef) (kind : CountKind) (ρ : Env) :
    ∀ (ivs : List ((Int × Int) × Int)) (k0 : Nat), Sat ρ (workloadAll c busy kind k0 ivs) →
      ∀ iv ∈ ivs, cmpHolds kind (busyInside ρ busy iv.1.1 iv.1.2) iv.2 := by
  intro ivs
  induction ivs with
  | nil => intro _ _ iv hiv; simp at hiv
  | cons iv0 rest ih =>
      intro k0 h iv hiv
      simp only [workloadAll] at h
      rw [Sat.append] at h
      rcases List.mem_cons.1 hiv with rfl | hr
      · unfold workloadInterval at h
        have h1 := h.1
        simp only at h1
        rw [Sat.append] at h1
        have hs := workloadBusy_sound c iv.1.1 iv.1.2 ρ busy k0 h1.1
        have hc := h1.2 _ (List.mem_cons_self ..)
        rw [cmpRel_eval] at hc
        simpa [Term.eval, hs, numT] using hc
      · exact ih _ h.2 iv hr

theorem busy_map_s (busy : List BusyRef) (ρ : Env) :
    (busy.map (·.s)).map (fun t => t.eval ρ) = busy.map (fun b => b.sV ρ) := by
  simp [List.map_map, Function.comp_def, BusyRef.s, bS, Term.eval, BusyRef.sV]

theorem busy_map_e (busy : List BusyRef) (ρ : Env) :
    (busy.map (·.e)).map (fun t => t.eval ρ) = busy.map (fun b => b.eV ρ) := by
  simp [List.map_map, Function.comp_def, BusyRef.e, bE, Term.eval, BusyRef.eV]

/-- the overlap term of `ResourceInterrupted` for one window is the time spent inside it -/
theorem interrupted_term (s e lo hi : Int) (hlt : lo < hi) (hs : s ≤ lo ∨ hi ≤ s) (he : e ≤ lo ∨ hi ≤ e) :
    overlapLen s e lo hi ≤ (if ¬ ¬ (hi ≤ s ↔ e ≤ lo) then hi - lo else 0) ∧
    (s ≤ e → (if ¬ ¬ (hi ≤ s ↔ e ≤ lo) then hi - lo else 0) = overlapLen s e lo hi) := by
  unfold overlapLen
  by_cases h1 : hi ≤ s <;> by_cases h2 : e ≤ lo <;> simp only [h1, h2, not_true, not_false_iff, if_true, if_false,
    iff_true, iff_false] <;> omega

theorem interrupted_sum (ρ : Env) (b : BusyRef) :
    ∀ (ivs : List (Int × Int)), (∀ iv ∈ ivs, iv.1 < iv.2) →
      (∀ iv ∈ ivs, (b.sV ρ ≤ iv.1 ∨ iv.2 ≤ b.sV ρ) ∧ (b.eV ρ ≤ iv.1 ∨ iv.2 ≤ b.eV ρ)) →
      overlapSum (b.sV ρ) (b.eV ρ) ivs ≤ Term.evalSum ρ (ivs.map (fun iv =>
        Term.ite (.not (.xor (.ge b.s (numT iv.2)) (.le b.e (numT iv.1)))) (numT (iv.2 - iv.1)) (numT 0))) ∧
      (b.sV ρ ≤ b.eV ρ → Term.evalSum ρ (ivs.map (fun iv =>
        Term.ite (.not (.xor (.ge b.s (numT iv.2)) (.le b.e (numT iv.1)))) (numT (iv.2 - iv.1)) (numT 0))) =
        overlapSum (b.sV ρ) (b.eV ρ) ivs) := by
  intro ivs
  induction ivs with
  | nil => intro _ _; simp [overlapSum, Term.evalSum]
  | cons iv rest ih =>
      intro hwf hend
      have hr := ih (fun x hx => hwf x (List.mem_cons_of_mem _ hx)) (fun x hx => hend x (List.mem_cons_of_mem _ hx))
      have ht := interrupted_term (b.sV ρ) (b.eV ρ) iv.1 iv.2 (hwf iv (List.mem_cons_self ..))
        (hend iv (List.mem_cons_self ..)).1 (hend iv (List.mem_cons_self ..)).2
      have hs : b.s.eval ρ = b.sV ρ := rfl
      have he : b.e.eval ρ = b.eV ρ := rfl
      simp only [List.map_cons, Term.evalSum, overlapSum, List.sum_cons, Term.eval, Fml.eval, numT, hs, he]
      simp only [overlapSum, numT] at hr
      constructor
      · have := ht.1; have := hr.1; omega
      · intro hle; rw [ht.2 hle, hr.2 hle]

/-- **C04 (ResourceInterrupted), one busy interval.** -/
theorem interruptedOne_sound (b : BusyRef) (t : Task) (ivs : List (Int × Int)) (ρ : Env)
    (hwf : ∀ iv ∈ ivs, iv.1 < iv.2) (h : Sat ρ (interruptedOne b t ivs)) :
    InterruptedOK ρ (b.sV ρ) (b.eV ρ) t ivs := by
  have hs : b.s.eval ρ = b.sV ρ := rfl
  have he : b.e.eval ρ = b.eV ρ := rfl
  unfold interruptedOne at h
  unfold InterruptedOK
  cases hk : t.kind with
  | var minD maxD al =>
      simp only [hk] at h ⊢
      rw [Sat.append, Sat.append] at h
      obtain ⟨⟨hend, hmin⟩, hmax⟩ := h
      have hends : ∀ iv ∈ ivs, (b.sV ρ ≤ iv.1 ∨ iv.2 ≤ b.sV ρ) ∧ (b.eV ρ ≤ iv.1 ∨ iv.2 ≤ b.eV ρ) := by
        intro iv hiv
        have h1 := hend (Fml.xor (.le b.s (numT iv.1)) (.ge b.s (numT iv.2))) (by
          simp only [List.mem_flatMap]; exact ⟨iv, hiv, List.mem_cons_self ..⟩)
        have h2 := hend (Fml.xor (.le b.e (numT iv.1)) (.ge b.e (numT iv.2))) (by
          simp only [List.mem_flatMap]; exact ⟨iv, hiv, List.mem_cons_of_mem _ (List.mem_cons_self ..)⟩)
        simp only [Fml.eval, Term.eval, numT, hs, he] at h1 h2
        constructor
        · by_contra hc; simp only [not_or, not_le] at hc; exact h1 ⟨fun a => absurd a (by omega), fun a => absurd a (by omega)⟩
        · by_contra hc; simp only [not_or, not_le] at hc; exact h2 ⟨fun a => absurd a (by omega), fun a => absurd a (by omega)⟩
      have hsum := interrupted_sum ρ b ivs hwf hends
      simp only [numT] at hsum
      have hmin' := hmin _ (List.mem_cons_self ..)
      simp only [Fml.eval, Term.eval, numT, Task.dVar] at hmin'
      refine ⟨hends, by have := hsum.1; omega, ?_⟩
      intro hle m hm
      subst hm
      have hmax' := hmax _ (List.mem_cons_self ..)
      simp only [Fml.eval, Term.eval, numT, Task.dVar] at hmax'
      rw [hsum.2 hle] at hmax'
      exact hmax'
  | fixed d =>
      simp only [hk] at h ⊢
      intro iv hiv
      have h1 := h _ (List.mem_map.2 ⟨iv, hiv, rfl⟩)
      simp only [Fml.eval, Term.eval, numT, hs, he] at h1
      by_contra hc; push_neg at hc
      exact h1 ⟨fun a => absurd a (by omega), fun a => absurd a (by omega)⟩
  | zero =>
      simp only [hk] at h ⊢
      intro iv hiv
      have h1 := h _ (List.mem_map.2 ⟨iv, hiv, rfl⟩)
      simp only [Fml.eval, Term.eval, numT, hs, he] at h1
      by_contra hc; push_neg at hc
      exact h1 ⟨fun a => absurd a (by omega), fun a => absurd a (by omega)⟩

/-- a disjunction with the `start` / `end` masks of a busy interval that is not masked reduces to its core -/
theorem unmasked_core (ρ : Env) (b : BusyRef) (start : Int) (end_ : Option Int) (core : Fml)
    (hmask : ¬ PeriodicMasked ρ b start end_)
    (h : (if (periodicMasks b start end_).length > 0 then Fml.or (core :: periodicMasks b start end_) else core).eval ρ) :
    core.eval ρ := by
  by_cases hlen : (periodicMasks b start end_).length > 0
  · rw [if_pos hlen] at h
    simp only [Fml.eval, Fml.evalAny] at h
    rcases h with h | h
    · exact h
    · exfalso
      rw [evalAny_iff] at h
      obtain ⟨a, ha, hae⟩ := h
      simp only [periodicMasks, List.mem_append] at ha
      rcases ha with ha | ha
      · by_cases hs : start ≥ 0
        · simp only [hs, if_true, List.mem_singleton] at ha
          subst ha
          apply hmask
          left
          simp only [Fml.eval, Term.eval, numT] at hae
          exact ⟨hs, hae⟩
        · simp [hs] at ha
      · cases hen : end_ with
        | none => simp [hen] at ha
        | some en =>
            simp only [hen, List.mem_singleton] at ha
            subst ha
            apply hmask
            right
            simp only [Fml.eval, Term.eval, numT] at hae
            exact ⟨en, hen, hae⟩
  · rw [if_neg hlen] at h
    exact h

/-- the `crossing` test of ResourcePeriodicallyInterrupted for one window -/
def pCrossing (b : BusyRef) (iv : Int × Int) (period offset : Int) : Fml :=
  let fs := Term.mod (.sub b.s (numT offset)) (numT period)
  let dur := Term.sub b.e b.s
  .not (.xor (.and [.le fs (numT iv.1), .le (.add fs (.mod dur (numT period))) (numT iv.1)])
             (.and [.ge fs (numT iv.2), .le (.add fs (.mod dur (numT period))) (numT (iv.1 + period))]))

/-- the overlap term of ResourcePeriodicallyInterrupted for one window -/
def pOverlapTerm (b : BusyRef) (iv : Int × Int) (period offset : Int) : Term :=
  let dur := Term.sub b.e b.s
  Term.ite (.or [pCrossing b iv period offset, .gt dur (numT (iv.1 + period - iv.2))])
    (.mul (numT (iv.2 - iv.1))
      (.ite (pCrossing b iv period offset) (.add (.div dur (numT period)) (numT 1)) (.div dur (numT period))))
    (numT 0)

open Classical in
theorem pOverlapTerm_eval (ρ : Env) (b : BusyRef) (iv : Int × Int) (p off : Int) (hp : 0 < p)
    (hwf : 0 ≤ iv.1 ∧ iv.1 < iv.2 ∧ iv.2 ≤ p) (hse : b.sV ρ ≤ b.eV ρ)
    (hs : (b.sV ρ - off) % p ≤ iv.1 ∨ iv.2 ≤ (b.sV ρ - off) % p)
    (he : (b.eV ρ - off) % p ≤ iv.1 ∨ iv.2 ≤ (b.eV ρ - off) % p) :
    (pOverlapTerm b iv p off).eval ρ = (iv.2 - iv.1) * repsInside (b.sV ρ) (b.eV ρ) iv.1 iv.2 off p := by
  have hsv : b.s.eval ρ = b.sV ρ := rfl
  have hev : b.e.eval ρ = b.eV ρ := rfl
  have := periodic_overlap_closed_form (b.sV ρ) (b.eV ρ) iv.1 iv.2 off p hp hwf.1 hwf.2.1 hwf.2.2 hse hs he
    ((pCrossing b iv p off).eval ρ)
    (by
      simp only [pCrossing, Fml.eval, Fml.evalAll, Term.eval, numT, hsv, hev, and_true, not_not])
  rw [← this]
  simp only [pOverlapTerm, Term.eval, Fml.eval, Fml.evalAny, numT, hsv, hev, or_false]

theorem pOverlap_sum (ρ : Env) (b : BusyRef) (p off : Int) (hp : 0 < p) (hse : b.sV ρ ≤ b.eV ρ) :
    ∀ (ivs : List (Int × Int)), (∀ iv ∈ ivs, 0 ≤ iv.1 ∧ iv.1 < iv.2 ∧ iv.2 ≤ p) →
      (∀ iv ∈ ivs, ((b.sV ρ - off) % p ≤ iv.1 ∨ iv.2 ≤ (b.sV ρ - off) % p) ∧
                   ((b.eV ρ - off) % p ≤ iv.1 ∨ iv.2 ≤ (b.eV ρ - off) % p)) →
      Term.evalSum ρ (ivs.map (fun iv => pOverlapTerm b iv p off)) = periodicOverlapSum (b.sV ρ) (b.eV ρ) ivs off p := by
  intro ivs
  induction ivs with
  | nil => intro _ _; simp [periodicOverlapSum, Term.evalSum]
  | cons iv rest ih =>
      intro hwf hend
      have hr := ih (fun x hx => hwf x (List.mem_cons_of_mem _ hx)) (fun x hx => hend x (List.mem_cons_of_mem _ hx))
      have ht := pOverlapTerm_eval ρ b iv p off hp (hwf iv (List.mem_cons_self ..)) hse
        (hend iv (List.mem_cons_self ..)).1 (hend iv (List.mem_cons_self ..)).2
      simp only [List.map_cons, Term.evalSum, periodicOverlapSum, List.sum_cons]
      simp only [periodicOverlapSum] at hr
      rw [ht, hr]

/-- **C04 (ResourcePeriodicallyInterrupted), one busy interval inside the activity window.** -/
theorem periodicInterruptedOne_sound (b : BusyRef) (t : Task) (ivs : List (Int × Int)) (p off : Int) (ρ : Env)
    (hp : 0 < p) (hwf : ∀ iv ∈ ivs, 0 ≤ iv.1 ∧ iv.1 < iv.2 ∧ iv.2 ≤ p)
    (h : Sat ρ (periodicInterruptedOne b t ivs p off)) :
    PeriodicInterruptedOK ρ (b.sV ρ) (b.eV ρ) t ivs p off := by
  have hsv : b.s.eval ρ = b.sV ρ := rfl
  have hev : b.e.eval ρ = b.eV ρ := rfl
  unfold periodicInterruptedOne at h
  unfold PeriodicInterruptedOK
  have hfixed : Sat ρ (ivs.map (fun iv => Fml.xor (.ge (Term.mod (.sub b.s (numT off)) (numT p)) (numT iv.2))
        (.le (.add (Term.mod (.sub b.s (numT off)) (numT p)) (Term.sub b.e b.s)) (numT iv.1)))) →
      ∀ iv ∈ ivs, iv.2 + off + p * ((b.sV ρ - off) / p) ≤ b.sV ρ ∨ b.eV ρ ≤ iv.1 + off + p * ((b.sV ρ - off) / p) := by
    intro hf iv hiv
    have hx := hf _ (List.mem_map.2 ⟨iv, hiv, rfl⟩)
    simp only [Fml.eval, Term.eval, numT, hsv, hev] at hx
    have hdecomp := Int.emod_add_mul_ediv (b.sV ρ - off) p
    generalize (b.sV ρ - off) % p = f at hx hdecomp
    generalize (b.sV ρ - off) / p = k at hdecomp ⊢
    by_cases h1 : iv.2 ≤ f
    · left; omega
    · right
      have h2 : f + (b.eV ρ - b.sV ρ) ≤ iv.1 := by
        by_contra h2
        exact hx ⟨fun a => absurd a h1, fun a => absurd a h2⟩
      omega
  cases hk : t.kind with
  | var minD maxD al =>
      simp only [hk] at h ⊢
      rw [Sat.append, Sat.append] at h
      obtain ⟨⟨hend, hmin⟩, hmax⟩ := h
      have hends : ∀ iv ∈ ivs, ((b.sV ρ - off) % p ≤ iv.1 ∨ iv.2 ≤ (b.sV ρ - off) % p) ∧
                   ((b.eV ρ - off) % p ≤ iv.1 ∨ iv.2 ≤ (b.eV ρ - off) % p) := by
        intro iv hiv
        have hlt := (hwf iv hiv).2.1
        have h1 := hend (Fml.xor (.le (Term.mod (.sub b.s (numT off)) (numT p)) (numT iv.1))
            (.ge (Term.mod (.sub b.s (numT off)) (numT p)) (numT iv.2))) (by
          simp only [List.mem_flatMap]; exact ⟨iv, hiv, List.mem_cons_self ..⟩)
        have h2 := hend (Fml.xor (.le (Term.mod (.sub b.e (numT off)) (numT p)) (numT iv.1))
            (.ge (Term.mod (.sub b.e (numT off)) (numT p)) (numT iv.2))) (by
          simp only [List.mem_flatMap]; exact ⟨iv, hiv, List.mem_cons_of_mem _ (List.mem_cons_self ..)⟩)
        simp only [Fml.eval, Term.eval, numT, hsv, hev] at h1 h2
        constructor
        · by_contra hc; simp only [not_or, not_le] at hc; exact h1 ⟨fun a => absurd a (by omega), fun a => absurd a (by omega)⟩
        · by_contra hc; simp only [not_or, not_le] at hc; exact h2 ⟨fun a => absurd a (by omega), fun a => absurd a (by omega)⟩
      refine ⟨?_, ?_⟩
      · intro iv hiv k
        have hw := hwf iv hiv
        exact ⟨folded_not_inside _ off p iv.1 iv.2 hp hw.1 hw.2.2 (hends iv hiv).1 k,
               folded_not_inside _ off p iv.1 iv.2 hp hw.1 hw.2.2 (hends iv hiv).2 k⟩
      · intro hse
        have hsum := pOverlap_sum ρ b p off hp hse ivs hwf hends
        have hmin' := hmin _ (List.mem_cons_self ..)
        simp only [Fml.eval, Term.eval, numT, Task.dVar] at hmin'
        have hsum' : Term.evalSum ρ (ivs.map (fun iv => pOverlapTerm b iv p off)) =
            periodicOverlapSum (b.sV ρ) (b.eV ρ) ivs off p := hsum
        simp only [pOverlapTerm, pCrossing, numT] at hsum'
        refine ⟨by rw [← hsum']; exact hmin', ?_⟩
        intro m hm
        subst hm
        have hmax' := hmax _ (List.mem_cons_self ..)
        simp only [Fml.eval, Term.eval, numT, Task.dVar] at hmax'
        rw [← hsum']; exact hmax'
  | fixed d =>
      simp only [hk] at h ⊢
      exact hfixed h
  | zero =>
      simp only [hk] at h ⊢
      exact hfixed h

/-- **C04 (per class).** The raw assertions of a resource constraint imply its documented meaning. -/
theorem C04_raw_sound (c : Nat) (b : CBody) (ρ : Env) (h : Sat ρ (b.raw c)) : ResMeaning ρ b := by
  cases b <;> simp only [ResMeaning] <;> try trivial
  case unavailable busy ivs =>
    intro br hbr iv hiv
    have := h (Fml.or [.ge br.s (numT iv.2), .le br.e (numT iv.1)]) (by
      simp only [CBody.raw, List.mem_flatMap, List.mem_map]
      exact ⟨iv, hiv, br, hbr, rfl⟩)
    simpa [Fml.eval, Fml.evalAny, Term.eval, numT, BusyRef.s, BusyRef.e, bS, bE, BusyRef.sV, BusyRef.eV] using this
  case workload busy ivs kind =>
    exact workloadAll_sound c busy kind ρ ivs 0 (by simpa [CBody.raw] using h)
  case nonDelay busy =>
    have hg := gaps_sound (fun i => IVar.fresh c i) (fun i => IVar.fresh c (busy.length + i))
      (busy.map (·.s)) (busy.map (·.e)) ρ
      (fun (p : Term × Term) => Fml.imp (.and [.ge p.1 (numT 0), .ge p.2 (numT 0)]) (.eq p.2 p.1))
      (fun e s => 0 ≤ e → 0 ≤ s → s = e)
      (by
        intro e s hev he hs
        simp only [Fml.eval, Fml.evalAll, Term.eval, numT, and_true] at hev
        exact hev ⟨he, hs⟩)
      (by simp)
      (by simpa [CBody.raw] using h)
    rw [busy_map_s, busy_map_e] at hg
    exact ⟨hg.1, hg.2.1, fun i hi => hg.2.2 i (by simpa using hi)⟩
  case distance busy d ivs mode =>
    have hg := gaps_sound (fun i => IVar.fresh c i) (fun i => IVar.fresh c (busy.length + i))
      (busy.map (·.s)) (busy.map (·.e)) ρ (distanceGap d ivs mode)
      (fun e s => DistCond ivs e s → cmpHolds mode (s - e) d)
      (by
        intro e s hev hcond
        unfold distanceGap at hev
        simp only [Fml.eval] at hev
        have := hev (distConds_eval ivs e s ρ hcond)
        rw [cmpRel_eval] at this
        simpa [Term.eval, numT] using this)
      (by simp)
      (by simpa [CBody.raw] using h)
    rw [busy_map_s, busy_map_e] at hg
    exact ⟨hg.1, hg.2.1, fun i hi => hg.2.2 i (by simpa using hi)⟩
  case interrupted ws ivs =>
    intro hwf w hw bt hbt
    have hall := h (Fml.and (w.flatMap (fun (b, t) => interruptedOne b t ivs))) (by
      simp only [CBody.raw, List.mem_map]; exact ⟨w, hw, rfl⟩)
    simp only [Fml.eval] at hall
    rw [evalAll_eq_Sat] at hall
    apply interruptedOne_sound bt.1 bt.2 ivs ρ hwf
    intro a ha
    exact hall a (List.mem_flatMap.2 ⟨bt, hbt, ha⟩)
  case periodicallyInterrupted busy ivs period start offset end_ =>
    intro hp hwf bt hbt hmask
    have hf := h (periodicInterruptedFml bt ivs period start offset end_) (by
      simp only [CBody.raw, List.mem_map]; exact ⟨bt, hbt, rfl⟩)
    unfold periodicInterruptedFml at hf
    have hcore := unmasked_core ρ bt.1 start end_ _ hmask hf
    simp only [Fml.eval] at hcore
    rw [evalAll_eq_Sat] at hcore
    exact periodicInterruptedOne_sound bt.1 bt.2 ivs period offset ρ hp hwf hcore
  case sameWorkers s1 s2 =>
    intro w hw1 hw2
    have := h (Fml.iff (.bvar (.sel s1.id w)) (.bvar (.sel s2.id w))) (by
      simp only [CBody.raw, List.mem_map, List.mem_filter]
      exact ⟨w, ⟨hw1, by simpa using hw2⟩, rfl⟩)
    simp only [Fml.eval] at this
    cases h1 : ρ.b (.sel s1.id w) <;> cases h2 : ρ.b (.sel s2.id w) <;> simp_all
  case distinctWorkers s1 s2 =>
    intro w hw1 hw2 ⟨ha, hb⟩
    have := h (Fml.neb (.bvar (.sel s1.id w)) (.bvar (.sel s2.id w))) (by
      simp only [CBody.raw, List.mem_map, List.mem_filter]
      exact ⟨w, ⟨hw1, by simpa using hw2⟩, rfl⟩)
    simp only [Fml.eval, ha, hb] at this
    exact this (by trivial)

/-- **C04.** Every mandatory resource constraint of the problem holds, with its documented
    meaning over the busy intervals it was declared on, in every admitted interpretation. -/
theorem C04_resource_constraints (cfg : Config) (st : State) (ρ : Env) (hρ : Sat ρ (initFmls cfg st)) :
    ∀ c, Enforced st c → ResMeaning ρ c.body := by
  intro c ⟨hc, hopt, hop⟩
  apply C04_raw_sound c.id
  rw [← C10_mandatory c hopt]
  exact C10_constraint_part cfg st ρ hρ c hc hop

end PS
namespace PS
open List

/-! ### ResourcePeriodicallyUnavailable: the window of the task's own period -/

/-- **C04 (ResourcePeriodicallyUnavailable, own period).**  For every busy interval `[s, e]` of the
    resource and every listed window `(lo, hi)`, with `k = (s − offset) div period` the period the
    interval starts in: unless the interval is masked by `start` / `end`, it does not overlap the
    `k`-th repetition `(lo + offset + k·period, hi + offset + k·period)` of the window.
    (That it may run into the repetition of the *next* period is finding F13.) -/
theorem C04_periodic_own_period (c : Nat) (busy : List BusyRef) (ivs : List (Int × Int))
    (period start offset : Int) (end_ : Option Int) (ρ : Env)
    (h : Sat ρ ((CBody.periodicallyUnavailable busy ivs period start offset end_).raw c)) :
    ∀ b ∈ busy, ∀ iv ∈ ivs, ¬ PeriodicMasked ρ b start end_ →
      let k := (b.sV ρ - offset) / period
      iv.2 + offset + period * k ≤ b.sV ρ ∨ b.eV ρ ≤ iv.1 + offset + period * k := by
  intro b hb iv hiv hmask k
  have hf := h (periodicOne b iv period start offset end_) (by
    simp only [CBody.raw, List.mem_flatMap, List.mem_map]
    exact ⟨iv, hiv, b, hb, rfl⟩)
  have hdecomp := Int.emod_add_mul_ediv (b.sV ρ - offset) period
  -- the core disjunction
  have hcore : (periodicCore b iv period offset).eval ρ →
      iv.2 + offset + period * k ≤ b.sV ρ ∨ b.eV ρ ≤ iv.1 + offset + period * k := by
    intro hx
    simp only [periodicCore, Fml.eval, Term.eval, numT] at hx
    have hs : b.s.eval ρ = b.sV ρ := rfl
    have he : b.e.eval ρ = b.eV ρ := rfl
    rw [hs, he] at hx
    generalize hfold : (b.sV ρ - offset) % period = f at hx hdecomp
    have hk : period * k = b.sV ρ - offset - f := by
      show period * ((b.sV ρ - offset) / period) = _
      omega
    by_cases h1 : iv.2 ≤ f
    · left; omega
    · right
      have h2 : f + (b.eV ρ - b.sV ρ) ≤ iv.1 := by
        by_contra h2
        exact hx ⟨fun a => absurd a h1, fun a => absurd a h2⟩
      omega
  unfold periodicOne at hf
  by_cases hlen : (periodicMasks b start end_).length > 0
  · rw [if_pos hlen] at hf
    simp only [Fml.eval, Fml.evalAny] at hf
    rcases hf with hf | hf
    · exact hcore hf
    · exfalso
      rw [evalAny_iff] at hf
      obtain ⟨a, ha, hae⟩ := hf
      simp only [periodicMasks, List.mem_append] at ha
      rcases ha with ha | ha
      · by_cases hs : start ≥ 0
        · simp only [hs, if_true, List.mem_singleton] at ha
          subst ha
          apply hmask
          left
          simp only [Fml.eval, Term.eval, numT] at hae
          exact ⟨hs, hae⟩
        · simp [hs] at ha
      · cases hen : end_ with
        | none => simp [hen] at ha
        | some en =>
            simp only [hen, List.mem_singleton] at ha
            subst ha
            apply hmask
            right
            simp only [Fml.eval, Term.eval, numT] at hae
            exact ⟨en, hen, hae⟩
  · rw [if_neg hlen] at hf
    exact hcore hf

/-- lifted to `initialize` -/
theorem C04_periodic_enforced (cfg : Config) (st : State) (ρ : Env) (hρ : Sat ρ (initFmls cfg st))
    (cst : Constr) (he : Enforced st cst) (busy : List BusyRef) (ivs : List (Int × Int))
    (period start offset : Int) (end_ : Option Int)
    (hb : cst.body = .periodicallyUnavailable busy ivs period start offset end_) :
    ∀ b ∈ busy, ∀ iv ∈ ivs, ¬ PeriodicMasked ρ b start end_ →
      iv.2 + offset + period * ((b.sV ρ - offset) / period) ≤ b.sV ρ ∨
      b.eV ρ ≤ iv.1 + offset + period * ((b.sV ρ - offset) / period) := by
  obtain ⟨hc, hopt, hop⟩ := he
  apply C04_periodic_own_period cst.id busy ivs period start offset end_ ρ
  rw [← hb, ← C10_mandatory cst hopt]
  exact C10_constraint_part cfg st ρ hρ cst hc hop

end PS

namespace PS

/-! ### completeness of the interruption / periodic classes: the documented meaning implies the emitted formulas -/

/-- the exact requirement of ResourceInterrupted on one busy interval (both duration bounds) -/
def InterruptedExact (ρ : Env) (s e : Int) (t : Task) (ivs : List (Int × Int)) : Prop :=
  match t.kind with
  | .var minD maxD _ =>
      (∀ iv ∈ ivs, (s ≤ iv.1 ∨ iv.2 ≤ s) ∧ (e ≤ iv.1 ∨ iv.2 ≤ e)) ∧
      minD + overlapSum s e ivs ≤ ρ.i (.tDur t.name) ∧
      (∀ m, maxD = some m → ρ.i (.tDur t.name) ≤ m + overlapSum s e ivs)
  | _ => ∀ iv ∈ ivs, iv.2 ≤ s ∨ e ≤ iv.1

theorem interruptedOne_complete (b : BusyRef) (t : Task) (ivs : List (Int × Int)) (ρ : Env)
    (hwf : ∀ iv ∈ ivs, iv.1 < iv.2) (hse : b.sV ρ ≤ b.eV ρ)
    (h : InterruptedExact ρ (b.sV ρ) (b.eV ρ) t ivs) : Sat ρ (interruptedOne b t ivs) := by
  have hs : b.s.eval ρ = b.sV ρ := rfl
  have he : b.e.eval ρ = b.eV ρ := rfl
  unfold InterruptedExact at h
  unfold interruptedOne
  have hfixed : (∀ iv ∈ ivs, iv.2 ≤ b.sV ρ ∨ b.eV ρ ≤ iv.1) →
      Sat ρ (ivs.map (fun iv => Fml.xor (.ge b.s (numT iv.2)) (.le b.e (numT iv.1)))) := by
    intro hh a ha
    obtain ⟨iv, hiv, rfl⟩ := List.mem_map.1 ha
    have hlt := hwf iv hiv
    simp only [Fml.eval, Term.eval, numT, hs, he]
    intro hiff
    rcases hh iv hiv with h1 | h1
    · have := hiff.1 h1; omega
    · have := hiff.2 h1; omega
  cases hk : t.kind with
  | var minD maxD al =>
      simp only [hk] at h ⊢
      obtain ⟨hends, hmin, hmax⟩ := h
      have hsum := (interrupted_sum ρ b ivs hwf hends).2 hse
      simp only [numT] at hsum
      rw [Sat.append, Sat.append]
      refine ⟨⟨?_, ?_⟩, ?_⟩
      · intro a ha
        obtain ⟨iv, hiv, hab⟩ := List.mem_flatMap.1 ha
        have hlt := hwf iv hiv
        have hh := hends iv hiv
        simp only [List.mem_cons, List.mem_nil_iff, or_false] at hab
        rcases hab with rfl | rfl
        · simp only [Fml.eval, Term.eval, numT, hs]
          intro hiff
          rcases hh.1 with h1 | h1
          · have := hiff.1 h1; omega
          · have := hiff.2 h1; omega
        · simp only [Fml.eval, Term.eval, numT, he]
          intro hiff
          rcases hh.2 with h1 | h1
          · have := hiff.1 h1; omega
          · have := hiff.2 h1; omega
      · intro a ha
        simp only [List.mem_singleton] at ha; subst ha
        simp only [Fml.eval, Term.eval, numT, Task.dVar, hsum]
        exact hmin
      · cases maxD with
        | none => exact Sat.nil
        | some m =>
            intro a ha
            simp only [List.mem_singleton] at ha; subst ha
            simp only [Fml.eval, Term.eval, numT, Task.dVar, hsum]
            exact hmax m rfl
  | fixed d => simp only [hk] at h ⊢; exact hfixed h
  | zero => simp only [hk] at h ⊢; exact hfixed h

/-- a masked busy interval makes one of the mask formulas true -/
theorem masked_eval (ρ : Env) (b : BusyRef) (start : Int) (end_ : Option Int)
    (hmask : PeriodicMasked ρ b start end_) : ∃ a ∈ periodicMasks b start end_, a.eval ρ := by
  have hs : b.s.eval ρ = b.sV ρ := rfl
  have he : b.e.eval ρ = b.eV ρ := rfl
  rcases hmask with ⟨hs0, hle⟩ | ⟨en, hen, hge⟩
  · refine ⟨Fml.le b.e (numT start), ?_, by simpa [Fml.eval, Term.eval, numT, he] using hle⟩
    exact List.mem_append_left _ (by
      have : start ≥ 0 := hs0
      rw [if_pos this]; exact List.mem_singleton.2 rfl)
  · refine ⟨Fml.ge b.s (numT en), ?_, by simpa [Fml.eval, Term.eval, numT, hs] using hge⟩
    exact List.mem_append_right _ (by subst hen; exact List.mem_singleton.2 rfl)

/-- `core`, or-ed with the masks when there are any, holds when the interval is masked or the core holds -/
theorem masked_or_core (ρ : Env) (b : BusyRef) (start : Int) (end_ : Option Int) (core : Fml)
    (h : PeriodicMasked ρ b start end_ ∨ core.eval ρ) :
    (if (periodicMasks b start end_).length > 0 then Fml.or (core :: periodicMasks b start end_) else core).eval ρ := by
  by_cases hlen : (periodicMasks b start end_).length > 0
  · rw [if_pos hlen]
    simp only [Fml.eval, Fml.evalAny]
    rcases h with h | h
    · right
      rw [evalAny_iff]
      exact masked_eval ρ b start end_ h
    · left; exact h
  · rw [if_neg hlen]
    rcases h with h | h
    · obtain ⟨a, ha, _⟩ := masked_eval ρ b start end_ h
      have : (periodicMasks b start end_).length = 0 := by omega
      rw [List.length_eq_zero_iff] at this
      rw [this] at ha; simp at ha
    · exact h

/-- own-period disjointness gives the folded test of the periodic classes -/
theorem periodicCore_complete (b : BusyRef) (iv : Int × Int) (p off : Int) (ρ : Env) (hlt : iv.1 < iv.2)
    (hse : b.sV ρ ≤ b.eV ρ)
    (h : iv.2 + off + p * ((b.sV ρ - off) / p) ≤ b.sV ρ ∨ b.eV ρ ≤ iv.1 + off + p * ((b.sV ρ - off) / p)) :
    (periodicCore b iv p off).eval ρ := by
  have hs : b.s.eval ρ = b.sV ρ := rfl
  have he : b.e.eval ρ = b.eV ρ := rfl
  have hdecomp := Int.emod_add_mul_ediv (b.sV ρ - off) p
  simp only [periodicCore, Fml.eval, Term.eval, numT, hs, he]
  generalize (b.sV ρ - off) % p = f at hdecomp ⊢
  generalize (b.sV ρ - off) / p = k at hdecomp h
  intro hiff
  rcases h with h1 | h1
  · have : iv.2 ≤ f := by omega
    have := hiff.1 this
    omega
  · have : f + (b.eV ρ - b.sV ρ) ≤ iv.1 := by omega
    have := hiff.2 this
    omega

theorem periodicOne_complete (b : BusyRef) (iv : Int × Int) (p start off : Int) (end_ : Option Int) (ρ : Env)
    (hlt : iv.1 < iv.2) (hse : b.sV ρ ≤ b.eV ρ)
    (h : PeriodicMasked ρ b start end_ ∨
      (iv.2 + off + p * ((b.sV ρ - off) / p) ≤ b.sV ρ ∨ b.eV ρ ≤ iv.1 + off + p * ((b.sV ρ - off) / p))) :
    (periodicOne b iv p start off end_).eval ρ := by
  unfold periodicOne
  apply masked_or_core
  rcases h with h | h
  · exact Or.inl h
  · exact Or.inr (periodicCore_complete b iv p off ρ hlt hse h)

end PS

namespace PS

/-- the exact requirement of ResourcePeriodicallyInterrupted on one busy interval inside the activity window -/
def PeriodicInterruptedExact (ρ : Env) (s e : Int) (t : Task) (ivs : List (Int × Int)) (p off : Int) : Prop :=
  match t.kind with
  | .var minD maxD _ =>
      (∀ iv ∈ ivs, ∀ k : Int, (s ≤ iv.1 + off + p * k ∨ iv.2 + off + p * k ≤ s) ∧
                              (e ≤ iv.1 + off + p * k ∨ iv.2 + off + p * k ≤ e)) ∧
      minD + periodicOverlapSum s e ivs off p ≤ ρ.i (.tDur t.name) ∧
      (∀ m, maxD = some m → ρ.i (.tDur t.name) ≤ m + periodicOverlapSum s e ivs off p)
  | _ => ∀ iv ∈ ivs, iv.2 + off + p * ((s - off) / p) ≤ s ∨ e ≤ iv.1 + off + p * ((s - off) / p)

/-- not strictly inside the repetition of its own period, in folded form -/
theorem folded_of_not_inside (x off p lo hi : Int)
    (h : x ≤ lo + off + p * ((x - off) / p) ∨ hi + off + p * ((x - off) / p) ≤ x) :
    (x - off) % p ≤ lo ∨ hi ≤ (x - off) % p := by
  have hS := Int.emod_add_mul_ediv (x - off) p
  generalize (x - off) % p = f at *
  generalize (x - off) / p = K at *
  rcases h with h | h
  · left; omega
  · right; omega

theorem periodicInterruptedOne_complete (b : BusyRef) (t : Task) (ivs : List (Int × Int)) (p off : Int) (ρ : Env)
    (hp : 0 < p) (hwf : ∀ iv ∈ ivs, 0 ≤ iv.1 ∧ iv.1 < iv.2 ∧ iv.2 ≤ p) (hse : b.sV ρ ≤ b.eV ρ)
    (h : PeriodicInterruptedExact ρ (b.sV ρ) (b.eV ρ) t ivs p off) :
    Sat ρ (periodicInterruptedOne b t ivs p off) := by
  have hsv : b.s.eval ρ = b.sV ρ := rfl
  have hev : b.e.eval ρ = b.eV ρ := rfl
  unfold PeriodicInterruptedExact at h
  unfold periodicInterruptedOne
  have hfixed : (∀ iv ∈ ivs, iv.2 + off + p * ((b.sV ρ - off) / p) ≤ b.sV ρ ∨ b.eV ρ ≤ iv.1 + off + p * ((b.sV ρ - off) / p)) →
      Sat ρ (ivs.map (fun iv => Fml.xor (.ge (Term.mod (.sub b.s (numT off)) (numT p)) (numT iv.2))
        (.le (.add (Term.mod (.sub b.s (numT off)) (numT p)) (Term.sub b.e b.s)) (numT iv.1)))) := by
    intro hh a ha
    obtain ⟨iv, hiv, rfl⟩ := List.mem_map.1 ha
    exact periodicCore_complete b iv p off ρ (hwf iv hiv).2.1 hse (hh iv hiv)
  cases hk : t.kind with
  | var minD maxD al =>
      simp only [hk] at h ⊢
      obtain ⟨hins, hmin, hmax⟩ := h
      have hends : ∀ iv ∈ ivs, ((b.sV ρ - off) % p ≤ iv.1 ∨ iv.2 ≤ (b.sV ρ - off) % p) ∧
                   ((b.eV ρ - off) % p ≤ iv.1 ∨ iv.2 ≤ (b.eV ρ - off) % p) := by
        intro iv hiv
        exact ⟨folded_of_not_inside _ off p iv.1 iv.2 (hins iv hiv _).1,
               folded_of_not_inside _ off p iv.1 iv.2 (hins iv hiv _).2⟩
      have hsum := pOverlap_sum ρ b p off hp hse ivs hwf hends
      simp only [pOverlapTerm, pCrossing, numT] at hsum
      rw [Sat.append, Sat.append]
      refine ⟨⟨?_, ?_⟩, ?_⟩
      · intro a ha
        obtain ⟨iv, hiv, hab⟩ := List.mem_flatMap.1 ha
        have hlt := (hwf iv hiv).2.1
        have hh := hends iv hiv
        simp only [List.mem_cons, List.mem_nil_iff, or_false] at hab
        rcases hab with rfl | rfl
        · simp only [Fml.eval, Term.eval, numT, hsv]
          intro hiff
          rcases hh.1 with h1 | h1
          · have := hiff.1 h1; omega
          · have := hiff.2 h1; omega
        · simp only [Fml.eval, Term.eval, numT, hev]
          intro hiff
          rcases hh.2 with h1 | h1
          · have := hiff.1 h1; omega
          · have := hiff.2 h1; omega
      · intro a ha
        simp only [List.mem_singleton] at ha; subst ha
        simp only [Fml.eval, Term.eval, numT, Task.dVar]
        rw [hsum]
        exact hmin
      · cases maxD with
        | none => exact Sat.nil
        | some m =>
            intro a ha
            simp only [List.mem_singleton] at ha; subst ha
            simp only [Fml.eval, Term.eval, numT, Task.dVar]
            rw [hsum]
            exact hmax m rfl
  | fixed d => simp only [hk] at h ⊢; exact hfixed h
  | zero => simp only [hk] at h ⊢; exact hfixed h

/-! ### the gap classes, read pairwise -/

/-- starts and ends of the busy intervals are ordered alike (true of the disjoint busy intervals of one worker) -/
def Comonotone (ρ : Env) (busy : List BusyRef) : Prop :=
  ∀ x ∈ busy, ∀ y ∈ busy, x.sV ρ < y.sV ρ → x.eV ρ < y.eV ρ

/-- **C04 (ResourceNonDelay / ResourceTasksDistance, pairwise).**  Whenever the busy intervals are ordered alike
    by start and by end, the relation the constraint asks of "the i-th sorted end and the (i+1)-th sorted start"
    holds between every busy interval and its immediate successor by start. -/
theorem GapsOK_pairwise (ρ : Env) (busy : List BusyRef) (P : Int → Int → Prop) (h : GapsOK ρ busy P)
    (hco : Comonotone ρ busy) :
    ∀ a ∈ busy, ∀ b ∈ busy, a.sV ρ < b.sV ρ →
      (∀ c ∈ busy, ¬ (a.sV ρ < c.sV ρ ∧ c.sV ρ < b.sV ρ)) → P (a.eV ρ) (b.sV ρ) := by
  intro a ha b hb hab hsucc
  obtain ⟨hS, hE, hg⟩ := h
  have := gaps_pairwise (busy.map (fun x => (x.sV ρ, x.eV ρ))) P
    (by simpa [List.map_map, Function.comp_def] using hS)
    (by simpa [List.map_map, Function.comp_def] using hE)
    (by
      intro x hx y hy hxy
      obtain ⟨x', hx', rfl⟩ := List.mem_map.1 hx
      obtain ⟨y', hy', rfl⟩ := List.mem_map.1 hy
      exact hco x' hx' y' hy' hxy)
    (by
      intro i hi
      simp only [List.length_map] at hi
      simpa [List.map_map, Function.comp_def] using hg i hi)
    (a.sV ρ, a.eV ρ) (b.sV ρ, b.eV ρ) (List.mem_map.2 ⟨a, ha, rfl⟩) (List.mem_map.2 ⟨b, hb, rfl⟩) hab
    (by
      intro c hc
      obtain ⟨c', hc', rfl⟩ := List.mem_map.1 hc
      exact hsucc c' hc')
  exact this

end PS
