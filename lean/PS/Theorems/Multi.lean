/-
  PS.Theorems.Multi — several objectives inside the exactness theorems.

  With more than one objective (incremental optimiser, or `optimize_priority = "weight"`) `initialize` adds two
  equations, `EquivalentSingleObjective = Σ weightᵢ · targetᵢ` and `Indicator_EquivalentIndicator =
  EquivalentSingleObjective`, over two variables nothing else mentions (`State.freshEquiv`, a decidable condition).
  They are a *conservative extension*: every interpretation of the rest extends to them in exactly one way
  (`multi_extend`), so

  * `C05_feasible_iff_multi` — the constraint system has a model iff the problem has a valid schedule, whatever the
    number of objectives and the configuration;
  * `C07_weighted_attainable` — the values the variable the optimiser works on can take are the values of the
    weighted sum of the objectives' indicators on valid schedules: the optimum the solver looks for is the optimum of
    the documented weighted combination (`C07_weighted` says the variable *is* that sum in every admitted
    interpretation; this says which sums exist).
-/
import PS.Theorems.Exact
namespace PS

theorem objectiveFmls_cfgP (st : State) : objectiveFmls cfgP st = [] := by
  simp [objectiveFmls, cfgP]

/-- the assertions of `initialize` are those of the problem, then those of the weighted combination -/
theorem initFmls_split (cfg : Config) (st : State) : initFmls cfg st = initFmls cfgP st ++ objectiveFmls cfg st := by
  unfold initFmls
  rw [objectiveFmls_cfgP]
  simp

/-- ρ with the two variables of the weighted combination set to the value of the sum -/
noncomputable def withEquiv (st : State) (ρ : Env) : Env :=
  { ρ with i := fun v => if v = eqvVar ∨ v = eqvInd then Term.evalSum ρ (weightedTerms st) else ρ.i v }

theorem withEquiv_agree (st : State) (ρ : Env) : Env.AgreeOn notEquiv ρ (withEquiv st ρ) where
  i := by
    intro v hv
    simp only [notEquiv, Bool.and_eq_true, Bool.not_eq_true', beq_eq_false_iff_ne, ne_eq] at hv
    simp only [withEquiv, hv.1, hv.2, or_self, if_false]
  b := rfl
  f := rfl
  a := rfl
  p := rfl

theorem weightedTerms_vars (st : State) (h : st.objectives.all (fun o => o.target.varsIn notEquiv) = true) :
    Term.varsInList notEquiv (weightedTerms st) = true := by
  unfold weightedTerms
  generalize st.objectives = os at h
  induction os with
  | nil => rfl
  | cons o rest ih =>
      simp only [List.all_cons, Bool.and_eq_true] at h
      simp only [List.map_cons, Term.varsInList, Term.varsIn, numT, Bool.true_and, Bool.and_eq_true]
      exact ⟨h.1, ih h.2⟩

/-- **conservative extension**: an interpretation of the problem's own assertions extends to the two equations of the
    weighted combination -/
theorem multi_extend (cfg : Config) (st : State) (ρ : Env) (hf : st.freshEquiv = true)
    (h : Sat ρ (initFmls cfgP st)) : Sat (withEquiv st ρ) (initFmls cfg st) := by
  unfold State.freshEquiv at hf
  simp only [Bool.and_eq_true] at hf
  have hag := withEquiv_agree st ρ
  rw [initFmls_split, Sat.append]
  constructor
  · intro a ha
    exact (eval_congr_fml notEquiv _ _ hag a ((List.all_eq_true.1 hf.1) a ha)).1 (h a ha)
  · have hsum : Term.evalSum (withEquiv st ρ) (weightedTerms st) = Term.evalSum ρ (weightedTerms st) :=
      (Term.evalSum_congr notEquiv _ _ hag _ (weightedTerms_vars st hf.2)).symm
    have e1 : (withEquiv st ρ).i eqvVar = Term.evalSum ρ (weightedTerms st) := by simp [withEquiv]
    have e2 : (withEquiv st ρ).i eqvInd = Term.evalSum ρ (weightedTerms st) := by simp [withEquiv]
    unfold objectiveFmls
    split
    · intro a ha
      simp only [List.mem_cons, List.not_mem_nil, or_false] at ha
      rcases ha with rfl | rfl
      · simp only [Fml.eval, Term.eval]
        have : (withEquiv st ρ).i (IVar.named "EquivalentSingleObjective") = Term.evalSum ρ (weightedTerms st) := e1
        rw [this]
        exact hsum.symm
      · simp only [Fml.eval, Term.eval]
        have a1 : (withEquiv st ρ).i (IVar.ind "EquivalentIndicator") = Term.evalSum ρ (weightedTerms st) := e2
        have a2 : (withEquiv st ρ).i (IVar.named "EquivalentSingleObjective") = Term.evalSum ρ (weightedTerms st) := e1
        rw [a1, a2]
    · intro a ha; simp at ha

theorem multi_restrict (cfg : Config) (st : State) (ρ : Env) (h : Sat ρ (initFmls cfg st)) : Sat ρ (initFmls cfgP st) := by
  rw [initFmls_split, Sat.append] at h
  exact h.1

/-! ### the problem without its objectives: same assertions of its own, same valid schedules -/


theorem initFmls_noObj (cfg : Config) (st : State) : initFmls cfg st.noObj = initFmls cfgP st := by
  rw [initFmls_split cfg st.noObj]
  have : objectiveFmls cfg st.noObj = [] := by simp [objectiveFmls, State.noObj]
  rw [this]
  simp only [List.append_nil]
  unfold initFmls
  rw [objectiveFmls_cfgP, objectiveFmls_cfgP]
  rfl

theorem Valid_noObj (st : State) (σ : Sched) : Valid st.noObj σ ↔ Valid st σ :=
  ⟨fun h => ⟨h.horizon_nonneg, h.horizon_le, h.tasks, h.dyn, h.counts, h.no_overlap, h.work, h.constrs⟩,
   fun h => ⟨h.horizon_nonneg, h.horizon_le, h.tasks, h.dyn, h.counts, h.no_overlap, h.work, h.constrs⟩⟩

/-- **C05 (exactness, any number of objectives).** -/
theorem C05_feasible_iff_multi (cfg : Config) (st : State) (hc : InCoreS st.noObj) (hf : st.freshEquiv = true) :
    (∃ ρ, Sat ρ (initFmls cfg st) ∧ 0 ≤ ρ.i .horizon) ↔ ∃ σ, Valid st σ := by
  constructor
  · rintro ⟨ρ, hρ, hH⟩
    have h0 : Sat ρ (initFmls cfgP st.noObj) := by
      rw [initFmls_noObj]; exact multi_restrict cfg st ρ hρ
    exact ⟨schedOf ρ, (Valid_noObj st _).1 (C05_sound_core cfgP st.noObj ρ hc h0 hH)⟩
  · rintro ⟨σ, hv⟩
    have hv0 := (Valid_noObj st σ).2 hv
    have h0 : Sat (envOf st.noObj σ) (initFmls cfgP st) := by
      rw [← initFmls_noObj cfgP]; exact C05_complete_core cfgP st.noObj σ hc.inCore hv0
    refine ⟨withEquiv st (envOf st.noObj σ), multi_extend cfg st _ hf h0, ?_⟩
    have : (withEquiv st (envOf st.noObj σ)).i .horizon = (envOf st.noObj σ).i .horizon := by
      simp [withEquiv, eqvVar, eqvInd]
    rw [this]
    exact hv.horizon_nonneg

/-- **C07 (the optimum of the weighted combination).** With several objectives in the weighted-sum reading, an
    integer is the value of the variable the optimiser works on in some admitted interpretation iff it is the weighted
    sum of the objectives' indicators on some valid schedule. -/
theorem C07_weighted_attainable (cfg : Config) (st : State) (hc : InCoreS st.noObj) (hf : st.freshEquiv = true)
    (hmulti : (st.objectives.length > 1 && (!cfg.optimize || cfg.priority == "weight")) = true)
    (htargets : ∀ o ∈ st.objectives, o.target.plainIn st.noObj.ownI2 ownB = true) (k : Int) :
    (∃ ρ, Sat ρ (initFmls cfg st) ∧ 0 ≤ ρ.i .horizon ∧ ρ.i eqvVar = k) ↔
    (∃ σ, Valid st σ ∧ Term.evalSum (envOf st σ) (weightedTerms st) = k) := by
  have hplain : ∀ x ∈ weightedTerms st, x.plainIn st.noObj.ownI2 ownB = true := by
    intro x hx
    obtain ⟨o, ho, rfl⟩ := List.mem_map.1 hx
    simp only [Term.plainIn, numT, Bool.true_and]
    exact htargets o ho
  constructor
  · rintro ⟨ρ, hρ, hH, hk⟩
    have h0 : Sat ρ (initFmls cfgP st.noObj) := by
      rw [initFmls_noObj]; exact multi_restrict cfg st ρ hρ
    refine ⟨schedOf ρ, (Valid_noObj st _).1 (C05_sound_core cfgP st.noObj ρ hc h0 hH), ?_⟩
    -- the equation of the weighted combination, in ρ
    have heq : ρ.i eqvVar = Term.evalSum ρ (weightedTerms st) := by
      have hmem : Fml.eq (.var (IVar.named "EquivalentSingleObjective")) (.sum (weightedTerms st)) ∈ initFmls cfg st := by
        rw [initFmls_split]
        apply List.mem_append_right
        unfold objectiveFmls
        simp only [hmulti, if_true]
        exact List.mem_cons_self ..
      have := hρ _ hmem
      simpa [Fml.eval, Term.eval, eqvVar] using this
    have hag := agree_own2 cfgP st.noObj ρ h0 hc
    have : Term.evalSum (envOf st (schedOf ρ)) (weightedTerms st) = Term.evalSum ρ (weightedTerms st) := by
      apply evalSum_congr_pointwise
      intro x hx
      exact (eval_congr2_term _ _ _ _ hag x (hplain x hx)).symm
    rw [this, ← heq]; exact hk
  · rintro ⟨σ, hv, hk⟩
    have hv0 := (Valid_noObj st σ).2 hv
    have h0 : Sat (envOf st.noObj σ) (initFmls cfgP st) := by
      rw [← initFmls_noObj cfgP]; exact C05_complete_core cfgP st.noObj σ hc.inCore hv0
    refine ⟨withEquiv st (envOf st.noObj σ), multi_extend cfg st _ hf h0, ?_, ?_⟩
    · have : (withEquiv st (envOf st.noObj σ)).i .horizon = (envOf st.noObj σ).i .horizon := by
        simp [withEquiv, eqvVar, eqvInd]
      rw [this]; exact hv.horizon_nonneg
    · have : (withEquiv st (envOf st.noObj σ)).i eqvVar = Term.evalSum (envOf st.noObj σ) (weightedTerms st) := by
        simp [withEquiv]
      rw [this]; exact hk


/-- the executable test for problems with several objectives is sufficient for the two theorems above -/
theorem fragmentMultiB_sound {st : State} (hr : Reachable st) (h : st.fragmentMultiB = true) :
    InCoreS st.noObj ∧ st.freshEquiv = true ∧ ∀ o ∈ st.objectives, o.target.plainIn st.noObj.ownI2 ownB = true := by
  unfold State.fragmentMultiB at h
  simp only [Bool.and_eq_true] at h
  have w := reachable_wf st hr
  exact ⟨fragmentB_sound_wf ⟨w.nodup, w.events, w.req_tasks⟩ h.1.1, h.1.2, fun o ho => (List.all_eq_true.1 h.2) o ho⟩

/-! ### non-vacuity: the example problem of `Exact.lean` with a second objective -/

def Multi_exState : State :=
  run [.problem "p" (some 12),
       .task "A" (.fixed 3) false 2 (some 1) (some 9) true 1,
       .task "B" (.var 1 (some 4) (some [2, 3])) true 0 none none true 1,
       .worker "W" 1 (.const 0), .worker "V" 2 (.const 0),
       .select none ["W", "V"] 1 .exact,
       .require "A" (.select 0) false 0 0,
       .require "B" (.worker "W") true 0 0,
       .constr none false (.precedence "A" "B" 1 .lax),
       .indicator (.tardiness (some ["A"])),
       .objective (.flowtime none),
       .objective (.minimizeIndicator 0 3)]

theorem Multi_ex_inCoreS : InCoreS Multi_exState.noObj :=
  fragmentB_sound_wf (by
    have w := reachable_wf Multi_exState ⟨_, rfl⟩
    exact ⟨w.nodup, w.events, w.req_tasks⟩) (by decide +kernel)

example : Multi_exState.freshEquiv = true ∧ Multi_exState.objectives.length = 2 ∧
    (∀ o ∈ Multi_exState.objectives, o.target.plainIn Multi_exState.noObj.ownI2 ownB = true) := by decide +kernel

/-- the constraint system of the two-objective problem (incremental optimiser: the weighted combination is asserted)
    has a model iff the problem has a valid schedule -/
example : (∃ ρ, Sat ρ (initFmls {} Multi_exState) ∧ 0 ≤ ρ.i .horizon) ↔ ∃ σ, Valid Multi_exState σ :=
  C05_feasible_iff_multi {} Multi_exState Multi_ex_inCoreS (by decide +kernel)

end PS
