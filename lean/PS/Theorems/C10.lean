/-
  C10 — Logical combinations and optional constraints mean what their connective says.

  `Holds o ρ` = every assertion of operand `o` is true in ρ (an operand is the assertion list of
  the constraint it stands for, or a single raw expression).  The connective theorems hold for
  arbitrary operand lists, hence for any nesting depth: the operand of an outer connective is
  the assertion list of the inner one, to which the same theorems apply.
-/
import PS.Proofs.StepInv
import PS.Proofs.InitMem
import PS.Spec.Fragment
namespace PS

/-- the meaning of an operand: all of its assertions hold -/
def Holds (o : List Fml) (ρ : Env) : Prop := Sat ρ o

theorem evalAll_flatten (ρ : Env) (os : List (List Fml)) :
    Fml.evalAll ρ os.flatten ↔ ∀ o ∈ os, Holds o ρ := by
  rw [evalAll_iff]
  simp only [List.mem_flatten, Holds, Sat]
  constructor
  · intro h o ho a ha; exact h a ⟨o, ho, ha⟩
  · rintro h a ⟨o, ho, ha⟩; exact h o ho a ha

theorem orOperand_eval (ρ : Env) (o : List Fml) : (orOperand o).eval ρ ↔ Holds o ρ := by
  unfold orOperand Holds
  match o with
  | [] => simp [Fml.eval, Fml.evalAll, Sat]
  | [a] => simp [Sat]
  | a :: b :: r => simp only [Fml.eval]; exact evalAll_eq_Sat ρ _

/-- the documented meaning of each connective / generic constraint body -/
def ConnMeaning (ρ : Env) : CBody → Prop
  | .not_ o => ¬ Holds o ρ
  | .or_ os => ∃ o ∈ os, Holds o ρ
  | .and_ os => ∀ o ∈ os, Holds o ρ
  | .xor_ o1 o2 => ¬ (Holds o1 ρ ↔ Holds o2 ρ)
  | .implies c os => c.eval ρ → ∀ o ∈ os, Holds o ρ
  | .ifThenElse c os1 os2 => (c.eval ρ → ∀ o ∈ os1, Holds o ρ) ∧ (¬ c.eval ρ → ∀ o ∈ os2, Holds o ρ)
  | .fromExpr f => f.eval ρ
  | _ => True

/-- **C10 (connectives).** The raw assertion of a connective is equivalent to the boolean
    combination of its operands' meanings — exactly, in both directions. -/
theorem C10_connective_raw (id : Nat) (b : CBody) (hb : b.isConn = true) (ρ : Env) :
    Sat ρ (b.raw id) ↔ ConnMeaning ρ b := by
  cases b <;> simp [CBody.isConn] at hb <;>
    simp only [CBody.raw, ConnMeaning, Sat, List.mem_singleton, forall_eq, Fml.eval]
  case not_ o => rw [evalAll_eq_Sat]; rfl
  case or_ os =>
    rw [evalAny_iff]
    constructor
    · rintro ⟨a, ha, hev⟩
      obtain ⟨o, ho, rfl⟩ := List.mem_map.1 ha
      exact ⟨o, ho, (orOperand_eval ρ o).1 hev⟩
    · rintro ⟨o, ho, h⟩
      exact ⟨orOperand o, List.mem_map.2 ⟨o, ho, rfl⟩, (orOperand_eval ρ o).2 h⟩
  case and_ os => exact evalAll_flatten ρ os
  case xor_ o1 o2 => rw [evalAll_eq_Sat, evalAll_eq_Sat]; rfl
  case implies c os => rw [evalAll_flatten]
  case ifThenElse c os1 os2 => rw [evalAll_flatten, evalAll_flatten]

/-- a mandatory connective asserts its meaning; an optional one asserts it under its applied flag -/
theorem C10_connective (c : Constr) (hb : c.body.isConn = true) (ρ : Env) :
    Sat ρ c.asserts ↔ ((c.optional = true → ρ.b (.applied c.id) = true) → ConnMeaning ρ c.body) := by
  have hd : c.body.direct = false := by cases hc : c.body <;> simp [hc, CBody.isConn] at hb <;> rfl
  unfold Constr.asserts
  by_cases ho : c.optional = true
  · simp only [ho, hd, Bool.not_false, Bool.and_self, if_true, true_implies]
    rw [← C10_connective_raw c.id c.body hb ρ]
    simp only [Sat, List.mem_map]
    constructor
    · intro h happ a ha
      have := h _ ⟨a, ha, rfl⟩
      simp only [Fml.eval] at this
      exact this happ
    · rintro h _ ⟨a, ha, rfl⟩
      simp only [Fml.eval]
      exact fun happ => h happ a ha
  · simp only [ho, Bool.false_and, Bool.false_eq_true, if_false, false_implies, true_implies]
    exact C10_connective_raw c.id c.body hb ρ

/-- **C10 (optional constraints).** For *every* constraint class that goes through
    `set_z3_assertions`: an optional constraint that is applied holds (its raw assertions are
    true); one that is not applied constrains nothing. -/
theorem C10_optional (c : Constr) (ho : c.optional = true) (hd : c.body.direct = false) (ρ : Env) :
    Sat ρ c.asserts ↔ (ρ.b (.applied c.id) = true → Sat ρ (c.body.raw c.id)) := by
  unfold Constr.asserts
  simp only [ho, hd, Bool.not_false, Bool.and_self, if_true]
  simp only [Sat, List.mem_map]
  constructor
  · intro h happ a ha
    have := h _ ⟨a, ha, rfl⟩
    simp only [Fml.eval] at this
    exact this happ
  · rintro h _ ⟨a, ha, rfl⟩
    simp only [Fml.eval]
    exact fun happ => h happ a ha

theorem C10_mandatory (c : Constr) (ho : c.optional = false) : c.asserts = c.body.raw c.id := by
  simp [Constr.asserts, ho]

/-- number of applied constraints among `cs` -/
def nApplied (ρ : Env) (cs : List Nat) : Nat := cs.countP (fun i => ρ.b (.applied i))

theorem count_applied (ρ : Env) (cs : List Nat) :
    Fml.count ρ (cs.map (fun i => Fml.bvar (.applied i))) = nApplied ρ cs := by
  unfold nApplied
  induction cs with
  | nil => simp [Fml.count]
  | cons i cs ih =>
      simp only [List.map_cons, Fml.count, ih, List.countP_cons, Fml.eval]
      by_cases h : ρ.b (.applied i) = true <;> simp [h, Nat.add_comm]

/-- **C10 (force-apply-N).** The number of applied constraints obeys the exact / min / max rule. -/
theorem C10_forceApplyN (id : Nat) (cs : List Nat) (n : Nat) (k : CountKind) (ρ : Env) :
    Sat ρ ((CBody.forceApplyN cs n k).raw id) ↔
      (match k with | .exact => nApplied ρ cs = n | .min => n ≤ nApplied ρ cs | .max => nApplied ρ cs ≤ n) := by
  simp only [CBody.raw, Sat, List.mem_singleton, forall_eq, pbFun]
  cases k <;> simp only [Fml.eval, count_applied]

/-- **C10 (no leak, part 1).** An assertion of `initialize` that comes from the constraint
    registry comes from a constraint that is *not* an operand: `initialize` is the concatenation of
    task / worker / indicator / work-amount / buffer / problem / objective formulas and of the
    assertions of the constraints with `operand = false` (`mem_initFmls_iff`). -/
theorem C10_no_leak (cfg : Config) (st : State) (a : Fml) (h : a ∈ initFmls cfg st) :
    (∃ c ∈ st.constrs, c.operand = false ∧ a ∈ c.asserts) ∨
    (∃ t ∈ st.tasks, a ∈ st.taskAsserts t ∨ a = t.horizonFml) ∨
    (∃ w ∈ st.workers, a ∈ noOverlapPairs w.name (st.busyOf w.name)) ∨
    (∃ i ∈ st.indicators, a ∈ i.asserts) ∨ (∃ t ∈ st.tasks, a ∈ workAmount st t) ∨
    (∃ b ∈ st.buffers, a ∈ bufferFmls st b) ∨ a ∈ st.problemAsserts ∨ a ∈ objectiveFmls cfg st := by
  rcases (mem_initFmls_iff cfg st a).1 h with h1 | h2 | h3 | h4 | h5 | h6 | h7 | h8
  · exact Or.inr (Or.inl h1)
  · exact Or.inr (Or.inr (Or.inl h2))
  · exact Or.inl h3
  · exact Or.inr (Or.inr (Or.inr (Or.inl h4)))
  · exact Or.inr (Or.inr (Or.inr (Or.inr (Or.inl h5))))
  · exact Or.inr (Or.inr (Or.inr (Or.inr (Or.inr (Or.inl h6)))))
  · exact Or.inr (Or.inr (Or.inr (Or.inr (Or.inr (Or.inr (Or.inl h7))))))
  · exact Or.inr (Or.inr (Or.inr (Or.inr (Or.inr (Or.inr (Or.inr h8))))))

/-- the constraint part of `initialize` is exactly the assertions of the non-operand constraints -/
theorem C10_constraint_part (cfg : Config) (st : State) (ρ : Env) (hρ : Sat ρ (initFmls cfg st)) :
    ∀ c ∈ st.constrs, c.operand = false → Sat ρ c.asserts :=
  fun _ hc hop a ha => hρ a (mem_init_constr hc hop ha)

/-- **C10 (no leak, part 2: over scripts).**  In every state a construction script can produce, a constraint
    that a later connective (Not / Or / And / Xor / Implies / IfThenElse, at any nesting depth) or force-apply rule
    refers to is marked as an operand (`C10_operands_marked`, by induction over the script), hence none of the
    assertions `initialize` takes from the constraint registry comes from it (`C10_no_leak`): it only counts
    through the combination. -/
theorem C10_operand_not_enforced (st : State) (hr : Reachable st) (c d : Constr)
    (hc : c ∈ st.constrs) (hd : d ∈ st.constrs) (href : d.id ∈ c.refs) (hlt : d.id < c.id) :
    d ∉ st.constrs.filter (fun x => !x.operand) := by
  have := (C10_operands_marked st hr).2 c hc d.id href d hd rfl hlt
  simp [this]

end PS
