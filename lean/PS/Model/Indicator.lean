/-
  PS.Model.Indicator — the assertions of each indicator class (indicator.py, and the helper
  indicators created by objective.py).
-/
import PS.Model.Encode
namespace PS

/-- `z3.Sum(list)`: the Python int 0 for an empty list, one n-ary `+` otherwise -/
def sumOrZero (l : List Term) : Term := if l.isEmpty then numT 0 else .sum l

/-- `cost(x)` for the non-constant cost functions (function.py) -/
def Cost.at (c : Cost) (x : Term) : Term :=
  match c with
  | .const k => numT k
  | .linear s i => .add (.mul (numT s) x) (numT i)
  | .poly cs =>
      match cs.reverse with
      | [] => numT 0
      | last :: restRev =>
          -- restRev = coefficients[len-2], …, coefficients[0]; powers x, x*x, …
          (restRev.foldl (fun (acc : Term × Term) c =>
              (if c != 0 then Term.add acc.1 (.mul (numT c) acc.2) else acc.1, Term.mul acc.2 x))
            (numT last, x)).1

/-- constant and variable cost terms of one (unit) resource, per busy interval -/
def costTerms (c : Cost) (busy : List BusyRef) : List Term × List Term :=
  match c with
  | .const k =>
      (busy.filterMap (fun b =>
        if k == 0 then none
        else if k == 1 then some (Term.sub b.e b.s)
        else some (Term.mul (numT k) (.sub b.e b.s))), [])
  | _ => ([], busy.map (fun b => Term.mul (.add (c.at b.s) (c.at b.e)) (.sub b.e b.s)))

def idleFmls (i : Nat) (busy : List BusyRef) (v : Term) : List Fml :=
  let n := busy.length
  let (ss, c1) := sortNoDup (fun k => .ifresh i k) (busy.map (·.s))
  let (se, c2) := sortNoDup (fun k => .ifresh i (n + k)) (busy.map (·.e))
  let diffs := (gapPairs ss se).map (fun (e, s) =>
    Term.ite (.and [.ge e (numT 0), .ge s (numT 0)]) (.sub s e) (numT 0))
  c1 ++ c2 ++ [.eq v (sumOrZero diffs)]

def IBody.fmls (i : Nat) (v : Term) : IBody → List Fml
  | .expr t extra => .eq v t :: extra
  | .utilization busy horizon =>
      let durs := busy.map (fun b => Term.sub b.e b.s)
      match horizon with
      | some h =>
          if durs.isEmpty then [.reqZero v]
          else [.eq v (.div (.mul (.sum durs) (numT 100)) (numT h))]
      | none =>
          if durs.isEmpty then [.eq v (.div (numT 0) (.var .horizon))]
          else [.eq v (.div (.mul (.sum durs) (numT 100)) (.var .horizon))]
  | .nbTasksAssigned busy =>
      [.eq v (sumOrZero (busy.map (fun b => Term.ite (.gt b.s (numT (-1))) (numT 1) (numT 0))))]
  | .tardiness ts =>
      [.eq v (sumOrZero (ts.map (fun t =>
        let d := numT (t.due.getD 0)
        Term.ite (.or [.le t.eVar d, .not t.schedF]) (numT 0) (.mul (.sub t.eVar d) (numT t.prio)))))]
  | .earliness ts =>
      [.eq v (sumOrZero (ts.map (fun t =>
        let d := numT (t.due.getD 0)
        Term.ite (.and [.ge (.sub d t.eVar) (numT 0), t.schedF]) (.sub d t.eVar) (numT 0))))]
  | .nbTardy ts =>
      [.eq v (sumOrZero (ts.map (fun t => Term.ite (.gt t.eVar (numT (t.due.getD 0))) (numT 1) (numT 0))))]
  | .maxLateness ts => getMaximum v (ts.map (fun t => Term.sub t.eVar (numT (t.due.getD 0))))
  | .resourceCost items =>
      let cs := items.flatMap (fun (c, busy) => (costTerms c busy).1)
      let vs := items.flatMap (fun (c, busy) => (costTerms c busy).2)
      if vs.isEmpty && cs.isEmpty then [.reqZero v]
      else if vs.isEmpty then [.reqSum v (.sum cs)]
      else if cs.isEmpty then [.eq v (.add (numT 0) (.div (.sum vs) (numT 2)))]
      else [.eq v (.add (.sum cs) (.div (.sum vs) (numT 2)))]
  | .idle busy => idleFmls i busy v
  | .maxBuffer levels => getMaximum v levels
  | .minBuffer levels => getMinimum v levels
  | .residue => []
  | .partial_ fs => fs

/-- the defining term of the indicators whose assertions are the single equation `indicator = T`
    (`defTerm_fmls` below: kept in step with `IBody.fmls` by that proof) -/
def IBody.defTerm : IBody → Option Term
  | .expr t [] => some t
  | .utilization busy (some h) =>
      if (busy.map (fun b => Term.sub b.e b.s)).isEmpty then none
      else some (.div (.mul (.sum (busy.map (fun b => Term.sub b.e b.s))) (numT 100)) (numT h))
  | .nbTasksAssigned busy =>
      some (sumOrZero (busy.map (fun b => Term.ite (.gt b.s (numT (-1))) (numT 1) (numT 0))))
  | .tardiness ts =>
      some (sumOrZero (ts.map (fun t =>
        let d := numT (t.due.getD 0)
        Term.ite (.or [.le t.eVar d, .not t.schedF]) (numT 0) (.mul (.sub t.eVar d) (numT t.prio)))))
  | .earliness ts =>
      some (sumOrZero (ts.map (fun t =>
        let d := numT (t.due.getD 0)
        Term.ite (.and [.ge (.sub d t.eVar) (numT 0), t.schedF]) (.sub d t.eVar) (numT 0))))
  | .nbTardy ts =>
      some (sumOrZero (ts.map (fun t => Term.ite (.gt t.eVar (numT (t.due.getD 0))) (numT 1) (numT 0))))
  | _ => none

theorem IBody.defTerm_fmls (b : IBody) (i : Nat) (v T : Term) (h : b.defTerm = some T) :
    b.fmls i v = [.eq v T] := by
  cases b with
  | expr t extra =>
      cases extra with
      | nil => simp only [IBody.defTerm, Option.some.injEq] at h; subst h; rfl
      | cons x xs => simp [IBody.defTerm] at h
  | utilization busy horizon =>
      cases horizon with
      | none => simp [IBody.defTerm] at h
      | some hh =>
          simp only [IBody.defTerm] at h
          split at h
          · simp at h
          · rename_i hne
            simp only [Option.some.injEq] at h; subst h
            simp only [IBody.fmls, hne, Bool.false_eq_true, if_false]
  | nbTasksAssigned busy => simp only [IBody.defTerm, Option.some.injEq] at h; subst h; rfl
  | tardiness ts => simp only [IBody.defTerm, Option.some.injEq] at h; subst h; rfl
  | earliness ts => simp only [IBody.defTerm, Option.some.injEq] at h; subst h; rfl
  | nbTardy ts => simp only [IBody.defTerm, Option.some.injEq] at h; subst h; rfl
  | _ => simp [IBody.defTerm] at h

/-- `indicator._z3_assertions` -/
def Indicator.asserts (ind : Indicator) : List Fml := ind.body.fmls ind.id (.var ind.var)

end PS
