/-
  PS.Model.Types — the registries of a `SchedulingProblem` and the private fields the
  encoders read, as plain structures.  Mirrors processscheduler/{problem,task,resource,
  constraint,buffer,indicator,objective}.py.  Core Lean only.
-/
import PS.Smt
import PS.SmtPrint
namespace PS

inductive CountKind where | exact | min | max
  deriving DecidableEq, Repr, Inhabited

inductive OrdKind where | lax | strict | tight
  deriving DecidableEq, Repr, Inhabited

/-- the three task classes with their own parameters -/
inductive TaskKind where
  | fixed (d : Int)
  | zero
  | var (minD : Int) (maxD : Option Int) (allowed : Option (List Int))
  deriving Repr, Inhabited

/-- cost functions (integer coefficients only; floats are outside the modelled fragment) -/
inductive Cost where
  | const (k : Int)
  | linear (slope intercept : Int)
  | poly (coeffs : List Int)
  deriving Repr, Inhabited

/-- one entry of `task._required_resources`, with what `add_required_resource` was told -/
structure Req where
  worker : String
  maybe : Bool            -- busy interval named `_maybe_busy_` (came through a selection)
  sel : Option Nat        -- the selection it came through
  dynamic : Bool
  delayIn : Int
  earlyOut : Int
  past : Int              -- the "unique negative integer" where an unselected worker is parked
  deriving Repr, Inhabited

structure Task where
  name : String
  num : Nat               -- `_task_number`: 1-based creation index
  kind : TaskKind
  optional : Bool
  work : Int
  release : Option Int
  due : Option Int
  deadline : Bool
  prio : Int
  asserts : List Fml      -- `_z3_assertions`, in append order
  reqs : List Req         -- `_required_resources`, in append order
  deriving Inhabited

structure Worker where
  name : String
  prod : Int
  cost : Cost
  busy : List (String × Bool)    -- `_busy_intervals`: insertion-ordered, keyed by task; Bool = maybe
  cumulOf : Option String        -- unit of that cumulative worker
  deriving Inhabited

structure Cumul where
  name : String
  size : Nat
  units : List String
  deriving Inhabited

structure Select where
  id : Nat
  name : Option String
  workers : List String
  n : Nat
  kind : CountKind
  deriving Inhabited

/-- a registered constraint: what `initialize` and the connectives read -/
structure Constr where
  id : Nat
  name : Option String        -- explicit name, if any (auto-generated names are printed `%n<id>%`)
  cls : String                -- Python class name
  optional : Bool
  operand : Bool              -- `_created_from_assertion`
  asserts : List Fml
  deriving Inhabited

structure Buffer where
  name : String
  concurrent : Bool
  initial : Option Int
  final : Option Int
  lb : Option Int
  ub : Option Int
  unloading : List (String × Int)     -- task, quantity  (dict: overwrite keeps position)
  loading : List (String × Int)
  accesses : List String              -- tasks in order of `_level_changes_time` / `_buffer_levels[1:]`
  asserts : List Fml
  deriving Inhabited

structure Indicator where
  id : Nat
  name : String               -- the *reported* name (after the subclass renamed itself)
  var : IVar                  -- `_indicator_variable`
  bounds : Option (Int × Int)
  asserts : List Fml
  deriving Inhabited

structure Objective where
  name : String
  target : IVar               -- `_target`
  bounds : Option (Int × Int)
  weight : Int
  maximize : Bool
  deriving Inhabited

/-- Python exception classes the harness distinguishes -/
inductive Err where
  | validation      -- pydantic ValidationError
  | value           -- ValueError
  | type_           -- TypeError
  | assertion       -- AssertionError
  | attribute       -- AttributeError
  | key             -- KeyError
  | other
  deriving DecidableEq, Repr, Inhabited

def Err.print : Err → String
  | .validation => "ValidationError"
  | .value => "ValueError"
  | .type_ => "TypeError"
  | .assertion => "AssertionError"
  | .attribute => "AttributeError"
  | .key => "KeyError"
  | .other => "Other"

structure State where
  active : Bool := false
  pname : String := ""
  horizon : Option Int := none
  tasks : List Task := []
  workers : List Worker := []
  cumuls : List Cumul := []
  selects : List Select := []
  constrs : List Constr := []
  indicators : List Indicator := []
  objectives : List Objective := []
  buffers : List Buffer := []
  passerts : List Fml := []       -- the problem's own assertions
  uniq : Int := -1                -- `_unique_integer`
  nfresh : Nat := 0               -- z3.FreshInt counter (only the relative order matters)
  nuid : Nat := 0                 -- counter for uuid-named auxiliary variables
  nobj : Nat := 0                 -- objects created (for auto-generated names)
  deriving Inhabited

namespace State

def findTask (st : State) (n : String) : Option Task := st.tasks.find? (·.name == n)
def findWorker (st : State) (n : String) : Option Worker := st.workers.find? (·.name == n)
def findCumul (st : State) (n : String) : Option Cumul := st.cumuls.find? (·.name == n)
def findSelect (st : State) (i : Nat) : Option Select := st.selects.find? (·.id == i)
def findConstr (st : State) (i : Nat) : Option Constr := st.constrs.find? (·.id == i)
def findBuffer (st : State) (n : String) : Option Buffer := st.buffers.find? (·.name == n)
def findIndicator (st : State) (i : Nat) : Option Indicator := st.indicators.find? (·.id == i)

/-- apply `f` to the task named `n` -/
def updTask (st : State) (n : String) (f : Task → Task) : State :=
  { st with tasks := st.tasks.map (fun t => if t.name == n then f t else t) }

def updWorker (st : State) (n : String) (f : Worker → Worker) : State :=
  { st with workers := st.workers.map (fun w => if w.name == n then f w else w) }

def updConstr (st : State) (i : Nat) (f : Constr → Constr) : State :=
  { st with constrs := st.constrs.map (fun c => if c.id == i then f c else c) }

def updBuffer (st : State) (n : String) (f : Buffer → Buffer) : State :=
  { st with buffers := st.buffers.map (fun b => if b.name == n then f b else b) }

def updIndicator (st : State) (i : Nat) (f : Indicator → Indicator) : State :=
  { st with indicators := st.indicators.map (fun c => if c.id == i then f c else c) }

end State

/-! ### Variables of a task / a busy interval -/

def Task.sVar (t : Task) : Term := .var (.tStart t.name)
def Task.eVar (t : Task) : Term := .var (.tEnd t.name)
def Task.dVar (t : Task) : Term := .var (.tDur t.name)
/-- `task._scheduled`: a z3 Bool for an optional task, Python `True` otherwise -/
def Task.schedF (t : Task) : Fml := if t.optional then .bvar (.sched t.name) else .tt

def bS (w t : String) (m : Bool) : Term := .var (.busyS w t m)
def bE (w t : String) (m : Bool) : Term := .var (.busyE w t m)

/-- Python dict assignment `d[k] = v` on an insertion-ordered association list of keys -/
def dictSet (l : List (String × Bool)) (k : String) (v : Bool) : List (String × Bool) :=
  if l.any (·.1 == k) then l.map (fun e => if e.1 == k then (k, v) else e) else l ++ [(k, v)]

def dictSetI (l : List (String × Int)) (k : String) (v : Int) : List (String × Int) :=
  if l.any (·.1 == k) then l.map (fun e => if e.1 == k then (k, v) else e) else l ++ [(k, v)]

end PS
