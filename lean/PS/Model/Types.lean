/-
  PS.Model.Types — a *resolved, declarative* description of what a construction script has
  registered in a `SchedulingProblem` (problem.py, task.py, resource.py, constraint.py,
  buffer.py, indicator.py, objective.py).

  Design: the state holds structured data only (static parameters, a chronological log of
  `add_required_resource` calls, constraint bodies with their references already resolved);
  every z3 assertion list of the library is a *pure function* of that data
  (PS.Model.Encode), so "the timing formulas of task t are asserted" is true by definition
  and needs no invariant.  Core Lean only.
-/
import PS.Smt
import PS.SmtPrint
namespace PS

inductive CountKind where | exact | min | max
  deriving DecidableEq, Repr, Inhabited

inductive OrdKind where | lax | strict | tight
  deriving DecidableEq, Repr, Inhabited

/-- the three task classes with their own parameters -/
inductive TaskKind where
  | fixed (d : Int)
  | zero
  | var (minD : Int) (maxD : Option Int) (allowed : Option (List Int))
  deriving Repr, Inhabited

/-- cost functions (integer coefficients only; floats are outside the modelled fragment) -/
inductive Cost where
  | const (k : Int)
  | linear (slope intercept : Int)
  | poly (coeffs : List Int)
  deriving Repr, Inhabited

/-- a task: static parameters only -/
structure Task where
  name : String
  num0 : Nat              -- `_task_number - 1`: 0-based creation index
  kind : TaskKind
  optional : Bool
  work : Int
  release : Option Int
  due : Option Int
  deadline : Bool
  prio : Int
  deriving Repr, Inhabited

structure Worker where
  name : String
  prod : Int
  cost : Cost
  cumulOf : Option String        -- unit of that cumulative worker
  deriving Repr, Inhabited

structure Cumul where
  name : String
  size : Nat
  units : List String
  deriving Repr, Inhabited

structure Select where
  id : Nat
  name : Option String
  workers : List String
  n : Nat
  kind : CountKind
  deriving Repr, Inhabited

/-- one worker made busy by one `add_required_resource` call -/
structure Req where
  worker : String
  maybe : Bool            -- busy interval named `_maybe_busy_` (came through a selection)
  sel : Option Nat        -- the selection it came through
  dynamic : Bool
  delayIn : Int
  earlyOut : Int
  past0 : Nat             -- an unselected worker is parked at `-(past0 + 2)` ("unique negative integer")
  deriving Repr, Inhabited

/-- one `add_required_resource` call, as executed -/
inductive ReqEvent where
  | direct (task : String) (r : Req)
  /-- through a selection: one `If(selected, …)` per listed worker, then the count assertion
      (`withCount = false` only in the residue of a call that raised on a duplicate assertion) -/
  | viaSelect (task : String) (s : Select) (rs : List Req) (withCount : Bool)
  deriving Repr, Inhabited

def ReqEvent.task : ReqEvent → String
  | .direct t _ => t
  | .viaSelect t _ _ _ => t

def ReqEvent.reqs : ReqEvent → List Req
  | .direct _ r => [r]
  | .viaSelect _ _ rs _ => rs

/-- a busy interval as seen by a resource constraint / indicator at its creation -/
structure BusyRef where
  worker : String
  task : String
  maybe : Bool
  deriving Repr, Inhabited, DecidableEq

/-- constraint bodies, references resolved -/
inductive CBody where
  | startAt (t : Task) (v : Int)
  | startAfter (t : Task) (v : Int) (strict : Bool)
  | endAt (t : Task) (v : Int)
  | endBefore (t : Task) (v : Int) (strict : Bool)
  | precedence (before after : Task) (offset : Int) (kind : OrdKind)
  | startSynced (t1 t2 : Task)
  | endSynced (t1 t2 : Task)
  | dontOverlap (t1 t2 : Task)
  | contiguous (ts : List Task)
  | unorderedGroup (ts : List Task) (window : Option (Int × Int)) (len : Int)
  | orderedGroup (ts : List Task) (window : Option (Int × Int)) (len : Int) (kind : OrdKind)
  | scheduleN (ts : List Task) (n : Nat) (intervals : List (Int × Int)) (kind : CountKind)
  | forceSchedule (t : Task) (b : Bool)
  | conditionSchedule (t : Task) (cond : Fml)
  | dependency (t1 t2 : Task)
  | forceScheduleN (ts : List Task) (n : Nat) (kind : CountKind)
  | fromExpr (f : Fml)
  | forceApplyN (cs : List Nat) (n : Nat) (kind : CountKind)
  /-- connectives: every operand is the list of assertions of the constraint (or the single raw
      expression) it stands for -/
  | not_ (o : List Fml)
  | or_ (os : List (List Fml))
  | and_ (os : List (List Fml))
  | xor_ (o1 o2 : List Fml)
  | implies (cond : Fml) (os : List (List Fml))
  | ifThenElse (cond : Fml) (os1 os2 : List (List Fml))
  /-- resource constraints, with the busy intervals that existed when they were created -/
  | unavailable (busy : List BusyRef) (intervals : List (Int × Int))
  | workload (busy : List BusyRef) (intervals : List ((Int × Int) × Int)) (kind : CountKind)
  | nonDelay (busy : List BusyRef)
  | distance (busy : List BusyRef) (d : Int) (intervals : Option (List (Int × Int))) (mode : CountKind)
  /-- one entry per (unit) worker: its busy intervals with the task each belongs to -/
  | interrupted (ws : List (List (BusyRef × Task))) (intervals : List (Int × Int))
  | periodicallyUnavailable (busy : List BusyRef) (intervals : List (Int × Int)) (period start offset : Int)
      (end_ : Option Int)
  /-- the busy intervals of the (plain) worker with the task each belongs to -/
  | periodicallyInterrupted (busy : List (BusyRef × Task)) (intervals : List (Int × Int)) (period start offset : Int)
      (end_ : Option Int)
  | sameWorkers (s1 s2 : Select)
  | distinctWorkers (s1 s2 : Select)
  | unloadBuffer (t : Task) (b : String) (q : Int)
  | loadBuffer (t : Task) (b : String) (q : Int)
  | indicatorTarget (v : IVar) (value : Int)
  | indicatorBounds (v : IVar) (lo hi : Option Int)
  /-- registered by `Constraint.__init__`, then the subclass constructor raised -/
  | residue
  /-- … raised on a duplicate assertion after having appended these formulas -/
  | partial_ (fs : List Fml)
  deriving Inhabited

structure Constr where
  id : Nat
  name : Option String        -- explicit name, if any
  cls : String                -- Python class name
  optional : Bool
  operand : Bool              -- `_created_from_assertion`
  body : CBody
  refs : List Nat := []       -- ids of the constraints this one used as operands
  deriving Inhabited

structure Buffer where
  name : String
  concurrent : Bool
  initial : Option Int
  final : Option Int
  lb : Option Int
  ub : Option Int
  deriving Repr, Inhabited

/-- indicator bodies -/
inductive IBody where
  | expr (t : Term) (extra : List Fml)          -- IndicatorFromMathExpression (+ helper assertions)
  | utilization (busy : List BusyRef) (horizon : Option Int)
  | nbTasksAssigned (busy : List BusyRef)
  | tardiness (ts : List Task)
  | earliness (ts : List Task)
  | nbTardy (ts : List Task)
  | maxLateness (ts : List Task)
  | resourceCost (items : List (Cost × List BusyRef))
  | idle (busy : List BusyRef)
  | maxBuffer (levels : List Term)
  | minBuffer (levels : List Term)
  | residue
  | partial_ (fs : List Fml)      -- raised on a duplicate assertion after having appended these
  deriving Inhabited

structure Indicator where
  id : Nat
  key : Option String := none   -- the name it is registered under (`none` = auto-generated)
  name : String               -- the *reported* name (after the subclass renamed itself)
  var : IVar                  -- `_indicator_variable`
  bounds : Option (Int × Int)
  body : IBody
  deriving Inhabited

structure Objective where
  name : String
  target : Term               -- `_target`
  bounds : Option (Int × Int)
  weight : Int
  maximize : Bool
  deriving Inhabited

/-- Python exception classes the harness distinguishes -/
inductive Err where
  | validation | value | type_ | assertion | attribute | key | other
  deriving DecidableEq, Repr, Inhabited

def Err.print : Err → String
  | .validation => "ValidationError"
  | .value => "ValueError"
  | .type_ => "TypeError"
  | .assertion => "AssertionError"
  | .attribute => "AttributeError"
  | .key => "KeyError"
  | .other => "Other"

structure State where
  active : Bool := false
  pname : String := ""
  horizon : Option Int := none
  tasks : List Task := []
  workers : List Worker := []
  cumuls : List Cumul := []
  selects : List Select := []
  reqLog : List ReqEvent := []    -- every `add_required_resource` call, chronological
  constrs : List Constr := []
  indicators : List Indicator := []
  objectives : List Objective := []
  buffers : List Buffer := []
  nPast : Nat := 0                -- "unique negative integers" handed out so far
  deriving Inhabited

namespace State

def findTask (st : State) (n : String) : Option Task := st.tasks.find? (·.name == n)
def findWorker (st : State) (n : String) : Option Worker := st.workers.find? (·.name == n)
def findCumul (st : State) (n : String) : Option Cumul := st.cumuls.find? (·.name == n)
def findSelect (st : State) (i : Nat) : Option Select := st.selects.find? (·.id == i)
def findConstr (st : State) (i : Nat) : Option Constr := st.constrs.find? (·.id == i)
def findBuffer (st : State) (n : String) : Option Buffer := st.buffers.find? (·.name == n)
def findIndicator (st : State) (i : Nat) : Option Indicator := st.indicators.find? (·.id == i)

/-- the `add_required_resource` calls of one task, in order -/
def eventsOf (st : State) (t : String) : List ReqEvent := st.reqLog.filter (·.task == t)

/-- `task._required_resources` -/
def reqsOf (st : State) (t : String) : List Req := (st.eventsOf t).flatMap (·.reqs)

end State

/-- Python dict assignment `d[k] = v` on an insertion-ordered list of (key, value) -/
def dictSet {β} (l : List (String × β)) (k : String) (v : β) : List (String × β) :=
  if l.any (·.1 == k) then l.map (fun e => if e.1 == k then (k, v) else e) else l ++ [(k, v)]

/-- `worker._busy_intervals`: keyed by task, insertion ordered, later calls overwrite -/
def State.busyOf (st : State) (w : String) : List (String × Bool) :=
  st.reqLog.foldl (fun acc ev =>
    ev.reqs.foldl (fun acc r => if r.worker == w then dictSet acc ev.task r.maybe else acc) acc) []

def State.busyRefs (st : State) (w : String) : List BusyRef :=
  (st.busyOf w).map (fun e => { worker := w, task := e.1, maybe := e.2 })

/-! ### Variables of a task / a busy interval -/

def Task.sVar (t : Task) : Term := .var (.tStart t.name)
def Task.eVar (t : Task) : Term := .var (.tEnd t.name)
def Task.dVar (t : Task) : Term := .var (.tDur t.name)
/-- `task._scheduled`: a z3 Bool for an optional task, Python `True` otherwise -/
def Task.schedF (t : Task) : Fml := if t.optional then .bvar (.sched t.name) else .tt

def bS (w t : String) (m : Bool) : Term := .var (.busyS w t m)
def bE (w t : String) (m : Bool) : Term := .var (.busyE w t m)
def BusyRef.s (b : BusyRef) : Term := bS b.worker b.task b.maybe
def BusyRef.e (b : BusyRef) : Term := bE b.worker b.task b.maybe

end PS
