/-
  PS.Model.Solution — `SchedulingSolver.build_solution` (solver.py:492-628) and
  `clean_buffer_levels` (util.py:129-152): the object graph and a z3 model ↦ SchedulingSolution.
  Calendar times are modelled as integer seconds: `start_time + k·delta_time`.
-/
import PS.Model.Initialize
import PS.Sexp
namespace PS

structure TaskSol where
  name : String
  type_ : String
  start : Int
  end_ : Int
  duration : Int
  optional : Bool
  scheduled : Bool
  release : Option Int
  due : Option Int
  deadline : Bool
  work : Int
  prio : Int
  assigned : List String
  startTime : Option Int := none      -- seconds since the epoch (or since 0 without start_time)
  endTime : Option Int := none
  durationTime : Option Int := none
  deriving Repr, Inhabited

structure ResSol where
  name : String
  type_ : String
  assignments : List (String × Int × Int)
  deriving Repr, Inhabited

structure BufSol where
  name : String
  levels : List Int
  times : List Int
  deriving Repr, Inhabited

structure Solution where
  horizon : Int
  tasks : List TaskSol
  resources : List ResSol
  buffers : List BufSol
  indicators : List (String × Int)
  deriving Repr, Inhabited

/-- calendar settings of the problem: `delta_time` (seconds) and `start_time` (seconds) -/
structure Calendar where
  delta : Option Int := none
  t0 : Option Int := none
  deriving Inhabited

def TaskKind.typeName : TaskKind → String
  | .fixed _ => "FixedDurationTask"
  | .zero => "ZeroDurationTask"
  | .var .. => "VariableDurationTask"

/-- the name a worker is reported under: its cumulative worker's name for a unit -/
def Worker.reportName (w : Worker) : String := w.cumulOf.getD w.name

/-- `clean_buffer_levels`: keep the level of the first occurrence of each change time -/
def cleanBufferLevels (levels : List Int) (times : List Int) : List Int × List Int :=
  match levels with
  | [] => ([], [])
  | first :: rest =>
      let r := (rest.zip times).foldl (fun (acc : List Int × List Int) (p : Int × Int) =>
        if acc.2.contains p.2 then acc else (acc.1 ++ [p.1], acc.2 ++ [p.2])) ([], [])
      (first :: r.1, r.2)

def taskSol (st : State) (ρ : Env) (cal : Calendar) (t : Task) : TaskSol :=
  let start := ρ.i (.tStart t.name)
  let end_ := ρ.i (.tEnd t.name)
  let duration := match t.kind with
    | .fixed d => d
    | .zero => 0
    | .var .. => ρ.i (.tDur t.name)
  let scheduled := if t.optional then ρ.b (.sched t.name) else true
  -- process resource assignments
  let assigned := (st.reqsOf t.name).foldl (fun (acc : List String) r =>
    match st.findWorker r.worker with
    | none => acc
    | some w =>
      if ρ.i (.busyS w.name t.name (st.busyFlag w.name t.name r.maybe)) ≥ 0 && !acc.contains w.name && !acc.contains w.reportName
      then acc ++ [w.reportName] else acc) []
  let durationTime := cal.delta.map (fun d => duration * d)
  let startTime := cal.delta.map (fun d => (cal.t0.getD 0) + start * d)
  let endTime := match startTime, durationTime with | some s, some d => some (s + d) | _, _ => none
  { name := t.name, type_ := t.kind.typeName, start, end_, duration, optional := t.optional, scheduled,
    release := t.release, due := t.due, deadline := t.deadline, work := t.work, prio := t.prio, assigned,
    startTime, endTime, durationTime }

/-- assignments one worker contributes (solver.py:582-592), appended to what is already listed
    under the reported name -/
def workerAssignments (st : State) (ρ : Env) (w : Worker) (already : List (String × Int × Int)) : List (String × Int × Int) :=
  (st.busyOf w.name).foldl (fun acc e =>
    let s := ρ.i (.busyS w.name e.1 e.2)
    let en := ρ.i (.busyE w.name e.1 e.2)
    if s ≥ 0 && en ≥ 0 && !acc.contains (e.1, s, en) then acc ++ [(e.1, s, en)] else acc) already

def resourceSols (st : State) (ρ : Env) : List ResSol :=
  st.workers.foldl (fun (acc : List ResSol) w =>
    let nm := w.reportName
    match acc.find? (·.name == nm) with
    | some r =>
        if w.cumulOf.isSome then
          acc.map (fun x => if x.name == nm then { x with assignments := workerAssignments st ρ w x.assignments } else x)
        else
          -- a plain worker with the name of an existing entry replaces it (dict assignment)
          acc.map (fun x => if x.name == nm then { name := nm, type_ := "Worker", assignments := workerAssignments st ρ w [] } else x)
    | none => acc ++ [{ name := nm, type_ := "Worker", assignments := workerAssignments st ρ w [] }]) []

def bufferSol (st : State) (ρ : Env) (b : Buffer) : BufSol :=
  let acc := st.bufAccesses b.name
  let levels := (b.levelVars acc).map (fun t => t.evalB ρ)
  let times := (b.timeVars acc).map (fun t => t.evalB ρ)
  let r := cleanBufferLevels levels times
  { name := b.name, levels := r.1, times := r.2 }

def dictSetI (l : List (String × Int)) (k : String) (v : Int) : List (String × Int) :=
  if l.any (·.1 == k) then l.map (fun e => if e.1 == k then (k, v) else e) else l ++ [(k, v)]

/-- `build_solution` -/
def buildSolution (st : State) (ρ : Env) (cal : Calendar) : Solution :=
  { horizon := match st.horizon with | some h => h | none => ρ.i .horizon
    tasks := st.tasks.map (taskSol st ρ cal)
    resources := resourceSols st ρ
    buffers := st.buffers.map (bufferSol st ρ)
    indicators := st.indicators.foldl (fun acc i => dictSetI acc i.name (ρ.i i.var)) [] }

/-! ### canonical printing for the SOL channel -/

def optI : Option Int → String
  | some v => toString v
  | none => "none"

def TaskSol.print (t : TaskSol) : String :=
  "task " ++ Sexp.quote t.name ++ " " ++ t.type_ ++ " " ++ toString t.start ++ " " ++ toString t.end_ ++ " " ++
  toString t.duration ++ " " ++ toString t.optional ++ " " ++ toString t.scheduled ++ " " ++ optI t.release ++ " " ++
  optI t.due ++ " " ++ toString t.deadline ++ " " ++ toString t.work ++ " " ++ toString t.prio ++ " [" ++
  " ".intercalate (t.assigned.map Sexp.quote) ++ "] " ++ optI t.startTime ++ " " ++ optI t.endTime ++ " " ++ optI t.durationTime

def ResSol.print (r : ResSol) : String :=
  "res " ++ Sexp.quote r.name ++ " " ++ r.type_ ++ " [" ++
  " ".intercalate (r.assignments.map (fun a => "(" ++ Sexp.quote a.1 ++ " " ++ toString a.2.1 ++ " " ++ toString a.2.2 ++ ")")) ++ "]"

def BufSol.print (b : BufSol) : String :=
  "buf " ++ Sexp.quote b.name ++ " [" ++ " ".intercalate (b.levels.map toString) ++ "] [" ++
  " ".intercalate (b.times.map toString) ++ "]"

def Solution.print (s : Solution) : List String :=
  ["horizon " ++ toString s.horizon] ++ s.tasks.map (·.print) ++ s.resources.map (·.print) ++
  s.buffers.map (·.print) ++ s.indicators.map (fun i => "ind " ++ Sexp.quote i.1 ++ " " ++ toString i.2)

end PS
