/-
  PS.Model.Encode — the formulas each constructor of the library builds, as pure functions
  of the resolved description.  One definition per Python code path; comments name the
  source they mirror.
-/
import PS.Model.Types
namespace PS

def numT (n : Int) : Term := .num n

/-- pseudo-boolean count over a list of Booleans (`z3.PbEq/PbGe/PbLe` with unit weights) -/
def pbFun (k : CountKind) (l : List Fml) (n : Nat) : Fml :=
  match k with
  | .exact => .pbEq l n
  | .min => .atLeast l n
  | .max => .atMost l n

/-! ### Tasks (task.py) -/

/-- `Task.__init__`: release date (only if > 0) and deadline -/
def Task.releaseDue (t : Task) : List Fml :=
  (match t.release with
   | some r => if r > 0 then [Fml.ge t.sVar (numT r)] else []
   | none => []) ++
  (match t.due with
   | some d => if t.deadline then [Fml.le t.eVar (numT d)] else []
   | none => [])

/-- the list handed to `set_assertions` by the three subclasses -/
def Task.baseList (t : Task) : List Fml :=
  match t.kind with
  | .fixed d => [.eq (.sub t.eVar t.sVar) (numT d), .ge t.sVar (numT 0)]
  | .zero => [.eq t.sVar t.eVar, .ge t.sVar (numT 0)]
  | .var minD maxD allowed =>
      [.eq (.add t.sVar t.dVar) t.eVar, .ge t.sVar (numT 0), .ge t.dVar (numT minD)] ++
      (match allowed with
       | some ds => [Fml.or (ds.map (fun d => Fml.eq t.dVar (numT d)))]
       | none => []) ++
      (match maxD with
       | some m => [Fml.le t.dVar (numT m)]
       | none => [])

def Task.isVar (t : Task) : Bool := match t.kind with | .var .. => true | _ => false

/-- where an unscheduled optional task is parked: `-task_number` -/
def Task.pastPoint (t : Task) : Int := - ((t.num0 : Int) + 1)

def Task.notScheduled (t : Task) : Fml :=
  .and ([.eq t.sVar (numT t.pastPoint), .eq t.eVar (numT t.pastPoint)] ++
        (if t.isVar then [.eq t.dVar (numT 0)] else []))

/-- the list `set_assertions` works on: release date and deadline, then the type-specific assertions -/
def Task.guarded (t : Task) : List Fml := t.releaseDue ++ t.baseList

/-- `Task.set_assertions` -/
def Task.setAssertions (t : Task) : List Fml :=
  if t.optional then [.ite (.bvar (.sched t.name)) (.and t.guarded) t.notScheduled]
  else t.guarded

/-- everything a freshly created task asserts -/
def Task.initAsserts (t : Task) : List Fml := t.setAssertions

/-! ### Resources (resource.py, task.py:add_required_resource) -/

/-- `_distribute_p_over_n` -/
def distribute (p : Int) (n : Nat) : List Int :=
  match n with
  | 0 => []
  | k + 1 => (p / (n : Int) + p % (n : Int)) :: List.replicate k (p / (n : Int))

def unitName (c : String) (i : Nat) : String := c ++ "_CumulativeWorker_" ++ toString (i + 1)

def Select.flags (s : Select) : List Fml := s.workers.map (fun w => Fml.bvar (.sel s.id w))

/-- `SelectWorkers._selection_assertion` -/
def Select.assertion (s : Select) : Fml := pbFun s.kind s.flags s.n

def Req.past (r : Req) : Int := - ((r.past0 : Int) + 2)

/-- the formula(s) one required worker adds to its task -/
def Req.fmls (t : Task) (r : Req) : List Fml :=
  match r.sel with
  | some s =>
      [.ite (.bvar (.sel s r.worker))
        (.and [.eq (bS r.worker t.name true) t.sVar, .eq (bE r.worker t.name true) t.eVar])
        (.and [.eq (bS r.worker t.name true) (numT r.past), .eq (bE r.worker t.name true) (numT r.past)])]
  | none =>
      if r.dynamic then
        [.le (bE r.worker t.name false) t.eVar, .ge (bS r.worker t.name false) t.sVar,
         .le (bS r.worker t.name false) (bE r.worker t.name false)]
      else
        [if r.earlyOut > 0 then .eq (bE r.worker t.name false) (.sub t.eVar (numT r.earlyOut))
         else .eq (bE r.worker t.name false) t.eVar,
         if r.delayIn > 0 then .eq (bS r.worker t.name false) (.add t.sVar (numT r.delayIn))
         else .eq (bS r.worker t.name false) t.sVar]

def ReqEvent.fmls (t : Task) : ReqEvent → List Fml
  | .direct _ r => r.fmls t
  | .viaSelect _ s rs withCount => rs.flatMap (·.fmls t) ++ (if withCount then [s.assertion] else [])

/-- `task._z3_assertions` -/
def State.taskAsserts (st : State) (t : Task) : List Fml :=
  t.initAsserts ++ (st.eventsOf t.name).flatMap (·.fmls t)

/-! ### helpers shared by constraints and indicators (util.py) -/

/-- `sort_no_duplicates`: fresh `a_i`, each equal to one of the inputs, strictly increasing -/
def sortNoDup (fresh : Nat → IVar) (xs : List Term) : List Term × List Fml :=
  let n := xs.length
  let a := (List.range n).map (fun i => Term.var (fresh i))
  let cs := a.map (fun ai => Fml.or (xs.map (fun x => Fml.eq ai x)))
  let inc := Fml.and ((List.range (n - 1)).map (fun i => Fml.lt (a.getD i default) (a.getD (i + 1) default)))
  (a, cs ++ [inc])

def getMaximum (m : Term) (xs : List Term) : List Fml :=
  Fml.or (xs.map (fun x => Fml.eq m x)) :: xs.map (fun x => Fml.ge m x)

def getMinimum (m : Term) (xs : List Term) : List Fml :=
  Fml.or (xs.map (fun x => Fml.eq m x)) :: xs.map (fun x => Fml.le m x)

/-! ### Constraints (task_constraint.py, resource_constraint.py, first_order_logic.py, constraint.py) -/

/-- guard used by the one-task constraints -/
def guard1 (t : Task) (f : Fml) : Fml := if t.optional then .imp (.bvar (.sched t.name)) f else f

/-- guard used by the two-task constraints: `Implies(And(s1, s2), f)` if either is optional -/
def guard2 (t1 t2 : Task) (f : Fml) : Fml :=
  if t1.optional || t2.optional then .imp (.and [t1.schedF, t2.schedF]) f else f

def ordRel (k : OrdKind) (a b : Term) : Fml :=
  match k with
  | .lax => .le a b
  | .strict => .lt a b
  | .tight => .eq a b

/-- `TaskGroup.__init__` : the list `_scheduled_assertion` -/
def groupBase (c : Nat) (ts : List Task) (window : Option (Int × Int)) (len : Int) : List Fml :=
  let gS := Term.var (.grpS c)
  let gE := Term.var (.grpE c)
  (match window with
   | some (lo, hi) => [Fml.ge gS (numT lo), Fml.le gE (numT hi)]
   | none => [Fml.le gE (.add gS (numT len))]) ++
  ts.flatMap (fun t => [Fml.ge t.sVar gS, Fml.le t.eVar gE])

def consecutive (k : OrdKind) : List Task → List Fml
  | a :: b :: rest => ordRel k a.eVar b.sVar :: consecutive k (b :: rest)
  | _ => []

/-- the gap conditions shared by TasksContiguous / ResourceNonDelay / ResourceTasksDistance /
    IndicatorResourceIdle: pairs `(sorted_ends[i-1], sorted_starts[i])`, `i = 1 .. n-1` -/
def gapPairs (ss se : List Term) : List (Term × Term) :=
  (List.range (ss.length - 1)).map (fun i => (se.getD i default, ss.getD (i + 1) default))

/-- ScheduleNTasksInTimeIntervals: formulas for one (task, interval) pair -/
def inIntervalFml (b : Fml) (t : Task) (iv : Int × Int) : Fml :=
  let lo := numT iv.1
  let hi := numT iv.2
  .imp b (.and [.ge t.sVar lo, .le t.eVar hi,
    .not (.and [.lt t.sVar lo, .gt t.eVar lo]),
    .not (.and [.lt t.sVar hi, .gt t.eVar hi]),
    .not (.and [.lt t.sVar lo, .gt t.eVar hi])])

/-- WorkLoad: the six formulas for one busy interval and one time interval -/
def workloadOne (dur : Term) (b : BusyRef) (lo hi : Int) : List Fml :=
  let s := b.s
  let e := b.e
  let c1 := Fml.and [.ge s (numT lo), .le e (numT hi)]
  let c2 := Fml.and [.lt s (numT lo), .gt e (numT lo)]
  let c3 := Fml.and [.lt s (numT hi), .gt e (numT hi)]
  let c4 := Fml.and [.lt s (numT lo), .gt e (numT hi)]
  [.ge dur (numT 0),
   .imp c1 (.eq dur (.sub e s)),
   .imp c2 (.eq dur (.sub e (numT lo))),
   .imp c3 (.eq dur (.sub (numT hi) s)),
   .imp c4 (.eq dur (numT (hi - lo))),
   .imp (.not (.or [c1, c2, c3, c4])) (.eq dur (numT 0))]

def cmpRel (k : CountKind) (a b : Term) : Fml :=
  match k with
  | .exact => .eq a b
  | .max => .le a b
  | .min => .ge a b

/-- the formulas and the Overlap variables for the busy intervals of one WorkLoad interval; `k` =
    number of Overlap variables already used -/
def workloadBusy (c : Nat) (lo hi : Int) : Nat → List BusyRef → List Fml × List Term
  | _, [] => ([], [])
  | k, b :: bs =>
      let d := Term.var (.overlap c lo hi k)
      let r := workloadBusy c lo hi (k + 1) bs
      (workloadOne d b lo hi ++ r.1, d :: r.2)

/-- formulas of one WorkLoad interval -/
def workloadInterval (c : Nat) (k0 : Nat) (busy : List BusyRef) (iv : (Int × Int) × Int) (kind : CountKind) : List Fml :=
  let r := workloadBusy c iv.1.1 iv.1.2 k0 busy
  r.1 ++ [cmpRel kind (.sum r.2) (numT iv.2)]

def workloadAll (c : Nat) (busy : List BusyRef) (kind : CountKind) : Nat → List ((Int × Int) × Int) → List Fml
  | _, [] => []
  | k0, iv :: rest => workloadInterval c k0 busy iv kind ++ workloadAll c busy kind (k0 + busy.length) rest

/-- an operand of `Or`: the conjunction of its assertions (the assertion itself if there is one) -/
def orOperand (o : List Fml) : Fml :=
  match o with
  | [a] => a
  | _ => .and o

/-- ResourceTasksDistance: the conditions under which a gap is constrained -/
def distConds (intervals : Option (List (Int × Int))) (e s : Term) : List Fml :=
  match intervals with
  | some ivs => ivs.map (fun iv => Fml.and [.ge s (numT iv.1), .ge e (numT iv.1), .le s (numT iv.2), .le e (numT iv.2)])
  | none => [Fml.and [.ge e (numT 0), .ge s (numT 0)]]

/-- ResourceTasksDistance: the formula for one gap `(previous end, next start)` -/
def distanceGap (d : Int) (intervals : Option (List (Int × Int))) (mode : CountKind) (p : Term × Term) : Fml :=
  .imp (.or (distConds intervals p.1 p.2)) (cmpRel mode (.sub p.2 p.1) (numT d))

/-- ResourceInterrupted: the conjuncts contributed by one busy interval -/
def interruptedOne (b : BusyRef) (t : Task) (ivs : List (Int × Int)) : List Fml :=
  let s := b.s
  let e := b.e
  match t.kind with
  | .var minD maxD _ =>
      let overlaps := ivs.map (fun iv =>
        Term.ite (.not (.xor (.ge s (numT iv.2)) (.le e (numT iv.1)))) (numT (iv.2 - iv.1)) (numT 0))
      ivs.flatMap (fun iv => [Fml.xor (.le s (numT iv.1)) (.ge s (numT iv.2)), Fml.xor (.le e (numT iv.1)) (.ge e (numT iv.2))]) ++
      [Fml.ge t.dVar (.add (numT minD) (.sum overlaps))] ++
      (match maxD with | some m => [Fml.le t.dVar (.add (numT m) (.sum overlaps))] | none => [])
  | _ => ivs.map (fun iv => Fml.xor (.ge s (numT iv.2)) (.le e (numT iv.1)))

/-- ResourcePeriodicallyUnavailable: the folded-start test for one busy interval and one interval of the period -/
def periodicCore (b : BusyRef) (iv : Int × Int) (period offset : Int) : Fml :=
  let folded := Term.mod (.sub b.s (numT offset)) (numT period)
  Fml.xor (.ge folded (numT iv.2)) (.le (.add folded (.sub b.e b.s)) (numT iv.1))

/-- the masks of `start` / `end` -/
def periodicMasks (b : BusyRef) (start : Int) (end_ : Option Int) : List Fml :=
  (if start ≥ 0 then [Fml.le b.e (numT start)] else []) ++
  (match end_ with | some en => [Fml.ge b.s (numT en)] | none => [])

/-- ResourcePeriodicallyUnavailable: the formula for one busy interval and one interval of the period -/
def periodicOne (b : BusyRef) (iv : Int × Int) (period start offset : Int) (end_ : Option Int) : Fml :=
  if (periodicMasks b start end_).length > 0 then .or (periodicCore b iv period offset :: periodicMasks b start end_)
  else periodicCore b iv period offset

/-- ResourcePeriodicallyInterrupted: the conjuncts contributed by one busy interval (resource_constraint.py:431-520;
    note `folded_start + duration % period` is `folded_start + (duration mod period)`) -/
def periodicInterruptedOne (b : BusyRef) (t : Task) (ivs : List (Int × Int)) (period offset : Int) : List Fml :=
  let s := b.s
  let e := b.e
  let dur := Term.sub e s
  let fs := Term.mod (.sub s (numT offset)) (numT period)
  let fe := Term.mod (.sub e (numT offset)) (numT period)
  let crossing (iv : Int × Int) : Fml :=
    .not (.xor (.and [.le fs (numT iv.1), .le (.add fs (.mod dur (numT period))) (numT iv.1)])
               (.and [.ge fs (numT iv.2), .le (.add fs (.mod dur (numT period))) (numT (iv.1 + period))]))
  match t.kind with
  | .var minD maxD _ =>
      let overlaps := ivs.map (fun iv =>
        Term.ite (.or [crossing iv, .gt dur (numT (iv.1 + period - iv.2))])
          (.mul (numT (iv.2 - iv.1))
            (.ite (crossing iv) (.add (.div dur (numT period)) (numT 1)) (.div dur (numT period))))
          (numT 0))
      ivs.flatMap (fun iv => [Fml.xor (.le fs (numT iv.1)) (.ge fs (numT iv.2)), Fml.xor (.le fe (numT iv.1)) (.ge fe (numT iv.2))]) ++
      [Fml.ge t.dVar (.add (numT minD) (.sum overlaps))] ++
      (match maxD with | some m => [Fml.le t.dVar (.add (numT m) (.sum overlaps))] | none => [])
  | _ => ivs.map (fun iv => Fml.xor (.ge fs (numT iv.2)) (.le (.add fs dur) (numT iv.1)))

/-- ResourcePeriodicallyInterrupted: the one assertion contributed by a busy interval — the conjunction of its
    conjuncts, or-ed with the `start` / `end` masks of that same interval (per task since the repair of the
    last-interval mask; before it one assertion per worker was masked by the variables of the last busy interval) -/
def periodicInterruptedFml (bt : BusyRef × Task) (ivs : List (Int × Int)) (period start offset : Int)
    (end_ : Option Int) : Fml :=
  let core := Fml.and (periodicInterruptedOne bt.1 bt.2 ivs period offset)
  if (periodicMasks bt.1 start end_).length > 0 then .or (core :: periodicMasks bt.1 start end_)
  else core

/-- the formulas handed, one by one, to `set_z3_assertions` (or appended directly) by the
    constructor of a constraint, before the optional-constraint wrapper -/
def CBody.raw (c : Nat) : CBody → List Fml
  | .startAt t v => [guard1 t (.eq t.sVar (numT v))]
  | .startAfter t v strict => [guard1 t (if strict then .gt t.sVar (numT v) else .ge t.sVar (numT v))]
  | .endAt t v => [guard1 t (.eq t.eVar (numT v))]
  | .endBefore t v strict => [guard1 t (if strict then .lt t.eVar (numT v) else .le t.eVar (numT v))]
  | .precedence b a off kind =>
      let lower := if off > 0 then Term.add b.eVar (numT off) else b.eVar
      [guard2 b a (ordRel kind lower a.sVar)]
  | .startSynced t1 t2 => [guard2 t1 t2 (.eq t1.sVar t2.sVar)]
  | .endSynced t1 t2 => [guard2 t1 t2 (.eq t1.eVar t2.eVar)]
  | .dontOverlap t1 t2 => [guard2 t1 t2 (.xor (.ge t2.sVar t1.eVar) (.ge t1.sVar t2.eVar))]
  | .contiguous ts =>
      let n := ts.length
      let (ss, c1) := sortNoDup (fun i => .fresh c i) (ts.map (·.sVar))
      let (se, c2) := sortNoDup (fun i => .fresh c (n + i)) (ts.map (·.eVar))
      c1 ++ c2 ++ (gapPairs ss se).map (fun (e, s) =>
        Fml.imp (.or [.and [.ge e (numT 0), .ge s (numT 0)]]) (.eq s e))
  | .unorderedGroup ts window len => [.and (groupBase c ts window len)]
  | .orderedGroup ts window len kind => [.and (groupBase c ts window len ++ consecutive kind ts)]
  | .scheduleN ts n intervals kind =>
      let m := intervals.length
      let perTask := (List.range ts.length).map (fun i =>
        let t := ts.getD i default
        let bs := (List.range m).map (fun j => Fml.bvar (.inInterval c t.name (i * m + j)))
        (((bs.zip intervals).map (fun (b, iv) => inIntervalFml b t iv)) ++ [Fml.atMost bs 1], bs))
      perTask.flatMap (·.1) ++ [pbFun kind (perTask.flatMap (·.2)) n]
  | .forceSchedule t b => [.iff (.bvar (.sched t.name)) (if b then .tt else .ff)]
  | .conditionSchedule t cond =>
      [.ite cond (.iff (.bvar (.sched t.name)) .tt) (.iff (.bvar (.sched t.name)) .ff)]
  | .dependency t1 t2 =>
      [if t1.optional then .iff (.bvar (.sched t1.name)) (.bvar (.sched t2.name))
       else .iff (.bvar (.sched t2.name)) .tt]
  | .forceScheduleN ts n kind => [pbFun kind (ts.map (fun t => Fml.bvar (.sched t.name))) n]
  | .fromExpr f => [f]
  | .forceApplyN cs n kind => [pbFun kind (cs.map (fun i => Fml.bvar (.applied i))) n]
  | .not_ o => [.not (.and o)]
  | .or_ os => [.or (os.map orOperand)]
  | .and_ os => [.and os.flatten]
  | .xor_ o1 o2 => [.xor (.and o1) (.and o2)]
  | .implies cond os => [.imp cond (.and os.flatten)]
  | .ifThenElse cond os1 os2 => [.ite cond (.and os1.flatten) (.and os2.flatten)]
  | .unavailable busy intervals =>
      intervals.flatMap (fun iv => busy.map (fun b => Fml.or [.ge b.s (numT iv.2), .le b.e (numT iv.1)]))
  | .workload busy intervals kind => workloadAll c busy kind 0 intervals
  | .nonDelay busy =>
      let n := busy.length
      let (ss, c1) := sortNoDup (fun i => .fresh c i) (busy.map (·.s))
      let (se, c2) := sortNoDup (fun i => .fresh c (n + i)) (busy.map (·.e))
      c1 ++ c2 ++ (gapPairs ss se).map (fun (e, s) =>
        Fml.imp (.and [.ge e (numT 0), .ge s (numT 0)]) (.eq s e))
  | .distance busy d intervals mode =>
      let n := busy.length
      let (ss, c1) := sortNoDup (fun i => .fresh c i) (busy.map (·.s))
      let (se, c2) := sortNoDup (fun i => .fresh c (n + i)) (busy.map (·.e))
      c1 ++ c2 ++ (gapPairs ss se).map (fun p => distanceGap d intervals mode p)
  | .interrupted ws ivs => ws.map (fun w => Fml.and (w.flatMap (fun (b, t) => interruptedOne b t ivs)))
  | .periodicallyUnavailable busy ivs period start offset end_ =>
      ivs.flatMap (fun iv => busy.map (fun b => periodicOne b iv period start offset end_))
  | .periodicallyInterrupted busy ivs period start offset end_ =>
      busy.map (fun bt => periodicInterruptedFml bt ivs period start offset end_)
  | .sameWorkers s1 s2 =>
      (s1.workers.filter (fun w => s2.workers.contains w)).map (fun w =>
        Fml.iff (.bvar (.sel s1.id w)) (.bvar (.sel s2.id w)))
  | .distinctWorkers s1 s2 =>
      (s1.workers.filter (fun w => s2.workers.contains w)).map (fun w =>
        Fml.neb (.bvar (.sel s1.id w)) (.bvar (.sel s2.id w)))
  | .unloadBuffer _ _ _ => []
  | .loadBuffer _ _ _ => []
  | .indicatorTarget v value => [.eq (.var v) (numT value)]
  | .indicatorBounds v lo hi =>
      (match lo with | some l => [Fml.ge (.var v) (numT l)] | none => []) ++
      (match hi with | some h => [Fml.le (.var v) (numT h)] | none => [])
  | .residue => []
  | .partial_ fs => fs

/-- indicator constraints append directly; every other class goes through `set_z3_assertions` -/
def CBody.direct : CBody → Bool
  | .indicatorTarget .. => true
  | .indicatorBounds .. => true
  | _ => false

/-- `constraint._z3_assertions` -/
def Constr.asserts (c : Constr) : List Fml :=
  if c.optional && !c.body.direct then (c.body.raw c.id).map (fun f => Fml.imp (.bvar (.applied c.id)) f)
  else c.body.raw c.id

/-! ### `initialize` pieces (solver.py:211-261) -/

def Task.horizonFml (t : Task) : Fml := .le t.eVar (.var .horizon)

/-- pairwise non-overlap of the busy intervals of one worker, in dictionary order -/
def noOverlapPairs (w : String) : List (String × Bool) → List Fml
  | [] => []
  | (ti, mi) :: rest =>
      rest.map (fun (tk, mk) => Fml.or [.ge (bS w tk mk) (bE w ti mi), .ge (bS w ti mi) (bE w tk mk)])
      ++ noOverlapPairs w rest

/-- `buffer._unloading_tasks` / `_loading_tasks` and the access order, from the constraint list -/
def State.bufUnloading (st : State) (b : String) : List (String × Int) :=
  st.constrs.foldl (fun acc c => match c.body with
    | .unloadBuffer t b' q => if b' == b then dictSet acc t.name q else acc
    | _ => acc) []

def State.bufLoading (st : State) (b : String) : List (String × Int) :=
  st.constrs.foldl (fun acc c => match c.body with
    | .loadBuffer t b' q => if b' == b then dictSet acc t.name q else acc
    | _ => acc) []

/-- accesses (`<task>_unloading` / `<task>_loading`) in the order of `_level_changes_time` / `_buffer_levels[1:]` -/
def State.bufAccesses (st : State) (b : String) : List String :=
  st.constrs.filterMap (fun c => match c.body with
    | .unloadBuffer t b' _ => if b' == b then some (t.name ++ "_unloading") else none
    | .loadBuffer t b' _ => if b' == b then some (t.name ++ "_loading") else none
    | _ => none)

def Buffer.levelVars (b : Buffer) (accesses : List String) : List Term :=
  Term.var (.bufInit b.name) :: accesses.map (fun t => Term.var (.bufLevel b.name t))

def Buffer.timeVars (b : Buffer) (accesses : List String) : List Term :=
  accesses.map (fun t => Term.var (.bufTime b.name t))


/-- `buffer._buffer_levels` at this point of the script -/
def bufLevelVars (st : State) (b : Buffer) : List Term := b.levelVars (st.bufAccesses b.name)

end PS
