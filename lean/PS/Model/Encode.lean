/-
  PS.Model.Encode — the formulas each constructor of the library builds (pure functions).
  One definition per Python code path; the comments give the source lines they mirror.
-/
import PS.Model.Types
namespace PS

def numT (n : Int) : Term := .num n

/-- pseudo-boolean count over a list of Booleans (`z3.PbEq/PbGe/PbLe` with unit weights) -/
def pbFun (k : CountKind) (l : List Fml) (n : Nat) : Fml :=
  match k with
  | .exact => .pbEq l n
  | .min => .atLeast l n
  | .max => .atMost l n

/-! ### Tasks (task.py) -/

/-- `Task.__init__`: release date (only if > 0) and deadline -/
def Task.releaseDue (t : Task) : List Fml :=
  (match t.release with
   | some r => if r > 0 then [Fml.ge t.sVar (numT r)] else []
   | none => []) ++
  (match t.due with
   | some d => if t.deadline then [Fml.le t.eVar (numT d)] else []
   | none => [])

/-- the list handed to `set_assertions` by the three subclasses -/
def Task.baseList (t : Task) : List Fml :=
  match t.kind with
  | .fixed d => [.eq (.sub t.eVar t.sVar) (numT d), .ge t.sVar (numT 0)]
  | .zero => [.eq t.sVar t.eVar, .ge t.sVar (numT 0)]
  | .var minD maxD allowed =>
      [.eq (.add t.sVar t.dVar) t.eVar, .ge t.sVar (numT 0), .ge t.dVar (numT minD)] ++
      (match allowed with
       | some ds => [Fml.or (ds.map (fun d => Fml.eq t.dVar (numT d)))]
       | none => []) ++
      (match maxD with
       | some m => [Fml.le t.dVar (numT m)]
       | none => [])

def Task.isVar (t : Task) : Bool := match t.kind with | .var .. => true | _ => false

/-- where an unscheduled optional task is parked: `-task_number` -/
def Task.pastPoint (t : Task) : Int := - (t.num : Int)

def Task.notScheduled (t : Task) : Fml :=
  .and ([.eq t.sVar (numT t.pastPoint), .eq t.eVar (numT t.pastPoint)] ++
        (if t.isVar then [.eq t.dVar (numT 0)] else []))

/-- `Task.set_assertions` -/
def Task.setAssertions (t : Task) : List Fml :=
  if t.optional then [.ite (.bvar (.sched t.name)) (.and t.baseList) t.notScheduled]
  else t.baseList

/-- everything a freshly created task asserts -/
def Task.initAsserts (t : Task) : List Fml := t.releaseDue ++ t.setAssertions

/-! ### Resources (resource.py, task.py:add_required_resource) -/

/-- `_distribute_p_over_n` -/
def distribute (p : Int) (n : Nat) : List Int :=
  match n with
  | 0 => []
  | k + 1 => (p / (n : Int) + p % (n : Int)) :: List.replicate k (p / (n : Int))

def unitName (c : String) (i : Nat) : String := c ++ "_CumulativeWorker_" ++ toString (i + 1)

def Select.flags (s : Select) : List Fml := s.workers.map (fun w => Fml.bvar (.sel s.id w))

/-- `SelectWorkers._selection_assertion` -/
def Select.assertion (s : Select) : Fml := pbFun s.kind s.flags s.n

/-- the formula(s) one requirement adds to its task -/
def Req.fmls (t : Task) (r : Req) : List Fml :=
  match r.sel with
  | some s =>
      [.ite (.bvar (.sel s r.worker))
        (.and [.eq (bS r.worker t.name true) t.sVar, .eq (bE r.worker t.name true) t.eVar])
        (.and [.eq (bS r.worker t.name true) (numT r.past), .eq (bE r.worker t.name true) (numT r.past)])]
  | none =>
      if r.dynamic then
        [.le (bE r.worker t.name false) t.eVar, .ge (bS r.worker t.name false) t.sVar,
         .le (bS r.worker t.name false) (bE r.worker t.name false)]
      else
        [if r.earlyOut > 0 then .eq (bE r.worker t.name false) (.sub t.eVar (numT r.earlyOut))
         else .eq (bE r.worker t.name false) t.eVar,
         if r.delayIn > 0 then .eq (bS r.worker t.name false) (.add t.sVar (numT r.delayIn))
         else .eq (bS r.worker t.name false) t.sVar]

/-! ### `initialize` pieces (solver.py:211-261) -/

def Task.horizonFml (t : Task) : Fml := .le t.eVar (.var .horizon)

/-- pairwise non-overlap of the busy intervals of one worker, in dictionary order -/
def noOverlapPairs (w : String) : List (String × Bool) → List Fml
  | [] => []
  | (ti, mi) :: rest =>
      rest.map (fun (tk, mk) => Fml.or [.ge (bS w tk mk) (bE w ti mi), .ge (bS w ti mi) (bE w tk mk)])
      ++ noOverlapPairs w rest

def Worker.noOverlap (w : Worker) : List Fml := noOverlapPairs w.name w.busy

end PS
