/-
  PS.Model.Step — the construction script as a state machine.
  `step st d = (st', err?)`: the registries after executing constructor call `d`, and the
  Python exception class it raised, if any.  A constructor that raises *after* registering
  itself leaves a residue in `st'`, exactly as the Python object graph does.
-/
import PS.Model.Encode
namespace PS

inductive ResRef where
  | worker (n : String)
  | select (i : Nat)
  | cumul (n : String)
  deriving Repr, Inhabited

/-- the public constructor calls of the core (tasks and resources) -/
inductive CoreDecl where
  | problem (name : String) (horizon : Option Int)
  | task (name : String) (kind : TaskKind) (optional : Bool) (work : Int)
         (release due : Option Int) (deadline : Bool) (prio : Int)
  | worker (name : String) (prod : Int) (cost : Cost)
  | cumulative (name : String) (size : Int) (prod : Int) (cost : Cost)
  | select (name : Option String) (workers : List String) (n : Int) (kind : CountKind)
  | require (task : String) (res : ResRef) (dynamic : Bool) (delayIn earlyOut : Int)
  deriving Inhabited

abbrev Res := State × Option Err

def ok (st : State) : Res := (st, none)
def fail (st : State) (e : Err) : Res := (st, some e)

/-! ### field validation (pydantic metadata; cross-checked with the generated FieldTable) -/

def TaskKind.fieldsValid : TaskKind → Bool
  | .fixed d => d > 0                                   -- duration: PositiveInt
  | .zero => true
  | .var minD maxD allowed =>
      minD ≥ 0 &&                                       -- min_duration: ge=0
      (match maxD with | some m => m > 0 | none => true) &&       -- PositiveInt
      (match allowed with | some ds => ds.all (· > 0) | none => true)

def taskFieldsValid (kind : TaskKind) (work prio : Int) : Bool :=
  kind.fieldsValid && work ≥ 0 && prio ≥ 0

/-! ### problem -/

def stepProblem (name : String) (horizon : Option Int) : Res :=
  match horizon with
  | some h =>
      if h > 0 then
        ok { active := true, pname := name, horizon := some h,
             passerts := [.le (.var .horizon) (numT h)] }
      else fail {} .validation       -- handled by caller: state unchanged on validation error
  | none => ok { active := true, pname := name }

/-! ### tasks -/

def mkTask (st : State) (name : String) (kind : TaskKind) (optional : Bool) (work : Int)
    (release due : Option Int) (deadline : Bool) (prio : Int) : Task :=
  let t : Task := { name, num := st.tasks.length + 1, kind, optional, work, release, due, deadline,
                    prio, asserts := [], reqs := [] }
  { t with asserts := t.initAsserts }

def stepTask (st : State) (name : String) (kind : TaskKind) (optional : Bool) (work : Int)
    (release due : Option Int) (deadline : Bool) (prio : Int) : Res :=
  if !taskFieldsValid kind work prio then fail st .validation
  else if !st.active then fail st .assertion
  else if st.tasks.any (·.name == name) then fail st .value
  else ok { st with tasks := st.tasks ++ [mkTask st name kind optional work release due deadline prio],
                    nobj := st.nobj + 1 }

/-! ### workers -/

def stepWorker (st : State) (name : String) (prod : Int) (cost : Cost) (cumulOf : Option String := none) : Res :=
  if prod < 0 then fail st .validation
  else if !st.active then fail st .assertion
  else if st.workers.any (·.name == name) then fail st .value
  else ok { st with workers := st.workers ++ [{ name, prod, cost, busy := [], cumulOf }], nobj := st.nobj + 1 }

/-- create the unit workers one after the other; the first failure stops (units already
    registered stay registered) -/
def addUnits (st : State) (cname : String) : List (String × Int × Int) → Res
  | [] => ok st
  | (n, p, c) :: rest =>
      match stepWorker st n p (.const c) (some cname) with
      | (st', none) => addUnits st' cname rest
      | r => r

def stepCumulative (st : State) (name : String) (size : Int) (prod : Int) (cost : Cost) : Res :=
  if size ≤ 1 || prod ≤ 0 then fail st .validation
  else
    match cost with
    | .const k =>
        let n := size.toNat
        let ps := distribute prod n
        let cs := distribute k n
        let units := (List.range n).map (fun i => (unitName name i, ps.getD i 0, cs.getD i 0))
        match addUnits st name units with
        | (st', none) =>
            if st'.cumuls.any (·.name == name) then fail st' .value
            else ok { st' with cumuls := st'.cumuls ++ [{ name, size := n, units := units.map (·.1) }],
                               nobj := st'.nobj + 1 }
        | r => r
    | _ => fail st .assertion      -- `_distribute_p_over_n`: "wrong type for parameter p"

/-! ### selections -/

def stepSelect (st : State) (name : Option String) (workers : List String) (n : Int) (kind : CountKind) : Res :=
  if workers.length < 2 || n ≤ 0 then fail st .validation
  else if workers.any (fun w => (st.findWorker w).isNone) then fail st .validation   -- not a Worker instance
  else if n > workers.length then fail st .value
  else if !st.active then fail st .attribute
  else
    match name with
    | some nm =>
        if st.selects.any (·.name == some nm) then fail st .value
        else ok { st with selects := st.selects ++ [{ id := st.selects.length, name, workers, n := n.toNat, kind }],
                          nobj := st.nobj + 1 }
    | none => ok { st with selects := st.selects ++ [{ id := st.selects.length, name, workers, n := n.toNat, kind }],
                            nobj := st.nobj + 1 }

/-! ### requirements (task.py:113-190) -/

/-- `append_z3_assertion` on a task: duplicate formulas raise AssertionError -/
def Task.append (t : Task) (a : Fml) : Option Task :=
  if t.asserts.any (·.same a) then none else some { t with asserts := t.asserts ++ [a] }

def Task.appendAll (t : Task) : List Fml → Option Task
  | [] => some t
  | a :: as => match t.append a with | some t' => t'.appendAll as | none => none

/-- one worker of a selection: busy interval, `If(selected, …)` assertion, required list -/
def requireSelWorker (st : State) (tname : String) (sid : Nat) (w : String) : Res :=
  match st.findTask tname with
  | none => fail st .other
  | some t =>
    let past := st.uniq - 1
    let r : Req := { worker := w, maybe := true, sel := some sid, dynamic := false, delayIn := 0,
                     earlyOut := 0, past }
    let st := (st.updWorker w (fun wk => { wk with busy := dictSet wk.busy tname true }))
    let st := { st with uniq := past }
    match t.appendAll (r.fmls t) with
    | none => fail st .assertion
    | some t' => ok (st.updTask tname (fun _ => { t' with reqs := t'.reqs ++ [r] }))

def requireSelWorkers (st : State) (tname : String) (sid : Nat) : List String → Res
  | [] => ok st
  | w :: ws =>
      match requireSelWorker st tname sid w with
      | (st', none) => requireSelWorkers st' tname sid ws
      | r => r

def requireSelect (st : State) (tname : String) (s : Select) : Res :=
  match requireSelWorkers st tname s.id s.workers with
  | (st', none) =>
      match st'.findTask tname with
      | none => fail st' .other
      | some t =>
        match t.append s.assertion with
        | none => fail st' .assertion
        | some t' => ok (st'.updTask tname (fun _ => t'))
  | r => r

def stepRequire (st : State) (tname : String) (res : ResRef) (dynamic : Bool) (delayIn earlyOut : Int) : Res :=
  match st.findTask tname with
  | none => fail st .other
  | some t =>
    match res with
    | .worker w =>
        match st.findWorker w with
        | none => fail st .type_
        | some _ =>
          if t.reqs.any (·.worker == w) then fail st .value
          else
            let r : Req := { worker := w, maybe := false, sel := none, dynamic, delayIn, earlyOut, past := 0 }
            let st := st.updWorker w (fun wk => { wk with busy := dictSet wk.busy tname false })
            match t.appendAll (r.fmls t) with
            | none => fail st .assertion
            | some t' => ok (st.updTask tname (fun _ => { t' with reqs := t'.reqs ++ [r] }))
    | .select i =>
        match st.findSelect i with
        | none => fail st .type_
        | some s => requireSelect st tname s
    | .cumul c =>
        match st.findCumul c with
        | none => fail st .type_
        | some cw =>
          -- `get_select_workers()`: a new SelectWorkers over the units, 1, "min"
          match stepSelect st none cw.units 1 .min with
          | (st', none) =>
              match st'.selects.getLast? with
              | some s => requireSelect st' tname s
              | none => fail st' .other
          | r => r

def stepCore (st : State) : CoreDecl → Res
  | .problem name horizon =>
      match stepProblem name horizon with
      | (st', none) => ok st'
      | (_, some e) => fail st e
  | .task name kind optional work release due deadline prio =>
      stepTask st name kind optional work release due deadline prio
  | .worker name prod cost => stepWorker st name prod cost
  | .cumulative name size prod cost => stepCumulative st name size prod cost
  | .select name workers n kind => stepSelect st name workers n kind
  | .require task res dynamic delayIn earlyOut => stepRequire st task res dynamic delayIn earlyOut

end PS
