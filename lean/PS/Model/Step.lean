/-
  PS.Model.Step — the construction script as a state machine.
  `step st d = (st', err?)`: the registries after executing constructor call `d`, and the
  Python exception class it raised, if any.  A constructor that raises *after* registering
  itself leaves a residue in `st'`, exactly as the Python object graph does.
-/
import PS.Model.Encode
import PS.Model.Indicator
namespace PS

inductive ResRef where
  | worker (n : String)
  | select (i : Nat)
  | cumul (n : String)
  deriving Repr, Inhabited

/-- operand of a connective: an existing constraint, or a raw z3 expression -/
inductive Operand where
  | ref (id : Nat)
  | raw (f : Fml)
  deriving Inhabited

/-- constraint constructor calls, references by name / id -/
inductive CDecl where
  | startAt (t : String) (v : Int)
  | startAfter (t : String) (v : Int) (strict : Bool)
  | endAt (t : String) (v : Int)
  | endBefore (t : String) (v : Int) (strict : Bool)
  | precedence (before after : String) (offset : Int) (kind : OrdKind)
  | startSynced (t1 t2 : String)
  | endSynced (t1 t2 : String)
  | dontOverlap (t1 t2 : String)
  | contiguous (ts : List String)
  | unorderedGroup (ts : List String) (window : Option (Int × Int)) (len : Int)
  | orderedGroup (ts : List String) (window : Option (Int × Int)) (len : Int) (kind : OrdKind)
  | scheduleN (ts : List String) (n : Int) (intervals : List (Int × Int)) (kind : CountKind)
  | forceSchedule (t : String) (b : Bool)
  | conditionSchedule (t : String) (cond : Fml)
  | dependency (t1 t2 : String)
  | forceScheduleN (ts : List String) (n : Int) (kind : CountKind)
  | fromExpr (f : Fml)
  | forceApplyN (cs : List Nat) (n : Int) (kind : CountKind)
  | not_ (o : Operand)
  | or_ (os : List Operand)
  | and_ (os : List Operand)
  | xor_ (o1 o2 : Operand)
  | implies (cond : Fml) (os : List Operand)
  | ifThenElse (cond : Fml) (os1 os2 : List Operand)
  | unavailable (res : String) (intervals : List (Int × Int))
  | workload (res : String) (intervals : List ((Int × Int) × Int)) (kind : CountKind)
  | nonDelay (res : String)
  | distance (res : String) (d : Int) (intervals : Option (List (Int × Int))) (mode : CountKind)
  | interrupted (res : String) (intervals : List (Int × Int))
  | periodicallyInterrupted (res : String) (intervals : List (Int × Int)) (period start offset : Int) (end_ : Option Int)
  | periodicallyUnavailable (res : String) (intervals : List (Int × Int)) (period start offset : Int) (end_ : Option Int)
  | sameWorkers (s1 s2 : Nat)
  | distinctWorkers (s1 s2 : Nat)
  | unloadBuffer (t : String) (b : String) (q : Int)
  | loadBuffer (t : String) (b : String) (q : Int)
  | indicatorTarget (i : Nat) (v : Int)
  | indicatorBounds (i : Nat) (lo hi : Option Int)
  deriving Inhabited

/-- indicator constructor calls -/
inductive IDecl where
  | expr (name : String) (t : Term) (bounds : Option (Int × Int))
  | utilization (res : String)
  | nbTasksAssigned (res : String)
  | tardiness (ts : Option (List String))
  | earliness (ts : Option (List String))
  | nbTardy (ts : Option (List String))
  | maxLateness (ts : Option (List String))
  | resourceCost (rs : List String)
  | idle (res : String)
  | maxBuffer (b : String)
  | minBuffer (b : String)
  deriving Inhabited

/-- objective constructor calls -/
inductive ODecl where
  | maximizeIndicator (i : Nat) (weight : Int)
  | minimizeIndicator (i : Nat) (weight : Int)
  | makespan
  | flowtime (ts : Option (List String))
  | priorities
  | startLatest (ts : Option (List String))
  | startEarliest
  | greatestStart (ts : Option (List String))
  | resourceUtilization (res : String)
  | resourceCost (rs : List String)
  | maximizeMaxBuffer (b : String)
  | minimizeMaxBuffer (b : String)
  | flowtimeSingleResource (res : String) (interval : Option (Int × Int))
  deriving Inhabited

/-- the public constructor calls -/
inductive Decl where
  | problem (name : String) (horizon : Option Int)
  | task (name : String) (kind : TaskKind) (optional : Bool) (work : Int)
         (release due : Option Int) (deadline : Bool) (prio : Int)
  | worker (name : String) (prod : Int) (cost : Cost)
  | cumulative (name : String) (size : Int) (prod : Int) (cost : Cost)
  | select (name : Option String) (workers : List String) (n : Int) (kind : CountKind)
  | require (task : String) (res : ResRef) (dynamic : Bool) (delayIn earlyOut : Int)
  | constr (name : Option String) (optional : Bool) (c : CDecl)
  | buffer (name : String) (concurrent : Bool) (initial final lb ub : Option Int)
  | indicator (d : IDecl)
  | objective (d : ODecl)
  deriving Inhabited

abbrev Res := State × Option Err

def ok (st : State) : Res := (st, none)
def fail (st : State) (e : Err) : Res := (st, some e)

/-! ### field validation (pydantic metadata; cross-checked with the generated FieldTable) -/

def TaskKind.fieldsValid : TaskKind → Bool
  | .fixed d => d > 0                                   -- duration: PositiveInt
  | .zero => true
  | .var minD maxD allowed =>
      minD ≥ 0 &&                                       -- min_duration: ge=0
      (match maxD with | some m => m > 0 | none => true) &&       -- PositiveInt
      (match allowed with | some ds => ds.all (· > 0) | none => true)

def taskFieldsValid (kind : TaskKind) (work prio : Int) : Bool :=
  kind.fieldsValid && work ≥ 0 && prio ≥ 0

/-! ### problem -/

def stepProblem (st : State) (name : String) (horizon : Option Int) : Res :=
  match horizon with
  | some h => if h > 0 then ok { active := true, pname := name, horizon := some h } else fail st .validation
  | none => ok { active := true, pname := name }

/-! ### tasks -/

def stepTask (st : State) (name : String) (kind : TaskKind) (optional : Bool) (work : Int)
    (release due : Option Int) (deadline : Bool) (prio : Int) : Res :=
  if !taskFieldsValid kind work prio then fail st .validation
  else if !st.active then fail st .assertion
  else if st.tasks.any (·.name == name) then fail st .value
  else ok { st with tasks := st.tasks ++ [{ name, num0 := st.tasks.length, kind, optional, work, release,
                                            due, deadline, prio }] }

/-! ### workers -/

def stepWorker (st : State) (name : String) (prod : Int) (cost : Cost) (cumulOf : Option String := none) : Res :=
  if prod < 0 then fail st .validation
  else if !st.active then fail st .assertion
  else if st.workers.any (·.name == name) then fail st .value
  else ok { st with workers := st.workers ++ [{ name, prod, cost, cumulOf }] }

/-- create the unit workers one after the other; the first failure stops (units already
    registered stay registered) -/
def addUnits (st : State) (cname : String) : List (String × Int × Int) → Res
  | [] => ok st
  | (n, p, c) :: rest =>
      match stepWorker st n p (.const c) (some cname) with
      | (st', none) => addUnits st' cname rest
      | r => r

def stepCumulative (st : State) (name : String) (size : Int) (prod : Int) (cost : Cost) : Res :=
  if size ≤ 1 || prod ≤ 0 then fail st .validation
  else
    match cost with
    | .const k =>
        let n := size.toNat
        let ps := distribute prod n
        let cs := distribute k n
        let units := (List.range n).map (fun i => (unitName name i, ps.getD i 0, cs.getD i 0))
        match addUnits st name units with
        | (st', none) =>
            if st'.cumuls.any (·.name == name) then fail st' .value
            else ok { st' with cumuls := st'.cumuls ++ [{ name, size := n, units := units.map (·.1) }] }
        | r => r
    | _ => fail st .assertion      -- `_distribute_p_over_n`: "wrong type for parameter p"

/-! ### selections -/

def stepSelect (st : State) (name : Option String) (workers : List String) (n : Int) (kind : CountKind) : Res :=
  if workers.length < 2 || n ≤ 0 then fail st .validation
  -- every entry is a Worker or a CumulativeWorker instance
  else if workers.any (fun w => (st.findWorker w).isNone && (st.findCumul w).isNone) then fail st .validation
  else if n > workers.length then fail st .value
  else if !st.active then fail st .attribute
  else if name.isSome && st.selects.any (·.name == name) then fail st .value
  else ok { st with selects := st.selects ++ [{ id := st.selects.length, name, workers, n := n.toNat, kind }] }

/-! ### requirements (task.py:113-190) -/

/-- index of the first formula that already occurred earlier in the list
    (`append_z3_assertion` raises AssertionError on it) -/
def firstDup (seen : List String) : List Fml → Nat → Option Nat
  | [], _ => none
  | a :: as, k =>
      let p := a.print
      if seen.contains p then some k else firstDup (p :: seen) as (k + 1)

def selReqs (sid : Nat) (base : Nat) (ws : List String) : List Req :=
  (List.range ws.length).map (fun i =>
    { worker := ws.getD i "", maybe := true, sel := some sid, dynamic := false, delayIn := 0,
      earlyOut := 0, past0 := base + i })

def requireSelect (st : State) (t : Task) (s : Select) : Res :=
  let rs := selReqs s.id st.nPast s.workers
  let st1 := { st with nPast := st.nPast + s.workers.length }
  let ev := ReqEvent.viaSelect t.name s rs true
  let st2 := { st1 with reqLog := st1.reqLog ++ [ev] }
  match firstDup [] (st2.taskAsserts t) 0 with
  | none => ok st2
  | some _ => fail { st1 with reqLog := st1.reqLog ++ [ReqEvent.viaSelect t.name s rs false] } .assertion

def stepRequire (st : State) (tname : String) (res : ResRef) (dynamic : Bool) (delayIn earlyOut : Int) : Res :=
  match st.findTask tname with
  | none => fail st .other
  | some t =>
    match res with
    | .worker w =>
        match st.findWorker w with
        | none => fail st .type_
        | some _ =>
          if (st.reqsOf tname).any (·.worker == w) then fail st .value
          else
            let r : Req := { worker := w, maybe := false, sel := none, dynamic, delayIn, earlyOut, past0 := 0 }
            ok { st with reqLog := st.reqLog ++ [.direct tname r] }
    | .select i =>
        match st.findSelect i with
        | none => fail st .type_
        | some s =>
            -- a selection that lists a CumulativeWorker itself: requiring it is outside the model (the real code
            -- gives the cumulative object a busy interval of its own and enforces no capacity: finding F40);
            -- the harness never generates it
            if s.workers.any (fun w => (st.findWorker w).isNone) then fail st .other
            else requireSelect st t s
    | .cumul c =>
        match st.findCumul c with
        | none => fail st .type_
        | some cw =>
          -- `get_select_workers()`: a new SelectWorkers over the units, 1, "min"
          match stepSelect st none cw.units 1 .min with
          | (st', none) =>
              match st'.selects.getLast? with
              | some s => requireSelect st' t s
              | none => fail st' .other
          | r => r

/-! ### constraints -/

/-- busy intervals a resource constraint sees: the worker's own, or (for the classes that look
    inside a cumulative worker) those of all its units, in unit order -/
def State.resBusy (st : State) (res : String) (intoUnits : Bool) : Option (List BusyRef) :=
  match st.findWorker res with
  | some _ => some (st.busyRefs res)
  | none =>
    match st.findCumul res with
    | some cw => some (if intoUnits then cw.units.flatMap st.busyRefs else [])
    | none => none

def State.operand (st : State) : Operand → Option (List Fml)
  | .raw f => some [f]
  | .ref i => (st.findConstr i).map (·.asserts)

def operandRefs : List Operand → List Nat
  | [] => []
  | .ref i :: r => i :: operandRefs r
  | .raw _ :: r => operandRefs r

def State.markOperands (st : State) (ids : List Nat) : State :=
  { st with constrs := st.constrs.map (fun c => if ids.contains c.id then { c with operand := true } else c) }

/-- outcome of resolving a constraint declaration -/
inductive Resolved where
  | body (b : CBody) (marks : List Nat)    -- constructor runs to the end
  | raises (e : Err) (marks : List Nat)    -- registered, then raises (residue)
  | raisesWith (e : Err) (b : CBody)       -- registered, appends the assertions of `b`, then raises
  | invalid (e : Err)                      -- rejected before registration
  deriving Inhabited

def State.tasksNamed (st : State) (ns : List String) : Option (List Task) := ns.mapM st.findTask
def State.operands (st : State) (os : List Operand) : Option (List (List Fml)) := os.mapM st.operand

def className : CDecl → String
  | .startAt .. => "TaskStartAt" | .startAfter .. => "TaskStartAfter" | .endAt .. => "TaskEndAt"
  | .endBefore .. => "TaskEndBefore" | .precedence .. => "TaskPrecedence"
  | .startSynced .. => "TasksStartSynced" | .endSynced .. => "TasksEndSynced"
  | .dontOverlap .. => "TasksDontOverlap" | .contiguous .. => "TasksContiguous"
  | .unorderedGroup .. => "UnorderedTaskGroup" | .orderedGroup .. => "OrderedTaskGroup"
  | .scheduleN .. => "ScheduleNTasksInTimeIntervals" | .forceSchedule .. => "OptionalTaskForceSchedule"
  | .conditionSchedule .. => "OptionalTaskConditionSchedule" | .dependency .. => "OptionalTasksDependency"
  | .forceScheduleN .. => "ForceScheduleNOptionalTasks" | .fromExpr .. => "ConstraintFromExpression"
  | .forceApplyN .. => "ForceApplyNOptionalConstraints" | .not_ .. => "Not" | .or_ .. => "Or"
  | .and_ .. => "And" | .xor_ .. => "Xor" | .implies .. => "Implies" | .ifThenElse .. => "IfThenElse"
  | .unavailable .. => "ResourceUnavailable" | .workload .. => "WorkLoad" | .nonDelay .. => "ResourceNonDelay"
  | .distance .. => "ResourceTasksDistance" | .interrupted .. => "ResourceInterrupted"
  | .periodicallyInterrupted .. => "ResourcePeriodicallyInterrupted"
  | .periodicallyUnavailable .. => "ResourcePeriodicallyUnavailable" | .sameWorkers .. => "SameWorkers"
  | .distinctWorkers .. => "DistinctWorkers" | .unloadBuffer .. => "TaskUnloadBuffer"
  | .loadBuffer .. => "TaskLoadBuffer" | .indicatorTarget .. => "IndicatorTarget"
  | .indicatorBounds .. => "IndicatorBounds"

/-- resolve references, run the explicit `raise` checks of the constructor -/
def State.resolve (st : State) : CDecl → Resolved
  | .startAt t v => match st.findTask t with | some t => .body (.startAt t v) [] | none => .invalid .validation
  | .startAfter t v s => match st.findTask t with | some t => .body (.startAfter t v s) [] | none => .invalid .validation
  | .endAt t v => match st.findTask t with | some t => .body (.endAt t v) [] | none => .invalid .validation
  | .endBefore t v s => match st.findTask t with | some t => .body (.endBefore t v s) [] | none => .invalid .validation
  | .precedence b a off kind =>
      if off < 0 then .invalid .validation else
      match st.findTask b, st.findTask a with
      | some b, some a => .body (.precedence b a off kind) []
      | _, _ => .invalid .validation
  | .startSynced a b => match st.findTask a, st.findTask b with
      | some a, some b => .body (.startSynced a b) [] | _, _ => .invalid .validation
  | .endSynced a b => match st.findTask a, st.findTask b with
      | some a, some b => .body (.endSynced a b) [] | _, _ => .invalid .validation
  | .dontOverlap a b => match st.findTask a, st.findTask b with
      | some a, some b => .body (.dontOverlap a b) [] | _, _ => .invalid .validation
  | .contiguous ts => match st.tasksNamed ts with | some ts => .body (.contiguous ts) [] | none => .invalid .validation
  | .unorderedGroup ts w len => match st.tasksNamed ts with
      | some ts => .body (.unorderedGroup ts w len) [] | none => .invalid .validation
  | .orderedGroup ts w len k => match st.tasksNamed ts with
      | some ts => .body (.orderedGroup ts w len k) [] | none => .invalid .validation
  | .scheduleN ts n ivs k =>
      if n < 0 then .invalid .other else
      match st.tasksNamed ts with
      | some ts =>
          -- z3's PbEq/PbLe/PbGe raise ValueError on an empty list of Booleans
          if ts.isEmpty || ivs.isEmpty then .raises .value [] else .body (.scheduleN ts n.toNat ivs k) []
      | none => .invalid .validation
  | .forceSchedule t b => match st.findTask t with
      | some t => if t.optional then .body (.forceSchedule t b) [] else .raises .type_ []
      | none => .invalid .validation
  | .conditionSchedule t c => match st.findTask t with
      | some t => if t.optional then .body (.conditionSchedule t c) [] else .raises .type_ []
      | none => .invalid .validation
  | .dependency a b => match st.findTask a, st.findTask b with
      | some a, some b => if b.optional then .body (.dependency a b) [] else .raises .type_ []
      | _, _ => .invalid .validation
  | .forceScheduleN ts n k =>
      if n ≤ 0 then .invalid .validation else
      match st.tasksNamed ts with
      | some ts =>
          if !ts.all (·.optional) then .raises .type_ []
          else if ts.isEmpty then .raises .value []
          else .body (.forceScheduleN ts n.toNat k) []
      | none => .invalid .validation
  | .fromExpr f => .body (.fromExpr f) []
  | .forceApplyN cs n k =>
      if n ≤ 0 then .invalid .validation else
      match cs.mapM st.findConstr with
      | some l =>
          if !l.all (·.optional) then .raises .type_ []
          else if l.isEmpty then .raises .value []
          else .body (.forceApplyN cs n.toNat k) []
      | none => .invalid .validation
  | .not_ o => match st.operand o with
      | some l => .body (.not_ l) (operandRefs [o]) | none => .invalid .validation
  | .or_ os => match st.operands os with
      | some l => .body (.or_ l) (operandRefs os) | none => .invalid .validation
  | .and_ os => match st.operands os with
      | some l => .body (.and_ l) (operandRefs os) | none => .invalid .validation
  | .xor_ a b => match st.operand a, st.operand b with
      | some a', some b' => .body (.xor_ a' b') (operandRefs [a, b]) | _, _ => .invalid .validation
  | .implies c os => match st.operands os with
      | some l => .body (.implies c l) (operandRefs os) | none => .invalid .validation
  | .ifThenElse c os1 os2 => match st.operands os1, st.operands os2 with
      | some l1, some l2 => .body (.ifThenElse c l1 l2) (operandRefs (os1 ++ os2)) | _, _ => .invalid .validation
  | .unavailable res ivs => match st.resBusy res true with
      | some busy => if busy.isEmpty || ivs.isEmpty then .raises .assertion [] else .body (.unavailable busy ivs) []
      | none => .invalid .validation
  | .workload res ivs k => match st.resBusy res true with
      | some busy => if busy.isEmpty && !ivs.isEmpty then .raises .assertion [] else .body (.workload busy ivs k) []
      | none => .invalid .validation
  | .nonDelay res => match st.resBusy res false with
      | some busy => .body (.nonDelay busy) [] | none => .invalid .validation
  | .distance res d ivs m => match st.resBusy res false with
      | some busy => if busy.length < 2 then .raises .assertion [] else .body (.distance busy d ivs m) []
      | none => .invalid .validation
  | .interrupted res ivs =>
      -- per (unit) worker: its busy intervals paired with their tasks
      let units := match st.findWorker res with
        | some _ => some [res]
        | none => (st.findCumul res).map (fun (cw : Cumul) => cw.units)
      (match units with
       | none => .invalid .validation
       | some us =>
           let ws := us.map (fun u => (st.busyRefs u).filterMap (fun (b : BusyRef) => (st.findTask b.task).map (fun t => (b, t))))
           if ws.all (·.isEmpty) then .raisesWith .assertion (.interrupted ws ivs) else .body (.interrupted ws ivs) [])
  | .periodicallyUnavailable res ivs period start offset end_ =>
      (match st.findWorker res with
       | some _ =>
           let busy := st.busyRefs res
           if busy.isEmpty || ivs.isEmpty then .raises .assertion []
           else .body (.periodicallyUnavailable busy ivs period start offset end_) []
       | none => match st.findCumul res with
           | some _ => .raises .attribute []      -- `self.resource.cumulative_workers` does not exist
           | none => .invalid .validation)
  | .periodicallyInterrupted res ivs period start offset end_ =>
      (match st.findWorker res with
       | some _ =>
           let busy := (st.busyRefs res).filterMap (fun (b : BusyRef) => (st.findTask b.task).map (fun t => (b, t)))
           if busy.isEmpty then .raises .assertion []     -- "not assigned"
           else if ivs.any (fun iv => iv.2 > period) then .raises .assertion []
           else .body (.periodicallyInterrupted busy ivs period start offset end_) []
       | none => match st.findCumul res with
           | some _ => .raises .attribute []      -- `self.resource.cumulative_workers` does not exist
           | none => .invalid .validation)
  | .sameWorkers a b => match st.findSelect a, st.findSelect b with
      | some a, some b => .body (.sameWorkers a b) [] | _, _ => .invalid .validation
  | .distinctWorkers a b => match st.findSelect a, st.findSelect b with
      | some a, some b => .body (.distinctWorkers a b) [] | _, _ => .invalid .validation
  | .unloadBuffer t b q => match st.findTask t, st.findBuffer b with
      | some t, some _ => .body (.unloadBuffer t b q) [] | _, _ => .invalid .validation
  | .loadBuffer t b q => match st.findTask t, st.findBuffer b with
      | some t, some _ => .body (.loadBuffer t b q) [] | _, _ => .invalid .validation
  | .indicatorTarget i v => match st.findIndicator i with
      | some ind => .body (.indicatorTarget ind.var v) [] | none => .invalid .validation
  | .indicatorBounds i lo hi => match st.findIndicator i with
      | some ind => if lo.isNone && hi.isNone then .raises .assertion [] else .body (.indicatorBounds ind.var lo hi) []
      | none => .invalid .validation

def stepConstr (st : State) (name : Option String) (optional : Bool) (d : CDecl) : Res :=
  match st.resolve d with
  | .invalid e => fail st e
  | .raises e marks =>
      if !st.active then fail st .attribute
      else if name.isSome && st.constrs.any (·.name == name) then fail st .value
      else
        let c : Constr := { id := st.constrs.length, name, cls := className d, optional, operand := false, body := .residue, refs := marks }
        fail ({ st with constrs := st.constrs ++ [c] }.markOperands marks) e
  | .raisesWith e b =>
      if !st.active then fail st .attribute
      else if name.isSome && st.constrs.any (·.name == name) then fail st .value
      else
        let c : Constr := { id := st.constrs.length, name, cls := className d, optional, operand := false, body := b }
        match firstDup [] c.asserts 0 with
        | none => fail { st with constrs := st.constrs ++ [c] } e
        | some k => fail { st with constrs := st.constrs ++ [{ c with body := .partial_ ((b.raw c.id).take k) }] } .assertion
  | .body b marks =>
      if !st.active then fail st .attribute
      else if name.isSome && st.constrs.any (·.name == name) then fail st .value
      else
        let c : Constr := { id := st.constrs.length, name, cls := className d, optional, operand := false, body := b, refs := marks }
        let st' := ({ st with constrs := st.constrs ++ [c] }).markOperands marks
        match firstDup [] c.asserts 0 with
        | none => ok st'
        | some k =>
            let c' := { c with body := .partial_ ((b.raw c.id).take k) }
            fail ({ st with constrs := st.constrs ++ [c'] }.markOperands marks) .assertion

/-! ### buffers -/

def stepBuffer (st : State) (name : String) (concurrent : Bool) (initial final lb ub : Option Int) : Res :=
  if !st.active then fail st .assertion
  else if initial.isNone && final.isNone then fail st .assertion
  else if st.buffers.any (·.name == name) then fail st .value
  else ok { st with buffers := st.buffers ++ [{ name, concurrent, initial, final, lb, ub }] }

/-! ### indicators (indicator.py) -/

/-- busy intervals an indicator reads from `resource._busy_intervals` (a cumulative worker's own
    table is empty) -/
def State.ownBusy (st : State) (res : String) : Option (List BusyRef) :=
  match st.findWorker res with
  | some _ => some (st.busyRefs res)
  | none => match st.findCumul res with
    | some _ => some []
    | none => none

def State.tasksOrAll (st : State) : Option (List String) → Option (List Task)
  | none => some st.tasks
  | some ns => st.tasksNamed ns

/-- (cost function, busy intervals) of a worker, or of each unit of a cumulative worker -/
def State.costItems (st : State) (r : String) : Option (List (Cost × List BusyRef)) :=
  match st.findWorker r with
  | some w => some [(w.cost, st.busyRefs r)]
  | none => (st.findCumul r).map (fun (cw : Cumul) => cw.units.filterMap (fun u =>
      (st.findWorker u).map (fun (w : Worker) => (w.cost, st.busyRefs u))))

def joinNames (ns : List String) : String := ",".intercalate ns

/-- (class name, reported name, body) -/
def State.resolveI (st : State) : IDecl → Option (String × Option String × String × Option (Int × Int) × IBody)
  | .expr name t bounds => some ("IndicatorFromMathExpression", some name, name, bounds, .expr t [])
  | .utilization res => (st.ownBusy res).map (fun b =>
      ("IndicatorResourceUtilization", none, "Utilization (" ++ res ++ ")", some (0, 100), .utilization b st.horizon))
  | .nbTasksAssigned res => (st.ownBusy res).map (fun b =>
      ("IndicatorNumberTasksAssigned", none, "Nb Tasks Assigned (" ++ res ++ ")", none, .nbTasksAssigned b))
  | .tardiness ts => (st.tasksOrAll ts).map (fun l =>
      ("IndicatorTardiness", none, (match ts with | none => "Total tardiness" | some ns => "Tardiness(" ++ joinNames ns ++ ")"),
       none, .tardiness l))
  | .earliness ts => (st.tasksOrAll ts).map (fun l =>
      ("IndicatorEarliness", none, (match ts with | none => "Total earliness" | some ns => "Earliness(" ++ joinNames ns ++ ")"),
       none, .earliness l))
  | .nbTardy ts => (st.tasksOrAll ts).map (fun l =>
      ("IndicatorNumberOfTardyTasks", none,
       (match ts with | none => "Number of tardy tasks" | some ns => "NumberOfTardyTasks(" ++ joinNames ns ++ ")"), none, .nbTardy l))
  | .maxLateness ts => (st.tasksOrAll ts).map (fun l =>
      ("IndicatorMaximumLateness", none,
       (match ts with | none => "MaximumLateness" | some ns => "MaximumLateness(" ++ joinNames ns ++ ")"), none, .maxLateness l))
  | .resourceCost rs =>
      (rs.mapM (st.costItems)).map (fun (items : List (List (Cost × List BusyRef))) =>
      ("IndicatorResourceCost", none, "Total Cost (" ++ joinNames rs ++ ")", none, .resourceCost (List.flatten items)))
  | .idle res => (st.ownBusy res).map (fun b => ("IndicatorResourceIdle", none, "ResourceIdle" ++ res, none, .idle b))
  | .maxBuffer b => (st.findBuffer b).map (fun bf =>
      ("IndicatorMaxBufferLevel", none, "MaximizeBuffer" ++ b ++ "Level", none, .maxBuffer (bufLevelVars st bf)))
  | .minBuffer b => (st.findBuffer b).map (fun bf =>
      ("IndicatorMinBufferLevel", none, "Mini " ++ b ++ " level", none, .minBuffer (bufLevelVars st bf)))

/-- register an indicator; `key` is the name it is registered under (`none` = auto-generated) -/
def State.addIndicator (st : State) (cls : String) (key : Option String) (name : String)
    (bounds : Option (Int × Int)) (body : IBody) : Res :=
  if !st.active then fail st .attribute
  else if key.isSome && st.indicators.any (·.key == key) then fail st .value
  else
    let id := st.indicators.length
    let v : IVar := match key with | some k => .ind k | none => .indAuto cls id
    let ind : Indicator := { id, key, name, var := v, bounds, body }
    match firstDup [] ind.asserts 0 with
    | none => ok { st with indicators := st.indicators ++ [ind] }
    | some k => fail { st with indicators := st.indicators ++ [{ ind with body := .partial_ (ind.asserts.take k) }] } .assertion

def stepIndicator (st : State) (d : IDecl) : Res :=
  match st.resolveI d with
  | none => fail st .validation
  | some (cls, key, name, bounds, body) => st.addIndicator cls key name bounds body

/-! ### objectives (objective.py) -/

def State.addObjective (st : State) (name : String) (target : Term) (bounds : Option (Int × Int))
    (weight : Int) (maximize : Bool) : Res :=
  if !st.active then fail st .attribute
  else if st.objectives.any (·.name == name) then fail st .value
  else ok { st with objectives := st.objectives ++ [{ name, target, bounds, weight, maximize }] }

/-- helper: create the indicator, then the objective over it -/
def State.indThenObj (st : State) (cls : String) (key : Option String) (iname : String)
    (bounds : Option (Int × Int)) (body : IBody) (oname : String) (maximize : Bool) : Res :=
  match st.addIndicator cls key iname bounds body with
  | (st', none) =>
      match st'.indicators.getLast? with
      | some ind => st'.addObjective oname (.var ind.var) ind.bounds 1 maximize
      | none => fail st' .other
  | r => r

/-- helper: the indicator is created and registered, then the constructor raises (residue) -/
def State.indThenFail (st : State) (cls : String) (key : Option String) (iname : String)
    (bounds : Option (Int × Int)) (body : IBody) (e : Err) : Res :=
  match st.addIndicator cls key iname bounds body with
  | (st', none) => fail st' e
  | r => r

def schedTimes (f : Task → Term) (ts : List Task) : List Term :=
  ts.map (fun t => if t.optional then Term.ite (.bvar (.sched t.name)) (f t) (numT 0) else f t)

def stepObjective (st : State) : ODecl → Res
  | .maximizeIndicator i w => match st.findIndicator i with
      | some ind => st.addObjective ("Maximize" ++ ind.name) (.var ind.var) ind.bounds w true
      | none => fail st .validation
  | .minimizeIndicator i w => match st.findIndicator i with
      | some ind => st.addObjective ("Minimize" ++ ind.name) (.var ind.var) ind.bounds w false
      | none => fail st .validation
  | .makespan => if !st.active then fail st .attribute else st.addObjective "MinimizeMakeSpan" (.var .horizon) none 1 false
  | .flowtime ts => match st.tasksOrAll ts with
      | some l => st.indThenObj "IndicatorFromMathExpression" (some "Flowtime") "Flowtime" none
          (.expr (sumOrZero (schedTimes (·.eVar) l)) []) "MinimizeFlowtime" false
      | none => fail st .validation
  | .priorities =>
      st.indThenObj "IndicatorFromMathExpression" (some "TotalPriority") "TotalPriority" none
        (.expr (sumOrZero (schedTimes (fun t => .mul t.eVar (numT t.prio)) st.tasks)) []) "MinimizePriority" false
  | .startEarliest =>
      st.indThenObj "IndicatorFromMathExpression" (some "WeightedStartTimes") "WeightedStartTimes" none
        (.expr (sumOrZero (schedTimes (fun t => .mul t.sVar (numT t.prio)) st.tasks)) []) "MinimizeWeightedStartTimes" false
  | .startLatest ts => match st.tasksOrAll ts with
      | some l =>
          let v := Term.var (.named "SmallestStartTimeVar")
          -- the indicator is created before `get_minimum` raises on the empty list: it stays registered
          if l.isEmpty then
            st.indThenFail "IndicatorFromMathExpression" (some "MinimumStartTime") "MinimumStartTime" none (.expr v []) .assertion
          else
          st.indThenObj "IndicatorFromMathExpression" (some "MinimumStartTime") "MinimumStartTime" none
            (.expr v (getMinimum v (l.map (·.sVar)))) "MaximizeStartLatest" true
      | none => fail st .validation
  | .greatestStart ts => match st.tasksOrAll ts with
      | some l =>
          let v := Term.var (.named "GreatestStartTime")
          if l.isEmpty then
            st.indThenFail "IndicatorFromMathExpression" (some "GreatestStartTime") "GreatestStartTime" none (.expr v []) .assertion
          else
          st.indThenObj "IndicatorFromMathExpression" (some "GreatestStartTime") "GreatestStartTime" none
            (.expr v (getMaximum v (l.map (·.sVar)))) "MinimizeGreatestStartTime" false
      | none => fail st .validation
  | .resourceUtilization res => match st.resolveI (.utilization res) with
      | some (cls, key, name, bounds, body) => st.indThenObj cls key name bounds body "MaximizeResourceUtilization" true
      | none => fail st .validation
  | .resourceCost rs => match st.resolveI (.resourceCost rs) with
      | some (cls, key, name, bounds, body) =>
          st.indThenObj cls key name bounds body ("MinimizeResourceCost" ++ "".intercalate rs) false
      | none => fail st .validation
  | .maximizeMaxBuffer b => match st.resolveI (.maxBuffer b) with
      | some (cls, key, name, bounds, body) => st.indThenObj cls key name bounds body "MaximizeBufferLevel" true
      | none => fail st .validation
  | .minimizeMaxBuffer b => match st.resolveI (.maxBuffer b) with
      | some (cls, key, name, bounds, body) => st.indThenObj cls key name bounds body "MinimizeBufferLevel" false
      | none => fail st .validation
  | .flowtimeSingleResource res interval => match st.ownBusy res with
      | none => fail st .validation
      | some busy =>
          let tasks := busy.filterMap (fun (b : BusyRef) => st.findTask b.task)
          let (lo, hi, his) : Term × Term × String := match interval with
            | some (l, h) => (numT l, numT h, toString h)
            | none => (numT 0, .var .horizon, "horizon")
          let los : String := match interval with | some (l, _) => toString l | none => "0"
          let tag := "_%f" ++ toString st.indicators.length ++ "%"
          let flow := Term.var (.named ("FlowtimeSingleResource" ++ res ++ tag))
          let maxi := Term.var (.named ("GreatestTaskEndTimeInTimePeriodForResource" ++ res ++ tag))
          let mini := Term.var (.named ("SmallestTaskEndTimeInTimePeriodForResource" ++ res ++ tag))
          let inWin (t : Task) : Fml := .and [.le t.eVar hi, .ge t.sVar lo]
          let extra : List Fml :=
            [Fml.or (tasks.map (fun t => Fml.imp (inWin t) (.eq maxi t.eVar)))] ++
            tasks.map (fun t => Fml.imp (inWin t) (.ge maxi t.eVar)) ++
            [Fml.or (tasks.map (fun t => Fml.imp (.and [.le t.eVar hi, .le t.sVar lo]) (.eq mini t.sVar)))] ++
            tasks.map (fun t => Fml.imp (inWin t) (.le mini t.sVar)) ++
            [.eq flow (.sub maxi mini), .ge flow (numT 0)]
          let nm := "(" ++ res ++ ":" ++ los ++ ":" ++ his ++ ")"
          st.indThenObj "IndicatorFromMathExpression" (some ("FlowTimeSingleResource" ++ nm)) ("FlowTimeSingleResource" ++ nm)
            none (.expr flow extra) ("ObjectiveFlowtimeSingleResource" ++ nm) false

def step (st : State) : Decl → Res
  | .problem name horizon => stepProblem st name horizon
  | .task name kind optional work release due deadline prio =>
      stepTask st name kind optional work release due deadline prio
  | .worker name prod cost => stepWorker st name prod cost
  | .cumulative name size prod cost => stepCumulative st name size prod cost
  | .select name workers n kind => stepSelect st name workers n kind
  | .require task res dynamic delayIn earlyOut => stepRequire st task res dynamic delayIn earlyOut
  | .constr name optional c => stepConstr st name optional c
  | .buffer name conc i f lb ub => stepBuffer st name conc i f lb ub
  | .indicator d => stepIndicator st d
  | .objective d => stepObjective st d

/-- run a whole script, continuing after errors (as an interactive Python session would) -/
def run (ds : List Decl) : State := ds.foldl (fun st d => (step st d).1) {}

/-- states a script can produce -/
def Reachable (st : State) : Prop := ∃ ds, run ds = st

end PS
