/-
  PS.Model.Initialize — `SchedulingSolver.initialize` (solver.py:189-395): the list of
  assertions handed to z3, in order, each tagged with its owner.
-/
import PS.Model.Step
import PS.Model.Indicator
namespace PS

/-- who contributed a formula (used for C19's tracking map and to localise mismatches) -/
inductive Owner where
  | task (n : String)
  | req (t : String)          -- requirement formulas of task t
  | worker (n : String)
  | constr (id : Nat) (cls : String)
  | indicator (id : Nat)
  | work (t : String)
  | buffer (n : String)
  | problem
  | objective
  | caller                -- blocking clauses / bounds added after initialisation
  deriving Repr, Inhabited, DecidableEq

def Owner.print : Owner → String
  | .task n => "task:" ++ n
  | .req t => "req:" ++ t
  | .worker n => "worker:" ++ n
  | .constr i cls => "constr:" ++ toString i ++ ":" ++ cls
  | .indicator i => "indicator:" ++ toString i
  | .work t => "work:" ++ t
  | .buffer n => "buffer:" ++ n
  | .problem => "problem"
  | .objective => "objective"
  | .caller => "caller"

structure Config where
  debug : Bool := false
  optimize : Bool := false          -- optimizer = "optimize"
  priority : String := "pareto"     -- optimize_priority
  logics : Option String := none
  parallel : Bool := false
  randomValues : Bool := false
  deriving Inhabited

/-- the `maybe` flag of the busy interval worker `w` currently holds for task `t`
    (`w._busy_intervals[t]`; `dflt` if there is none) -/
def State.busyFlag (st : State) (w t : String) (dflt : Bool) : Bool :=
  match (st.busyOf w).find? (·.1 == t) with
  | some e => e.2
  | none => dflt

/-- productivity × busy time of each required worker of `t` (solver.py:250-257) -/
def workTerms (st : State) (t : Task) : List Term :=
  (st.reqsOf t.name).filterMap (fun r =>
    match st.findWorker r.worker with
    | none => none
    | some w =>
      let m := st.busyFlag w.name t.name r.maybe
      some (Term.mul (numT w.prod) (.sub (bE w.name t.name m) (bS w.name t.name m))))

/-- work amount of one task (solver.py:246-261) -/
def workAmount (st : State) (t : Task) : List Fml :=
  if t.work > 0 then
    if (workTerms st t).isEmpty then []
    else
      let done := Fml.ge (.sum (workTerms st t)) (numT t.work)
      [if t.optional then .imp (.bvar (.sched t.name)) done else done]
  else []

/-! ### buffers (solver.py:263-385) -/

/-- one `bubble_up` pass of `sort_duplicates`; `x` is the element currently carried -/
def bubbleUpAux (b : String) (base : Nat) (x : Term) : List Term → List Term × List Fml × Nat
  | [] => ([x], [], base)
  | y :: rest =>
      let x1 := Term.var (.bfresh b base)
      let y1 := Term.var (.bfresh b (base + 1))
      let c := Fml.ite (.le x y) (.and [.eq x1 x, .eq y1 y]) (.and [.eq x1 y, .eq y1 x])
      let (arr, cs, k) := bubbleUpAux b (base + 2) y1 rest
      (x1 :: arr, c :: cs, k)

def bubbleUp (b : String) (base : Nat) : List Term → List Term × List Fml × Nat
  | [] => ([], [], base)
  | x :: rest => bubbleUpAux b base x rest

/-- `sort_duplicates`: `n` passes -/
def sortDup (b : String) (xs : List Term) : List Term × List Fml :=
  let r := (List.range xs.length).foldl (fun (acc : List Term × List Fml × Nat) _ =>
      let (arr, cs, k) := bubbleUp b acc.2.2 acc.1
      (arr, acc.2.1 ++ cs, k)) (xs, [], 0)
  (r.1, r.2.1)

def Buffer.ownAsserts (b : Buffer) : List Fml :=
  match b.initial with
  | some i => [.eq (.var (.bufInit b.name)) (numT i)]
  | none => []

def bufferFmls (st : State) (b : Buffer) : List Fml :=
  let unl := st.bufUnloading b.name
  let ld := st.bufLoading b.name
  let acc := st.bufAccesses b.name
  let inputs := unl.map (fun e => Term.var (.tStart e.1)) ++ ld.map (fun e => Term.var (.tEnd e.1))
  let (sorted, sortAs) :=
    if b.concurrent then sortDup b.name inputs else sortNoDup (fun i => .bfresh b.name i) inputs
  let times := b.timeVars acc
  let levels := b.levelVars acc
  let eqs := (sorted.zip times).map (fun (s, t) => Fml.eq s t)
  let fin := match b.final with
    | some f => [Fml.eq (levels.getLastD default) (numT f)]
    | none => []
  let lbs := match b.lb with | some l => levels.map (fun v => Fml.ge v (numT l)) | none => []
  let ubs := match b.ub with | some u => levels.map (fun v => Fml.le v (numT u)) | none => []
  let rec_ :=
    if b.concurrent then
      let fU := unl.map (fun e => (b.name ++ "_" ++ e.1 ++ "_quantity_unloading", Term.var (.tStart e.1), - e.2))
      let fL := ld.map (fun e => (b.name ++ "_" ++ e.1 ++ "_quantity_loading", Term.var (.tEnd e.1), e.2))
      let fs := fU ++ fL
      let pulses := fs.map (fun (f, p, q) => Fml.pulse ("t_" ++ b.name ++ "_variable") f p q)
      let steps := (List.range (levels.length - 1)).map (fun i =>
        let li := levels.getD i default
        let li1 := levels.getD (i + 1) default
        let ti := times.getD i default
        let upd := Fml.eq li1 (.add li (.sum (fs.map (fun (f, _, _) => Term.app f ti))))
        if i == 0 then upd
        else Fml.ite (.eq ti (times.getD (i - 1) default)) (.eq li1 li) upd)
      pulses ++ steps
    else
      let arr := "Buffer_" ++ b.name ++ "_mapping"
      let stores := unl.map (fun e => Fml.storeFix arr (.var (.tStart e.1)) (numT (- e.2))) ++
                    ld.map (fun e => Fml.storeFix arr (.var (.tEnd e.1)) (numT e.2))
      let steps := (List.range (levels.length - 1)).map (fun i =>
        Fml.eq (levels.getD (i + 1) default) (.add (levels.getD i default) (.select arr (times.getD i default))))
      stores ++ steps
  b.ownAsserts ++ sortAs ++ eqs ++ fin ++ lbs ++ ubs ++ rec_

/-! ### the problem's own assertions and the objective plumbing (solver.py:387-460) -/

def State.problemAsserts (st : State) : List Fml :=
  match st.horizon with
  | some h => [.le (.var .horizon) (numT h)]
  | none => []

def objectiveFmls (cfg : Config) (st : State) : List Fml :=
  if st.objectives.length > 1 && (!cfg.optimize || cfg.priority == "weight") then
    let eqv := IVar.named "EquivalentSingleObjective"
    let ws := st.objectives.map (fun o => Term.mul (numT o.weight) o.target)
    [.eq (.var eqv) (.sum ws), .eq (.var (.ind "EquivalentIndicator")) (.var eqv)]
  else []

/-- the assertion list of `initialize`, with owners -/
def initializeO (cfg : Config) (st : State) : List (Owner × Fml) :=
  (st.tasks.flatMap (fun t =>
      t.initAsserts.map (fun f => (Owner.task t.name, f)) ++
      ((st.eventsOf t.name).flatMap (·.fmls t)).map (fun f => (Owner.req t.name, f)) ++
      [(Owner.task t.name, t.horizonFml)])) ++
  (st.workers.flatMap (fun w => (noOverlapPairs w.name (st.busyOf w.name)).map (fun f => (Owner.worker w.name, f)))) ++
  ((st.constrs.filter (fun c => !c.operand)).flatMap (fun c => c.asserts.map (fun f => (Owner.constr c.id c.cls, f)))) ++
  (st.indicators.flatMap (fun i => i.asserts.map (fun f => (Owner.indicator i.id, f)))) ++
  (st.tasks.flatMap (fun t => (workAmount st t).map (fun f => (Owner.work t.name, f)))) ++
  (st.buffers.flatMap (fun b => (bufferFmls st b).map (fun f => (Owner.buffer b.name, f)))) ++
  (st.problemAsserts.map (fun f => (Owner.problem, f))) ++
  ((objectiveFmls cfg st).map (fun f => (Owner.objective, f)))

/-- `solver._solver.assertions()` after `initialize()` (non-debug): the same list without owners
    (`initializeO_fmls` in PS/Proofs/InitMem.lean proves `(initializeO cfg st).map (·.2) = initFmls cfg st`) -/
def initFmls (cfg : Config) (st : State) : List Fml :=
  (st.tasks.flatMap (fun t => st.taskAsserts t ++ [t.horizonFml])) ++
  (st.workers.flatMap (fun w => noOverlapPairs w.name (st.busyOf w.name))) ++
  ((st.constrs.filter (fun c => !c.operand)).flatMap (fun c => c.asserts)) ++
  (st.indicators.flatMap (fun i => i.asserts)) ++
  (st.tasks.flatMap (fun t => workAmount st t)) ++
  (st.buffers.flatMap (fun b => bufferFmls st b)) ++
  st.problemAsserts ++
  objectiveFmls cfg st

end PS
