/-
  PS.Model.Initialize — `SchedulingSolver.initialize` (solver.py:189-395): the list of
  assertions handed to z3, in order, each tagged with its owner.
-/
import PS.Model.Step
namespace PS

/-- who contributed a formula (used for C19's tracking map and to localise mismatches) -/
inductive Owner where
  | task (n : String)
  | worker (n : String)
  | constr (id : Nat)
  | indicator (id : Nat)
  | work (t : String)
  | buffer (n : String)
  | problem
  | objective
  | caller                -- blocking clauses / bounds added after initialisation
  deriving Repr, Inhabited, DecidableEq

def Owner.print : Owner → String
  | .task n => "task:" ++ n
  | .worker n => "worker:" ++ n
  | .constr i => "constr:" ++ toString i
  | .indicator i => "indicator:" ++ toString i
  | .work t => "work:" ++ t
  | .buffer n => "buffer:" ++ n
  | .problem => "problem"
  | .objective => "objective"
  | .caller => "caller"

structure Config where
  debug : Bool := false
  optimize : Bool := false          -- optimizer = "optimize"
  priority : String := "pareto"     -- optimize_priority
  logics : Option String := none
  parallel : Bool := false
  randomValues : Bool := false
  deriving Inhabited

/-- work amount of one task (solver.py:246-261) -/
def workAmount (st : State) (t : Task) : List Fml :=
  if t.work > 0 then
    let contribs := t.reqs.filterMap (fun r =>
      match st.findWorker r.worker with
      | none => none
      | some w =>
        let m := match w.busy.find? (·.1 == t.name) with | some e => e.2 | none => r.maybe
        some (Term.mul (numT w.prod) (.sub (bE w.name t.name m) (bS w.name t.name m))))
    if contribs.isEmpty then [] else [.ge (.sum contribs) (numT t.work)]
  else []

/-! ### buffers (solver.py:263-385) -/

/-- `sort_no_duplicates`: fresh `a_i`, each equal to one of the inputs, strictly increasing -/
def sortNoDup (base : Nat) (xs : List Term) : List Term × List Fml :=
  let n := xs.length
  let a := (List.range n).map (fun i => Term.var (.fresh (base + i)))
  let cs := a.map (fun ai => Fml.or (xs.map (fun x => Fml.eq ai x)))
  let inc := Fml.and ((List.range (n - 1)).map (fun i => Fml.lt (a.getD i default) (a.getD (i + 1) default)))
  (a, cs ++ [inc])

/-- one `bubble_up` pass of `sort_duplicates`; `x` is the element currently carried -/
def bubbleUpAux (base : Nat) (x : Term) : List Term → List Term × List Fml × Nat
  | [] => ([x], [], base)
  | y :: rest =>
      let x1 := Term.var (.fresh base)
      let y1 := Term.var (.fresh (base + 1))
      let c := Fml.ite (.le x y) (.and [.eq x1 x, .eq y1 y]) (.and [.eq x1 y, .eq y1 x])
      let (arr, cs, b) := bubbleUpAux (base + 2) y1 rest
      (x1 :: arr, c :: cs, b)

def bubbleUp (base : Nat) : List Term → List Term × List Fml × Nat
  | [] => ([], [], base)
  | x :: rest => bubbleUpAux base x rest

/-- `sort_duplicates`: `n` passes -/
def sortDup (base : Nat) (xs : List Term) : List Term × List Fml × Nat :=
  (List.range xs.length).foldl (fun (acc : List Term × List Fml × Nat) _ =>
      let (arr, cs, b) := bubbleUp acc.2.2 acc.1
      (arr, acc.2.1 ++ cs, b)) (xs, [], base)

def Buffer.levelVars (b : Buffer) : List Term :=
  Term.var (.bufInit b.name) :: b.accesses.map (fun t => Term.var (.bufLevel b.name t))

def Buffer.timeVars (b : Buffer) : List Term := b.accesses.map (fun t => Term.var (.bufTime b.name t))

def bufferFmls (base : Nat) (b : Buffer) : List Fml × Nat :=
  let unloadStarts := b.unloading.map (fun e => Term.var (.tStart e.1))
  let loadEnds := b.loading.map (fun e => Term.var (.tEnd e.1))
  let inputs := unloadStarts ++ loadEnds
  let (sorted, sortAs, base') :=
    if b.concurrent then sortDup base inputs
    else let (a, cs) := sortNoDup base inputs; (a, cs, base + inputs.length)
  let times := b.timeVars
  let levels := b.levelVars
  let eqs := (sorted.zip times).map (fun (s, t) => Fml.eq s t)
  let fin := match b.final with
    | some f => [Fml.eq (levels.getLastD default) (numT f)]
    | none => []
  let lbs := match b.lb with | some l => levels.map (fun v => Fml.ge v (numT l)) | none => []
  let ubs := match b.ub with | some u => levels.map (fun v => Fml.le v (numT u)) | none => []
  let rec_ :=
    if b.concurrent then
      let fU := b.unloading.map (fun e => (b.name ++ "_" ++ e.1 ++ "_quantity_unloading", Term.var (.tStart e.1), - e.2))
      let fL := b.loading.map (fun e => (b.name ++ "_" ++ e.1 ++ "_quantity_loading", Term.var (.tEnd e.1), e.2))
      let fs := fU ++ fL
      let pulses := fs.map (fun (f, p, q) => Fml.pulse f p q)
      let steps := (List.range (levels.length - 1)).map (fun i =>
        let li := levels.getD i default
        let li1 := levels.getD (i + 1) default
        let ti := times.getD i default
        let upd := Fml.eq li1 (.add li (.sum (fs.map (fun (f, _, _) => Term.app f ti))))
        if i == 0 then upd
        else Fml.ite (.eq ti (times.getD (i - 1) default)) (.eq li1 li) upd)
      pulses ++ steps
    else
      let arr := "Buffer_" ++ b.name ++ "_mapping"
      let stores := b.unloading.map (fun e => Fml.storeFix arr (.var (.tStart e.1)) (numT (- e.2))) ++
                    b.loading.map (fun e => Fml.storeFix arr (.var (.tEnd e.1)) (numT e.2))
      let steps := (List.range (levels.length - 1)).map (fun i =>
        Fml.eq (levels.getD (i + 1) default) (.add (levels.getD i default) (.select arr (times.getD i default))))
      stores ++ steps
  (b.asserts ++ sortAs ++ eqs ++ fin ++ lbs ++ ubs ++ rec_, base')

def buffersFmls (base : Nat) : List Buffer → List (Owner × Fml)
  | [] => []
  | b :: bs =>
      let (fs, base') := bufferFmls base b
      fs.map (fun f => (Owner.buffer b.name, f)) ++ buffersFmls base' bs

/-! ### objective plumbing (solver.py:416-460) -/

def objectiveFmls (cfg : Config) (st : State) : List (Owner × Fml) :=
  if st.objectives.length > 1 && (!cfg.optimize || cfg.priority == "weight") then
    let eqv := IVar.named "EquivalentSingleObjective"
    let ws := st.objectives.map (fun o => Term.mul (numT o.weight) (.var o.target))
    [(.objective, .eq (.var eqv) (.sum ws)),
     (.objective, .eq (.var (.ind "EquivalentIndicator")) (.var eqv))]
  else []

/-- the assertion list of `initialize`, with owners -/
def initializeO (cfg : Config) (st : State) : List (Owner × Fml) :=
  (st.tasks.flatMap (fun t => (t.asserts ++ [t.horizonFml]).map (fun f => (Owner.task t.name, f)))) ++
  (st.workers.flatMap (fun w => w.noOverlap.map (fun f => (Owner.worker w.name, f)))) ++
  ((st.constrs.filter (fun c => !c.operand)).flatMap (fun c => c.asserts.map (fun f => (Owner.constr c.id, f)))) ++
  (st.indicators.flatMap (fun i => i.asserts.map (fun f => (Owner.indicator i.id, f)))) ++
  (st.tasks.flatMap (fun t => (workAmount st t).map (fun f => (Owner.work t.name, f)))) ++
  buffersFmls st.nfresh st.buffers ++
  (st.passerts.map (fun f => (Owner.problem, f))) ++
  objectiveFmls cfg st

def initFmls (cfg : Config) (st : State) : List Fml := (initializeO cfg st).map (·.2)

end PS
