/-
  PS.Model.Parse — reading declarations of the line protocol (s-expressions) into the
  model's `Decl` values.  Pure glue; no logic of the library lives here.
-/
import PS.Sexp
import PS.Model.Step
namespace PS
open Sexp

def parseCountKind : Sexp → Option CountKind
  | .atom "exact" => some .exact
  | .atom "min" => some .min
  | .atom "max" => some .max
  | _ => none

def parseOrdKind : Sexp → Option OrdKind
  | .atom "lax" => some .lax
  | .atom "strict" => some .strict
  | .atom "tight" => some .tight
  | _ => none

def parseTaskKind : Sexp → Option TaskKind
  | .list [.atom "fixed", d] => do some (.fixed (← d.asInt?))
  | .list [.atom "zero"] => some .zero
  | .list [.atom "var", mn, mx, al] => do
      some (.var (← mn.asInt?) (← asOpt? asInt? mx) (← asOpt? (asList? asInt?) al))
  | _ => none

def parseCost : Sexp → Option Cost
  | .list [.atom "const", k] => do some (.const (← k.asInt?))
  | .list [.atom "linear", s, i] => do some (.linear (← s.asInt?) (← i.asInt?))
  | .list (.atom "poly" :: cs) => do some (.poly (← cs.mapM asInt?))
  | _ => none

def parseResRef : Sexp → Option ResRef
  | .list [.atom "worker", n] => do some (.worker (← n.asStr?))
  | .list [.atom "select", i] => do some (.select (← i.asNat?))
  | .list [.atom "cumul", n] => do some (.cumul (← n.asStr?))
  | _ => none

def parseCoreDecl : Sexp → Option CoreDecl
  | .list [.atom "problem", n, h] => do some (.problem (← n.asStr?) (← asOpt? asInt? h))
  | .list [.atom "task", n, k, opt, work, rel, due, dl, prio] => do
      some (.task (← n.asStr?) (← parseTaskKind k) (← opt.asBool?) (← work.asInt?)
        (← asOpt? asInt? rel) (← asOpt? asInt? due) (← dl.asBool?) (← prio.asInt?))
  | .list [.atom "worker", n, p, c] => do some (.worker (← n.asStr?) (← p.asInt?) (← parseCost c))
  | .list [.atom "cumulative", n, sz, p, c] => do
      some (.cumulative (← n.asStr?) (← sz.asInt?) (← p.asInt?) (← parseCost c))
  | .list [.atom "select", n, ws, k, kind] => do
      some (.select (← asOpt? asStr? n) (← asList? asStr? ws) (← k.asInt?) (← parseCountKind kind))
  | .list [.atom "require", t, r, dyn, di, eo] => do
      some (.require (← t.asStr?) (← parseResRef r) (← dyn.asBool?) (← di.asInt?) (← eo.asInt?))
  | _ => none

end PS
