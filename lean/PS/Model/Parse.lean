/-
  PS.Model.Parse — reading declarations of the line protocol (s-expressions) into the
  model's `Decl` values.  Pure glue; no logic of the library lives here.
-/
import PS.Sexp
import PS.Model.Step
namespace PS
open Sexp

def parseCountKind : Sexp → Option CountKind
  | .atom "exact" => some .exact
  | .atom "min" => some .min
  | .atom "max" => some .max
  | _ => none

def parseOrdKind : Sexp → Option OrdKind
  | .atom "lax" => some .lax
  | .atom "strict" => some .strict
  | .atom "tight" => some .tight
  | _ => none

def parseTaskKind : Sexp → Option TaskKind
  | .list [.atom "fixed", d] => do some (.fixed (← d.asInt?))
  | .list [.atom "zero"] => some .zero
  | .list [.atom "var", mn, mx, al] => do
      some (.var (← mn.asInt?) (← asOpt? asInt? mx) (← asOpt? (asList? asInt?) al))
  | _ => none

def parseCost : Sexp → Option Cost
  | .list [.atom "const", k] => do some (.const (← k.asInt?))
  | .list [.atom "linear", s, i] => do some (.linear (← s.asInt?) (← i.asInt?))
  | .list (.atom "poly" :: cs) => do some (.poly (← cs.mapM asInt?))
  | _ => none

def parseResRef : Sexp → Option ResRef
  | .list [.atom "worker", n] => do some (ResRef.worker (← n.asStr?))
  | .list [.atom "select", i] => do some (ResRef.select (← i.asNat?))
  | .list [.atom "cumul", n] => do some (ResRef.cumul (← n.asStr?))
  | _ => none

def parseIVar : Sexp → Option IVar
  | .list [.atom "tstart", n] => do some (.tStart (← n.asStr?))
  | .list [.atom "tend", n] => do some (.tEnd (← n.asStr?))
  | .list [.atom "tdur", n] => do some (.tDur (← n.asStr?))
  | .list [.atom "busys", w, t, m] => do some (.busyS (← w.asStr?) (← t.asStr?) (← m.asBool?))
  | .list [.atom "busye", w, t, m] => do some (.busyE (← w.asStr?) (← t.asStr?) (← m.asBool?))
  | .list [.atom "horizon"] => some .horizon
  | .list [.atom "ind", n] => do some (.ind (← n.asStr?))
  | .list [.atom "named", n] => do some (.named (← n.asStr?))
  | _ => none

def parseBVar : Sexp → Option BVar
  | .list [.atom "sched", n] => do some (.sched (← n.asStr?))
  | .list [.atom "sel", s, w] => do some (.sel (← s.asNat?) (← w.asStr?))
  | .list [.atom "applied", c] => do some (.applied (← c.asNat?))
  | .list [.atom "bnamed", n] => do some (.named (← n.asStr?))
  | _ => none

mutual
partial def parseTerm : Sexp → Option Term
  | .atom s => (s.toInt?).map Term.num
  | .list [.atom "var", v] => (parseIVar v).map Term.var
  | .list (.atom "sum" :: l) => do some (.sum (← l.mapM parseTerm))
  | .list [.atom "+", a, b] => do some (.add (← parseTerm a) (← parseTerm b))
  | .list [.atom "-", a, b] => do some (.sub (← parseTerm a) (← parseTerm b))
  | .list [.atom "*", a, b] => do some (.mul (← parseTerm a) (← parseTerm b))
  | .list [.atom "neg", a] => do some (.neg (← parseTerm a))
  | .list [.atom "div", a, b] => do some (.div (← parseTerm a) (← parseTerm b))
  | .list [.atom "mod", a, b] => do some (.mod (← parseTerm a) (← parseTerm b))
  | .list [.atom "ite", c, a, b] => do some (.ite (← parseFml c) (← parseTerm a) (← parseTerm b))
  | _ => none
partial def parseFml : Sexp → Option Fml
  | .atom "true" => some .tt
  | .atom "false" => some .ff
  | .list [.atom "bvar", v] => (parseBVar v).map Fml.bvar
  | .list [.atom "not", a] => do some (.not (← parseFml a))
  | .list (.atom "and" :: l) => do some (.and (← l.mapM parseFml))
  | .list (.atom "or" :: l) => do some (.or (← l.mapM parseFml))
  | .list [.atom "xor", a, b] => do some (.xor (← parseFml a) (← parseFml b))
  | .list [.atom "=>", a, b] => do some (.imp (← parseFml a) (← parseFml b))
  | .list [.atom "if", c, a, b] => do some (.ite (← parseFml c) (← parseFml a) (← parseFml b))
  | .list [.atom "iff", a, b] => do some (.iff (← parseFml a) (← parseFml b))
  | .list [.atom "<=", a, b] => do some (.le (← parseTerm a) (← parseTerm b))
  | .list [.atom "<", a, b] => do some (.lt (← parseTerm a) (← parseTerm b))
  | .list [.atom ">=", a, b] => do some (.ge (← parseTerm a) (← parseTerm b))
  | .list [.atom ">", a, b] => do some (.gt (← parseTerm a) (← parseTerm b))
  | .list [.atom "=", a, b] => do some (.eq (← parseTerm a) (← parseTerm b))
  | .list [.atom "!=", a, b] => do some (.ne (← parseTerm a) (← parseTerm b))
  | _ => none
end

def parseOperand : Sexp → Option Operand
  | .list [.atom "ref", i] => do some (.ref (← i.asNat?))
  | .list [.atom "raw", f] => do some (.raw (← parseFml f))
  | _ => none

def parsePair : Sexp → Option (Int × Int)
  | .list [a, b] => do some ((← a.asInt?), (← b.asInt?))
  | _ => none

def parseTriple : Sexp → Option ((Int × Int) × Int)
  | .list [a, b, c] => do some (((← a.asInt?), (← b.asInt?)), (← c.asInt?))
  | _ => none

def parseCDecl : Sexp → Option CDecl
  | .list [.atom "startAt", t, v] => do some (.startAt (← t.asStr?) (← v.asInt?))
  | .list [.atom "startAfter", t, v, s] => do some (.startAfter (← t.asStr?) (← v.asInt?) (← s.asBool?))
  | .list [.atom "endAt", t, v] => do some (.endAt (← t.asStr?) (← v.asInt?))
  | .list [.atom "endBefore", t, v, s] => do some (.endBefore (← t.asStr?) (← v.asInt?) (← s.asBool?))
  | .list [.atom "precedence", b, a, off, k] => do
      some (.precedence (← b.asStr?) (← a.asStr?) (← off.asInt?) (← parseOrdKind k))
  | .list [.atom "startSynced", a, b] => do some (.startSynced (← a.asStr?) (← b.asStr?))
  | .list [.atom "endSynced", a, b] => do some (.endSynced (← a.asStr?) (← b.asStr?))
  | .list [.atom "dontOverlap", a, b] => do some (.dontOverlap (← a.asStr?) (← b.asStr?))
  | .list [.atom "contiguous", ts] => do some (.contiguous (← asList? asStr? ts))
  | .list [.atom "unorderedGroup", ts, w, len] => do
      some (.unorderedGroup (← asList? asStr? ts) (← asOpt? parsePair w) (← len.asInt?))
  | .list [.atom "orderedGroup", ts, w, len, k] => do
      some (.orderedGroup (← asList? asStr? ts) (← asOpt? parsePair w) (← len.asInt?) (← parseOrdKind k))
  | .list [.atom "scheduleN", ts, n, ivs, k] => do
      some (.scheduleN (← asList? asStr? ts) (← n.asInt?) (← asList? parsePair ivs) (← parseCountKind k))
  | .list [.atom "forceSchedule", t, b] => do some (.forceSchedule (← t.asStr?) (← b.asBool?))
  | .list [.atom "conditionSchedule", t, c] => do some (.conditionSchedule (← t.asStr?) (← parseFml c))
  | .list [.atom "dependency", a, b] => do some (.dependency (← a.asStr?) (← b.asStr?))
  | .list [.atom "forceScheduleN", ts, n, k] => do
      some (.forceScheduleN (← asList? asStr? ts) (← n.asInt?) (← parseCountKind k))
  | .list [.atom "fromExpr", f] => do some (.fromExpr (← parseFml f))
  | .list [.atom "forceApplyN", cs, n, k] => do
      some (.forceApplyN (← asList? asNat? cs) (← n.asInt?) (← parseCountKind k))
  | .list [.atom "not", o] => do some (.not_ (← parseOperand o))
  | .list [.atom "or", os] => do some (.or_ (← asList? parseOperand os))
  | .list [.atom "and", os] => do some (.and_ (← asList? parseOperand os))
  | .list [.atom "xor", a, b] => do some (.xor_ (← parseOperand a) (← parseOperand b))
  | .list [.atom "implies", c, os] => do some (.implies (← parseFml c) (← asList? parseOperand os))
  | .list [.atom "ifThenElse", c, os1, os2] => do
      some (.ifThenElse (← parseFml c) (← asList? parseOperand os1) (← asList? parseOperand os2))
  | .list [.atom "unavailable", r, ivs] => do some (.unavailable (← r.asStr?) (← asList? parsePair ivs))
  | .list [.atom "workload", r, ivs, k] => do
      some (.workload (← r.asStr?) (← asList? parseTriple ivs) (← parseCountKind k))
  | .list [.atom "nonDelay", r] => do some (.nonDelay (← r.asStr?))
  | .list [.atom "distance", r, d, ivs, m] => do
      some (.distance (← r.asStr?) (← d.asInt?) (← asOpt? (asList? parsePair) ivs) (← parseCountKind m))
  | .list [.atom "interrupted", r, ivs] => do some (.interrupted (← r.asStr?) (← asList? parsePair ivs))
  | .list [.atom "periodicallyUnavailable", r, ivs, p, st, off, en] => do
      some (.periodicallyUnavailable (← r.asStr?) (← asList? parsePair ivs) (← p.asInt?) (← st.asInt?) (← off.asInt?)
        (← asOpt? asInt? en))
  | .list [.atom "periodicallyInterrupted", r, ivs, p, st, off, en] => do
      some (.periodicallyInterrupted (← r.asStr?) (← asList? parsePair ivs) (← p.asInt?) (← st.asInt?) (← off.asInt?)
        (← asOpt? asInt? en))
  | .list [.atom "sameWorkers", a, b] => do some (.sameWorkers (← a.asNat?) (← b.asNat?))
  | .list [.atom "distinctWorkers", a, b] => do some (.distinctWorkers (← a.asNat?) (← b.asNat?))
  | .list [.atom "unloadBuffer", t, b, q] => do some (.unloadBuffer (← t.asStr?) (← b.asStr?) (← q.asInt?))
  | .list [.atom "loadBuffer", t, b, q] => do some (.loadBuffer (← t.asStr?) (← b.asStr?) (← q.asInt?))
  | .list [.atom "indicatorTarget", i, v] => do some (.indicatorTarget (← i.asNat?) (← v.asInt?))
  | .list [.atom "indicatorBounds", i, lo, hi] => do
      some (.indicatorBounds (← i.asNat?) (← asOpt? asInt? lo) (← asOpt? asInt? hi))
  | _ => none

def parseIDecl : Sexp → Option IDecl
  | .list [.atom "expr", n, t, bnd] => do some (.expr (← n.asStr?) (← parseTerm t) (← asOpt? parsePair bnd))
  | .list [.atom "utilization", r] => do some (.utilization (← r.asStr?))
  | .list [.atom "nbTasksAssigned", r] => do some (.nbTasksAssigned (← r.asStr?))
  | .list [.atom "tardiness", ts] => do some (.tardiness (← asOpt? (asList? asStr?) ts))
  | .list [.atom "earliness", ts] => do some (.earliness (← asOpt? (asList? asStr?) ts))
  | .list [.atom "nbTardy", ts] => do some (.nbTardy (← asOpt? (asList? asStr?) ts))
  | .list [.atom "maxLateness", ts] => do some (.maxLateness (← asOpt? (asList? asStr?) ts))
  | .list [.atom "resourceCost", rs] => do some (.resourceCost (← asList? asStr? rs))
  | .list [.atom "idle", r] => do some (.idle (← r.asStr?))
  | .list [.atom "maxBuffer", b] => do some (.maxBuffer (← b.asStr?))
  | .list [.atom "minBuffer", b] => do some (.minBuffer (← b.asStr?))
  | _ => none

def parseODecl : Sexp → Option ODecl
  | .list [.atom "maximizeIndicator", i, w] => do some (.maximizeIndicator (← i.asNat?) (← w.asInt?))
  | .list [.atom "minimizeIndicator", i, w] => do some (.minimizeIndicator (← i.asNat?) (← w.asInt?))
  | .list [.atom "makespan"] => some .makespan
  | .list [.atom "flowtime", ts] => do some (.flowtime (← asOpt? (asList? asStr?) ts))
  | .list [.atom "priorities"] => some .priorities
  | .list [.atom "startLatest", ts] => do some (.startLatest (← asOpt? (asList? asStr?) ts))
  | .list [.atom "startEarliest"] => some .startEarliest
  | .list [.atom "greatestStart", ts] => do some (.greatestStart (← asOpt? (asList? asStr?) ts))
  | .list [.atom "resourceUtilization", r] => do some (.resourceUtilization (← r.asStr?))
  | .list [.atom "resourceCost", rs] => do some (.resourceCost (← asList? asStr? rs))
  | .list [.atom "maximizeMaxBuffer", b] => do some (.maximizeMaxBuffer (← b.asStr?))
  | .list [.atom "minimizeMaxBuffer", b] => do some (.minimizeMaxBuffer (← b.asStr?))
  | .list [.atom "flowtimeSingleResource", r, iv] => do
      some (.flowtimeSingleResource (← r.asStr?) (← asOpt? parsePair iv))
  | _ => none

def parseDecl : Sexp → Option Decl
  | .list [.atom "problem", n, h] => do some (Decl.problem (← n.asStr?) (← asOpt? asInt? h))
  | .list [.atom "task", n, k, opt, work, rel, due, dl, prio] => do
      some (Decl.task (← n.asStr?) (← parseTaskKind k) (← opt.asBool?) (← work.asInt?)
        (← asOpt? asInt? rel) (← asOpt? asInt? due) (← dl.asBool?) (← prio.asInt?))
  | .list [.atom "worker", n, p, c] => do some (Decl.worker (← n.asStr?) (← p.asInt?) (← parseCost c))
  | .list [.atom "cumulative", n, sz, p, c] => do
      some (Decl.cumulative (← n.asStr?) (← sz.asInt?) (← p.asInt?) (← parseCost c))
  | .list [.atom "select", n, ws, k, kind] => do
      some (Decl.select (← asOpt? asStr? n) (← asList? asStr? ws) (← k.asInt?) (← parseCountKind kind))
  | .list [.atom "require", t, r, dyn, di, eo] => do
      some (Decl.require (← t.asStr?) (← parseResRef r) (← dyn.asBool?) (← di.asInt?) (← eo.asInt?))
  | .list [.atom "constraint", n, opt, c] => do
      some (Decl.constr (← asOpt? asStr? n) (← opt.asBool?) (← parseCDecl c))
  | .list [.atom "buffer", n, conc, i, f, lb, ub] => do
      some (Decl.buffer (← n.asStr?) (← conc.asBool?) (← asOpt? asInt? i) (← asOpt? asInt? f)
        (← asOpt? asInt? lb) (← asOpt? asInt? ub))
  | .list [.atom "indicator", d] => do some (Decl.indicator (← parseIDecl d))
  | .list [.atom "objective", d] => do some (Decl.objective (← parseODecl d))
  | _ => none

end PS
