/-
  PS.Model.Export — the tabular exporters (solution.py: to_df / to_csv, excel_io.py) and the
  Gantt geometry (plotter.py: render_gantt_matplotlib) as pure functions of a `Solution`.
  Gantt coordinates are exact rationals, represented in units of 1/20.
-/
import PS.Model.Solution
namespace PS

/-! ### DataFrame / CSV -/

structure DfRow where
  name : String
  resources : List String
  start : Int
  end_ : Int
  duration : Int
  scheduled : Bool
  tardy : Option Int          -- `start - due_date`, or `False` (none) without a due date
  deriving Repr, Inhabited, DecidableEq

def dfRows (s : Solution) : List DfRow :=
  s.tasks.map (fun t => { name := t.name, resources := t.assigned, start := t.start, end_ := t.end_,
                          duration := t.duration, scheduled := t.scheduled,
                          tardy := t.due.map (fun d => t.start - d) })

/-! ### Excel -/

/-- a call made on an xlsxwriter worksheet -/
inductive Cell where
  | write (sheet : String) (row : Nat) (col : Int) (text : String)
  | merge (sheet : String) (row : Nat) (c1 c2 : Int) (text : String)
  deriving Repr, Inhabited, DecidableEq

def itemCell (sheet : String) (row : Nat) (start end_ : Int) (text : String) : Cell :=
  if end_ - start > 1 then .merge sheet row (start + 1) end_ text
  else .write sheet row (start + 1) text

def enumFrom {α} (k : Nat) : List α → List (Nat × α)
  | [] => []
  | x :: xs => (k, x) :: enumFrom (k + 1) xs

def excelCells (s : Solution) : List Cell :=
  [Cell.write "GANTT Resource view" 0 0 "Resources"] ++
  (enumFrom 0 s.resources).flatMap (fun (i, r) =>
    Cell.write "GANTT Resource view" (i + 1) 0 r.name ::
    r.assignments.map (fun a => itemCell "GANTT Resource view" (i + 1) a.2.1 a.2.2 a.1)) ++
  [Cell.write "GANTT Task view" 0 0 "Tasks"] ++
  (enumFrom 0 s.tasks).flatMap (fun (i, t) =>
    [Cell.write "GANTT Task view" (i + 1) 0 t.name,
     itemCell "GANTT Task view" (i + 1) t.start t.end_ (",".intercalate t.assigned)]) ++
  [Cell.write "Indicators" 0 0 "Indicator", Cell.write "Indicators" 0 1 "Value"] ++
  (enumFrom 0 s.indicators).flatMap (fun (i, ind) =>
    [Cell.write "Indicators" (i + 1) 0 ind.1, Cell.write "Indicators" (i + 1) 1 (toString ind.2)])

/-! ### Gantt (matplotlib) -/

structure Bar where
  row : Nat
  x20 : Int        -- left edge · 20
  w20 : Int        -- width · 20
  label : String
  tx20 : Int       -- x of the label · 20
  deriving Repr, Inhabited, DecidableEq

/-- `draw_broken_barh_with_text`: a zero-length item is a marker of width 1/10 centred on its instant -/
def mkBar (row : Nat) (start length : Int) (label : String) : Bar :=
  if length == 0 then { row, x20 := 20 * start - 1, w20 := 2, label, tx20 := 20 * start }
  else { row, x20 := 20 * start, w20 := 20 * length, label, tx20 := 20 * start + 10 * length }

def emptySet : String := "($\\emptyset$)"

/-- render mode actually used: Task when asked for, or when there is no resource -/
def effectiveTaskMode (s : Solution) (taskMode : Bool) : Bool := taskMode || s.resources.isEmpty

def ganttBars (s : Solution) (taskMode : Bool) : List Bar :=
  if effectiveTaskMode s taskMode then
    (enumFrom 0 (s.tasks.filter (·.scheduled))).map (fun (i, t) =>
      mkBar i t.start t.duration (if t.assigned.isEmpty then emptySet else ",".intercalate t.assigned))
  else
    (enumFrom 0 s.resources).flatMap (fun (i, r) =>
      r.assignments.map (fun a => mkBar i a.2.1 (a.2.2 - a.2.1) a.1))

def ganttRowLabels (s : Solution) (taskMode : Bool) : List String :=
  if effectiveTaskMode s taskMode then (s.tasks.filter (·.scheduled)).map (·.name) else s.resources.map (·.name)

/-- step segments of one buffer: `(x_k, x_{k+1}, level_k)` with `x = 0 :: times ++ [horizon]` -/
def bufferSteps (horizon : Int) (b : BufSol) : List (Int × Int × Int) :=
  let xs := (0 :: b.times) ++ [horizon]
  (enumFrom 0 b.levels).map (fun (k, y) => (xs.getD k 0, xs.getD (k + 1) 0, y))

/-! ### canonical printing for the OUT channel -/

def DfRow.print (r : DfRow) : String :=
  "row " ++ Sexp.quote r.name ++ " [" ++ " ".intercalate (r.resources.map Sexp.quote) ++ "] " ++ toString r.start ++ " " ++
  toString r.end_ ++ " " ++ toString r.duration ++ " " ++ toString r.scheduled ++ " " ++ optI r.tardy

def Cell.print : Cell → String
  | .write sh r c t => "write " ++ Sexp.quote sh ++ " " ++ toString r ++ " " ++ toString c ++ " " ++ Sexp.quote t
  | .merge sh r c1 c2 t => "merge " ++ Sexp.quote sh ++ " " ++ toString r ++ " " ++ toString c1 ++ " " ++ toString c2 ++ " " ++ Sexp.quote t

def Bar.print (b : Bar) : String :=
  "bar " ++ toString b.row ++ " " ++ toString b.x20 ++ " " ++ toString b.w20 ++ " " ++ Sexp.quote b.label ++ " " ++ toString b.tx20

end PS
