/-
  PS.Model.Solver — the `SchedulingSolver` object as a state machine over an external oracle
  (solver.py:111-151, 397-490, 630-872).

  The SMT solver is an *input*: every `check()` consumes one scripted answer
  (`sat ρ | unsat | unknown`) and one scripted duration.  The model predicts the sequence of
  calls made on the z3 solver object (`Ev`), the assertion stack each `check` sees, and what
  each public method returns.  The SM channel replays the same answers on the real code behind
  a recording proxy and compares.
-/
import PS.Model.Initialize
namespace PS

inductive Answer where
  | sat (ρ : Env)
  | unsat
  | unknown

/-- calls observed on the z3 solver object -/
inductive Ev where
  | new (kind : String)
  | initAdd (n : Nat)              -- formulas added by `initialize` (ENC compares their text)
  | minimize (t : String) | maximize (t : String)
  | check (r : String)
  | model
  | push | pop
  | add (f : String)               -- formulas added after initialisation (bounds, blocking clauses)
  | unsatCore
  | ret (v : String)               -- return value kind of the public method
  deriving Repr, BEq, Inhabited

def Ev.print : Ev → String
  | .new k => "new " ++ k
  | .initAdd n => "init-add " ++ toString n
  | .minimize t => "minimize " ++ t
  | .maximize t => "maximize " ++ t
  | .check r => "check " ++ r
  | .model => "model"
  | .push => "push"
  | .pop => "pop"
  | .add f => "add " ++ f
  | .unsatCore => "unsat_core"
  | .ret v => "return " ++ v

structure SConfig where
  debug : Bool := false
  optimize : Bool := false
  priority : String := "pareto"
  logics : Option String := none
  maxIter : Option Nat := none
  maxTime : Int := 20
  deriving Inhabited

def SConfig.toConfig (c : SConfig) : Config :=
  { debug := c.debug, optimize := c.optimize, priority := c.priority, logics := c.logics }

/-- the objective the incremental loop / z3.Optimize works on -/
structure Goal where
  target : IVar
  isMin : Bool
  bound : Option Int        -- the bound at which the incremental loop stops early
  deriving Inhabited

structure SolverSt where
  cfg : SConfig
  initialized : Bool := false
  base : List Fml := []             -- assertions at level 0 (initialize + blocking clauses)
  frames : List Fml := []           -- bounds pushed by a running incremental loop (innermost first)
  model : Option Env := none        -- `_model`
  goal : Option Goal := none        -- `_objective` (incremental) if any
  trace : List Ev := []
  deriving Inhabited

/-- which objective `create_objective` installs, given the problem's objectives -/
def mkGoal (cfg : SConfig) (st : State) : Option Goal :=
  match st.objectives with
  | [] => none
  | [o] =>
      (match o.target with
       | .var v => some { target := v, isMin := !o.maximize,
                          bound := o.bounds.map (fun b => if o.maximize then b.2 else b.1) }
       | _ => none)
  | os =>
      if !cfg.optimize || cfg.priority == "weight" then
        -- the equivalent weighted objective takes the kind of the *last* declared objective
        some { target := .ind "EquivalentIndicator", isMin := !(os.getLast?.map (·.maximize)).getD false,
               bound := none }
      else none

def solverKind (cfg : SConfig) (st : State) : String :=
  if !st.objectives.isEmpty && cfg.optimize then "Optimize:" ++ cfg.priority
  else match cfg.logics with
    | none => "Solver"
    | some l => "SolverFor:" ++ l

/-- `minimize/maximize` calls made by `create_objective` on a z3.Optimize instance -/
def optimizeCalls (cfg : SConfig) (st : State) : List Ev :=
  if !cfg.optimize then [] else
  match st.objectives with
  | [] => []
  | [o] => [if o.maximize then .maximize o.target.print else .minimize o.target.print]
  | os =>
      if cfg.priority == "weight" then
        [if (os.getLast?.map (·.maximize)).getD false then .maximize "Indicator_EquivalentIndicator"
         else .minimize "Indicator_EquivalentIndicator"]
      else os.map (fun o => if o.maximize then Ev.maximize o.target.print else .minimize o.target.print)

def SolverSt.initialize (s : SolverSt) (st : State) : SolverSt :=
  let fs := initFmls s.cfg.toConfig st
  { s with initialized := true, base := fs, frames := [], goal := mkGoal s.cfg st,
           trace := s.trace ++ [.new (solverKind s.cfg st), .initAdd fs.length] ++ optimizeCalls s.cfg st }

/-- the assertion stack a `check()` sees -/
def SolverSt.stack (s : SolverSt) : List Fml := s.base ++ s.frames.reverse

/-! ### the incremental optimiser (solver.py:713-819) -/

structure LoopSt where
  iter : Nat := 0
  best : Option Env := none
  cur : Option Int := none
  total : Int := 0
  three : List Int := []
  frames : List Fml := []          -- pushed bounds, innermost first
  trace : List Ev := []
  values : List Int := []          -- objective values found, most recent first
  exit : String := "answers-exhausted"
  deriving Inhabited

def boundFml (g : Goal) (v : Int) : Fml :=
  if g.isMin then .lt (.var g.target) (numT v) else .gt (.var g.target) (numT v)

/-- one run of the loop over the scripted answers / durations -/
def incLoop (g : Goal) (maxIter : Option Nat) (maxTime : Int) : List (Answer × Int) → LoopSt → LoopSt
  | [], l => l
  | (a, d) :: rest, l =>
    let iter := l.iter + 1
    if (match maxIter with | some m => decide (iter > m) | none => false) then
      { l with iter, exit := "max-iter" }
    else
      match a with
      | .unsat => { l with iter, trace := l.trace ++ [.check "unsat"], exit := "unsat" }
      | .unknown => { l with iter, trace := l.trace ++ [.check "unknown"], exit := "unknown" }
      | .sat ρ =>
        let v := ρ.i g.target
        let total := l.total + d
        let l1 := { l with iter, best := some ρ, cur := some v, total, values := v :: l.values,
                           trace := l.trace ++ [.check "sat", .model] }
        if total > maxTime then { l1 with exit := "max-time" }
        else if g.bound == some v then { l1 with exit := "bound" }
        else
          let (three, stop) :=
            if l.three.length < 3 then (l.three ++ [total], false)
            else
              let t := l.three.drop 1 ++ [total]
              (t, decide (t.getD 0 0 - 3 * t.getD 1 0 + 3 * t.getD 2 0 > maxTime))
          if stop then { l1 with three, exit := "expected-time" }
          else
            let b := boundFml g v
            incLoop g maxIter maxTime rest
              { l1 with three, frames := b :: l1.frames, trace := l1.trace ++ [.push, .add b.print] }

/-! ### public methods -/

/-- blocking clause of `find_another_solution` -/
def blockingClause (st : State) (ρ : Env) : Fml :=
  .or (st.tasks.flatMap (fun t =>
    [Fml.ne t.sVar (numT (ρ.i (.tStart t.name))), Fml.ne t.eVar (numT (ρ.i (.tEnd t.name)))] ++
    (if t.optional then [Fml.neb (.bvar (.sched t.name)) (if ρ.b (.sched t.name) then .tt else .ff)] else [])))

inductive Op where
  | initialize
  | solve
  | findAnother
  | findAnotherVar (v : IVar)
  | export
  deriving Inhabited

/-- result of a public call: new state, remaining oracle answers, raised error -/
structure OpRes where
  s : SolverSt
  rest : List (Answer × Int)
  err : Option Err := none

def SolverSt.ensureInit (s : SolverSt) (st : State) : SolverSt :=
  if s.initialized then s else s.initialize st

def SolverSt.solve (s0 : SolverSt) (st : State) (answers : List (Answer × Int)) : OpRes :=
  let s := s0.ensureInit st
  match (if !st.objectives.isEmpty && !s.cfg.optimize then s.goal else none) with
  | some g =>
      let l := incLoop g s.cfg.maxIter s.cfg.maxTime answers {}
      let used := l.trace.countP (fun e => match e with | .check _ => true | _ => false)
      let pops := List.replicate l.frames.length Ev.pop
      let s1 := { s with trace := s.trace ++ l.trace ++ pops, frames := [] }
      match l.best with
      | none => { s := { s1 with trace := s1.trace ++ [.ret "False"] }, rest := answers.drop used }
      | some ρ => { s := { s1 with model := some ρ, trace := s1.trace ++ [.ret "solution"] }, rest := answers.drop used }
  | none =>
      match answers with
      | [] => { s := { s with trace := s.trace ++ [.ret "False"] }, rest := [] }
      | (a, _) :: rest =>
        match a with
        | .unsat =>
            { s := { s with trace := s.trace ++ [.check "unsat"] ++ (if s.cfg.debug then [.unsatCore] else []) ++ [.ret "False"] },
              rest }
        | .unknown => { s := { s with trace := s.trace ++ [.check "unknown", .ret "False"] }, rest }
        | .sat ρ => { s := { s with model := some ρ, trace := s.trace ++ [.check "sat", .model, .ret "solution"] }, rest }

def SolverSt.step (s : SolverSt) (st : State) (op : Op) (answers : List (Answer × Int)) : OpRes :=
  match op with
  | .initialize => { s := s.initialize st, rest := answers }
  | .solve => s.solve st answers
  | .export => { s := s.ensureInit st, rest := answers }
  | .findAnother =>
      match s.model with
      | none => { s, rest := answers, err := some .assertion }
      | some ρ =>
          let b := blockingClause st ρ
          ({ s with base := s.base ++ [b], trace := s.trace ++ [.add b.print] }).solve st answers
  | .findAnotherVar v =>
      match s.model with
      | none => { s, rest := answers, err := some .assertion }
      | some ρ =>
          let b := Fml.ne (.var v) (numT (ρ.i v))
          ({ s with base := s.base ++ [b], trace := s.trace ++ [.add b.print] }).solve st answers

/-- run a sequence of public calls -/
def runOps (s : SolverSt) (st : State) : List Op → List (Answer × Int) → SolverSt
  | [], _ => s
  | op :: ops, answers =>
      let r := s.step st op answers
      runOps r.s st ops r.rest

end PS
