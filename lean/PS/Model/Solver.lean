/-
  PS.Model.Solver — the `SchedulingSolver` object as a state machine over an external oracle
  (solver.py:111-151, 397-490, 630-872).

  The SMT solver is an *input*: every `check()` consumes one scripted answer
  (`sat ρ | unsat | unknown`) and one scripted duration.  The model predicts the sequence of
  calls made on the z3 solver object (`Ev`), the assertion stack each `check` sees, and what
  each public method returns.  The SM channel replays the same answers on the real code behind
  a recording proxy and compares.
-/
import PS.Model.Initialize
namespace PS

inductive Answer where
  | sat (ρ : Env)
  | unsat
  | unknown

/-- calls observed on the z3 solver object -/
inductive Ev where
  | new (kind : String)
  | initAdd (n : Nat)              -- formulas added by `initialize` (ENC compares their text)
  | minimize (t : String) | maximize (t : String)
  | check (r : String)
  | model
  | push | pop
  | add (f : String)               -- formulas added after initialisation (bounds, blocking clauses)
  | unsatCore
  | trackedOwners (n : Nat)       -- debug mode: size of the assertion → constraint map
  | export
  | raise (e : String)
  | ret (v : String)               -- return value kind of the public method
  deriving Repr, BEq, Inhabited

def Ev.print : Ev → String
  | Ev.new k => "new " ++ k
  | Ev.initAdd n => "init-add " ++ toString n
  | Ev.minimize t => "minimize " ++ t
  | Ev.maximize t => "maximize " ++ t
  | Ev.check r => "check " ++ r
  | Ev.model => "model"
  | Ev.push => "push"
  | Ev.pop => "pop"
  | Ev.add f => "add " ++ f
  | Ev.unsatCore => "unsat_core"
  | Ev.trackedOwners n => "tracked-owners " ++ toString n
  | Ev.export => "export"
  | Ev.raise e => "raise " ++ e
  | Ev.ret v => "return " ++ v

structure SConfig where
  debug : Bool := false
  optimize : Bool := false
  priority : String := "pareto"
  logics : Option String := none
  maxIter : Option Nat := none
  maxTime : Int := 20
  deriving Inhabited

def SConfig.toConfig (c : SConfig) : Config :=
  { debug := c.debug, optimize := c.optimize, priority := c.priority, logics := c.logics }

/-- the objective the incremental loop / z3.Optimize works on -/
structure Goal where
  target : IVar
  isMin : Bool
  bound : Option Int        -- the bound at which the incremental loop stops early
  deriving Inhabited

structure SolverSt where
  cfg : SConfig
  initialized : Bool := false
  base : List Fml := []             -- assertions at level 0 (initialize + blocking clauses)
  frames : List Fml := []           -- bounds pushed by a running incremental loop (innermost first)
  model : Option Env := none        -- `_model`
  goal : Option Goal := none        -- `_objective` (incremental) if any
  trace : List Ev := []
  seen : List (List Fml × Answer) := []   -- ghost: (assertion stack, answer) of every check()
  nOwners : Nat := 0                -- size of `_map_boolrefs_to_constraints` (never reset)
  deriving Inhabited

/-- which objective `create_objective` installs, given the problem's objectives -/
def mkGoal (cfg : SConfig) (st : State) : Option Goal :=
  match st.objectives with
  | [] => none
  | [o] =>
      (match o.target with
       | .var v => some { target := v, isMin := !o.maximize,
                          bound := o.bounds.map (fun b => if o.maximize then b.2 else b.1) }
       | _ => none)
  | os =>
      if !cfg.optimize || cfg.priority == "weight" then
        -- the equivalent weighted objective takes the kind of the *last* declared objective
        some { target := .ind "EquivalentIndicator", isMin := !(os.getLast?.map (·.maximize)).getD false,
               bound := none }
      else none

def solverKind (cfg : SConfig) (st : State) : String :=
  if !st.objectives.isEmpty && cfg.optimize then "Optimize:" ++ cfg.priority
  else match cfg.logics with
    | none => "Solver"
    | some l => "SolverFor:" ++ l

/-- `minimize/maximize` calls made by `create_objective` on a z3.Optimize instance -/
def optimizeCalls (cfg : SConfig) (st : State) : List Ev :=
  if !cfg.optimize then [] else
  match st.objectives with
  | [] => []
  | [o] => [if o.maximize then Ev.maximize o.target.print else Ev.minimize o.target.print]
  | os =>
      if cfg.priority == "weight" then
        [if (os.getLast?.map (·.maximize)).getD false then Ev.maximize "Indicator_EquivalentIndicator"
         else Ev.minimize "Indicator_EquivalentIndicator"]
      else os.map (fun o => if o.maximize then Ev.maximize o.target.print else Ev.minimize o.target.print)

def SolverSt.initialize (s : SolverSt) (st : State) : SolverSt :=
  let fs := initFmls s.cfg.toConfig st
  let owned := ((initializeO s.cfg.toConfig st).filter (fun p => match p.1 with | .constr _ _ => true | _ => false)).length
  let n := if s.cfg.debug then s.nOwners + owned else s.nOwners
  { s with initialized := true, base := fs, frames := [], goal := mkGoal s.cfg st, nOwners := n,
           trace := s.trace ++ [Ev.new (solverKind s.cfg st), Ev.initAdd fs.length] ++ optimizeCalls s.cfg st ++
                    (if s.cfg.debug then [Ev.trackedOwners n] else []) }

/-- the assertion stack a `check()` sees -/
def SolverSt.stack (s : SolverSt) : List Fml := s.base ++ s.frames.reverse

/-! ### the incremental optimiser (solver.py:713-819) -/

structure LoopSt where
  iter : Nat := 0
  best : Option Env := none
  cur : Option Int := none
  total : Int := 0
  three : List Int := []
  frames : List Fml := []          -- pushed bounds, innermost first
  trace : List Ev := []
  values : List Int := []          -- objective values found, most recent first
  exit : String := "answers-exhausted"
  seen : List (List Fml × Answer) := []   -- ghost: the assertion stack each check() saw, with its answer
  deriving Inhabited

def boundFml (g : Goal) (v : Int) : Fml :=
  if g.isMin then .lt (.var g.target) (numT v) else .gt (.var g.target) (numT v)

def iterExceeded (maxIter : Option Nat) (iter : Nat) : Bool :=
  match maxIter with
  | some m => decide (iter > m)
  | none => false

/-- the three last cumulative times and the "expected time of the next round" guard: the parabola
    through (0,t0),(1,t1),(2,t2) evaluated at 3 is `t0 − 3·t1 + 3·t2` -/
def nextThree (three : List Int) (total maxTime : Int) : List Int × Bool :=
  if three.length < 3 then (three ++ [total], false)
  else
    let t := three.drop 1 ++ [total]
    (t, decide (t.getD 0 0 - 3 * t.getD 1 0 + 3 * t.getD 2 0 > maxTime))

/-- state after a `sat ρ` answer, before the stop tests -/
def LoopSt.found (l : LoopSt) (base : List Fml) (g : Goal) (ρ : Env) (d : Int) : LoopSt :=
  { l with iter := l.iter + 1, best := some ρ, cur := some (ρ.i g.target), total := l.total + d,
           values := ρ.i g.target :: l.values,
           trace := l.trace ++ [Ev.check "sat", Ev.model],
           seen := l.seen ++ [(base ++ l.frames.reverse, Answer.sat ρ)] }

/-- … and after pushing the new bound -/
def LoopSt.pushed (l1 : LoopSt) (g : Goal) (v : Int) (three : List Int) : LoopSt :=
  { l1 with three, frames := boundFml g v :: l1.frames,
            trace := l1.trace ++ [Ev.push, Ev.add (boundFml g v).print] }

/-- one run of the loop over the scripted answers / durations -/
def incLoop (base : List Fml) (g : Goal) (maxIter : Option Nat) (maxTime : Int) : List (Answer × Int) → LoopSt → LoopSt
  | [], l =>
    -- the scripted oracle is exhausted: every further check() answers `unknown`
    if iterExceeded maxIter (l.iter + 1) then { l with iter := l.iter + 1, exit := "max-iter" }
    else { l with iter := l.iter + 1, trace := l.trace ++ [Ev.check "unknown"], exit := "unknown" }
  | (a, d) :: rest, l =>
    if iterExceeded maxIter (l.iter + 1) then { l with iter := l.iter + 1, exit := "max-iter" }
    else
      match a with
      | .unsat => { l with iter := l.iter + 1, trace := l.trace ++ [Ev.check "unsat"], exit := "unsat",
                            seen := l.seen ++ [(base ++ l.frames.reverse, Answer.unsat)] }
      | .unknown => { l with iter := l.iter + 1, trace := l.trace ++ [Ev.check "unknown"], exit := "unknown",
                              seen := l.seen ++ [(base ++ l.frames.reverse, Answer.unknown)] }
      | .sat ρ =>
        let l1 := l.found base g ρ d
        if l1.total > maxTime then { l1 with exit := "max-time" }
        else if g.bound == some (ρ.i g.target) then { l1 with exit := "bound" }
        else if (nextThree l.three l1.total maxTime).2 then
          { l1 with three := (nextThree l.three l1.total maxTime).1, exit := "expected-time" }
        else
          incLoop base g maxIter maxTime rest (l1.pushed g (ρ.i g.target) (nextThree l.three l1.total maxTime).1)

/-! ### public methods -/

/-- blocking clause of `find_another_solution` -/
def blockingClause (st : State) (ρ : Env) : Fml :=
  .or (st.tasks.flatMap (fun t =>
    [Fml.ne t.sVar (numT (ρ.i (.tStart t.name))), Fml.ne t.eVar (numT (ρ.i (.tEnd t.name)))] ++
    (if t.optional then [Fml.neb (.bvar (.sched t.name)) (if ρ.b (.sched t.name) then .tt else .ff)] else [])))

inductive Op where
  | init
  | solve
  | findAnother
  | findAnotherVar (v : IVar)
  | exportSmt
  deriving Inhabited

/-- result of a public call: new state, remaining oracle answers, raised error -/
structure OpRes where
  s : SolverSt
  rest : List (Answer × Int)
  err : Option Err := none

def SolverSt.ensureInit (s : SolverSt) (st : State) : SolverSt :=
  if s.initialized then s else s.initialize st

def SolverSt.solve (s0 : SolverSt) (st : State) (answers : List (Answer × Int)) : OpRes :=
  let s := s0.ensureInit st
  match (if !st.objectives.isEmpty && !s.cfg.optimize then s.goal else none) with
  | some g =>
      let l := incLoop s.base g s.cfg.maxIter s.cfg.maxTime answers {}
      let used := l.trace.countP (fun e => match e with | Ev.check _ => true | _ => false)
      let pops := List.replicate l.frames.length Ev.pop
      let s1 := { s with trace := s.trace ++ l.trace ++ pops, frames := [], seen := s.seen ++ l.seen }
      match l.best with
      | none => { s := { s1 with trace := s1.trace ++ [Ev.ret "False"] }, rest := answers.drop used }
      | some ρ => { s := { s1 with model := some ρ, trace := s1.trace ++ [Ev.ret "solution"] }, rest := answers.drop used }
  | none =>
      match answers with
      | [] => { s := { s with trace := s.trace ++ [Ev.check "unknown", Ev.ret "False"] }, rest := [] }
      | (a, _) :: rest =>
        match a with
        | .unsat =>
            { s := { s with trace := s.trace ++ [Ev.check "unsat"] ++ (if s.cfg.debug then [Ev.unsatCore] else []) ++ [Ev.ret "False"],
                            seen := s.seen ++ [(s.base, Answer.unsat)] },
              rest }
        | .unknown => { s := { s with trace := s.trace ++ [Ev.check "unknown", Ev.ret "False"],
                                      seen := s.seen ++ [(s.base, Answer.unknown)] }, rest }
        | .sat ρ => { s := { s with model := some ρ, trace := s.trace ++ [Ev.check "sat", Ev.model, Ev.ret "solution"],
                                    seen := s.seen ++ [(s.base, Answer.sat ρ)] }, rest }

def SolverSt.step (s : SolverSt) (st : State) (op : Op) (answers : List (Answer × Int)) : OpRes :=
  match op with
  | .init => { s := s.initialize st, rest := answers }
  | .solve => s.solve st answers
  | .exportSmt => let s1 := s.ensureInit st; { s := { s1 with trace := s1.trace ++ [Ev.export] }, rest := answers }
  | .findAnother =>
      match s.model with
      | none => { s := { s with trace := s.trace ++ [Ev.raise "AssertionError"] }, rest := answers, err := some .assertion }
      | some ρ =>
          let b := blockingClause st ρ
          ({ s with base := s.base ++ [b], trace := s.trace ++ [Ev.add b.print] }).solve st answers
  | .findAnotherVar v =>
      match s.model with
      | none => { s := { s with trace := s.trace ++ [Ev.raise "AssertionError"] }, rest := answers, err := some .assertion }
      | some ρ =>
          let b := Fml.ne (.var v) (numT (ρ.i v))
          ({ s with base := s.base ++ [b], trace := s.trace ++ [Ev.add b.print] }).solve st answers

/-- run a sequence of public calls -/
def runOps (s : SolverSt) (st : State) : List Op → List (Answer × Int) → SolverSt
  | [], _ => s
  | op :: ops, answers =>
      let r := s.step st op answers
      runOps r.s st ops r.rest

end PS
