/-
  PS.SmtPrint — prints `Term` / `Fml` in the canonical s-expression shape that the Python
  harness obtains by walking the z3 AST of the real library's assertions
  (declaration name followed by the children; `[k]` for declaration parameters of
  pseudo-boolean operators).  Names that contain uuids / counters on the Python side are
  printed as `%<kind><n>%` tokens; the harness renames those (and the Python originals) in
  order of first occurrence before comparing.
-/
import PS.Smt
namespace PS

def IVar.print : IVar → String
  | .tStart t => t ++ "_start"
  | .tEnd t => t ++ "_end"
  | .tDur t => t ++ "_duration"
  | .busyS w t m => w ++ (if m then "_maybe_busy_" else "_busy_") ++ t ++ "_start"
  | .busyE w t m => w ++ (if m then "_maybe_busy_" else "_busy_") ++ t ++ "_end"
  | .horizon => "horizon"
  | .fresh c k => "%x" ++ toString c ++ "_" ++ toString k ++ "%"
  | .ifresh i k => "%y" ++ toString i ++ "_" ++ toString k ++ "%"
  | .bfresh b k => "%z" ++ b ++ "_" ++ toString k ++ "%"
  | .grpS c => "task_group_start_%g" ++ toString c ++ "%"
  | .grpE c => "task_group_end_%g" ++ toString c ++ "%"
  | .overlap c lo hi k => "Overlap_" ++ toString lo ++ "_" ++ toString hi ++ "_%o" ++ toString c ++ "_" ++ toString k ++ "%"
  | .bufInit b => b ++ "_initial_level"
  | .bufLevel b t => b ++ "_level_" ++ t
  | .bufTime b t => b ++ "_sc_time_" ++ t
  | .ind n => "Indicator_" ++ n
  | .indAuto cls i => "Indicator_" ++ cls ++ "_%u" ++ toString i ++ "%"
  | .named s => s

def BVar.print : BVar → String
  | .sched t => t ++ "_scheduled"
  | .sel s w => "Selected_" ++ w ++ "_%s" ++ toString s ++ "%"
  | .applied c => "constraint_%c" ++ toString c ++ "%_applied"
  | .inInterval c t k => "InTimeIntervalTask_" ++ t ++ "_%i" ++ toString c ++ "_" ++ toString k ++ "%"
  | .named s => s

private def app (op : String) (args : List String) : String :=
  if args.isEmpty then op else "(" ++ " ".intercalate (op :: args) ++ ")"

private def ones (n : Nat) : List String := (List.replicate n "[1]")

mutual
def Term.print : Term → String
  | .var v => v.print
  | .num n => toString n
  | .sum l => app "+" (Term.printList l)
  | .add a b => app "+" [a.print, b.print]
  | .sub a b => app "-" [a.print, b.print]
  | .mul a b => app "*" [a.print, b.print]
  | .neg a => app "-" [a.print]
  | .div a b => app "div" [a.print, b.print]
  | .mod a b => app "mod" [a.print, b.print]
  | .ite c a b => app "if" [c.print, a.print, b.print]
  | .app f a => app f [a.print]
  | .select arr i => app "select" [arr, i.print]
def Term.printList : List Term → List String
  | [] => []
  | t :: ts => t.print :: Term.printList ts
def Fml.print : Fml → String
  | .tt => "true"
  | .ff => "false"
  | .bvar v => v.print
  | .not a => app "not" [a.print]
  | .and l => app "and" (Fml.printList l)
  | .or l => app "or" (Fml.printList l)
  | .xor a b => app "xor" [a.print, b.print]
  | .imp a b => app "=>" [a.print, b.print]
  | .ite c a b => app "if" [c.print, a.print, b.print]
  | .iff a b => app "=" [a.print, b.print]
  | .neb a b => app "distinct" [a.print, b.print]
  | .le a b => app "<=" [a.print, b.print]
  | .lt a b => app "<" [a.print, b.print]
  | .ge a b => app ">=" [a.print, b.print]
  | .gt a b => app ">" [a.print, b.print]
  | .eq a b => app "=" [a.print, b.print]
  | .ne a b => app "distinct" [a.print, b.print]
  | .atMost l k => app "at-most" (("[" ++ toString k ++ "]") :: Fml.printList l)
  | .atLeast l k => app "at-least" (("[" ++ toString k ++ "]") :: Fml.printList l)
  | .pbEq l k => app "pbeq" (("[" ++ toString k ++ "]") :: (ones l.length ++ Fml.printList l))
  | .storeFix arr i v => app "=" [arr, app "store" [arr, i.print, v.print]]
  | .pulse x f p q =>
      "(forall ((" ++ x ++ " Int)) " ++ app "if" [app "=" ["(bound 0)", p.print], app "=" [app f ["(bound 0)"], toString q],
         app "=" [app f ["(bound 0)"], "0"]] ++ ")"
  | .reqSum lhs rhs => app "=" [app "to_real" [lhs.print], app "+" [app "to_real" [rhs.print], "(real 0/1)"]]
  | .reqZero lhs => app "=" [app "to_real" [lhs.print], "(real 0/1)"]
  | .tracked p a => app "=>" ["asst_%a" ++ toString p ++ "%", a.print]
def Fml.printList : List Fml → List String
  | [] => []
  | t :: ts => t.print :: Fml.printList ts
end

/-- structural equality of formulas through their printed form (the printer is injective on the
    formulas the encoders build; used only for the duplicate-assertion check). -/
def Fml.same (a b : Fml) : Bool := a.print == b.print

end PS
