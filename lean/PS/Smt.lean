/-
  PS.Smt — the fragment of SMT-LIB that ProcessScheduler emits, as a deep embedding.

  Variables are *structured* (not strings): freshness / disjointness of the auxiliary
  variables of different model elements is constructor injectivity, and names enter only
  through the printer (`PS.SmtPrint`).

  `Fml.eval` is the denotational semantics (classical, Prop-valued).  `Fml.evalB` is the
  computable twin for the quantifier-free fragment used by the driver (EVAL channel);
  `evalB_sound` relates the two (PS/Proofs/EvalB.lean).
  No import outside Lean core.
-/
namespace PS

/-- Integer-sorted variables. -/
inductive IVar where
  | tStart (t : String)                       -- `<t>_start`
  | tEnd (t : String)                         -- `<t>_end`
  | tDur (t : String)                         -- `<t>_duration`
  | busyS (w t : String) (maybe : Bool)       -- `<w>_busy_<t>_start` / `<w>_maybe_busy_<t>_start`
  | busyE (w t : String) (maybe : Bool)
  | horizon
  | fresh (c : Nat) (k : Nat)                 -- k-th z3.FreshInt() of constraint c: `x!N`
  | ifresh (i : Nat) (k : Nat)                -- k-th z3.FreshInt() of indicator i
  | bfresh (b : String) (k : Nat)             -- k-th z3.FreshInt() of buffer b (sorting network)
  | grpS (c : Nat) | grpE (c : Nat)           -- task_group_start_<uuid>, task_group_end_<uuid>
  | overlap (c : Nat) (lo hi : Int) (k : Nat) -- Overlap_<lo>_<hi>_<hex8>, k-th of constraint c
  | bufInit (b : String)                      -- `<b>_initial_level`
  | bufLevel (b t : String)                   -- `<b>_level_<t>` (t = `<task>_unloading` / `<task>_loading`)
  | bufTime (b t : String)                    -- `<b>_sc_time_<t>`
  | ind (name : String)                       -- `Indicator_<name>`
  | indAuto (cls : String) (i : Nat)          -- `Indicator_<cls>_<uid8>` (auto-named indicator i)
  | named (s : String)                        -- anything else (user / objective helper variables)
  deriving DecidableEq, Repr, Inhabited

/-- Boolean variables. -/
inductive BVar where
  | sched (t : String)                        -- `<t>_scheduled`
  | sel (s : Nat) (w : String)                -- `Selected_<w>_<uid of selection s>`
  | applied (c : Nat)                         -- `constraint_<uid>_applied`
  | inInterval (c : Nat) (t : String) (k : Nat)   -- `InTimeIntervalTask_<t>_<uuid>`, k-th of constraint c
  | named (s : String)
  deriving DecidableEq, Repr, Inhabited

mutual
/-- Int-sorted terms.  `sum` is z3py's n-ary `Sum`; `add/sub/mul` are the binary Python operators. -/
inductive Term where
  | var (v : IVar)
  | num (n : Int)
  | sum (l : List Term)
  | add (a b : Term)
  | sub (a b : Term)
  | mul (a b : Term)
  | neg (a : Term)
  | div (a b : Term)
  | mod (a b : Term)
  | ite (c : Fml) (a b : Term)
  | app (f : String) (a : Term)               -- uninterpreted Int → Int function
  | select (arr : String) (i : Term)          -- array read
/-- Formulas. -/
inductive Fml where
  | tt | ff
  | bvar (v : BVar)
  | not (a : Fml)
  | and (l : List Fml)
  | or (l : List Fml)
  | xor (a b : Fml)
  | imp (a b : Fml)
  | ite (c a b : Fml)
  | iff (a b : Fml)                           -- Bool `==`
  | neb (a b : Fml)                           -- Bool `!=` (printed `distinct`)
  | le (a b : Term) | lt (a b : Term) | ge (a b : Term) | gt (a b : Term)
  | eq (a b : Term) | ne (a b : Term)
  | atMost (l : List Fml) (k : Nat)           -- PbLe with unit weights
  | atLeast (l : List Fml) (k : Nat)          -- PbGe with unit weights
  | pbEq (l : List Fml) (k : Nat)             -- PbEq with unit weights
  | storeFix (arr : String) (i v : Term)      -- `arr = store arr i v`
  | pulse (x : String) (f : String) (p : Term) (q : Int)   -- `forall x. ite (x = p) (f x = q) (f x = 0)`
  | reqSum (lhs rhs : Term)                   -- `(= (to_real lhs) (+ (to_real rhs) 0.0))`
  | reqZero (lhs : Term)                      -- `(= (to_real lhs) 0.0)`
  | tracked (p : Nat) (a : Fml)               -- debug mode: `asst_<hex> => a`
end

instance : Inhabited Term := ⟨.num 0⟩
instance : Inhabited Fml := ⟨.tt⟩

/-- An interpretation. -/
structure Env where
  i : IVar → Int
  b : BVar → Bool
  f : String → Int → Int := fun _ _ => 0
  a : String → Int → Int := fun _ _ => 0
  /-- tracking literals of debug mode -/
  p : Nat → Bool := fun _ => true

open Classical in
mutual
/-- value of a term -/
noncomputable def Term.eval (ρ : Env) : Term → Int
  | .var v => ρ.i v
  | .num n => n
  | .sum l => Term.evalSum ρ l
  | .add a b => a.eval ρ + b.eval ρ
  | .sub a b => a.eval ρ - b.eval ρ
  | .mul a b => a.eval ρ * b.eval ρ
  | .neg a => - a.eval ρ
  | .div a b => a.eval ρ / b.eval ρ
  | .mod a b => a.eval ρ % b.eval ρ
  | .ite c a b => if c.eval ρ then a.eval ρ else b.eval ρ
  | .app f a => ρ.f f (a.eval ρ)
  | .select arr i => ρ.a arr (i.eval ρ)
noncomputable def Term.evalSum (ρ : Env) : List Term → Int
  | [] => 0
  | t :: ts => t.eval ρ + Term.evalSum ρ ts
/-- truth of a formula -/
noncomputable def Fml.eval (ρ : Env) : Fml → Prop
  | .tt => True
  | .ff => False
  | .bvar v => ρ.b v = true
  | .not a => ¬ a.eval ρ
  | .and l => Fml.evalAll ρ l
  | .or l => Fml.evalAny ρ l
  | .xor a b => ¬ (a.eval ρ ↔ b.eval ρ)
  | .imp a b => a.eval ρ → b.eval ρ
  | .ite c a b => (c.eval ρ → a.eval ρ) ∧ (¬ c.eval ρ → b.eval ρ)
  | .iff a b => (a.eval ρ ↔ b.eval ρ)
  | .neb a b => ¬ (a.eval ρ ↔ b.eval ρ)
  | .le a b => a.eval ρ ≤ b.eval ρ
  | .lt a b => a.eval ρ < b.eval ρ
  | .ge a b => b.eval ρ ≤ a.eval ρ
  | .gt a b => b.eval ρ < a.eval ρ
  | .eq a b => a.eval ρ = b.eval ρ
  | .ne a b => a.eval ρ ≠ b.eval ρ
  | .atMost l k => Fml.count ρ l ≤ k
  | .atLeast l k => k ≤ Fml.count ρ l
  | .pbEq l k => Fml.count ρ l = k
  | .storeFix arr i v => ρ.a arr (i.eval ρ) = v.eval ρ
  | .pulse _ f p q => ∀ x : Int, (x = p.eval ρ → ρ.f f x = q) ∧ (x ≠ p.eval ρ → ρ.f f x = 0)
  | .reqSum lhs rhs => lhs.eval ρ = rhs.eval ρ
  | .reqZero lhs => lhs.eval ρ = 0
  | .tracked p a => ρ.p p = true → a.eval ρ
noncomputable def Fml.evalAll (ρ : Env) : List Fml → Prop
  | [] => True
  | a :: as => a.eval ρ ∧ Fml.evalAll ρ as
noncomputable def Fml.evalAny (ρ : Env) : List Fml → Prop
  | [] => False
  | a :: as => a.eval ρ ∨ Fml.evalAny ρ as
/-- number of true formulas in a list -/
noncomputable def Fml.count (ρ : Env) : List Fml → Nat
  | [] => 0
  | a :: as => (if a.eval ρ then 1 else 0) + Fml.count ρ as
end

/-- `ρ ⊨ A` : every formula of the list holds. -/
def Sat (ρ : Env) (A : List Fml) : Prop := ∀ a ∈ A, a.eval ρ

theorem Sat.mem {ρ : Env} {A : List Fml} (h : Sat ρ A) {a : Fml} (ha : a ∈ A) : a.eval ρ := h a ha

theorem Sat.append {ρ : Env} {A B : List Fml} : Sat ρ (A ++ B) ↔ Sat ρ A ∧ Sat ρ B := by
  simp [Sat, List.mem_append, or_imp, forall_and]

theorem Sat.cons {ρ : Env} {a : Fml} {A : List Fml} : Sat ρ (a :: A) ↔ a.eval ρ ∧ Sat ρ A := by
  simp [Sat]

theorem Sat.nil {ρ : Env} : Sat ρ [] := by simp [Sat]

theorem Sat.sub {ρ : Env} {A B : List Fml} (h : Sat ρ B) (hs : ∀ a ∈ A, a ∈ B) : Sat ρ A :=
  fun a ha => h a (hs a ha)

theorem evalAll_iff (ρ : Env) (l : List Fml) : Fml.evalAll ρ l ↔ ∀ a ∈ l, a.eval ρ := by
  induction l with
  | nil => simp [Fml.evalAll]
  | cons a as ih => simp [Fml.evalAll, ih]

theorem evalAny_iff (ρ : Env) (l : List Fml) : Fml.evalAny ρ l ↔ ∃ a ∈ l, a.eval ρ := by
  induction l with
  | nil => simp [Fml.evalAny]
  | cons a as ih => simp [Fml.evalAny, ih]

theorem evalAll_eq_Sat (ρ : Env) (l : List Fml) : Fml.evalAll ρ l ↔ Sat ρ l := evalAll_iff ρ l

/-! ### Computable evaluation of the quantifier-free fragment -/

mutual
def Term.evalB (ρ : Env) : Term → Int
  | .var v => ρ.i v
  | .num n => n
  | .sum l => Term.evalSumB ρ l
  | .add a b => a.evalB ρ + b.evalB ρ
  | .sub a b => a.evalB ρ - b.evalB ρ
  | .mul a b => a.evalB ρ * b.evalB ρ
  | .neg a => - a.evalB ρ
  | .div a b => a.evalB ρ / b.evalB ρ
  | .mod a b => a.evalB ρ % b.evalB ρ
  | .ite c a b => if c.evalB ρ then a.evalB ρ else b.evalB ρ
  | .app f a => ρ.f f (a.evalB ρ)
  | .select arr i => ρ.a arr (i.evalB ρ)
def Term.evalSumB (ρ : Env) : List Term → Int
  | [] => 0
  | t :: ts => t.evalB ρ + Term.evalSumB ρ ts
/-- Boolean evaluation; `pulse` (the only quantified shape) is evaluated at the pulse point and at
    its two neighbours only — it is *not* covered by `evalB_sound`. -/
def Fml.evalB (ρ : Env) : Fml → Bool
  | .tt => true
  | .ff => false
  | .bvar v => ρ.b v
  | .not a => ! a.evalB ρ
  | .and l => Fml.evalAllB ρ l
  | .or l => Fml.evalAnyB ρ l
  | .xor a b => a.evalB ρ != b.evalB ρ
  | .imp a b => !(a.evalB ρ) || b.evalB ρ
  | .ite c a b => if c.evalB ρ then a.evalB ρ else b.evalB ρ
  | .iff a b => a.evalB ρ == b.evalB ρ
  | .neb a b => a.evalB ρ != b.evalB ρ
  | .le a b => decide (a.evalB ρ ≤ b.evalB ρ)
  | .lt a b => decide (a.evalB ρ < b.evalB ρ)
  | .ge a b => decide (b.evalB ρ ≤ a.evalB ρ)
  | .gt a b => decide (b.evalB ρ < a.evalB ρ)
  | .eq a b => decide (a.evalB ρ = b.evalB ρ)
  | .ne a b => decide (a.evalB ρ ≠ b.evalB ρ)
  | .atMost l k => decide (Fml.countB ρ l ≤ k)
  | .atLeast l k => decide (k ≤ Fml.countB ρ l)
  | .pbEq l k => decide (Fml.countB ρ l = k)
  | .storeFix arr i v => decide (ρ.a arr (i.evalB ρ) = v.evalB ρ)
  | .pulse _ f p q =>
      let x := p.evalB ρ
      decide (ρ.f f x = q) && decide (ρ.f f (x - 1) = 0) && decide (ρ.f f (x + 1) = 0)
  | .reqSum lhs rhs => decide (lhs.evalB ρ = rhs.evalB ρ)
  | .reqZero lhs => decide (lhs.evalB ρ = 0)
  | .tracked p a => !(ρ.p p) || a.evalB ρ
def Fml.evalAllB (ρ : Env) : List Fml → Bool
  | [] => true
  | a :: as => a.evalB ρ && Fml.evalAllB ρ as
def Fml.evalAnyB (ρ : Env) : List Fml → Bool
  | [] => false
  | a :: as => a.evalB ρ || Fml.evalAnyB ρ as
def Fml.countB (ρ : Env) : List Fml → Nat
  | [] => 0
  | a :: as => (if a.evalB ρ then 1 else 0) + Fml.countB ρ as
end

/-- all formulas of a list hold (computable) -/
def satB (ρ : Env) (A : List Fml) : Bool := A.all (fun a => a.evalB ρ)

end PS
