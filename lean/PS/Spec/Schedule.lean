/-
  PS.Spec.Schedule — a user-level schedule and the documented meaning of a problem over it.

  A `Sched` is what a user would call a schedule: which optional tasks are scheduled, start / end /
  duration of the tasks, which workers each selection picks, which optional constraints are applied,
  when a dynamically assigned worker joins and leaves, and the horizon.  It says nothing about the
  auxiliary quantities of the encoding.  `envOf st σ` is the interpretation the encoding expects
  for σ (unscheduled tasks parked at `-task_number`, busy intervals derived from the requirements,
  unselected workers parked at their unique negative integer): the *witness* of completeness.
-/
import PS.Model.Initialize
import PS.Spec.Basic
namespace PS

structure Sched where
  sched : String → Bool                 -- optional task scheduled?
  start : String → Int
  end_ : String → Int
  dur : String → Int
  sel : Nat → String → Bool             -- selection id, worker
  applied : Nat → Bool                  -- optional constraint applied?
  dynS : String → String → Int          -- (worker, task): when a dynamically assigned worker joins
  dynE : String → String → Int          --                 … and leaves
  horizon : Int

/-- the task is part of the schedule -/
def Sched.isSched (σ : Sched) (t : Task) : Bool := !t.optional || σ.sched t.name

/-- the requirement that created the busy interval of worker `w` for task `t` -/
def State.reqFor (st : State) (w t : String) : Option Req := (st.reqsOf t).find? (·.worker == w)

/-- start of task `t` as the encoding sees it -/
def tStartOf (σ : Sched) (t : Task) : Int := if σ.isSched t then σ.start t.name else t.pastPoint
def tEndOf (σ : Sched) (t : Task) : Int := if σ.isSched t then σ.end_ t.name else t.pastPoint
def tDurOf (σ : Sched) (t : Task) : Int := if σ.isSched t then σ.dur t.name else 0

/-- busy interval of one requirement as the encoding sees it -/
def busyOfReq (σ : Sched) (t : Task) (r : Req) : Int × Int :=
  match r.sel with
  | some s => if σ.sel s r.worker then (tStartOf σ t, tEndOf σ t) else (r.past, r.past)
  | none =>
      if r.dynamic then
        (if σ.isSched t then (σ.dynS r.worker t.name, σ.dynE r.worker t.name) else (t.pastPoint, t.pastPoint))
      else (tStartOf σ t + max 0 r.delayIn, tEndOf σ t - max 0 r.earlyOut)

/-- variables of indicators -/
def IVar.isInd : IVar → Bool
  | .ind _ => true
  | .indAuto _ _ => true
  | _ => false

/-- the interpretation of the primary variables that corresponds to schedule σ -/
def envPrim (st : State) (σ : Sched) : Env :=
  { i := fun v => match v with
      | .tStart n => (match st.findTask n with | some t => tStartOf σ t | none => 0)
      | .tEnd n => (match st.findTask n with | some t => tEndOf σ t | none => 0)
      | .tDur n => (match st.findTask n with | some t => tDurOf σ t | none => 0)
      | .busyS w n _ => (match st.findTask n, st.reqFor w n with
          | some t, some r => (busyOfReq σ t r).1 | _, _ => 0)
      | .busyE w n _ => (match st.findTask n, st.reqFor w n with
          | some t, some r => (busyOfReq σ t r).2 | _, _ => 0)
      | .horizon => σ.horizon
      | _ => 0
    b := fun v => match v with
      | .sched n => σ.sched n
      | .sel s w => σ.sel s w
      | .applied c => σ.applied c
      | _ => false }

/-- the interpretation of the encoding's variables that corresponds to schedule σ: the primary variables as above,
    and every indicator defined by a single equation `indicator = T` at the value of `T` -/
def envOf (st : State) (σ : Sched) : Env :=
  { envPrim st σ with
    i := fun v =>
      if v.isInd then
        (match st.indicators.find? (fun ind => ind.var == v) with
         | some ind => (match ind.body.defTerm with
             | some T => T.evalB (envPrim st σ)
             | none => (envPrim st σ).i v)
         | none => (envPrim st σ).i v)
      else (envPrim st σ).i v }

theorem envOf_prim (st : State) (σ : Sched) (v : IVar) (h : v.isInd = false) :
    (envOf st σ).i v = (envPrim st σ).i v := by
  simp [envOf, h]

end PS
