/-
  PS.Spec.Twins — the spec clauses as *formulas* over the primary variables.  The driver prints
  them; the harness conjoins their negation with the assertions of the REAL library and asks
  z3 for a model: any model is a concrete schedule admitted by the real code that violates the
  documented meaning (the replay of a VIOLATION).  Each twin is proved equivalent to the Prop
  the theorems are about (PS/Theorems/*.lean), so the search oracle and the theorems share one
  definition.
-/
import PS.Model.Initialize
namespace PS

/-- the duration of a task as a term -/
def Task.durT (t : Task) : Term :=
  match t.kind with
  | .fixed d => numT d
  | .zero => numT 0
  | .var .. => t.dVar

def Task.durOKF (t : Task) : List Fml :=
  match t.kind with
  | .fixed _ => []
  | .zero => []
  | .var minD maxD allowed =>
      [.ge t.dVar (numT minD)] ++
      (match maxD with | some m => [Fml.le t.dVar (numT m)] | none => []) ++
      (match allowed with | some l => [Fml.or (l.map (fun d => Fml.eq t.dVar (numT d)))] | none => [])

/-- C01 for one task -/
def Task.timingF (t : Task) : Fml :=
  .imp t.schedF (.and ([.ge t.sVar (numT 0), .le t.eVar (.var .horizon), .eq (.sub t.eVar t.sVar) t.durT]
    ++ t.durOKF
    ++ (match t.release with | some r => [Fml.ge t.sVar (numT r)] | none => [])
    ++ (match t.due with | some d => if t.deadline then [Fml.le t.eVar (numT d)] else [] | none => [])))

def specC01 (st : State) : List Fml :=
  st.tasks.map (·.timingF) ++
  (match st.horizon with | some h => [Fml.le (.var .horizon) (numT h)] | none => [])

/-! ### C02 -/

def noOverlapSpec (w : String) : List (String × Bool) → List Fml
  | [] => []
  | (ti, mi) :: rest =>
      rest.map (fun (tk, mk) => Fml.not (.and [.lt (bS w ti mi) (bE w tk mk), .lt (bS w tk mk) (bE w ti mi)]))
      ++ noOverlapSpec w rest

def Req.spanF (t : Task) (r : Req) : Fml :=
  let bs := bS r.worker t.name r.maybe
  let be := bE r.worker t.name r.maybe
  match r.sel with
  | some s =>
      .and [.imp (.bvar (.sel s r.worker)) (.and [.eq bs t.sVar, .eq be t.eVar]),
            .imp (.not (.bvar (.sel s r.worker))) (.and [.eq bs be, .lt bs (numT 0)])]
  | none =>
      if r.dynamic then .and [.le t.sVar bs, .le bs be, .le be t.eVar]
      else .and [.eq bs (.add t.sVar (numT (max 0 r.delayIn))), .eq be (.sub t.eVar (numT (max 0 r.earlyOut)))]

def countF (k : CountKind) (flags : List Fml) (n : Nat) : Fml :=
  let s := sumOrZero (flags.map (fun f => Term.ite f (numT 1) (numT 0)))
  match k with
  | .exact => .eq s (numT n)
  | .min => .ge s (numT n)
  | .max => .le s (numT n)

def specC02 (st : State) : List Fml :=
  st.workers.flatMap (fun w => noOverlapSpec w.name (st.busyOf w.name)) ++
  st.tasks.flatMap (fun t => (st.eventsOf t.name).flatMap (fun ev =>
    ev.reqs.map (fun r => r.spanF t) ++
    (match ev with
     | .viaSelect _ s _ true => [countF s.kind s.flags s.n]
     | _ => []))) ++
  st.tasks.flatMap (fun t =>
    if t.work > 0 && !(workTerms st t).isEmpty then [Fml.imp t.schedF (Fml.ge (sumOrZero (workTerms st t)) (numT t.work))] else [])

/-! ### C03 -/

def sched2 (t1 t2 : Task) (f : Fml) : Fml := .imp (.and [t1.schedF, t2.schedF]) f

def ordF (k : OrdKind) (a b : Term) : Fml :=
  match k with | .lax => .le a b | .strict => .lt a b | .tight => .eq a b

def consecutiveF (k : OrdKind) : List Task → List Fml
  | a :: b :: rest => ordF k a.eVar b.sVar :: consecutiveF k (b :: rest)
  | _ => []

def groupWindowF (ts : List Task) (window : Option (Int × Int)) (len : Int) : List Fml :=
  match window with
  | some (lo, hi) => ts.flatMap (fun t => [Fml.ge t.sVar (numT lo), Fml.le t.eVar (numT hi)])
  | none => ts.flatMap (fun t => ts.map (fun t' => Fml.le (.sub t.eVar t'.sVar) (numT len)))

/-- the task is inside one of the listed intervals -/
def insideAny (t : Task) (ivs : List (Int × Int)) : Fml :=
  .or (ivs.map (fun iv => Fml.and [.ge t.sVar (numT iv.1), .le t.eVar (numT iv.2)]))

def CBody.taskMeaningF : CBody → Option Fml
  | .startAt t v => some (.imp t.schedF (.eq t.sVar (numT v)))
  | .startAfter t v strict => some (.imp t.schedF (if strict then .gt t.sVar (numT v) else .ge t.sVar (numT v)))
  | .endAt t v => some (.imp t.schedF (.eq t.eVar (numT v)))
  | .endBefore t v strict => some (.imp t.schedF (if strict then .lt t.eVar (numT v) else .le t.eVar (numT v)))
  | .precedence b a off kind => some (sched2 b a (ordF kind (.add b.eVar (numT (max 0 off))) a.sVar))
  | .startSynced t1 t2 => some (sched2 t1 t2 (.eq t1.sVar t2.sVar))
  | .endSynced t1 t2 => some (sched2 t1 t2 (.eq t1.eVar t2.eVar))
  | .dontOverlap t1 t2 => some (sched2 t1 t2 (.or [.le t1.eVar t2.sVar, .le t2.eVar t1.sVar]))
  | .contiguous ts =>
      -- without the sorting networks: whenever starts and ends are ordered alike, a task ending at a non-negative
      -- instant is followed without a gap by its immediate successor by start (`ContiguousOK_pairwise`)
      some (.imp (.and (ts.flatMap (fun x => ts.map (fun y => Fml.imp (.lt x.sVar y.sVar) (.lt x.eVar y.eVar)))))
        (.and (ts.flatMap (fun a => ts.map (fun b =>
          Fml.imp (.and (Fml.lt a.sVar b.sVar :: ts.map (fun c => Fml.not (.and [.lt a.sVar c.sVar, .lt c.sVar b.sVar]))))
            (.imp (.and [.ge a.eVar (numT 0), .ge b.sVar (numT 0)]) (.eq b.sVar a.eVar)))))))
  | .unorderedGroup ts window len => some (.and (groupWindowF ts window len))
  | .orderedGroup ts window len kind => some (.and (groupWindowF ts window len ++ consecutiveF kind ts))
  | .scheduleN ts n ivs kind =>
      -- only the lower side is enforced by the library (known finding F11): `min` is stated, and the
      -- lower half of `exact`
      (match kind with
       | .max => none
       | _ => some (.ge (sumOrZero (ts.map (fun t => Term.ite (insideAny t ivs) (numT 1) (numT 0)))) (numT n)))
  | .forceSchedule t b => some (.iff (.bvar (.sched t.name)) (if b then .tt else .ff))
  | .conditionSchedule t cond => some (.iff (.bvar (.sched t.name)) cond)
  | .dependency t1 t2 => some (.iff (.bvar (.sched t2.name)) t1.schedF)
  | .forceScheduleN ts n kind => some (countF kind (ts.map (fun t => Fml.bvar (.sched t.name))) n)
  | _ => none

def specC03 (st : State) : List Fml :=
  (st.constrs.filter (fun c => !c.operand)).filterMap (fun c =>
    match c.body.taskMeaningF with
    | some f => some (if c.optional then Fml.imp (.bvar (.applied c.id)) f else f)
    | none => none)

/-! ### C04 -/

def maxT (a b : Term) : Term := .ite (.ge a b) a b
def minT (a b : Term) : Term := .ite (.le a b) a b
def overlapT (b : BusyRef) (lo hi : Int) : Term :=
  maxT (numT 0) (.sub (minT b.e (numT hi)) (maxT b.s (numT lo)))

/-- ResourceInterrupted, one busy interval (the clauses of `InterruptedOK`) -/
def interruptedF (b : BusyRef) (t : Task) (ivs : List (Int × Int)) : List Fml :=
  match t.kind with
  | .var minD maxD _ =>
      let tot := sumOrZero (ivs.map (fun iv => overlapT b iv.1 iv.2))
      ivs.flatMap (fun iv => [Fml.or [.le b.s (numT iv.1), .ge b.s (numT iv.2)],
                              Fml.or [.le b.e (numT iv.1), .ge b.e (numT iv.2)]]) ++
      [Fml.ge t.dVar (.add (numT minD) tot)] ++
      (match maxD with | some m => [Fml.imp (.le b.s b.e) (.le t.dVar (.add (numT m) tot))] | none => [])
  | _ => ivs.map (fun iv => Fml.or [.ge b.s (numT iv.2), .le b.e (numT iv.1)])

/-- `off + p · ((x − off) div p)`: the shift of the repetition in whose period the instant `x` lies -/
def periodShift (x : Term) (off p : Int) : Term :=
  .add (numT off) (.mul (numT p) (.div (.sub x (numT off)) (numT p)))

/-- number of repetitions of the window `(lo, hi)` inside the busy interval (closed form `repsInside`) -/
def repsInsideT (b : BusyRef) (lo hi off p : Int) : Term :=
  maxT (numT 0) (.add (.add (.div (.sub (.sub b.e (numT hi)) (numT off)) (numT p))
                            (.div (.sub (.add (numT lo) (numT off)) b.s) (numT p))) (numT 1))

/-- ResourcePeriodicallyInterrupted, one busy interval (the clauses of `PeriodicInterruptedOK`, each or-ed
    with the activity-window masks) -/
def periodicInterruptedF (b : BusyRef) (t : Task) (ivs : List (Int × Int)) (p start off : Int)
    (end_ : Option Int) : List Fml :=
  let masks := periodicMasks b start end_
  match t.kind with
  | .var minD maxD _ =>
      let tot := sumOrZero (ivs.map (fun iv => Term.mul (numT (iv.2 - iv.1)) (repsInsideT b iv.1 iv.2 off p)))
      ivs.flatMap (fun iv =>
        [Fml.or ([Fml.le b.s (.add (numT iv.1) (periodShift b.s off p)),
                  Fml.ge b.s (.add (numT iv.2) (periodShift b.s off p))] ++ masks),
         Fml.or ([Fml.le b.e (.add (numT iv.1) (periodShift b.e off p)),
                  Fml.ge b.e (.add (numT iv.2) (periodShift b.e off p))] ++ masks)]) ++
      [Fml.or ([Fml.imp (.le b.s b.e) (.ge t.dVar (.add (numT minD) tot))] ++ masks)] ++
      (match maxD with
       | some m => [Fml.or ([Fml.imp (.le b.s b.e) (.le t.dVar (.add (numT m) tot))] ++ masks)]
       | none => [])
  | _ => ivs.map (fun iv =>
      Fml.or ([Fml.ge b.s (.add (numT iv.2) (periodShift b.s off p)),
               Fml.le b.e (.add (numT iv.1) (periodShift b.s off p))] ++ masks))

/-- starts and ends of the busy intervals ordered alike -/
def comonotoneF (busy : List BusyRef) : Fml :=
  .and (busy.flatMap (fun x => busy.map (fun y => Fml.imp (.lt x.s y.s) (.lt x.e y.e))))

/-- `b` is the immediate successor of `a` by start among the busy intervals -/
def succF (busy : List BusyRef) (a b : BusyRef) : Fml :=
  .and (Fml.lt a.s b.s :: busy.map (fun c => Fml.not (.and [.lt a.s c.s, .lt c.s b.s])))

/-- the gap classes without sorting networks: whenever starts and ends are ordered alike (true of the disjoint busy
    intervals of a worker), the relation `mk (end of a) (start of b)` holds for every interval `a` and its immediate
    successor `b` (`GapsOK_pairwise`) -/
def gapTwinF (busy : List BusyRef) (mk : Term → Term → Fml) : Fml :=
  .imp (comonotoneF busy)
    (.and (busy.flatMap (fun a => busy.map (fun b => Fml.imp (succF busy a b) (mk a.e b.s)))))

def CBody.resMeaningF : CBody → Option Fml
  | .unavailable busy ivs =>
      some (.and (ivs.flatMap (fun iv => busy.map (fun b => Fml.or [.ge b.s (numT iv.2), .le b.e (numT iv.1)]))))
  | .workload busy ivs kind =>
      some (.and (ivs.map (fun iv =>
        let total := sumOrZero (busy.map (fun b => overlapT b iv.1.1 iv.1.2))
        match kind with
        | .exact => Fml.eq total (numT iv.2)
        | .max => Fml.le total (numT iv.2)
        | .min => Fml.ge total (numT iv.2))))
  | .periodicallyUnavailable busy ivs period start offset end_ =>
      -- the window of the period the busy interval starts in (C04_periodic_own_period; the next period's
      -- window is finding F13), unless masked by `start` / `end`
      some (.and (ivs.flatMap (fun iv => busy.map (fun b =>
        let shift := Term.add (numT offset) (.mul (numT period) (.div (.sub b.s (numT offset)) (numT period)))
        Fml.or ([Fml.ge b.s (.add (numT iv.2) shift), Fml.le b.e (.add (numT iv.1) shift)] ++
          (if start ≥ 0 then [Fml.le b.e (numT start)] else []) ++
          (match end_ with | some en => [Fml.ge b.s (numT en)] | none => []))))))
  | .nonDelay busy =>
      some (gapTwinF busy (fun e s => Fml.imp (.and [.ge e (numT 0), .ge s (numT 0)]) (.eq s e)))
  | .distance busy d ivs mode =>
      some (gapTwinF busy (fun e s => distanceGap d ivs mode (e, s)))
  | .interrupted ws ivs =>
      if ivs.all (fun iv => decide (iv.1 < iv.2)) then
        some (.and (ws.flatMap (fun w => w.flatMap (fun bt => interruptedF bt.1 bt.2 ivs))))
      else none
  | .periodicallyInterrupted busy ivs period start offset end_ =>
      if decide (0 < period) && ivs.all (fun iv => decide (0 ≤ iv.1) && decide (iv.1 < iv.2) && decide (iv.2 ≤ period)) then
        some (.and (busy.flatMap (fun bt => periodicInterruptedF bt.1 bt.2 ivs period start offset end_)))
      else none
  | .sameWorkers s1 s2 =>
      some (.and ((s1.workers.filter (fun w => s2.workers.contains w)).map (fun w =>
        Fml.iff (.bvar (.sel s1.id w)) (.bvar (.sel s2.id w)))))
  | .distinctWorkers s1 s2 =>
      some (.and ((s1.workers.filter (fun w => s2.workers.contains w)).map (fun w =>
        Fml.not (.and [.bvar (.sel s1.id w), .bvar (.sel s2.id w)]))))
  | _ => none

def specC04 (st : State) : List Fml :=
  (st.constrs.filter (fun c => !c.operand)).filterMap (fun c =>
    match c.body.resMeaningF with
    | some f => some (if c.optional then Fml.imp (.bvar (.applied c.id)) f else f)
    | none => none)

/-! ### C08 -/

def maxOfF (v : Term) (xs : List Term) : Fml := .and (Fml.or (xs.map (fun x => Fml.eq v x)) :: xs.map (fun x => Fml.ge v x))
def minOfF (v : Term) (xs : List Term) : Fml := .and (Fml.or (xs.map (fun x => Fml.eq v x)) :: xs.map (fun x => Fml.le v x))

def Cost.isConst : Cost → Bool
  | .const _ => true
  | _ => false

/-- cost per busy interval of a resource with a constant cost per period: `k · (end − start)` -/
def constCostTerms (it : Cost × List BusyRef) : List Term :=
  match it.1 with
  | .const k => it.2.map (fun b => Term.mul (numT k) (.sub b.e b.s))
  | _ => []

def Cost.isPoly : Cost → Bool
  | .poly _ => true
  | _ => false

/-- twice the cost of each busy interval of a resource with a linear cost function `a·t + b`:
    `(cost(start) + cost(end)) · (end − start)` — the trapezoid, which `linear_trapezoid` shows to be the exact sum -/
def linCostTerms (it : Cost × List BusyRef) : List Term :=
  match it.1 with
  | .linear a b => it.2.map (fun bz =>
      Term.mul (.add (.add (.mul (numT a) bz.s) (numT b)) (.add (.mul (numT a) bz.e) (numT b))) (.sub bz.e bz.s))
  | _ => []

def IBody.defF (v : Term) : IBody → Option Fml
  | .expr t _ => some (.eq v t)
  | .utilization busy (some h) => some (.eq v (.div (.mul (numT 100) (sumOrZero (busy.map (fun b => Term.sub b.e b.s)))) (numT h)))
  | .utilization busy none =>
      some (.eq v (.div (.mul (numT 100) (sumOrZero (busy.map (fun b => Term.sub b.e b.s)))) (.var .horizon)))
  | .nbTasksAssigned busy => some (.eq v (sumOrZero (busy.map (fun b => Term.ite (.ge b.s (numT 0)) (numT 1) (numT 0)))))
  | .tardiness ts => some (.eq v (sumOrZero (ts.map (fun t =>
      Term.ite t.schedF (.mul (numT t.prio) (maxT (numT 0) (.sub t.eVar (numT (t.due.getD 0))))) (numT 0)))))
  | .earliness ts => some (.eq v (sumOrZero (ts.map (fun t =>
      Term.ite t.schedF (maxT (numT 0) (.sub (numT (t.due.getD 0)) t.eVar)) (numT 0)))))
  | .nbTardy ts => some (.eq v (sumOrZero (ts.map (fun t => Term.ite (.gt t.eVar (numT (t.due.getD 0))) (numT 1) (numT 0)))))
  | .maxLateness ts => some (maxOfF v (ts.map (fun t => Term.sub t.eVar (numT (t.due.getD 0)))))
  | .maxBuffer levels => some (maxOfF v levels)
  | .minBuffer levels => some (minOfF v levels)
  | .resourceCost items =>
      -- constant costs only (polynomial / linear costs make the definition non linear)
      if items.all (fun it => it.1.isConst) then some (.eq v (sumOrZero (items.flatMap constCostTerms)))
      else if items.all (fun it => !it.1.isPoly) then
        -- constant and linear costs: constant part plus half the trapezoid sum
        some (.eq v (.add (sumOrZero (items.flatMap constCostTerms))
                          (.div (sumOrZero (items.flatMap linCostTerms)) (numT 2))))
      else none
  | _ => none

def specC08 (st : State) : List Fml :=
  st.indicators.filterMap (fun i => i.body.defF (.var i.var)) ++
  (st.constrs.filter (fun c => !c.operand)).flatMap (fun c => match c.body with
    | .indicatorTarget v value => [Fml.eq (.var v) (numT value)]
    | .indicatorBounds v lo hi =>
        (match lo with | some l => [Fml.ge (.var v) (numT l)] | none => []) ++
        (match hi with | some h => [Fml.le (.var v) (numT h)] | none => [])
    | _ => [])

/-! ### C10 -/

def allOf (os : List (List Fml)) : Fml := .and (os.map Fml.and)

def CBody.meaningF : CBody → Option Fml
  | .not_ o => some (.not (.and o))
  | .or_ os => some (.or (os.map Fml.and))
  | .and_ os => some (allOf os)
  | .xor_ o1 o2 => some (.xor (.and o1) (.and o2))
  | .implies c os => some (.imp c (allOf os))
  | .ifThenElse c os1 os2 => some (.and [.imp c (allOf os1), .imp (.not c) (allOf os2)])
  | .fromExpr f => some f
  | .forceApplyN cs n k => some (countF k (cs.map (fun i => Fml.bvar (.applied i))) n)
  | _ => none

def specC10 (st : State) : List Fml :=
  (st.constrs.filter (fun c => !c.operand)).filterMap (fun c =>
    match c.body.meaningF with
    | some f => some (if c.optional then Fml.imp (.bvar (.applied c.id)) f else f)
    | none => none)

end PS

namespace PS

/-! ### C09: buffers.  (instant, signed quantity) of every access; the closed form of the levels -/

def bufEventTerms (st : State) (b : Buffer) : List (Term × Int) :=
  (st.bufUnloading b.name).map (fun e => (Term.var (.tStart e.1), - e.2)) ++
  (st.bufLoading b.name).map (fun e => (Term.var (.tEnd e.1), e.2))

def pairwiseNe : List Term → List Fml
  | [] => []
  | x :: rest => rest.map (fun y => Fml.ne x y) ++ pairwiseNe rest

def specC09buf (st : State) (b : Buffer) : List Fml :=
  let acc := st.bufAccesses b.name
  let evs := bufEventTerms st b
  if acc.length != evs.length then [] else
  let levels := b.levelVars acc
  let times := b.timeVars acc
  let closed := (List.range acc.length).map (fun i =>
    Fml.eq (levels.getD (i + 1) default)
      (.add (levels.getD 0 default)
        (.sum (evs.map (fun e => Term.ite (.le e.1 (times.getD i default)) (numT e.2) (numT 0))))))
  let sorted := (List.range (acc.length - 1)).map (fun i => Fml.le (times.getD i default) (times.getD (i + 1) default))
  let cover := evs.map (fun e => Fml.or (times.map (fun t => Fml.eq t e.1)))
  let excl := if b.concurrent then [] else pairwiseNe (evs.map (·.1))
  let ini := match b.initial with | some i => [Fml.eq (levels.getD 0 default) (numT i)] | none => []
  let fin := match b.final with | some f => [Fml.eq (levels.getD acc.length default) (numT f)] | none => []
  let lbs := match b.lb with | some l => levels.map (fun v => Fml.ge v (numT l)) | none => []
  let ubs := match b.ub with | some u => levels.map (fun v => Fml.le v (numT u)) | none => []
  closed ++ sorted ++ cover ++ excl ++ ini ++ fin ++ lbs ++ ubs

def specC09 (st : State) : List Fml := st.buffers.flatMap (specC09buf st)

end PS
