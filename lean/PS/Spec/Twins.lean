/-
  PS.Spec.Twins — the spec clauses as *formulas* over the primary variables.  The driver prints
  them; the harness conjoins their negation with the assertions of the REAL library and asks
  z3 for a model: any model is a concrete schedule admitted by the real code that violates the
  documented meaning (the replay of a VIOLATION).  Each twin is proved equivalent to the Prop
  the theorems are about (PS/Theorems/*.lean), so the search oracle and the theorems share one
  definition.
-/
import PS.Model.Initialize
namespace PS

/-- the duration of a task as a term -/
def Task.durT (t : Task) : Term :=
  match t.kind with
  | .fixed d => numT d
  | .zero => numT 0
  | .var .. => t.dVar

def Task.durOKF (t : Task) : List Fml :=
  match t.kind with
  | .fixed _ => []
  | .zero => []
  | .var minD maxD allowed =>
      [.ge t.dVar (numT minD)] ++
      (match maxD with | some m => [Fml.le t.dVar (numT m)] | none => []) ++
      (match allowed with | some l => [Fml.or (l.map (fun d => Fml.eq t.dVar (numT d)))] | none => [])

/-- C01 for one task -/
def Task.timingF (t : Task) : Fml :=
  .imp t.schedF (.and ([.ge t.sVar (numT 0), .le t.eVar (.var .horizon), .eq (.sub t.eVar t.sVar) t.durT]
    ++ t.durOKF
    ++ (match t.release with | some r => [Fml.ge t.sVar (numT r)] | none => [])
    ++ (match t.due with | some d => if t.deadline then [Fml.le t.eVar (numT d)] else [] | none => [])))

def specC01 (st : State) : List Fml :=
  st.tasks.map (·.timingF) ++
  (match st.horizon with | some h => [Fml.le (.var .horizon) (numT h)] | none => [])

/-! ### C02 -/

def noOverlapSpec (w : String) : List (String × Bool) → List Fml
  | [] => []
  | (ti, mi) :: rest =>
      rest.map (fun (tk, mk) => Fml.not (.and [.lt (bS w ti mi) (bE w tk mk), .lt (bS w tk mk) (bE w ti mi)]))
      ++ noOverlapSpec w rest

def Req.spanF (t : Task) (r : Req) : Fml :=
  let bs := bS r.worker t.name r.maybe
  let be := bE r.worker t.name r.maybe
  match r.sel with
  | some s =>
      .and [.imp (.bvar (.sel s r.worker)) (.and [.eq bs t.sVar, .eq be t.eVar]),
            .imp (.not (.bvar (.sel s r.worker))) (.and [.eq bs be, .lt bs (numT 0)])]
  | none =>
      if r.dynamic then .and [.le t.sVar bs, .le bs be, .le be t.eVar]
      else .and [.eq bs (.add t.sVar (numT (max 0 r.delayIn))), .eq be (.sub t.eVar (numT (max 0 r.earlyOut)))]

def countF (k : CountKind) (flags : List Fml) (n : Nat) : Fml :=
  let s := Term.sum (flags.map (fun f => Term.ite f (numT 1) (numT 0)))
  match k with
  | .exact => .eq s (numT n)
  | .min => .ge s (numT n)
  | .max => .le s (numT n)

def specC02 (st : State) : List Fml :=
  st.workers.flatMap (fun w => noOverlapSpec w.name (st.busyOf w.name)) ++
  st.tasks.flatMap (fun t => (st.eventsOf t.name).flatMap (fun ev =>
    ev.reqs.map (fun r => r.spanF t) ++
    (match ev with
     | .viaSelect _ s _ true => [countF s.kind s.flags s.n]
     | _ => []))) ++
  st.tasks.flatMap (fun t =>
    if t.work > 0 && !(workTerms st t).isEmpty then [Fml.ge (.sum (workTerms st t)) (numT t.work)] else [])

/-! ### C10 -/

def allOf (os : List (List Fml)) : Fml := .and (os.map Fml.and)

def CBody.meaningF : CBody → Option Fml
  | .not_ o => some (.not (.and o))
  | .or_ os => some (.or (os.map Fml.and))
  | .and_ os => some (allOf os)
  | .xor_ o1 o2 => some (.xor (.and o1) (.and o2))
  | .implies c os => some (.imp c (allOf os))
  | .ifThenElse c os1 os2 => some (.and [.imp c (allOf os1), .imp (.not c) (allOf os2)])
  | .fromExpr f => some f
  | .forceApplyN cs n k => some (countF k (cs.map (fun i => Fml.bvar (.applied i))) n)
  | _ => none

def specC10 (st : State) : List Fml :=
  (st.constrs.filter (fun c => !c.operand)).filterMap (fun c =>
    match c.body.meaningF with
    | some f => some (if c.optional then Fml.imp (.bvar (.applied c.id)) f else f)
    | none => none)

end PS
