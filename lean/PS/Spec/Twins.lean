/-
  PS.Spec.Twins — the spec clauses as *formulas* over the primary variables.  The driver prints
  them; the harness conjoins their negation with the assertions of the REAL library and asks
  z3 for a model: any model is a concrete schedule admitted by the real code that violates the
  documented meaning (the replay of a VIOLATION).  Each twin is proved equivalent to the Prop
  the theorems are about (PS/Theorems/*.lean), so the search oracle and the theorems share one
  definition.
-/
import PS.Model.Encode
namespace PS

/-- the duration of a task as a term -/
def Task.durT (t : Task) : Term :=
  match t.kind with
  | .fixed d => numT d
  | .zero => numT 0
  | .var .. => t.dVar

def Task.durOKF (t : Task) : List Fml :=
  match t.kind with
  | .fixed _ => []
  | .zero => []
  | .var minD maxD allowed =>
      [.ge t.dVar (numT minD)] ++
      (match maxD with | some m => [Fml.le t.dVar (numT m)] | none => []) ++
      (match allowed with | some l => [Fml.or (l.map (fun d => Fml.eq t.dVar (numT d)))] | none => [])

/-- C01 for one task -/
def Task.timingF (t : Task) : Fml :=
  .imp t.schedF (.and ([.ge t.sVar (numT 0), .le t.eVar (.var .horizon), .eq (.sub t.eVar t.sVar) t.durT]
    ++ t.durOKF
    ++ (match t.release with | some r => [Fml.ge t.sVar (numT r)] | none => [])
    ++ (match t.due with | some d => if t.deadline then [Fml.le t.eVar (numT d)] else [] | none => [])))

def specC01 (st : State) : List Fml :=
  st.tasks.map (·.timingF) ++
  (match st.horizon with | some h => [Fml.le (.var .horizon) (numT h)] | none => [])

end PS
