/-
  PS.Spec.Basic — documented meaning of tasks and resources, written against the *primary*
  variables only (start, end, duration, scheduled flag, busy intervals, selection flags,
  horizon), independently of how the encoders are written.
-/
import PS.Model.Types
namespace PS

/-- a task is scheduled in ρ: mandatory, or its scheduled flag is true -/
def Scheduled (ρ : Env) (t : Task) : Prop := t.optional = false ∨ ρ.b (.sched t.name) = true

def Task.startV (t : Task) (ρ : Env) : Int := ρ.i (.tStart t.name)
def Task.endV (t : Task) (ρ : Env) : Int := ρ.i (.tEnd t.name)

/-- the duration of the task in ρ: the fixed value, zero, or the duration variable -/
def Task.durV (t : Task) (ρ : Env) : Int :=
  match t.kind with
  | .fixed d => d
  | .zero => 0
  | .var .. => ρ.i (.tDur t.name)

/-- the duration lies within what the declaration allows -/
def Task.DurOK (t : Task) (d : Int) : Prop :=
  match t.kind with
  | .fixed d' => d = d'
  | .zero => d = 0
  | .var minD maxD allowed =>
      minD ≤ d ∧ (∀ m, maxD = some m → d ≤ m) ∧ (∀ l, allowed = some l → d ∈ l)

/-- C01: window, duration, release, deadline -/
structure TaskTimingOK (horizon : Option Int) (t : Task) (ρ : Env) : Prop where
  start_nonneg : 0 ≤ t.startV ρ
  end_le_horizon : t.endV ρ ≤ ρ.i .horizon
  horizon_le : ∀ H, horizon = some H → ρ.i .horizon ≤ H
  duration : t.endV ρ - t.startV ρ = t.durV ρ
  durOK : t.DurOK (t.durV ρ)
  release : ∀ r, t.release = some r → r ≤ t.startV ρ
  deadline : ∀ d, t.due = some d → t.deadline = true → t.endV ρ ≤ d

/-- an unscheduled optional task is parked at a negative instant with zero length -/
structure TaskParked (t : Task) (ρ : Env) : Prop where
  start_neg : t.startV ρ < 0
  end_eq : t.endV ρ = t.startV ρ

end PS
