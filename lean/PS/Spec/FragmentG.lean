/-
  PS.Spec.FragmentG — executable tests for the exactness theorem with task groups (`PS/Theorems/Groups.lean`).

  Core Lean only: the compiled driver evaluates `State.fragmentGroupsB` on the state of every generated script
  (`(fragment-groups)`).
-/
import PS.Spec.Fragment
namespace PS

/-- a task group declared at top level (optional or not; not an operand of a connective) -/
def Constr.isGroup (c : Constr) : Bool :=
  !c.operand && (match c.body with | .unorderedGroup .. => true | .orderedGroup .. => true | _ => false)

/-- the problem without its top-level task groups -/
def State.noGroups (st : State) : State := { st with constrs := st.constrs.filter (fun c => !c.isGroup) }

def State.groups (st : State) : List Constr := st.constrs.filter Constr.isGroup

def CBody.groupTasks : CBody → List Task
  | .unorderedGroup ts _ _ => ts
  | .orderedGroup ts _ _ _ => ts
  | _ => []

/-- every variable but the group helpers (`task_group_start_<uuid>`, `task_group_end_<uuid>`) -/
def notGrp : IVar → Bool
  | .grpS _ => false
  | .grpE _ => false
  | _ => true

/-- the groups have pairwise different identifiers and their members are declared, mandatory tasks (an optional member
    left out makes a group unsatisfiable — the recorded finding `TaskGroup/unscheduled-member` — so such groups stay
    outside the theorem) -/
def State.groupsOK (st : State) : Bool :=
  decide ((st.groups.map (·.id)).Nodup) &&
  st.groups.all (fun c => c.body.groupTasks.all (fun t => !t.optional && st.findTask t.name == some t))

/-- nothing else in the problem mentions a group helper variable -/
def State.freshGroups (st : State) : Bool :=
  (initFmls cfgP st.noGroups).all (fun a => a.varsIn notGrp) && st.indicators.all (fun i => notGrp i.var)

/-- the problem without its top-level groups is in the exactness fragment, and the groups are of the kind
    `Groups.lean` handles -/
def State.fragmentGroupsB (st : State) : Bool := st.noGroups.fragmentB && st.groupsOK && st.freshGroups

end PS

namespace PS

/-- several objectives and task groups: the problem without its objectives passes the test above, and nothing mentions the
    two variables of the weighted combination -/
def State.fragmentGroupsMultiB (st : State) : Bool := st.noObj.fragmentGroupsB && st.freshEquiv

end PS
