/-
  PS.Spec.Fragment — the fragment of the exactness theorem (`PS/Theorems/Exact.lean`) as *executable* definitions
  (core Lean only, so that the compiled driver can evaluate them on the state of any generated script): the problem's
  own variables, formulas over them, the constraint classes of the fragment, and `State.fragmentB`, the Boolean
  conjunction of the conditions `InCoreS.of_reachable` asks of a reachable state.
-/
import PS.Spec.Schedule
import PS.Proofs.Congr
import PS.Proofs.Congr2
import PS.Proofs.EvalB
namespace PS

deriving instance DecidableEq for TaskKind, Task, Req, Cost, Worker, Select, ReqEvent

def CBody.isConn : CBody → Bool
  | .not_ .. | .or_ .. | .and_ .. | .xor_ .. | .implies .. | .ifThenElse .. | .fromExpr .. => true
  | _ => false

/-- tasks a constraint body of the core fragment mentions -/
def CBody.coreTasks : CBody → List Task
  | .startAt t _ | .startAfter t _ _ | .endAt t _ | .endBefore t _ _ => [t]
  | .precedence a b _ _ | .startSynced a b | .endSynced a b | .dontOverlap a b | .dependency a b => [a, b]
  | .forceSchedule t _ | .conditionSchedule t _ => [t]
  | .forceScheduleN ts _ _ => ts
  | _ => []

/-- the integer variables of the problem whose value the schedule determines: start / end of the declared tasks, the
    duration variable of the variable-duration ones, the busy intervals the logged requirements created, the horizon -/
def State.ownI (st : State) : IVar → Bool
  | .tStart n | .tEnd n => (st.findTask n).isSome
  | .tDur n => (match st.findTask n with | some t => t.isVar | none => false)
  | .busyS w n m | .busyE w n m =>
      st.reqLog.any (fun ev => ev.task == n && ev.reqs.any (fun r => r.worker == w && r.maybe == m))
  | .horizon => true
  | _ => false

/-- the Boolean variables a schedule determines: scheduled, selected, applied flags -/
def ownB : BVar → Bool
  | .sched _ | .sel _ _ | .applied _ => true
  | _ => false

/-- … and the variables of the declared indicators (each defined by one equation over the variables above) -/
def State.ownI2 (st : State) (v : IVar) : Bool := st.ownI v || st.indicators.any (fun ind => ind.var == v)

/-- the smallest duration the declaration of a task allows -/
def Task.minDur (t : Task) : Int :=
  match t.kind with
  | .fixed d => d
  | .zero => 0
  | .var mn _ _ => mn

/-- the declared delays fit the tasks: they leave a non-negative busy span whatever the duration, and optional tasks
    have none (the busy interval of an unscheduled task would otherwise be inverted) -/
def State.fitsB (st : State) : Bool :=
  st.tasks.all (fun t => decide (0 ≤ t.minDur) && (st.reqsOf t.name).all (fun r =>
    decide (max 0 r.delayIn + max 0 r.earlyOut ≤ t.minDur) &&
    (!t.optional || (decide (r.delayIn ≤ 0) && decide (r.earlyOut ≤ 0)))))

/-- a busy interval the problem owns -/
def State.ownsBusy (st : State) (b : BusyRef) : Bool :=
  st.ownI (.busyS b.worker b.task b.maybe) && st.ownI (.busyE b.worker b.task b.maybe)

/-- a formula over the problem's own variables only (no auxiliary variable, no uninterpreted symbol) -/
def State.plainF (st : State) (f : Fml) : Bool := f.plainIn st.ownI2 ownB

/-- constraint bodies of the fragment of `C05_sound_core`: classes whose documented meaning reads task times and
    flags, unavailability of owned busy intervals, and — over formulas that mention the problem's own variables
    only — user expressions, conditional scheduling and the six connectives -/
def CBody.inCoreS (st : State) (id : Nat) : CBody → Bool
  | .startAt .. | .startAfter .. | .endAt .. | .endBefore .. | .precedence .. | .startSynced .. | .endSynced ..
  | .dontOverlap .. | .forceSchedule .. | .dependency .. | .forceScheduleN .. | .forceApplyN .. | .sameWorkers .. => true
  | .conditionSchedule _ cond => st.plainF cond
  | .unavailable busy _ =>
      busy.all (fun b => st.ownI (.busyS b.worker b.task b.maybe) && st.ownI (.busyE b.worker b.task b.maybe))
  | .indicatorTarget v _ | .indicatorBounds v _ _ => st.indicators.any (fun ind => ind.var == v)
  -- the interruption classes: well-formed windows, owned busy intervals of declared tasks, delays that fit
  | .interrupted ws ivs =>
      ivs.all (fun iv => decide (iv.1 < iv.2)) && st.fitsB &&
      ws.all (fun w => w.all (fun bt => st.ownsBusy bt.1 && st.findTask bt.2.name == some bt.2))
  | .periodicallyUnavailable busy ivs _ _ _ _ =>
      ivs.all (fun iv => decide (iv.1 < iv.2)) && st.fitsB && busy.all st.ownsBusy
  | .periodicallyInterrupted busy ivs period _ _ _ =>
      decide (0 < period) && ivs.all (fun iv => decide (0 ≤ iv.1) && decide (iv.1 < iv.2) && decide (iv.2 ≤ period)) &&
      st.fitsB && busy.all (fun bt => st.ownsBusy bt.1 && st.findTask bt.2.name == some bt.2)
  | b => b.isConn && (b.raw id).all st.plainF

/-- the conditions of `InCoreS.of_reachable`, as a Boolean -/
def State.fragmentB (st : State) : Bool :=
  -- no task requires one worker twice
  st.tasks.all (fun t => (st.reqsOf t.name).all (fun r => st.reqFor r.worker t.name == some r)) &&
  -- constraints that are not operands: in the fragment, optional only if they go through the applied flag, over
  -- declared tasks
  st.constrs.all (fun c => c.operand ||
    (c.body.inCoreS st c.id && (!c.optional || !c.body.direct) &&
     c.body.coreTasks.all (fun t => st.findTask t.name == some t))) &&
  -- indicators: one defining equation each, quantifier free, over own primary variables, distinct variables
  st.indicators.all (fun ind => ind.var.isInd &&
    (match ind.body.defTerm with
     | some T => T.qf && T.varsIn (fun v => !v.isInd) && T.plainIn st.ownI ownB
     | none => false)) &&
  decide (st.indicators.Pairwise (fun a b => a.var ≠ b.var)) &&
  st.buffers.isEmpty && decide (st.objectives.length ≤ 1)


/-! ### "the same problem up to task numbers", executable (hypotheses of `C14_tasks_order_verdict`) -/

/-- the same task declaration, possibly with another number -/
def Task.sameDecl (t t' : Task) : Bool := t' == { t with num0 := t'.num0 }

def sameDeclList : List Task → List Task → Bool
  | [], [] => true
  | t :: ts, t' :: ts' => t.sameDecl t' && sameDeclList ts ts'
  | _, _ => false

/-- the same constraint over the same task declarations (the classes whose meaning reads task times and flags) -/
def CBody.sameUpTo : CBody → CBody → Bool
  | .startAt t v, .startAt t' v' => t.sameDecl t' && v == v'
  | .startAfter t v s, .startAfter t' v' s' => t.sameDecl t' && v == v' && s == s'
  | .endAt t v, .endAt t' v' => t.sameDecl t' && v == v'
  | .endBefore t v s, .endBefore t' v' s' => t.sameDecl t' && v == v' && s == s'
  | .precedence a b off k, .precedence a' b' off' k' => a.sameDecl a' && b.sameDecl b' && off == off' && k == k'
  | .startSynced a b, .startSynced a' b' => a.sameDecl a' && b.sameDecl b'
  | .endSynced a b, .endSynced a' b' => a.sameDecl a' && b.sameDecl b'
  | .dontOverlap a b, .dontOverlap a' b' => a.sameDecl a' && b.sameDecl b'
  | .forceSchedule t b, .forceSchedule t' b' => t.sameDecl t' && b == b'
  | .dependency a b, .dependency a' b' => a.sameDecl a' && b.sameDecl b'
  | .forceScheduleN ts n k, .forceScheduleN ts' n' k' => sameDeclList ts ts' && n == n' && k == k'
  | .forceApplyN cs n k, .forceApplyN cs' n' k' => cs == cs' && n == n' && k == k'
  | .sameWorkers s1 s2, .sameWorkers s1' s2' => s1 == s1' && s2 == s2'
  | _, _ => false

def State.numbersIntoB (st st' : State) : Bool :=
  decide (st.horizon = st'.horizon) &&
  st.tasks.all (fun t => st'.tasks.any (fun t' => t.sameDecl t')) &&
  decide (st.workers = st'.workers) && decide (st.reqLog = st'.reqLog) &&
  st.constrs.all (fun c => c.operand ||
    st'.constrs.any (fun c' => !c'.operand && (!c.optional || c'.id == c.id) && c'.optional == c.optional &&
      c.body.sameUpTo c'.body))

/-- every delay-in stays below the number of its task (what finding F19 violates) -/
def State.delaysBelowB (st : State) : Bool :=
  st.tasks.all (fun t => (st.reqsOf t.name).all (fun r => decide (r.delayIn ≤ t.num0)))

/-- all the hypotheses of `C14_tasks_order_verdict` about a pair of reachable states -/
def State.tasksOrderTheoremB (st st' : State) : Bool :=
  st.numbersIntoB st' && st'.numbersIntoB st && st.fragmentB && st'.fragmentB && st.delaysBelowB && st'.delaysBelowB


/-! ### "the problem without the task", executable (hypotheses of `C06_deletion_sound`) -/

/-- the problem without task `n` (the definition the theorems of `PS/Theorems/Absent.lean` are about) -/
def State.dropTaskB (st : State) (n : String) : State :=
  { st with
    tasks := st.tasks.filter (fun t => t.name != n)
    reqLog := st.reqLog.filter (fun ev => ev.task != n)
    constrs := st.constrs.filter (fun c => !(c.body.coreTasks.any (fun t => t.name == n))) }

def CBody.isGuardedB : CBody → Bool
  | .startAt .. | .startAfter .. | .endAt .. | .endBefore .. | .precedence .. | .startSynced .. | .endSynced ..
  | .dontOverlap .. => true
  | _ => false

/-- `full` is a problem with the optional task `n`, `without` the problem a script without `n` produces: every
    hypothesis under which an unscheduled `n` is as good as absent -/
def State.dropTaskTheoremB (full without : State) (n : String) : Bool :=
  let d := full.dropTaskB n
  (match full.findTask n with | some t => t.optional | none => false) &&
  d.numbersIntoB without && without.numbersIntoB d &&
  full.fragmentB && d.fragmentB && without.fragmentB &&
  full.delaysBelowB && d.delaysBelowB && without.delaysBelowB &&
  -- `n` required no selection, and the constraints naming it are of the guarded classes
  (full.eventsOf n).all (fun ev => match ev with | .direct _ _ => true | .viaSelect _ _ _ _ => false) &&
  full.constrs.all (fun c => c.operand || !(c.body.coreTasks.any (fun t => t.name == n)) || c.body.isGuardedB)


/-! ### several objectives, executable (hypotheses of `C05_feasible_iff_multi` / `C07_weighted_attainable`) -/

def eqvVar : IVar := .named "EquivalentSingleObjective"
def eqvInd : IVar := .ind "EquivalentIndicator"

/-- every variable but the two of the weighted combination -/
def notEquiv (v : IVar) : Bool := !(v == eqvVar) && !(v == eqvInd)

/-- a configuration under which `initialize` adds nothing for the objectives (the built-in optimiser in Pareto mode) -/
def cfgP : Config := { optimize := true }

def weightedTerms (st : State) : List Term := st.objectives.map (fun o => Term.mul (numT o.weight) o.target)

/-- no assertion of the problem and no objective target mentions the two variables of the weighted combination -/
def State.freshEquiv (st : State) : Bool :=
  (initFmls cfgP st).all (fun a => a.varsIn notEquiv) && st.objectives.all (fun o => o.target.varsIn notEquiv)


def State.noObj (st : State) : State := { st with objectives := [] }

/-- the problem without its objectives is in the fragment, nothing mentions the two variables of the weighted
    combination, and every objective targets an own variable -/
def State.fragmentMultiB (st : State) : Bool :=
  st.noObj.fragmentB && st.freshEquiv && st.objectives.all (fun o => o.target.plainIn st.noObj.ownI2 ownB)

end PS
