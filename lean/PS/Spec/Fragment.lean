/-
  PS.Spec.Fragment — the fragment of the exactness theorem (`PS/Theorems/Exact.lean`) as *executable* definitions
  (core Lean only, so that the compiled driver can evaluate them on the state of any generated script): the problem's
  own variables, formulas over them, the constraint classes of the fragment, and `State.fragmentB`, the Boolean
  conjunction of the conditions `InCoreS.of_reachable` asks of a reachable state.
-/
import PS.Spec.Schedule
import PS.Proofs.Congr
import PS.Proofs.Congr2
import PS.Proofs.EvalB
namespace PS

deriving instance DecidableEq for TaskKind, Task, Req

def CBody.isConn : CBody → Bool
  | .not_ .. | .or_ .. | .and_ .. | .xor_ .. | .implies .. | .ifThenElse .. | .fromExpr .. => true
  | _ => false

/-- tasks a constraint body of the core fragment mentions -/
def CBody.coreTasks : CBody → List Task
  | .startAt t _ | .startAfter t _ _ | .endAt t _ | .endBefore t _ _ => [t]
  | .precedence a b _ _ | .startSynced a b | .endSynced a b | .dontOverlap a b | .dependency a b => [a, b]
  | .forceSchedule t _ | .conditionSchedule t _ => [t]
  | .forceScheduleN ts _ _ => ts
  | _ => []

/-- the integer variables of the problem whose value the schedule determines: start / end of the declared tasks, the
    duration variable of the variable-duration ones, the busy intervals the logged requirements created, the horizon -/
def State.ownI (st : State) : IVar → Bool
  | .tStart n | .tEnd n => (st.findTask n).isSome
  | .tDur n => (match st.findTask n with | some t => t.isVar | none => false)
  | .busyS w n m | .busyE w n m =>
      st.reqLog.any (fun ev => ev.task == n && ev.reqs.any (fun r => r.worker == w && r.maybe == m))
  | .horizon => true
  | _ => false

/-- the Boolean variables a schedule determines: scheduled, selected, applied flags -/
def ownB : BVar → Bool
  | .sched _ | .sel _ _ | .applied _ => true
  | _ => false

/-- … and the variables of the declared indicators (each defined by one equation over the variables above) -/
def State.ownI2 (st : State) (v : IVar) : Bool := st.ownI v || st.indicators.any (fun ind => ind.var == v)

/-- a formula over the problem's own variables only (no auxiliary variable, no uninterpreted symbol) -/
def State.plainF (st : State) (f : Fml) : Bool := f.plainIn st.ownI2 ownB

/-- constraint bodies of the fragment of `C05_sound_core`: classes whose documented meaning reads task times and
    flags, unavailability of owned busy intervals, and — over formulas that mention the problem's own variables
    only — user expressions, conditional scheduling and the six connectives -/
def CBody.inCoreS (st : State) (id : Nat) : CBody → Bool
  | .startAt .. | .startAfter .. | .endAt .. | .endBefore .. | .precedence .. | .startSynced .. | .endSynced ..
  | .dontOverlap .. | .forceSchedule .. | .dependency .. | .forceScheduleN .. | .forceApplyN .. | .sameWorkers .. => true
  | .conditionSchedule _ cond => st.plainF cond
  | .unavailable busy _ =>
      busy.all (fun b => st.ownI (.busyS b.worker b.task b.maybe) && st.ownI (.busyE b.worker b.task b.maybe))
  | .indicatorTarget v _ | .indicatorBounds v _ _ => st.indicators.any (fun ind => ind.var == v)
  | b => b.isConn && (b.raw id).all st.plainF

/-- the conditions of `InCoreS.of_reachable`, as a Boolean -/
def State.fragmentB (st : State) : Bool :=
  -- no task requires one worker twice
  st.tasks.all (fun t => (st.reqsOf t.name).all (fun r => st.reqFor r.worker t.name == some r)) &&
  -- constraints that are not operands: in the fragment, optional only if they go through the applied flag, over
  -- declared tasks
  st.constrs.all (fun c => c.operand ||
    (c.body.inCoreS st c.id && (!c.optional || !c.body.direct) &&
     c.body.coreTasks.all (fun t => st.findTask t.name == some t))) &&
  -- indicators: one defining equation each, quantifier free, over own primary variables, distinct variables
  st.indicators.all (fun ind => ind.var.isInd &&
    (match ind.body.defTerm with
     | some T => T.qf && T.varsIn (fun v => !v.isInd) && T.plainIn st.ownI ownB
     | none => false)) &&
  decide (st.indicators.Pairwise (fun a b => a.var ≠ b.var)) &&
  st.buffers.isEmpty && decide (st.objectives.length ≤ 1)

end PS
