/-
  PS.Proofs.Sort — what `sort_no_duplicates` (util.py) forces: fresh variables, each equal to one of
  the inputs, strictly increasing, as many as the inputs  ⇒  they are the inputs in increasing
  order and the inputs are pairwise distinct.
-/
import Mathlib.Data.List.Sort
import Mathlib.Data.List.Perm.Subperm
import PS.Model.Encode
namespace PS
open List

def leB (a b : Int) : Bool := decide (a ≤ b)

/-- the sorted list of values -/
def sortInts (X : List Int) : List Int := X.mergeSort leB

theorem sorted_unique (A X : List Int) (hinc : A.Pairwise (· < ·)) (hsub : ∀ v ∈ A, v ∈ X)
    (hlen : A.length = X.length) : A = sortInts X ∧ X.Nodup := by
  have hnd : A.Nodup := hinc.imp (fun h => ne_of_lt h)
  have hperm : A.Perm X := (List.subperm_of_subset hnd hsub).perm_of_length_le (le_of_eq hlen.symm)
  have hs1 : A.Pairwise (· ≤ ·) := hinc.imp le_of_lt
  have hs2 : (sortInts X).Pairwise (· ≤ ·) := by
    have := List.pairwise_mergeSort (le := leB) (by intro a b c; simp [leB]; omega) (by intro a b; simp [leB]; omega) X
    unfold sortInts
    exact this.imp (by intro a b h; simpa [leB] using h)
  have hperm2 : A.Perm (sortInts X) := hperm.trans (List.mergeSort_perm X _).symm
  exact ⟨List.Perm.eq_of_pairwise (fun a b _ _ h1 h2 => le_antisymm h1 h2) hs1 hs2 hperm2, hperm.nodup_iff.1 hnd⟩

end PS

namespace PS
open List

theorem adjacent_lt_imp (g : Nat → Int) (n : Nat) (h : ∀ i, i + 1 < n → g i < g (i + 1)) :
    ∀ j i, i < j → j < n → g i < g j := by
  intro j
  induction j with
  | zero => intro i hi; omega
  | succ j ih =>
      intro i hij hjn
      by_cases he : i = j
      · subst he; exact h i hjn
      · have := ih i (by omega) (by omega)
        have := h j hjn
        omega

theorem getD_map_range (f : Nat → Term) (n i : Nat) (hi : i < n) :
    ((List.range n).map f).getD i default = f i := by
  simp [List.getD, hi]

/-- **sort_no_duplicates is sound.**  If the constraints it returns hold in ρ, the values of the
    fresh variables are the values of the inputs in increasing order, and the inputs have pairwise
    distinct values. -/
theorem sortNoDup_sound (fresh : Nat → IVar) (xs : List Term) (ρ : Env)
    (h : Sat ρ (sortNoDup fresh xs).2) :
    ((sortNoDup fresh xs).1.map (fun t => t.eval ρ)) = sortInts (xs.map (fun t => t.eval ρ)) ∧
    (xs.map (fun t => t.eval ρ)).Nodup := by
  set n := xs.length with hn
  have hA : (sortNoDup fresh xs).1 = (List.range n).map (fun i => Term.var (fresh i)) := rfl
  rw [hA]
  have hmapA : ((List.range n).map (fun i => Term.var (fresh i))).map (fun t => t.eval ρ) =
      (List.range n).map (fun i => ρ.i (fresh i)) := by
    simp [List.map_map, Function.comp_def, Term.eval]
  rw [hmapA]
  apply sorted_unique
  · -- strictly increasing
    rw [List.pairwise_iff_getElem]
    intro i j hi hj hij
    simp only [List.length_map, List.length_range] at hi hj
    simp only [List.getElem_map, List.getElem_range]
    apply adjacent_lt_imp (fun k => ρ.i (fresh k)) n _ j i hij hj
    intro k hk
    have hinc := h (Fml.and ((List.range (n - 1)).map (fun i =>
        Fml.lt (((List.range n).map (fun i => Term.var (fresh i))).getD i default)
               (((List.range n).map (fun i => Term.var (fresh i))).getD (i + 1) default)))) (by
      unfold sortNoDup; simp [← hn])
    simp only [Fml.eval] at hinc
    rw [evalAll_iff] at hinc
    have := hinc _ (List.mem_map.2 ⟨k, List.mem_range.2 (by omega), rfl⟩)
    rw [getD_map_range _ n k (by omega), getD_map_range _ n (k + 1) hk] at this
    simpa [Fml.eval, Term.eval] using this
  · -- every value is the value of an input
    intro v hv
    obtain ⟨i, hi, rfl⟩ := List.mem_map.1 hv
    have hi' := List.mem_range.1 hi
    have hc := h (Fml.or (xs.map (fun x => Fml.eq (Term.var (fresh i)) x))) (by
      unfold sortNoDup
      simp only [List.mem_append, List.mem_map, List.mem_singleton]
      left
      exact ⟨Term.var (fresh i), ⟨i, List.mem_range.2 (by rw [← hn]; exact hi'), rfl⟩, rfl⟩)
    simp only [Fml.eval] at hc
    rw [evalAny_iff] at hc
    obtain ⟨a, ha, hev⟩ := hc
    obtain ⟨x, hx, rfl⟩ := List.mem_map.1 ha
    simp only [Fml.eval, Term.eval] at hev
    exact List.mem_map.2 ⟨x, hx, hev.symm⟩
  · simp [hn]

end PS

namespace PS
open List

theorem eval_getD (l : List Term) (i : Nat) (ρ : Env) :
    (l.getD i default).eval ρ = (l.map (fun t => t.eval ρ)).getD i 0 := by
  by_cases hi : i < l.length
  · simp [List.getD, hi]
  · have h1 : l[i]? = none := by simp; omega
    have h2 : (l.map (fun t => t.eval ρ))[i]? = none := by simp; omega
    simp only [List.getD, h1, h2, Option.getD_none]
    rfl

/-- the gap conditions that TasksContiguous / ResourceNonDelay / ResourceTasksDistance /
    IndicatorResourceIdle attach to the sorted starts and ends -/
theorem gaps_sound (f1 f2 : Nat → IVar) (xs ys : List Term) (ρ : Env) (mk : Term × Term → Fml)
    (P : Int → Int → Prop) (hmk : ∀ e s, (mk (e, s)).eval ρ → P (e.eval ρ) (s.eval ρ))
    (hlen : xs.length = ys.length)
    (h : Sat ρ ((sortNoDup f1 xs).2 ++ (sortNoDup f2 ys).2 ++
               (gapPairs (sortNoDup f1 xs).1 (sortNoDup f2 ys).1).map mk)) :
    (xs.map (fun t => t.eval ρ)).Nodup ∧ (ys.map (fun t => t.eval ρ)).Nodup ∧
    ∀ i, i + 1 < xs.length →
      P ((sortInts (ys.map (fun t => t.eval ρ))).getD i 0) ((sortInts (xs.map (fun t => t.eval ρ))).getD (i + 1) 0) := by
  rw [Sat.append, Sat.append] at h
  obtain ⟨⟨h1, h2⟩, h3⟩ := h
  obtain ⟨hS, hnd1⟩ := sortNoDup_sound f1 xs ρ h1
  obtain ⟨hE, hnd2⟩ := sortNoDup_sound f2 ys ρ h2
  refine ⟨hnd1, hnd2, ?_⟩
  intro i hi
  have hlenS : (sortNoDup f1 xs).1.length = xs.length := by simp [sortNoDup]
  have := h3 (mk ((sortNoDup f2 ys).1.getD i default, (sortNoDup f1 xs).1.getD (i + 1) default)) (by
    apply List.mem_map.2
    refine ⟨_, ?_, rfl⟩
    unfold gapPairs
    apply List.mem_map.2
    exact ⟨i, List.mem_range.2 (by rw [hlenS]; omega), rfl⟩)
  have := hmk _ _ this
  rw [eval_getD, eval_getD, hS, hE] at this
  exact this

end PS
