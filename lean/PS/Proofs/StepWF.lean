/-
  PS.Proofs.StepWF — well-formedness invariants of the constructor model over whole scripts: task names are pairwise
  different, every logged requirement event is well formed (`ReqEvent.WF`) and belongs to a declared task.  Only
  `problem`, `task` and `require` declarations touch the task registry and the requirement log (`*_core` lemmas).
-/
import PS.Proofs.StepInv
import PS.Theorems.C02
namespace PS

/-- the part of the state the invariants speak about -/
def State.core (st : State) : List Task × List ReqEvent := (st.tasks, st.reqLog)

theorem stepWorker_core (st : State) (name prod cost co) : (stepWorker st name prod cost co).1.core = st.core := by
  unfold stepWorker
  repeat' split
  all_goals simp [ok, fail, State.core]

theorem addUnits_core (cname : String) : ∀ (units : List (String × Int × Int)) (st : State),
    (addUnits st cname units).1.core = st.core
  | [], st => rfl
  | (n, p, c) :: rest, st => by
      unfold addUnits
      have hw := stepWorker_core st n p (.const c) (some cname)
      split
      · rename_i st' heq
        rw [addUnits_core cname rest st']
        rw [heq] at hw; exact hw
      · exact hw

theorem stepCumulative_core (st : State) (name size prod cost) :
    (stepCumulative st name size prod cost).1.core = st.core := by
  unfold stepCumulative
  split
  · rfl
  · split
    · rename_i k
      have hu := addUnits_core name ((List.range size.toNat).map (fun i =>
        (unitName name i, (distribute prod size.toNat).getD i 0, (distribute k size.toNat).getD i 0))) st
      dsimp only
      split
      · rename_i st' heq
        simp only [heq] at hu
        split <;> exact hu
      · exact hu
    · rfl

theorem stepSelect_core (st : State) (name workers n kind) : (stepSelect st name workers n kind).1.core = st.core := by
  unfold stepSelect
  repeat' split
  all_goals simp [ok, fail, State.core]

theorem stepBuffer_core (st : State) (name conc i f lb ub) : (stepBuffer st name conc i f lb ub).1.core = st.core := by
  unfold stepBuffer
  repeat' split
  all_goals simp [ok, fail, State.core]

theorem addIndicator_core (st : State) (cls key name bounds body) :
    (st.addIndicator cls key name bounds body).1.core = st.core := by
  unfold State.addIndicator
  split
  · rfl
  · split
    · rfl
    · dsimp only
      split <;> rfl

theorem addObjective_core (st : State) (name target bounds weight maximize) :
    (st.addObjective name target bounds weight maximize).1.core = st.core := by
  unfold State.addObjective
  repeat' split
  all_goals rfl

theorem indThenObj_core (st : State) (cls key iname bounds body oname maximize) :
    (st.indThenObj cls key iname bounds body oname maximize).1.core = st.core := by
  unfold State.indThenObj
  have hi := addIndicator_core st cls key iname bounds body
  split
  · rename_i st' heq
    rw [heq] at hi
    split
    · rw [addObjective_core]; exact hi
    · exact hi
  · exact hi

theorem indThenFail_core (st : State) (cls key iname bounds body e) :
    (st.indThenFail cls key iname bounds body e).1.core = st.core := by
  unfold State.indThenFail
  have hi := addIndicator_core st cls key iname bounds body
  split
  · rename_i st' heq
    rw [heq] at hi
    exact hi
  · exact hi

theorem stepIndicator_core (st : State) (d) : (stepIndicator st d).1.core = st.core := by
  unfold stepIndicator
  split
  · rfl
  · exact addIndicator_core _ _ _ _ _ _

theorem stepObjective_core (st : State) (d) : (stepObjective st d).1.core = st.core := by
  unfold stepObjective
  repeat' split
  all_goals first | rfl | exact addObjective_core _ _ _ _ _ _ | exact indThenObj_core _ _ _ _ _ _ _ _ |
    exact indThenFail_core _ _ _ _ _ _ _

theorem stepConstr_core (st : State) (name : Option String) (optional : Bool) (d : CDecl) :
    (stepConstr st name optional d).1.core = st.core := by
  unfold stepConstr
  split
  · rfl
  · split
    · rfl
    · split
      · rfl
      · rfl
  · split
    · rfl
    · split
      · rfl
      · dsimp only
        split <;> rfl
  · split
    · rfl
    · split
      · rfl
      · dsimp only
        split <;> rfl

/-! ### the invariant -/

structure WFInv (st : State) : Prop where
  nodup : (st.tasks.map (·.name)).Nodup
  events : ∀ ev ∈ st.reqLog, ev.WF
  req_tasks : ∀ ev ∈ st.reqLog, ∃ t ∈ st.tasks, t.name = ev.task

theorem wf_of_core_eq {st st' : State} (h : st'.core = st.core) (w : WFInv st) : WFInv st' := by
  have ht : st'.tasks = st.tasks := congrArg Prod.fst h
  have hr : st'.reqLog = st.reqLog := congrArg Prod.snd h
  exact ⟨by rw [ht]; exact w.nodup, by rw [hr]; exact w.events, by rw [hr, ht]; exact w.req_tasks⟩

theorem wf_add_event {st : State} (w : WFInv st) (ev : ReqEvent) (hwf : ev.WF) (ht : ∃ t ∈ st.tasks, t.name = ev.task)
    (st' : State) (h1 : st'.tasks = st.tasks) (h2 : st'.reqLog = st.reqLog ++ [ev]) : WFInv st' := by
  refine ⟨by rw [h1]; exact w.nodup, ?_, ?_⟩
  · intro e he
    rw [h2] at he
    rcases List.mem_append.1 he with h | h
    · exact w.events e h
    · rw [List.mem_singleton.1 h]; exact hwf
  · intro e he
    rw [h2] at he
    rw [h1]
    rcases List.mem_append.1 he with h | h
    · exact w.req_tasks e h
    · rw [List.mem_singleton.1 h]; exact ht

theorem requireSelect_wf (st : State) (w : WFInv st) (t : Task) (ht : t ∈ st.tasks) (s : Select) :
    WFInv (requireSelect st t s).1 := by
  unfold requireSelect
  simp only
  split
  · refine wf_add_event w (.viaSelect t.name s (selReqs s.id st.nPast s.workers) true) ?_ ⟨t, ht, rfl⟩ _ rfl rfl
    intro r hr; exact selReqs_wf _ _ _ r hr
  · refine wf_add_event w (.viaSelect t.name s (selReqs s.id st.nPast s.workers) false) ?_ ⟨t, ht, rfl⟩ _ rfl rfl
    intro r hr; exact selReqs_wf _ _ _ r hr

theorem findTask_mem {st : State} {n : String} {t : Task} (h : st.findTask n = some t) : t ∈ st.tasks ∧ t.name = n := by
  refine ⟨List.mem_of_find?_eq_some h, ?_⟩
  have := List.find?_some h
  exact eq_of_beq this

theorem stepRequire_wf (st : State) (w : WFInv st) (task res dynamic d e) :
    WFInv (stepRequire st task res dynamic d e).1 := by
  unfold stepRequire
  split
  · exact w
  · rename_i t hf
    obtain ⟨htm, htn⟩ := findTask_mem hf
    split
    · split
      · exact w
      · split
        · exact w
        · refine wf_add_event w _ ?_ ?_ _ rfl rfl
          · exact ⟨rfl, rfl⟩
          · exact ⟨t, htm, htn⟩
    · split
      · exact w
      · split
        · exact w
        · exact requireSelect_wf st w t htm _
    · split
      · exact w
      · rename_i cw _
        have hs := stepSelect_core st none cw.units 1 .min
        split
        · rename_i st' heq
          rw [heq] at hs
          have w' : WFInv st' := wf_of_core_eq hs w
          have htm' : t ∈ st'.tasks := by
            have : st'.tasks = st.tasks := congrArg Prod.fst hs
            rw [this]; exact htm
          split
          · exact requireSelect_wf st' w' t htm' _
          · exact w'
        · exact wf_of_core_eq hs w

theorem stepTask_wf (st : State) (w : WFInv st) (name kind optional work release due deadline prio) :
    WFInv (stepTask st name kind optional work release due deadline prio).1 := by
  unfold stepTask
  split
  · exact w
  · split
    · exact w
    · split
      · exact w
      · rename_i hany
        simp only [ok]
        refine ⟨?_, w.events, ?_⟩
        · simp only [List.map_append, List.map_cons, List.map_nil]
          rw [List.nodup_append]
          refine ⟨w.nodup, by simp, ?_⟩
          intro a ha b hb
          simp only [List.mem_singleton] at hb
          subst hb
          intro hab
          subst hab
          obtain ⟨t, ht, hn⟩ := List.mem_map.1 ha
          apply hany
          exact List.any_eq_true.2 ⟨t, ht, by simp [hn]⟩
        · intro ev hev
          obtain ⟨t, ht, hn⟩ := w.req_tasks ev hev
          exact ⟨t, List.mem_append_left _ ht, hn⟩

theorem step_wf (st : State) (d : Decl) (w : WFInv st) : WFInv (step st d).1 := by
  cases d with
  | problem name horizon =>
      simp only [step, stepProblem]
      cases horizon with
      | none => exact ⟨by simp [ok], by intro e he; simp [ok] at he, by intro e he; simp [ok] at he⟩
      | some h =>
          by_cases hp : h > 0
          · simp only [hp, if_true]
            exact ⟨by simp [ok], by intro e he; simp [ok] at he, by intro e he; simp [ok] at he⟩
          · simp only [hp, if_false]; exact w
  | task => exact stepTask_wf st w _ _ _ _ _ _ _ _
  | worker => exact wf_of_core_eq (stepWorker_core _ _ _ _ _) w
  | cumulative => exact wf_of_core_eq (stepCumulative_core _ _ _ _ _) w
  | select => exact wf_of_core_eq (stepSelect_core _ _ _ _ _) w
  | require => exact stepRequire_wf st w _ _ _ _ _
  | constr name optional c => exact wf_of_core_eq (stepConstr_core st name optional c) w
  | buffer => exact wf_of_core_eq (stepBuffer_core _ _ _ _ _ _ _) w
  | indicator => exact wf_of_core_eq (stepIndicator_core _ _) w
  | objective => exact wf_of_core_eq (stepObjective_core _ _) w

/-- **Well-formedness of reachable states.** -/
theorem reachable_wf (st : State) (hr : Reachable st) : WFInv st := by
  obtain ⟨ds, rfl⟩ := hr
  unfold run
  have : ∀ (ds : List Decl) (s : State), WFInv s → WFInv (ds.foldl (fun st d => (step st d).1) s) := by
    intro ds
    induction ds with
    | nil => intro s w; exact w
    | cons d ds ih => intro s w; exact ih _ (step_wf s d w)
  exact this ds {} ⟨by simp, by intro e he; simp at he, by intro e he; simp at he⟩

/-- distinct names: a task is found under its own name -/
theorem findTask_of_nodup (st : State) (h : (st.tasks.map (·.name)).Nodup) : ∀ t ∈ st.tasks, st.findTask t.name = some t := by
  unfold State.findTask
  generalize st.tasks = l at h
  induction l with
  | nil => intro t ht; simp at ht
  | cons x xs ih =>
      intro t ht
      simp only [List.map_cons, List.nodup_cons] at h
      rcases List.mem_cons.1 ht with rfl | hm
      · simp
      · have hne : x.name ≠ t.name := by
          intro he
          exact h.1 (he ▸ List.mem_map.2 ⟨t, hm, rfl⟩)
        have : (x.name == t.name) = false := by simpa using hne
        rw [List.find?_cons, this]
        exact ih h.2 t hm


/-! ### worker names are pairwise different in every reachable state -/

theorem stepTask_workers (st : State) (name kind optional work release due deadline prio) :
    (stepTask st name kind optional work release due deadline prio).1.workers = st.workers := by
  unfold stepTask
  repeat' split
  all_goals simp [ok, fail]

theorem stepSelect_workers (st : State) (name workers n kind) : (stepSelect st name workers n kind).1.workers = st.workers := by
  unfold stepSelect
  repeat' split
  all_goals simp [ok, fail]

theorem requireSelect_workers (st : State) (t : Task) (s : Select) : (requireSelect st t s).1.workers = st.workers := by
  unfold requireSelect
  simp only
  split <;> rfl

theorem stepRequire_workers (st : State) (task res dynamic d e) : (stepRequire st task res dynamic d e).1.workers = st.workers := by
  unfold stepRequire
  split
  · rfl
  · split
    · split
      · rfl
      · split <;> rfl
    · split
      · rfl
      · split
        · rfl
        · exact requireSelect_workers _ _ _
    · split
      · rfl
      · rename_i cw _
        have hs := stepSelect_workers st none cw.units 1 .min
        split
        · rename_i st' heq
          rw [heq] at hs
          split
          · rw [requireSelect_workers]; exact hs
          · exact hs
        · exact hs

theorem stepBuffer_workers (st : State) (name conc i f lb ub) : (stepBuffer st name conc i f lb ub).1.workers = st.workers := by
  unfold stepBuffer
  repeat' split
  all_goals simp [ok, fail]

theorem addIndicator_workers (st : State) (cls key name bounds body) :
    (st.addIndicator cls key name bounds body).1.workers = st.workers := by
  unfold State.addIndicator
  split
  · rfl
  · split
    · rfl
    · dsimp only
      split <;> rfl

theorem addObjective_workers (st : State) (name target bounds weight maximize) :
    (st.addObjective name target bounds weight maximize).1.workers = st.workers := by
  unfold State.addObjective
  repeat' split
  all_goals rfl

theorem indThenObj_workers (st : State) (cls key iname bounds body oname maximize) :
    (st.indThenObj cls key iname bounds body oname maximize).1.workers = st.workers := by
  unfold State.indThenObj
  have hi := addIndicator_workers st cls key iname bounds body
  split
  · rename_i st' heq
    rw [heq] at hi
    split
    · rw [addObjective_workers]; exact hi
    · exact hi
  · exact hi

theorem indThenFail_workers (st : State) (cls key iname bounds body e) :
    (st.indThenFail cls key iname bounds body e).1.workers = st.workers := by
  unfold State.indThenFail
  have hi := addIndicator_workers st cls key iname bounds body
  split
  · rename_i st' heq
    rw [heq] at hi
    exact hi
  · exact hi

theorem stepIndicator_workers (st : State) (d) : (stepIndicator st d).1.workers = st.workers := by
  unfold stepIndicator
  split
  · rfl
  · exact addIndicator_workers _ _ _ _ _ _

theorem stepObjective_workers (st : State) (d) : (stepObjective st d).1.workers = st.workers := by
  unfold stepObjective
  repeat' split
  all_goals first | rfl | exact addObjective_workers _ _ _ _ _ _ | exact indThenObj_workers _ _ _ _ _ _ _ _ |
    exact indThenFail_workers _ _ _ _ _ _ _

theorem stepConstr_workers (st : State) (name : Option String) (optional : Bool) (d : CDecl) :
    (stepConstr st name optional d).1.workers = st.workers := by
  unfold stepConstr
  split
  · rfl
  · split
    · rfl
    · split
      · rfl
      · rfl
  · split
    · rfl
    · split
      · rfl
      · dsimp only
        split <;> rfl
  · split
    · rfl
    · split
      · rfl
      · dsimp only
        split <;> rfl

def WNodup (st : State) : Prop := (st.workers.map (·.name)).Nodup

theorem stepWorker_wnodup (st : State) (h : WNodup st) (name prod cost co) : WNodup (stepWorker st name prod cost co).1 := by
  unfold stepWorker
  split
  · exact h
  · split
    · exact h
    · split
      · exact h
      · rename_i hany
        unfold WNodup
        simp only [ok, List.map_append, List.map_cons, List.map_nil]
        rw [List.nodup_append]
        refine ⟨h, by simp, ?_⟩
        intro a ha b hb
        simp only [List.mem_singleton] at hb
        subst hb
        intro hab
        subst hab
        obtain ⟨w, hw, hn⟩ := List.mem_map.1 ha
        apply hany
        exact List.any_eq_true.2 ⟨w, hw, by simp [hn]⟩

theorem addUnits_wnodup (cname : String) : ∀ (units : List (String × Int × Int)) (st : State), WNodup st →
    WNodup (addUnits st cname units).1
  | [], st, h => h
  | (n, p, c) :: rest, st, h => by
      unfold addUnits
      have hw := stepWorker_wnodup st h n p (.const c) (some cname)
      split
      · rename_i st' heq
        rw [heq] at hw
        exact addUnits_wnodup cname rest st' hw
      · exact hw

theorem stepCumulative_wnodup (st : State) (h : WNodup st) (name size prod cost) :
    WNodup (stepCumulative st name size prod cost).1 := by
  unfold stepCumulative
  split
  · exact h
  · split
    · rename_i k
      have hu := addUnits_wnodup name ((List.range size.toNat).map (fun i =>
        (unitName name i, (distribute prod size.toNat).getD i 0, (distribute k size.toNat).getD i 0))) st h
      dsimp only
      split
      · rename_i st' heq
        simp only [heq] at hu
        split <;> exact hu
      · exact hu
    · exact h

theorem wnodup_of_workers_eq {st st' : State} (h : st'.workers = st.workers) (w : WNodup st) : WNodup st' := by
  unfold WNodup; rw [h]; exact w

theorem step_wnodup (st : State) (d : Decl) (w : WNodup st) : WNodup (step st d).1 := by
  cases d with
  | problem name horizon =>
      simp only [step, stepProblem]
      cases horizon with
      | none => simp [ok, WNodup]
      | some h =>
          by_cases hp : h > 0
          · simp [hp, ok, WNodup]
          · simp only [hp, if_false]; exact w
  | task => exact wnodup_of_workers_eq (stepTask_workers _ _ _ _ _ _ _ _ _) w
  | worker => exact stepWorker_wnodup st w _ _ _ _
  | cumulative => exact stepCumulative_wnodup st w _ _ _ _
  | select => exact wnodup_of_workers_eq (stepSelect_workers _ _ _ _ _) w
  | require => exact wnodup_of_workers_eq (stepRequire_workers _ _ _ _ _ _) w
  | constr name optional c => exact wnodup_of_workers_eq (stepConstr_workers st name optional c) w
  | buffer => exact wnodup_of_workers_eq (stepBuffer_workers _ _ _ _ _ _ _) w
  | indicator => exact wnodup_of_workers_eq (stepIndicator_workers _ _) w
  | objective => exact wnodup_of_workers_eq (stepObjective_workers _ _) w

/-- **Worker names of reachable states are pairwise different** (unit workers of cumulative workers included). -/
theorem reachable_wnodup (st : State) (hr : Reachable st) : WNodup st := by
  obtain ⟨ds, rfl⟩ := hr
  unfold run
  have : ∀ (ds : List Decl) (s : State), WNodup s → WNodup (ds.foldl (fun st d => (step st d).1) s) := by
    intro ds
    induction ds with
    | nil => intro s w; exact w
    | cons d ds ih => intro s w; exact ih _ (step_wnodup s d w)
  exact this ds {} (by simp [WNodup])

theorem findWorker_of_wnodup (st : State) (h : WNodup st) : ∀ w ∈ st.workers, st.findWorker w.name = some w := by
  unfold State.findWorker
  unfold WNodup at h
  generalize st.workers = l at h
  induction l with
  | nil => intro t ht; simp at ht
  | cons x xs ih =>
      intro t ht
      simp only [List.map_cons, List.nodup_cons] at h
      rcases List.mem_cons.1 ht with rfl | hm
      · simp
      · have hne : x.name ≠ t.name := by
          intro he
          exact h.1 (he ▸ List.mem_map.2 ⟨t, hm, rfl⟩)
        have : (x.name == t.name) = false := by simpa using hne
        rw [List.find?_cons, this]
        exact ih h.2 t hm

end PS
