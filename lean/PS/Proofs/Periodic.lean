/-
  PS.Proofs.Periodic — integer arithmetic behind the periodic resource constraints
  (ResourcePeriodicallyInterrupted): folding an instant into its period, the repetitions of a
  window that lie inside a busy interval, and the closed form of the "overlap" term the library
  builds from `div` / `mod`.
-/
import Mathlib.Tactic.Ring
import Mathlib.Tactic.Linarith
namespace PS

/-- number of repetitions `k ∈ ℤ` of the window `(lo, hi)`, shifted to `(lo + off + p·k, hi + off + p·k)`,
    that lie inside `[s, e]`: the integers `k` with `⌈(s − lo − off)/p⌉ ≤ k ≤ ⌊(e − hi − off)/p⌋` -/
def repsInside (s e lo hi off p : Int) : Int := max 0 ((e - hi - off) / p + (lo + off - s) / p + 1)

/-- the repetitions inside `[s, e]` are exactly the `k` of an integer interval whose length is `repsInside` -/
theorem repsInside_spec (s e lo hi off p : Int) (hp : 0 < p) (k : Int) :
    (s ≤ lo + off + p * k ∧ hi + off + p * k ≤ e) ↔ (-((lo + off - s) / p) ≤ k ∧ k ≤ (e - hi - off) / p) := by
  constructor
  · rintro ⟨h1, h2⟩
    constructor
    · -- (lo + off - s) / p ≥ -k  since  p * (-k) ≤ lo + off - s
      have : -k ≤ (lo + off - s) / p := by
        rw [Int.le_ediv_iff_mul_le hp]
        nlinarith
      omega
    · rw [Int.le_ediv_iff_mul_le hp]
      nlinarith
  · rintro ⟨h1, h2⟩
    have h1' : -k ≤ (lo + off - s) / p := by omega
    rw [Int.le_ediv_iff_mul_le hp] at h1' h2
    constructor <;> nlinarith

/-- uniqueness of floor division, in the form used below -/
theorem ediv_eq_of_bounds (x p c : Int) (hp : 0 < p) (h1 : p * c ≤ x) (h2 : x < p * c + p) : x / p = c := by
  have h := Int.emod_add_mul_ediv x p
  have hm0 := Int.emod_nonneg x (ne_of_gt hp)
  have hm1 := Int.emod_lt_of_pos x hp
  -- x = x % p + p * (x / p)
  by_contra hne
  rcases lt_or_gt_of_ne hne with hlt | hgt
  · have : x / p + 1 ≤ c := hlt
    have : p * (x / p + 1) ≤ p * c := Int.mul_le_mul_of_nonneg_left this (le_of_lt hp)
    nlinarith
  · have : c + 1 ≤ x / p := hgt
    have : p * (c + 1) ≤ p * (x / p) := Int.mul_le_mul_of_nonneg_left this (le_of_lt hp)
    nlinarith

/-- **closed form of the overlap term of ResourcePeriodicallyInterrupted.**  For a busy interval
    `[s, e]` (`s ≤ e`) whose folded end points do not lie strictly inside the window `(lo, hi)`
    (`0 ≤ lo < hi ≤ p`), the term
    `if crossing ∨ e − s > lo + p − hi then (hi − lo)·((e − s) div p + [crossing]) else 0`
    equals `(hi − lo)` times the number of repetitions of the window that lie inside `[s, e]`. -/
theorem periodic_overlap_closed_form (s e lo hi off p : Int) (hp : 0 < p)
    (hlo : 0 ≤ lo) (hlt : lo < hi) (hhi : hi ≤ p) (hse : s ≤ e)
    (hs : (s - off) % p ≤ lo ∨ hi ≤ (s - off) % p)
    (he : (e - off) % p ≤ lo ∨ hi ≤ (e - off) % p)
    (crossing : Prop) [Decidable crossing]
    (hcr : crossing ↔ (((s - off) % p ≤ lo ∧ (s - off) % p + (e - s) % p ≤ lo) ↔
                       (hi ≤ (s - off) % p ∧ (s - off) % p + (e - s) % p ≤ lo + p))) :
    (if crossing ∨ lo + p - hi < e - s then (hi - lo) * (if crossing then (e - s) / p + 1 else (e - s) / p) else 0)
      = (hi - lo) * repsInside s e lo hi off p := by
  -- decompositions
  have hS := Int.emod_add_mul_ediv (s - off) p
  have hD := Int.emod_add_mul_ediv (e - s) p
  have hfs0 := Int.emod_nonneg (s - off) (ne_of_gt hp)
  have hfs1 := Int.emod_lt_of_pos (s - off) hp
  have hr0 := Int.emod_nonneg (e - s) (ne_of_gt hp)
  have hr1 := Int.emod_lt_of_pos (e - s) hp
  generalize hfs : (s - off) % p = fs at *
  generalize hks : (s - off) / p = ks at *
  generalize hr : (e - s) % p = r at *
  generalize hq : (e - s) / p = q at *
  have hq0 : 0 ≤ q := by
    by_contra hneg
    have : q ≤ -1 := by omega
    have : p * q ≤ p * (-1) := Int.mul_le_mul_of_nonneg_left this (le_of_lt hp)
    nlinarith
  -- the folded end: (e - off) = fs + r + p * (ks + q)
  have hE : e - off = fs + r + p * (ks + q) := by
    have : p * (ks + q) = p * ks + p * q := by ring
    omega
  have hfe : (e - off) % p = if fs + r < p then fs + r else fs + r - p := by
    split
    · rename_i hlt'
      rw [hE, Int.add_mul_emod_self_left]
      exact Int.emod_eq_of_lt (by omega) hlt'
    · rename_i hge
      have : fs + r + p * (ks + q) = (fs + r - p) + p * (ks + q + 1) := by ring
      rw [hE, this, Int.add_mul_emod_self_left]
      exact Int.emod_eq_of_lt (by omega) (by omega)
  rw [hfe] at he
  unfold repsInside
  -- the two floors
  have hB : (lo + off - s) / p = -ks + (if fs ≤ lo then 0 else -1) := by
    split
    · apply ediv_eq_of_bounds _ _ _ hp
      · have : p * (-ks + 0) = -(p * ks) := by ring
        omega
      · have : p * (-ks + 0) = -(p * ks) := by ring
        omega
    · apply ediv_eq_of_bounds _ _ _ hp
      · have : p * (-ks + -1) = -(p * ks) - p := by ring
        omega
      · have : p * (-ks + -1) = -(p * ks) - p := by ring
        omega
  have hA : (e - hi - off) / p = ks + q + (if fs + r < hi then -1 else if fs + r < hi + p then 0 else 1) := by
    split
    · apply ediv_eq_of_bounds _ _ _ hp
      · have : p * (ks + q + -1) = p * ks + p * q - p := by ring
        omega
      · have : p * (ks + q + -1) = p * ks + p * q - p := by ring
        omega
    · split
      · apply ediv_eq_of_bounds _ _ _ hp
        · have : p * (ks + q + 0) = p * ks + p * q := by ring
          omega
        · have : p * (ks + q + 0) = p * ks + p * q := by ring
          omega
      · apply ediv_eq_of_bounds _ _ _ hp
        · have : p * (ks + q + 1) = p * ks + p * q + p := by ring
          omega
        · have : p * (ks + q + 1) = p * ks + p * q + p := by ring
          omega
  rw [hA, hB]
  have hd : e - s = r + p * q := by omega
  have hpq : 1 ≤ q → p ≤ p * q := fun h => by
    have := Int.mul_le_mul_of_nonneg_left h (le_of_lt hp)
    simpa using this
  -- pull the constant factor out of the conditional
  have hfac : ∀ (c : Prop) [Decidable c] (X : Int), (if c then (hi - lo) * X else 0) = (hi - lo) * (if c then X else 0) := by
    intro c _ X; split <;> simp
  rw [hfac]
  congr 1
  -- case analysis on where the folded start lies
  rcases hs with hs | hs
  · -- folded start at or before the window
    have hcr' : crossing ↔ hi ≤ fs + r := by
      rw [hcr]
      constructor
      · intro hiff
        by_contra hc
        have ha : fs ≤ lo ∧ fs + r ≤ lo := by
          refine ⟨hs, ?_⟩
          split at he <;> omega
        have := hiff.1 ha
        omega
      · intro h
        constructor
        · intro ha; omega
        · intro hb; omega
    by_cases hc : crossing
    · have := hcr'.1 hc
      simp only [hc, true_or, if_true]
      (repeat' split) <;> omega
    · have : ¬ hi ≤ fs + r := fun h => hc (hcr'.2 h)
      simp only [hc, false_or, if_false]
      (repeat' split) <;> omega
  · -- folded start at or after the window
    have hcr' : crossing ↔ hi + p ≤ fs + r := by
      rw [hcr]
      constructor
      · intro hiff
        by_contra hc
        have hb : hi ≤ fs ∧ fs + r ≤ lo + p := by
          refine ⟨hs, ?_⟩
          split at he <;> omega
        have := hiff.2 hb
        omega
      · intro h
        constructor
        · intro ha; omega
        · intro hb; omega
    by_cases hc : crossing
    · have := hcr'.1 hc
      simp only [hc, true_or, if_true]
      (repeat' split) <;> omega
    · have : ¬ hi + p ≤ fs + r := fun h => hc (hcr'.2 h)
      simp only [hc, false_or, if_false]
      (repeat' split) <;> omega

/-- an instant whose folded value is not strictly inside the window `(lo, hi) ⊆ [0, p]` is not strictly
    inside any repetition of the window -/
theorem folded_not_inside (x off p lo hi : Int) (hp : 0 < p) (hlo : 0 ≤ lo) (hhi : hi ≤ p)
    (h : (x - off) % p ≤ lo ∨ hi ≤ (x - off) % p) (k : Int) :
    x ≤ lo + off + p * k ∨ hi + off + p * k ≤ x := by
  have hS := Int.emod_add_mul_ediv (x - off) p
  have hf0 := Int.emod_nonneg (x - off) (ne_of_gt hp)
  have hf1 := Int.emod_lt_of_pos (x - off) hp
  generalize (x - off) % p = f at *
  generalize (x - off) / p = K at *
  rcases lt_trichotomy k K with hk | hk | hk
  · right
    have : k + 1 ≤ K := hk
    have := Int.mul_le_mul_of_nonneg_left this (le_of_lt hp)
    have : p * (k + 1) = p * k + p := by ring
    omega
  · subst hk
    rcases h with h | h
    · left; omega
    · right; omega
  · left
    have : K + 1 ≤ k := hk
    have := Int.mul_le_mul_of_nonneg_left this (le_of_lt hp)
    have : p * (K + 1) = p * K + p := by ring
    omega

end PS
