/-
  PS.Proofs.Congr — evaluation only depends on the variables that occur: two interpretations that agree on the
  integer variables satisfying `P` (and on everything else) give every term / formula whose integer variables all
  satisfy `P` the same value.
-/
import PS.Smt
namespace PS

mutual
/-- every integer variable of the term satisfies `P` -/
def Term.varsIn (P : IVar → Bool) : Term → Bool
  | .var v => P v
  | .num _ => true
  | .sum l => Term.varsInList P l
  | .add a b => a.varsIn P && b.varsIn P
  | .sub a b => a.varsIn P && b.varsIn P
  | .mul a b => a.varsIn P && b.varsIn P
  | .div a b => a.varsIn P && b.varsIn P
  | .mod a b => a.varsIn P && b.varsIn P
  | .neg a => a.varsIn P
  | .ite c a b => c.varsIn P && a.varsIn P && b.varsIn P
  | .app _ a => a.varsIn P
  | .select _ i => i.varsIn P
def Term.varsInList (P : IVar → Bool) : List Term → Bool
  | [] => true
  | t :: ts => t.varsIn P && Term.varsInList P ts
def Fml.varsIn (P : IVar → Bool) : Fml → Bool
  | .tt => true
  | .ff => true
  | .bvar _ => true
  | .not a => a.varsIn P
  | .and l => Fml.varsInList P l
  | .or l => Fml.varsInList P l
  | .xor a b => a.varsIn P && b.varsIn P
  | .imp a b => a.varsIn P && b.varsIn P
  | .iff a b => a.varsIn P && b.varsIn P
  | .neb a b => a.varsIn P && b.varsIn P
  | .ite c a b => c.varsIn P && a.varsIn P && b.varsIn P
  | .le a b => a.varsIn P && b.varsIn P
  | .lt a b => a.varsIn P && b.varsIn P
  | .ge a b => a.varsIn P && b.varsIn P
  | .gt a b => a.varsIn P && b.varsIn P
  | .eq a b => a.varsIn P && b.varsIn P
  | .ne a b => a.varsIn P && b.varsIn P
  | .atMost l _ => Fml.varsInList P l
  | .atLeast l _ => Fml.varsInList P l
  | .pbEq l _ => Fml.varsInList P l
  | .storeFix _ i v => i.varsIn P && v.varsIn P
  | .pulse _ _ p _ => p.varsIn P
  | .reqSum a b => a.varsIn P && b.varsIn P
  | .reqZero a => a.varsIn P
  | .tracked _ a => a.varsIn P
def Fml.varsInList (P : IVar → Bool) : List Fml → Bool
  | [] => true
  | a :: as => a.varsIn P && Fml.varsInList P as
end

/-- the two interpretations agree on the integer variables satisfying `P`, and on everything else -/
structure Env.AgreeOn (P : IVar → Bool) (ρ ρ' : Env) : Prop where
  i : ∀ v, P v = true → ρ.i v = ρ'.i v
  b : ρ.b = ρ'.b
  f : ρ.f = ρ'.f
  a : ρ.a = ρ'.a
  p : ρ.p = ρ'.p

mutual
theorem Term.eval_congr (P : IVar → Bool) (ρ ρ' : Env) (hag : Env.AgreeOn P ρ ρ') :
    (t : Term) → t.varsIn P = true → t.eval ρ = t.eval ρ'
  | .var v, h => by simp only [Term.varsIn] at h; simp only [Term.eval]; exact hag.i v h
  | .num _, _ => by simp [Term.eval]
  | .sum l, h => by
      simp only [Term.varsIn] at h
      simp only [Term.eval]; exact Term.evalSum_congr P ρ ρ' hag l h
  | .add a b, h => by
      simp only [Term.varsIn, Bool.and_eq_true] at h
      simp only [Term.eval, Term.eval_congr P ρ ρ' hag a h.1, Term.eval_congr P ρ ρ' hag b h.2]
  | .sub a b, h => by
      simp only [Term.varsIn, Bool.and_eq_true] at h
      simp only [Term.eval, Term.eval_congr P ρ ρ' hag a h.1, Term.eval_congr P ρ ρ' hag b h.2]
  | .mul a b, h => by
      simp only [Term.varsIn, Bool.and_eq_true] at h
      simp only [Term.eval, Term.eval_congr P ρ ρ' hag a h.1, Term.eval_congr P ρ ρ' hag b h.2]
  | .div a b, h => by
      simp only [Term.varsIn, Bool.and_eq_true] at h
      simp only [Term.eval, Term.eval_congr P ρ ρ' hag a h.1, Term.eval_congr P ρ ρ' hag b h.2]
  | .mod a b, h => by
      simp only [Term.varsIn, Bool.and_eq_true] at h
      simp only [Term.eval, Term.eval_congr P ρ ρ' hag a h.1, Term.eval_congr P ρ ρ' hag b h.2]
  | .neg a, h => by
      simp only [Term.varsIn] at h
      simp only [Term.eval, Term.eval_congr P ρ ρ' hag a h]
  | .ite c a b, h => by
      simp only [Term.varsIn, Bool.and_eq_true] at h
      simp only [Term.eval, Term.eval_congr P ρ ρ' hag a h.1.2, Term.eval_congr P ρ ρ' hag b h.2]
      have hc := Fml.eval_congr P ρ ρ' hag c h.1.1
      by_cases hcb : c.eval ρ
      · rw [if_pos hcb, if_pos (hc.1 hcb)]
      · rw [if_neg hcb, if_neg (fun h' => hcb (hc.2 h'))]
  | .app _ a, h => by
      simp only [Term.varsIn] at h
      simp only [Term.eval, Term.eval_congr P ρ ρ' hag a h, hag.f]
  | .select _ i, h => by
      simp only [Term.varsIn] at h
      simp only [Term.eval, Term.eval_congr P ρ ρ' hag i h, hag.a]
theorem Term.evalSum_congr (P : IVar → Bool) (ρ ρ' : Env) (hag : Env.AgreeOn P ρ ρ') :
    (l : List Term) → Term.varsInList P l = true → Term.evalSum ρ l = Term.evalSum ρ' l
  | [], _ => by simp [Term.evalSum]
  | t :: ts, h => by
      simp only [Term.varsInList, Bool.and_eq_true] at h
      simp only [Term.evalSum, Term.eval_congr P ρ ρ' hag t h.1, Term.evalSum_congr P ρ ρ' hag ts h.2]
theorem Fml.eval_congr (P : IVar → Bool) (ρ ρ' : Env) (hag : Env.AgreeOn P ρ ρ') :
    (a : Fml) → a.varsIn P = true → (a.eval ρ ↔ a.eval ρ')
  | .tt, _ => by simp [Fml.eval]
  | .ff, _ => by simp [Fml.eval]
  | .bvar _, _ => by simp [Fml.eval, hag.b]
  | .not a, h => by
      simp only [Fml.varsIn] at h
      simp only [Fml.eval, Fml.eval_congr P ρ ρ' hag a h]
  | .and l, h => by
      simp only [Fml.varsIn] at h
      simp only [Fml.eval]; exact Fml.evalAll_congr P ρ ρ' hag l h
  | .or l, h => by
      simp only [Fml.varsIn] at h
      simp only [Fml.eval]; exact Fml.evalAny_congr P ρ ρ' hag l h
  | .xor a b, h => by
      simp only [Fml.varsIn, Bool.and_eq_true] at h
      simp only [Fml.eval, Fml.eval_congr P ρ ρ' hag a h.1, Fml.eval_congr P ρ ρ' hag b h.2]
  | .imp a b, h => by
      simp only [Fml.varsIn, Bool.and_eq_true] at h
      simp only [Fml.eval, Fml.eval_congr P ρ ρ' hag a h.1, Fml.eval_congr P ρ ρ' hag b h.2]
  | .iff a b, h => by
      simp only [Fml.varsIn, Bool.and_eq_true] at h
      simp only [Fml.eval, Fml.eval_congr P ρ ρ' hag a h.1, Fml.eval_congr P ρ ρ' hag b h.2]
  | .neb a b, h => by
      simp only [Fml.varsIn, Bool.and_eq_true] at h
      simp only [Fml.eval, Fml.eval_congr P ρ ρ' hag a h.1, Fml.eval_congr P ρ ρ' hag b h.2]
  | .ite c a b, h => by
      simp only [Fml.varsIn, Bool.and_eq_true] at h
      simp only [Fml.eval, Fml.eval_congr P ρ ρ' hag c h.1.1, Fml.eval_congr P ρ ρ' hag a h.1.2,
        Fml.eval_congr P ρ ρ' hag b h.2]
  | .le a b, h => by
      simp only [Fml.varsIn, Bool.and_eq_true] at h
      simp only [Fml.eval, Term.eval_congr P ρ ρ' hag a h.1, Term.eval_congr P ρ ρ' hag b h.2]
  | .lt a b, h => by
      simp only [Fml.varsIn, Bool.and_eq_true] at h
      simp only [Fml.eval, Term.eval_congr P ρ ρ' hag a h.1, Term.eval_congr P ρ ρ' hag b h.2]
  | .ge a b, h => by
      simp only [Fml.varsIn, Bool.and_eq_true] at h
      simp only [Fml.eval, Term.eval_congr P ρ ρ' hag a h.1, Term.eval_congr P ρ ρ' hag b h.2]
  | .gt a b, h => by
      simp only [Fml.varsIn, Bool.and_eq_true] at h
      simp only [Fml.eval, Term.eval_congr P ρ ρ' hag a h.1, Term.eval_congr P ρ ρ' hag b h.2]
  | .eq a b, h => by
      simp only [Fml.varsIn, Bool.and_eq_true] at h
      simp only [Fml.eval, Term.eval_congr P ρ ρ' hag a h.1, Term.eval_congr P ρ ρ' hag b h.2]
  | .ne a b, h => by
      simp only [Fml.varsIn, Bool.and_eq_true] at h
      simp only [Fml.eval, Term.eval_congr P ρ ρ' hag a h.1, Term.eval_congr P ρ ρ' hag b h.2]
  | .atMost l k, h => by
      simp only [Fml.varsIn] at h
      simp only [Fml.eval, Fml.count_congr P ρ ρ' hag l h]
  | .atLeast l k, h => by
      simp only [Fml.varsIn] at h
      simp only [Fml.eval, Fml.count_congr P ρ ρ' hag l h]
  | .pbEq l k, h => by
      simp only [Fml.varsIn] at h
      simp only [Fml.eval, Fml.count_congr P ρ ρ' hag l h]
  | .storeFix _ i v, h => by
      simp only [Fml.varsIn, Bool.and_eq_true] at h
      simp only [Fml.eval, Term.eval_congr P ρ ρ' hag i h.1, Term.eval_congr P ρ ρ' hag v h.2, hag.a]
  | .pulse _ _ p _, h => by
      simp only [Fml.varsIn] at h
      simp only [Fml.eval, Term.eval_congr P ρ ρ' hag p h, hag.f]
  | .reqSum a b, h => by
      simp only [Fml.varsIn, Bool.and_eq_true] at h
      simp only [Fml.eval, Term.eval_congr P ρ ρ' hag a h.1, Term.eval_congr P ρ ρ' hag b h.2]
  | .reqZero a, h => by
      simp only [Fml.varsIn] at h
      simp only [Fml.eval, Term.eval_congr P ρ ρ' hag a h]
  | .tracked _ a, h => by
      simp only [Fml.varsIn] at h
      simp only [Fml.eval, Fml.eval_congr P ρ ρ' hag a h, hag.p]
theorem Fml.evalAll_congr (P : IVar → Bool) (ρ ρ' : Env) (hag : Env.AgreeOn P ρ ρ') :
    (l : List Fml) → Fml.varsInList P l = true → (Fml.evalAll ρ l ↔ Fml.evalAll ρ' l)
  | [], _ => by simp [Fml.evalAll]
  | a :: as, h => by
      simp only [Fml.varsInList, Bool.and_eq_true] at h
      simp only [Fml.evalAll, Fml.eval_congr P ρ ρ' hag a h.1, Fml.evalAll_congr P ρ ρ' hag as h.2]
theorem Fml.evalAny_congr (P : IVar → Bool) (ρ ρ' : Env) (hag : Env.AgreeOn P ρ ρ') :
    (l : List Fml) → Fml.varsInList P l = true → (Fml.evalAny ρ l ↔ Fml.evalAny ρ' l)
  | [], _ => by simp [Fml.evalAny]
  | a :: as, h => by
      simp only [Fml.varsInList, Bool.and_eq_true] at h
      simp only [Fml.evalAny, Fml.eval_congr P ρ ρ' hag a h.1, Fml.evalAny_congr P ρ ρ' hag as h.2]
theorem Fml.count_congr (P : IVar → Bool) (ρ ρ' : Env) (hag : Env.AgreeOn P ρ ρ') :
    (l : List Fml) → Fml.varsInList P l = true → Fml.count ρ l = Fml.count ρ' l
  | [], _ => by simp [Fml.count]
  | a :: as, h => by
      simp only [Fml.varsInList, Bool.and_eq_true] at h
      have ha := Fml.eval_congr P ρ ρ' hag a h.1
      simp only [Fml.count, Fml.count_congr P ρ ρ' hag as h.2]
      by_cases hb : a.eval ρ
      · rw [if_pos hb, if_pos (ha.1 hb)]
      · rw [if_neg hb, if_neg (fun h' => hb (ha.2 h'))]
end

/-- the two congruence statements under one name each (for the axiom audit) -/
theorem eval_congr_term (P : IVar → Bool) (ρ ρ' : Env) (hag : Env.AgreeOn P ρ ρ') (t : Term) (h : t.varsIn P = true) :
    t.eval ρ = t.eval ρ' := Term.eval_congr P ρ ρ' hag t h
theorem eval_congr_fml (P : IVar → Bool) (ρ ρ' : Env) (hag : Env.AgreeOn P ρ ρ') (a : Fml) (h : a.varsIn P = true) :
    (a.eval ρ ↔ a.eval ρ') := Fml.eval_congr P ρ ρ' hag a h

end PS
