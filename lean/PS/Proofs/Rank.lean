/-
  PS.Proofs.Rank — the rank of an element in a sorted list, and the pairwise reading of the "i-th sorted end against
  (i+1)-th sorted start" statements behind the gap constraints (ResourceNonDelay, ResourceTasksDistance, TasksContiguous).
-/
import PS.Proofs.Sort
import Mathlib.Data.List.Sort
import Mathlib.Data.List.Perm.Subperm
namespace PS
open List

/-- in a strictly increasing list the number of elements below the `j`-th one is `j` -/
theorem countP_lt_getElem_of_sorted : ∀ (L : List Int), L.Pairwise (· < ·) → ∀ (j : Nat) (hj : j < L.length),
    L.countP (fun x => decide (x < L[j])) = j := by
  intro L
  induction L with
  | nil => intro _ j hj; simp at hj
  | cons a t ih =>
      intro hs j hj
      rw [List.pairwise_cons] at hs
      cases j with
      | zero =>
          simp only [List.getElem_cons_zero, List.countP_cons, lt_self_iff_false, decide_false, Bool.false_eq_true,
            if_false, Nat.add_zero]
          rw [List.countP_eq_zero]
          intro x hx
          have := hs.1 x hx
          simp only [decide_eq_true_eq, not_lt]
          omega
      | succ j' =>
          have hj' : j' < t.length := by simpa using hj
          simp only [List.getElem_cons_succ, List.countP_cons]
          have hlt : a < t[j'] := hs.1 _ (List.getElem_mem hj')
          simp only [hlt, decide_true, if_true]
          rw [ih hs.2 j' hj']

theorem sortInts_perm (X : List Int) : (sortInts X).Perm X := by
  unfold sortInts; exact List.mergeSort_perm X leB

theorem sortInts_sorted_lt (X : List Int) (hnd : X.Nodup) : (sortInts X).Pairwise (· < ·) := by
  have hle : (sortInts X).Pairwise (· ≤ ·) := by
    have := List.pairwise_mergeSort (le := leB) (by intro a b c; simp [leB]; omega) (by intro a b; simp [leB]; omega) X
    unfold sortInts
    exact this.imp (by intro a b h; simpa [leB] using h)
  have hnd' : (sortInts X).Nodup := (sortInts_perm X).nodup_iff.2 hnd
  have : (sortInts X).Pairwise (fun a b => a ≤ b ∧ a ≠ b) := List.Pairwise.and hle hnd'
  exact this.imp (fun h => by omega)

/-- the element of rank `k` (number of smaller elements) sits at index `k` of the sorted list -/
theorem sortInts_getD_rank (X : List Int) (hnd : X.Nodup) (x : Int) (hx : x ∈ X) :
    (sortInts X).getD (X.countP (fun y => decide (y < x))) 0 = x := by
  have hp := sortInts_perm X
  have hs := sortInts_sorted_lt X hnd
  have hxL : x ∈ sortInts X := hp.mem_iff.2 hx
  obtain ⟨j, hj, hjx⟩ := List.getElem_of_mem hxL
  have hc := countP_lt_getElem_of_sorted (sortInts X) hs j hj
  rw [hjx] at hc
  have hcp : X.countP (fun y => decide (y < x)) = (sortInts X).countP (fun y => decide (y < x)) :=
    (hp.countP_eq _).symm
  rw [hcp, hc, List.getD_eq_getElem?_getD, List.getElem?_eq_getElem hj, hjx]; rfl

end PS

namespace PS
open List

theorem countP_split {α} (r q1 q2 : α → Bool) : ∀ (l : List α), (∀ p ∈ l, r p = (q1 p || q2 p)) →
    (∀ p ∈ l, ¬ (q1 p = true ∧ q2 p = true)) → l.countP r = l.countP q1 + l.countP q2 := by
  intro l
  induction l with
  | nil => intro _ _; simp
  | cons x xs ih =>
      intro h1 h2
      have hx := h1 x (List.mem_cons_self ..)
      have hd := h2 x (List.mem_cons_self ..)
      have := ih (fun p hp => h1 p (List.mem_cons_of_mem _ hp)) (fun p hp => h2 p (List.mem_cons_of_mem _ hp))
      simp only [List.countP_cons, hx, this]
      cases h1' : q1 x <;> cases h2' : q2 x <;> simp_all <;> omega

/-- **gaps, pairwise.**  If the sorted ends and the sorted starts of a family of intervals satisfy `P` position by
    position (`i`-th end against `(i+1)`-th start, what the sorting networks of the library express), the starts and the
    ends are pairwise different and ordered alike, then `P` holds between every interval and its immediate successor
    by start. -/
theorem gaps_pairwise (l : List (Int × Int)) (P : Int → Int → Prop)
    (hS : (l.map (·.1)).Nodup) (hE : (l.map (·.2)).Nodup)
    (hco : ∀ x ∈ l, ∀ y ∈ l, x.1 < y.1 → x.2 < y.2)
    (hg : ∀ i, i + 1 < l.length →
      P ((sortInts (l.map (·.2))).getD i 0) ((sortInts (l.map (·.1))).getD (i + 1) 0))
    (a b : Int × Int) (ha : a ∈ l) (hb : b ∈ l) (hab : a.1 < b.1)
    (hsucc : ∀ c ∈ l, ¬ (a.1 < c.1 ∧ c.1 < b.1)) : P a.2 b.1 := by
  -- same first component ⇒ same element
  have inj1 : ∀ x ∈ l, ∀ y ∈ l, x.1 = y.1 → x = y := by
    intro x hx y hy hxy
    exact List.inj_on_of_nodup_map hS hx hy hxy
  -- rank of a among the starts = rank of a among the ends
  have hrank : l.countP (fun p => decide (p.2 < a.2)) = l.countP (fun p => decide (p.1 < a.1)) := by
    apply List.countP_congr
    intro p hp
    simp only [decide_eq_true_eq]
    constructor
    · intro h2
      by_contra hn
      rcases lt_or_eq_of_le (not_lt.1 hn) with h | h
      · have := hco a ha p hp h; omega
      · have := inj1 a ha p hp h; subst this; omega
    · intro h1; exact hco p hp a ha h1
  -- rank of b among the starts = rank of a + 1
  have hone : l.countP (fun p => decide (p.1 = a.1)) = 1 := by
    have hc : (l.map (·.1)).count a.1 = 1 := List.count_eq_one_of_mem hS (List.mem_map.2 ⟨a, ha, rfl⟩)
    rw [List.count_eq_countP, List.countP_map] at hc
    rw [← hc]
    apply List.countP_congr
    intro p _
    simp only [Function.comp]
    by_cases h : p.1 = a.1
    · simp [h]
    · have h' : ¬ a.1 = p.1 := fun e => h e.symm
      simp [h]
  have hrb : l.countP (fun p => decide (p.1 < b.1)) = l.countP (fun p => decide (p.1 < a.1)) + 1 := by
    rw [← hone]
    apply countP_split
    · intro p hp
      have hs := hsucc p hp
      by_cases h1 : p.1 < a.1
      · have : p.1 < b.1 := by omega
        simp [h1, this]
      · by_cases h2 : p.1 = a.1
        · have h3 : p.1 < b.1 := by omega
          have h4 : ¬ a.1 < a.1 := by omega
          rw [h2] at h3
          simp only [h2, h3, h4, decide_true, decide_false, Bool.or_true]
        · have : ¬ p.1 < b.1 := by
            intro h3; exact hs ⟨by omega, h3⟩
          simp [h1, h2, this]
    · intro p _ hh
      simp only [decide_eq_true_eq] at hh
      omega
  generalize hk : l.countP (fun p => decide (p.1 < a.1)) = k at hrank hrb
  have hlen : k + 1 < l.length := by
    rw [← hrb]
    have hle := List.countP_le_length (p := fun p => decide (p.1 < b.1)) (l := l)
    have hne : l.countP (fun p => decide (p.1 < b.1)) ≠ l.length := by
      intro heq
      have := (List.countP_eq_length.1 heq) b hb
      simp at this
    omega
  have hgk := hg k hlen
  -- the k-th sorted end is a's end, the (k+1)-th sorted start is b's start
  have hEa : (sortInts (l.map (·.2))).getD k 0 = a.2 := by
    have := sortInts_getD_rank (l.map (·.2)) hE a.2 (List.mem_map.2 ⟨a, ha, rfl⟩)
    rw [List.countP_map] at this
    have hc : (l.countP ((fun y => decide (y < a.2)) ∘ fun p => p.2)) = k := by
      rw [← hrank]; rfl
    rw [hc] at this
    exact this
  have hSb : (sortInts (l.map (·.1))).getD (k + 1) 0 = b.1 := by
    have := sortInts_getD_rank (l.map (·.1)) hS b.1 (List.mem_map.2 ⟨b, hb, rfl⟩)
    rw [List.countP_map] at this
    have hc : (l.countP ((fun y => decide (y < b.1)) ∘ fun p => p.1)) = k + 1 := by
      rw [← hrb]; rfl
    rw [hc] at this
    exact this
  rw [hEa, hSb] at hgk
  exact hgk

end PS
