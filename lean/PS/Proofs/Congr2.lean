/-
  PS.Proofs.Congr2 — a second congruence: a term / formula whose integer variables satisfy `P`, whose Boolean
  variables satisfy `Q` and which uses no uninterpreted function, array or tracking literal (`plainIn P Q`) has the
  same value under two interpretations that agree on those integer and Boolean variables — whatever they say about
  everything else.  (`PS.Proofs.Congr` asks the interpretations to agree on all Booleans, functions and arrays.)
-/
import PS.Smt
namespace PS

mutual
/-- integer variables in `P`, Boolean variables in `Q`, no uninterpreted symbol -/
def Term.plainIn (P : IVar → Bool) (Q : BVar → Bool) : Term → Bool
  | .var v => P v
  | .num _ => true
  | .sum l => Term.plainInList P Q l
  | .add a b => a.plainIn P Q && b.plainIn P Q
  | .sub a b => a.plainIn P Q && b.plainIn P Q
  | .mul a b => a.plainIn P Q && b.plainIn P Q
  | .div a b => a.plainIn P Q && b.plainIn P Q
  | .mod a b => a.plainIn P Q && b.plainIn P Q
  | .neg a => a.plainIn P Q
  | .ite c a b => c.plainIn P Q && a.plainIn P Q && b.plainIn P Q
  | .app _ _ => false
  | .select _ _ => false
def Term.plainInList (P : IVar → Bool) (Q : BVar → Bool) : List Term → Bool
  | [] => true
  | t :: ts => t.plainIn P Q && Term.plainInList P Q ts
def Fml.plainIn (P : IVar → Bool) (Q : BVar → Bool) : Fml → Bool
  | .tt => true
  | .ff => true
  | .bvar v => Q v
  | .not a => a.plainIn P Q
  | .and l => Fml.plainInList P Q l
  | .or l => Fml.plainInList P Q l
  | .xor a b => a.plainIn P Q && b.plainIn P Q
  | .imp a b => a.plainIn P Q && b.plainIn P Q
  | .iff a b => a.plainIn P Q && b.plainIn P Q
  | .neb a b => a.plainIn P Q && b.plainIn P Q
  | .ite c a b => c.plainIn P Q && a.plainIn P Q && b.plainIn P Q
  | .le a b => a.plainIn P Q && b.plainIn P Q
  | .lt a b => a.plainIn P Q && b.plainIn P Q
  | .ge a b => a.plainIn P Q && b.plainIn P Q
  | .gt a b => a.plainIn P Q && b.plainIn P Q
  | .eq a b => a.plainIn P Q && b.plainIn P Q
  | .ne a b => a.plainIn P Q && b.plainIn P Q
  | .atMost l _ => Fml.plainInList P Q l
  | .atLeast l _ => Fml.plainInList P Q l
  | .pbEq l _ => Fml.plainInList P Q l
  | .storeFix _ _ _ => false
  | .pulse _ _ _ _ => false
  | .reqSum a b => a.plainIn P Q && b.plainIn P Q
  | .reqZero a => a.plainIn P Q
  | .tracked _ _ => false
def Fml.plainInList (P : IVar → Bool) (Q : BVar → Bool) : List Fml → Bool
  | [] => true
  | a :: as => a.plainIn P Q && Fml.plainInList P Q as
end

/-- the two interpretations agree on the integer variables satisfying `P` and on the Boolean variables satisfying `Q` -/
structure Env.AgreeOn2 (P : IVar → Bool) (Q : BVar → Bool) (ρ ρ' : Env) : Prop where
  i : ∀ v, P v = true → ρ.i v = ρ'.i v
  b : ∀ v, Q v = true → ρ.b v = ρ'.b v

mutual
theorem Term.eval_congr2 (P : IVar → Bool) (Q : BVar → Bool) (ρ ρ' : Env) (hag : Env.AgreeOn2 P Q ρ ρ') :
    (t : Term) → t.plainIn P Q = true → t.eval ρ = t.eval ρ'
  | .var v, h => by simp only [Term.plainIn] at h; simp only [Term.eval]; exact hag.i v h
  | .num _, _ => by simp [Term.eval]
  | .sum l, h => by
      simp only [Term.plainIn] at h
      simp only [Term.eval]; exact Term.evalSum_congr2 P Q ρ ρ' hag l h
  | .add a b, h => by
      simp only [Term.plainIn, Bool.and_eq_true] at h
      simp only [Term.eval, Term.eval_congr2 P Q ρ ρ' hag a h.1, Term.eval_congr2 P Q ρ ρ' hag b h.2]
  | .sub a b, h => by
      simp only [Term.plainIn, Bool.and_eq_true] at h
      simp only [Term.eval, Term.eval_congr2 P Q ρ ρ' hag a h.1, Term.eval_congr2 P Q ρ ρ' hag b h.2]
  | .mul a b, h => by
      simp only [Term.plainIn, Bool.and_eq_true] at h
      simp only [Term.eval, Term.eval_congr2 P Q ρ ρ' hag a h.1, Term.eval_congr2 P Q ρ ρ' hag b h.2]
  | .div a b, h => by
      simp only [Term.plainIn, Bool.and_eq_true] at h
      simp only [Term.eval, Term.eval_congr2 P Q ρ ρ' hag a h.1, Term.eval_congr2 P Q ρ ρ' hag b h.2]
  | .mod a b, h => by
      simp only [Term.plainIn, Bool.and_eq_true] at h
      simp only [Term.eval, Term.eval_congr2 P Q ρ ρ' hag a h.1, Term.eval_congr2 P Q ρ ρ' hag b h.2]
  | .neg a, h => by
      simp only [Term.plainIn] at h
      simp only [Term.eval, Term.eval_congr2 P Q ρ ρ' hag a h]
  | .ite c a b, h => by
      simp only [Term.plainIn, Bool.and_eq_true] at h
      simp only [Term.eval, Term.eval_congr2 P Q ρ ρ' hag a h.1.2, Term.eval_congr2 P Q ρ ρ' hag b h.2]
      have hc := Fml.eval_congr2 P Q ρ ρ' hag c h.1.1
      by_cases hcb : c.eval ρ
      · rw [if_pos hcb, if_pos (hc.1 hcb)]
      · rw [if_neg hcb, if_neg (fun h' => hcb (hc.2 h'))]
  | .app _ _, h => by simp [Term.plainIn] at h
  | .select _ _, h => by simp [Term.plainIn] at h
theorem Term.evalSum_congr2 (P : IVar → Bool) (Q : BVar → Bool) (ρ ρ' : Env) (hag : Env.AgreeOn2 P Q ρ ρ') :
    (l : List Term) → Term.plainInList P Q l = true → Term.evalSum ρ l = Term.evalSum ρ' l
  | [], _ => by simp [Term.evalSum]
  | t :: ts, h => by
      simp only [Term.plainInList, Bool.and_eq_true] at h
      simp only [Term.evalSum, Term.eval_congr2 P Q ρ ρ' hag t h.1, Term.evalSum_congr2 P Q ρ ρ' hag ts h.2]
theorem Fml.eval_congr2 (P : IVar → Bool) (Q : BVar → Bool) (ρ ρ' : Env) (hag : Env.AgreeOn2 P Q ρ ρ') :
    (a : Fml) → a.plainIn P Q = true → (a.eval ρ ↔ a.eval ρ')
  | .tt, _ => by simp [Fml.eval]
  | .ff, _ => by simp [Fml.eval]
  | .bvar v, h => by
      simp only [Fml.plainIn] at h
      simp only [Fml.eval, hag.b v h]
  | .not a, h => by
      simp only [Fml.plainIn] at h
      simp only [Fml.eval, Fml.eval_congr2 P Q ρ ρ' hag a h]
  | .and l, h => by
      simp only [Fml.plainIn] at h
      simp only [Fml.eval]; exact Fml.evalAll_congr2 P Q ρ ρ' hag l h
  | .or l, h => by
      simp only [Fml.plainIn] at h
      simp only [Fml.eval]; exact Fml.evalAny_congr2 P Q ρ ρ' hag l h
  | .xor a b, h => by
      simp only [Fml.plainIn, Bool.and_eq_true] at h
      simp only [Fml.eval, Fml.eval_congr2 P Q ρ ρ' hag a h.1, Fml.eval_congr2 P Q ρ ρ' hag b h.2]
  | .imp a b, h => by
      simp only [Fml.plainIn, Bool.and_eq_true] at h
      simp only [Fml.eval, Fml.eval_congr2 P Q ρ ρ' hag a h.1, Fml.eval_congr2 P Q ρ ρ' hag b h.2]
  | .iff a b, h => by
      simp only [Fml.plainIn, Bool.and_eq_true] at h
      simp only [Fml.eval, Fml.eval_congr2 P Q ρ ρ' hag a h.1, Fml.eval_congr2 P Q ρ ρ' hag b h.2]
  | .neb a b, h => by
      simp only [Fml.plainIn, Bool.and_eq_true] at h
      simp only [Fml.eval, Fml.eval_congr2 P Q ρ ρ' hag a h.1, Fml.eval_congr2 P Q ρ ρ' hag b h.2]
  | .ite c a b, h => by
      simp only [Fml.plainIn, Bool.and_eq_true] at h
      simp only [Fml.eval, Fml.eval_congr2 P Q ρ ρ' hag c h.1.1, Fml.eval_congr2 P Q ρ ρ' hag a h.1.2,
        Fml.eval_congr2 P Q ρ ρ' hag b h.2]
  | .le a b, h => by
      simp only [Fml.plainIn, Bool.and_eq_true] at h
      simp only [Fml.eval, Term.eval_congr2 P Q ρ ρ' hag a h.1, Term.eval_congr2 P Q ρ ρ' hag b h.2]
  | .lt a b, h => by
      simp only [Fml.plainIn, Bool.and_eq_true] at h
      simp only [Fml.eval, Term.eval_congr2 P Q ρ ρ' hag a h.1, Term.eval_congr2 P Q ρ ρ' hag b h.2]
  | .ge a b, h => by
      simp only [Fml.plainIn, Bool.and_eq_true] at h
      simp only [Fml.eval, Term.eval_congr2 P Q ρ ρ' hag a h.1, Term.eval_congr2 P Q ρ ρ' hag b h.2]
  | .gt a b, h => by
      simp only [Fml.plainIn, Bool.and_eq_true] at h
      simp only [Fml.eval, Term.eval_congr2 P Q ρ ρ' hag a h.1, Term.eval_congr2 P Q ρ ρ' hag b h.2]
  | .eq a b, h => by
      simp only [Fml.plainIn, Bool.and_eq_true] at h
      simp only [Fml.eval, Term.eval_congr2 P Q ρ ρ' hag a h.1, Term.eval_congr2 P Q ρ ρ' hag b h.2]
  | .ne a b, h => by
      simp only [Fml.plainIn, Bool.and_eq_true] at h
      simp only [Fml.eval, Term.eval_congr2 P Q ρ ρ' hag a h.1, Term.eval_congr2 P Q ρ ρ' hag b h.2]
  | .atMost l k, h => by
      simp only [Fml.plainIn] at h
      simp only [Fml.eval, Fml.count_congr2 P Q ρ ρ' hag l h]
  | .atLeast l k, h => by
      simp only [Fml.plainIn] at h
      simp only [Fml.eval, Fml.count_congr2 P Q ρ ρ' hag l h]
  | .pbEq l k, h => by
      simp only [Fml.plainIn] at h
      simp only [Fml.eval, Fml.count_congr2 P Q ρ ρ' hag l h]
  | .storeFix _ _ _, h => by simp [Fml.plainIn] at h
  | .pulse _ _ _ _, h => by simp [Fml.plainIn] at h
  | .reqSum a b, h => by
      simp only [Fml.plainIn, Bool.and_eq_true] at h
      simp only [Fml.eval, Term.eval_congr2 P Q ρ ρ' hag a h.1, Term.eval_congr2 P Q ρ ρ' hag b h.2]
  | .reqZero a, h => by
      simp only [Fml.plainIn] at h
      simp only [Fml.eval, Term.eval_congr2 P Q ρ ρ' hag a h]
  | .tracked _ _, h => by simp [Fml.plainIn] at h
theorem Fml.evalAll_congr2 (P : IVar → Bool) (Q : BVar → Bool) (ρ ρ' : Env) (hag : Env.AgreeOn2 P Q ρ ρ') :
    (l : List Fml) → Fml.plainInList P Q l = true → (Fml.evalAll ρ l ↔ Fml.evalAll ρ' l)
  | [], _ => by simp [Fml.evalAll]
  | a :: as, h => by
      simp only [Fml.plainInList, Bool.and_eq_true] at h
      simp only [Fml.evalAll, Fml.eval_congr2 P Q ρ ρ' hag a h.1, Fml.evalAll_congr2 P Q ρ ρ' hag as h.2]
theorem Fml.evalAny_congr2 (P : IVar → Bool) (Q : BVar → Bool) (ρ ρ' : Env) (hag : Env.AgreeOn2 P Q ρ ρ') :
    (l : List Fml) → Fml.plainInList P Q l = true → (Fml.evalAny ρ l ↔ Fml.evalAny ρ' l)
  | [], _ => by simp [Fml.evalAny]
  | a :: as, h => by
      simp only [Fml.plainInList, Bool.and_eq_true] at h
      simp only [Fml.evalAny, Fml.eval_congr2 P Q ρ ρ' hag a h.1, Fml.evalAny_congr2 P Q ρ ρ' hag as h.2]
theorem Fml.count_congr2 (P : IVar → Bool) (Q : BVar → Bool) (ρ ρ' : Env) (hag : Env.AgreeOn2 P Q ρ ρ') :
    (l : List Fml) → Fml.plainInList P Q l = true → Fml.count ρ l = Fml.count ρ' l
  | [], _ => by simp [Fml.count]
  | a :: as, h => by
      simp only [Fml.plainInList, Bool.and_eq_true] at h
      have ha := Fml.eval_congr2 P Q ρ ρ' hag a h.1
      simp only [Fml.count, Fml.count_congr2 P Q ρ ρ' hag as h.2]
      by_cases hb : a.eval ρ
      · rw [if_pos hb, if_pos (ha.1 hb)]
      · rw [if_neg hb, if_neg (fun h' => hb (ha.2 h'))]
end

/-- the two congruence statements under one name each (for the axiom audit) -/
theorem eval_congr2_term (P : IVar → Bool) (Q : BVar → Bool) (ρ ρ' : Env) (hag : Env.AgreeOn2 P Q ρ ρ') (t : Term) (h : t.plainIn P Q = true) :
    t.eval ρ = t.eval ρ' := Term.eval_congr2 P Q ρ ρ' hag t h
theorem eval_congr2_fml (P : IVar → Bool) (Q : BVar → Bool) (ρ ρ' : Env) (hag : Env.AgreeOn2 P Q ρ ρ') (a : Fml) (h : a.plainIn P Q = true) :
    (a.eval ρ ↔ a.eval ρ') := Fml.eval_congr2 P Q ρ ρ' hag a h

end PS
