/-
  PS.Proofs.EvalB — the computable evaluator `evalB` agrees with the classical semantics `eval`
  on every quantifier-free formula (`qf`: no `pulse`).  This is what turns the `decide +kernel`
  non-vacuity examples (`satB ρ A = true`) into `Sat ρ A`.
-/
import PS.Smt
namespace PS

mutual
def Term.qf : Term → Bool
  | .var _ => true
  | .num _ => true
  | .sum l => Term.qfList l
  | .add a b => a.qf && b.qf
  | .sub a b => a.qf && b.qf
  | .mul a b => a.qf && b.qf
  | .neg a => a.qf
  | .div a b => a.qf && b.qf
  | .mod a b => a.qf && b.qf
  | .ite c a b => c.qf && a.qf && b.qf
  | .app _ a => a.qf
  | .select _ i => i.qf
def Term.qfList : List Term → Bool
  | [] => true
  | t :: ts => t.qf && Term.qfList ts
def Fml.qf : Fml → Bool
  | .tt => true
  | .ff => true
  | .bvar _ => true
  | .not a => a.qf
  | .and l => Fml.qfList l
  | .or l => Fml.qfList l
  | .xor a b => a.qf && b.qf
  | .imp a b => a.qf && b.qf
  | .ite c a b => c.qf && a.qf && b.qf
  | .iff a b => a.qf && b.qf
  | .neb a b => a.qf && b.qf
  | .le a b => a.qf && b.qf
  | .lt a b => a.qf && b.qf
  | .ge a b => a.qf && b.qf
  | .gt a b => a.qf && b.qf
  | .eq a b => a.qf && b.qf
  | .ne a b => a.qf && b.qf
  | .atMost l _ => Fml.qfList l
  | .atLeast l _ => Fml.qfList l
  | .pbEq l _ => Fml.qfList l
  | .storeFix _ i v => i.qf && v.qf
  | .pulse _ _ _ _ => false
  | .reqSum a b => a.qf && b.qf
  | .reqZero a => a.qf
  | .tracked _ a => a.qf
def Fml.qfList : List Fml → Bool
  | [] => true
  | a :: as => a.qf && Fml.qfList as
end

mutual
theorem Term.evalB_eq (ρ : Env) : (t : Term) → t.qf = true → t.evalB ρ = t.eval ρ
  | .var _, _ => by simp [Term.evalB, Term.eval]
  | .num _, _ => by simp [Term.evalB, Term.eval]
  | .sum l, h => by
      simp only [Term.qf] at h
      simp only [Term.evalB, Term.eval]; exact Term.evalSumB_eq ρ l h
  | .add a b, h => by
      simp only [Term.qf, Bool.and_eq_true] at h
      simp only [Term.evalB, Term.eval, Term.evalB_eq ρ a h.1, Term.evalB_eq ρ b h.2]
  | .sub a b, h => by
      simp only [Term.qf, Bool.and_eq_true] at h
      simp only [Term.evalB, Term.eval, Term.evalB_eq ρ a h.1, Term.evalB_eq ρ b h.2]
  | .mul a b, h => by
      simp only [Term.qf, Bool.and_eq_true] at h
      simp only [Term.evalB, Term.eval, Term.evalB_eq ρ a h.1, Term.evalB_eq ρ b h.2]
  | .neg a, h => by
      simp only [Term.qf] at h
      simp only [Term.evalB, Term.eval, Term.evalB_eq ρ a h]
  | .div a b, h => by
      simp only [Term.qf, Bool.and_eq_true] at h
      simp only [Term.evalB, Term.eval, Term.evalB_eq ρ a h.1, Term.evalB_eq ρ b h.2]
  | .mod a b, h => by
      simp only [Term.qf, Bool.and_eq_true] at h
      simp only [Term.evalB, Term.eval, Term.evalB_eq ρ a h.1, Term.evalB_eq ρ b h.2]
  | .ite c a b, h => by
      simp only [Term.qf, Bool.and_eq_true] at h
      simp only [Term.evalB, Term.eval, Term.evalB_eq ρ a h.1.2, Term.evalB_eq ρ b h.2]
      have hc := Fml.evalB_iff ρ c h.1.1
      by_cases hcb : c.evalB ρ = true
      · rw [if_pos hcb, if_pos (hc.1 hcb)]
      · rw [if_neg hcb, if_neg (fun h' => hcb (hc.2 h'))]
  | .app _ a, h => by
      simp only [Term.qf] at h
      simp only [Term.evalB, Term.eval, Term.evalB_eq ρ a h]
  | .select _ i, h => by
      simp only [Term.qf] at h
      simp only [Term.evalB, Term.eval, Term.evalB_eq ρ i h]
theorem Term.evalSumB_eq (ρ : Env) : (l : List Term) → Term.qfList l = true → Term.evalSumB ρ l = Term.evalSum ρ l
  | [], _ => by simp [Term.evalSumB, Term.evalSum]
  | t :: ts, h => by
      simp only [Term.qfList, Bool.and_eq_true] at h
      simp only [Term.evalSumB, Term.evalSum, Term.evalB_eq ρ t h.1, Term.evalSumB_eq ρ ts h.2]
theorem Fml.evalB_iff (ρ : Env) : (a : Fml) → a.qf = true → (a.evalB ρ = true ↔ a.eval ρ)
  | .tt, _ => by simp [Fml.evalB, Fml.eval]
  | .ff, _ => by simp [Fml.evalB, Fml.eval]
  | .bvar _, _ => by simp [Fml.evalB, Fml.eval]
  | .not a, h => by
      simp only [Fml.qf] at h
      have := Fml.evalB_iff ρ a h
      simp only [Fml.evalB, Fml.eval, Bool.not_eq_true', ← this]
      cases a.evalB ρ <;> simp
  | .and l, h => by
      simp only [Fml.qf] at h
      simp only [Fml.evalB, Fml.eval]; exact Fml.evalAllB_iff ρ l h
  | .or l, h => by
      simp only [Fml.qf] at h
      simp only [Fml.evalB, Fml.eval]; exact Fml.evalAnyB_iff ρ l h
  | .xor a b, h => by
      simp only [Fml.qf, Bool.and_eq_true] at h
      have ha := Fml.evalB_iff ρ a h.1
      have hb := Fml.evalB_iff ρ b h.2
      simp only [Fml.evalB, Fml.eval, ← ha, ← hb]
      cases a.evalB ρ <;> cases b.evalB ρ <;> simp
  | .imp a b, h => by
      simp only [Fml.qf, Bool.and_eq_true] at h
      have ha := Fml.evalB_iff ρ a h.1
      have hb := Fml.evalB_iff ρ b h.2
      simp only [Fml.evalB, Fml.eval, ← ha, ← hb]
      cases a.evalB ρ <;> cases b.evalB ρ <;> simp
  | .ite c a b, h => by
      simp only [Fml.qf, Bool.and_eq_true] at h
      have hc := Fml.evalB_iff ρ c h.1.1
      have ha := Fml.evalB_iff ρ a h.1.2
      have hb := Fml.evalB_iff ρ b h.2
      simp only [Fml.evalB, Fml.eval, ← ha, ← hb, ← hc]
      cases c.evalB ρ <;> cases a.evalB ρ <;> cases b.evalB ρ <;> simp
  | .iff a b, h => by
      simp only [Fml.qf, Bool.and_eq_true] at h
      have ha := Fml.evalB_iff ρ a h.1
      have hb := Fml.evalB_iff ρ b h.2
      simp only [Fml.evalB, Fml.eval, ← ha, ← hb]
      cases a.evalB ρ <;> cases b.evalB ρ <;> simp
  | .neb a b, h => by
      simp only [Fml.qf, Bool.and_eq_true] at h
      have ha := Fml.evalB_iff ρ a h.1
      have hb := Fml.evalB_iff ρ b h.2
      simp only [Fml.evalB, Fml.eval, ← ha, ← hb]
      cases a.evalB ρ <;> cases b.evalB ρ <;> simp
  | .le a b, h => by
      simp only [Fml.qf, Bool.and_eq_true] at h
      simp [Fml.evalB, Fml.eval, Term.evalB_eq ρ a h.1, Term.evalB_eq ρ b h.2]
  | .lt a b, h => by
      simp only [Fml.qf, Bool.and_eq_true] at h
      simp [Fml.evalB, Fml.eval, Term.evalB_eq ρ a h.1, Term.evalB_eq ρ b h.2]
  | .ge a b, h => by
      simp only [Fml.qf, Bool.and_eq_true] at h
      simp [Fml.evalB, Fml.eval, Term.evalB_eq ρ a h.1, Term.evalB_eq ρ b h.2]
  | .gt a b, h => by
      simp only [Fml.qf, Bool.and_eq_true] at h
      simp [Fml.evalB, Fml.eval, Term.evalB_eq ρ a h.1, Term.evalB_eq ρ b h.2]
  | .eq a b, h => by
      simp only [Fml.qf, Bool.and_eq_true] at h
      simp [Fml.evalB, Fml.eval, Term.evalB_eq ρ a h.1, Term.evalB_eq ρ b h.2]
  | .ne a b, h => by
      simp only [Fml.qf, Bool.and_eq_true] at h
      simp [Fml.evalB, Fml.eval, Term.evalB_eq ρ a h.1, Term.evalB_eq ρ b h.2]
  | .atMost l k, h => by
      simp only [Fml.qf] at h
      simp [Fml.evalB, Fml.eval, Fml.countB_eq ρ l h]
  | .atLeast l k, h => by
      simp only [Fml.qf] at h
      simp [Fml.evalB, Fml.eval, Fml.countB_eq ρ l h]
  | .pbEq l k, h => by
      simp only [Fml.qf] at h
      simp [Fml.evalB, Fml.eval, Fml.countB_eq ρ l h]
  | .storeFix _ i v, h => by
      simp only [Fml.qf, Bool.and_eq_true] at h
      simp [Fml.evalB, Fml.eval, Term.evalB_eq ρ i h.1, Term.evalB_eq ρ v h.2]
  | .pulse _ _ _ _, h => by simp [Fml.qf] at h
  | .reqSum a b, h => by
      simp only [Fml.qf, Bool.and_eq_true] at h
      simp [Fml.evalB, Fml.eval, Term.evalB_eq ρ a h.1, Term.evalB_eq ρ b h.2]
  | .reqZero a, h => by
      simp only [Fml.qf] at h
      simp [Fml.evalB, Fml.eval, Term.evalB_eq ρ a h]
  | .tracked _ a, h => by
      simp only [Fml.qf] at h
      have ha := Fml.evalB_iff ρ a h
      simp only [Fml.evalB, Fml.eval, ← ha]
      cases ρ.p _ <;> cases a.evalB ρ <;> simp
theorem Fml.evalAllB_iff (ρ : Env) : (l : List Fml) → Fml.qfList l = true → (Fml.evalAllB ρ l = true ↔ Fml.evalAll ρ l)
  | [], _ => by simp [Fml.evalAllB, Fml.evalAll]
  | a :: as, h => by
      simp only [Fml.qfList, Bool.and_eq_true] at h
      simp only [Fml.evalAllB, Fml.evalAll, Bool.and_eq_true, Fml.evalB_iff ρ a h.1, Fml.evalAllB_iff ρ as h.2]
theorem Fml.evalAnyB_iff (ρ : Env) : (l : List Fml) → Fml.qfList l = true → (Fml.evalAnyB ρ l = true ↔ Fml.evalAny ρ l)
  | [], _ => by simp [Fml.evalAnyB, Fml.evalAny]
  | a :: as, h => by
      simp only [Fml.qfList, Bool.and_eq_true] at h
      simp only [Fml.evalAnyB, Fml.evalAny, Bool.or_eq_true, Fml.evalB_iff ρ a h.1, Fml.evalAnyB_iff ρ as h.2]
theorem Fml.countB_eq (ρ : Env) : (l : List Fml) → Fml.qfList l = true → Fml.countB ρ l = Fml.count ρ l
  | [], _ => by simp [Fml.countB, Fml.count]
  | a :: as, h => by
      simp only [Fml.qfList, Bool.and_eq_true] at h
      have ha := Fml.evalB_iff ρ a h.1
      simp only [Fml.countB, Fml.count, Fml.countB_eq ρ as h.2]
      by_cases hb : a.evalB ρ = true
      · rw [if_pos hb, if_pos (ha.1 hb)]
      · rw [if_neg hb, if_neg (fun h' => hb (ha.2 h'))]
end

/-- **`satB` is sound on quantifier-free lists.** -/
theorem satB_sound (ρ : Env) (A : List Fml) (hq : A.all Fml.qf = true) (h : satB ρ A = true) : Sat ρ A := by
  intro a ha
  simp only [satB, List.all_eq_true] at h hq
  exact (Fml.evalB_iff ρ a (hq a ha)).1 (h a ha)

end PS
