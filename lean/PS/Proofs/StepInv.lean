/-
  PS.Proofs.StepInv — invariants of the constructor model `step` over whole scripts:
  only `problem` and `constr` declarations touch the constraint registry, and every constraint a later
  connective refers to is marked as an operand (`C10_operands_marked`).
-/
import PS.Model.Step
namespace PS

/-! ### which steps touch the constraint registry -/

theorem stepTask_constrs (st : State) (name kind optional work release due deadline prio) :
    (stepTask st name kind optional work release due deadline prio).1.constrs = st.constrs := by
  unfold stepTask
  repeat' split
  all_goals simp [ok, fail]

theorem stepWorker_constrs (st : State) (name prod cost co) : (stepWorker st name prod cost co).1.constrs = st.constrs := by
  unfold stepWorker
  repeat' split
  all_goals simp [ok, fail]

theorem addUnits_constrs (cname : String) : ∀ (units : List (String × Int × Int)) (st : State),
    (addUnits st cname units).1.constrs = st.constrs
  | [], st => rfl
  | (n, p, c) :: rest, st => by
      unfold addUnits
      have hw := stepWorker_constrs st n p (.const c) (some cname)
      split
      · rename_i st' heq
        rw [addUnits_constrs cname rest st']
        rw [heq] at hw; exact hw
      · exact hw

theorem stepCumulative_constrs (st : State) (name size prod cost) :
    (stepCumulative st name size prod cost).1.constrs = st.constrs := by
  unfold stepCumulative
  split
  · rfl
  · split
    · rename_i k
      have hu := addUnits_constrs name ((List.range size.toNat).map (fun i =>
        (unitName name i, (distribute prod size.toNat).getD i 0, (distribute k size.toNat).getD i 0))) st
      dsimp only
      split
      · rename_i st' heq
        simp only [heq] at hu
        split <;> simp [ok, fail, hu]
      · exact hu
    · rfl

theorem stepSelect_constrs (st : State) (name workers n kind) : (stepSelect st name workers n kind).1.constrs = st.constrs := by
  unfold stepSelect
  repeat' split
  all_goals simp [ok, fail]

theorem requireSelect_constrs (st : State) (t : Task) (s : Select) : (requireSelect st t s).1.constrs = st.constrs := by
  unfold requireSelect
  simp only
  split <;> rfl

theorem stepRequire_constrs (st : State) (task res dynamic d e) : (stepRequire st task res dynamic d e).1.constrs = st.constrs := by
  unfold stepRequire
  split
  · rfl
  · split
    · split
      · rfl
      · split <;> rfl
    · split
      · rfl
      · split
        · rfl
        · exact requireSelect_constrs _ _ _
    · split
      · rfl
      · rename_i cw _
        have hs := stepSelect_constrs st none cw.units 1 .min
        split
        · rename_i st' heq
          rw [heq] at hs
          split
          · rw [requireSelect_constrs]; exact hs
          · exact hs
        · exact hs

theorem stepBuffer_constrs (st : State) (name conc i f lb ub) : (stepBuffer st name conc i f lb ub).1.constrs = st.constrs := by
  unfold stepBuffer
  repeat' split
  all_goals simp [ok, fail]

theorem addIndicator_constrs (st : State) (cls key name bounds body) :
    (st.addIndicator cls key name bounds body).1.constrs = st.constrs := by
  unfold State.addIndicator
  split
  · rfl
  · split
    · rfl
    · dsimp only
      split <;> rfl

theorem addObjective_constrs (st : State) (name target bounds weight maximize) :
    (st.addObjective name target bounds weight maximize).1.constrs = st.constrs := by
  unfold State.addObjective
  repeat' split
  all_goals rfl

theorem indThenObj_constrs (st : State) (cls key iname bounds body oname maximize) :
    (st.indThenObj cls key iname bounds body oname maximize).1.constrs = st.constrs := by
  unfold State.indThenObj
  have hi := addIndicator_constrs st cls key iname bounds body
  split
  · rename_i st' heq
    rw [heq] at hi
    split
    · rw [addObjective_constrs]; exact hi
    · exact hi
  · exact hi

theorem indThenFail_constrs (st : State) (cls key iname bounds body e) :
    (st.indThenFail cls key iname bounds body e).1.constrs = st.constrs := by
  unfold State.indThenFail
  have hi := addIndicator_constrs st cls key iname bounds body
  split
  · rename_i st' heq
    rw [heq] at hi
    exact hi
  · exact hi

theorem stepIndicator_constrs (st : State) (d) : (stepIndicator st d).1.constrs = st.constrs := by
  unfold stepIndicator
  split
  · rfl
  · exact addIndicator_constrs _ _ _ _ _ _

theorem stepObjective_constrs (st : State) (d) : (stepObjective st d).1.constrs = st.constrs := by
  unfold stepObjective
  repeat' split
  all_goals first | rfl | exact addObjective_constrs _ _ _ _ _ _ | exact indThenObj_constrs _ _ _ _ _ _ _ _ |
    exact indThenFail_constrs _ _ _ _ _ _ _
end PS

namespace PS
open List

/-! ### the operand-marking invariant over scripts -/

/-- ids are positions below the registry length -/
def IdsLt (st : State) : Prop := ∀ c ∈ st.constrs, c.id < st.constrs.length

/-- every earlier constraint referenced as an operand by a connective (or force-apply rule …) is marked -/
def Marked (st : State) : Prop :=
  ∀ c ∈ st.constrs, ∀ i ∈ c.refs, ∀ d ∈ st.constrs, d.id = i → d.id < c.id → d.operand = true

theorem mem_markOperands (st : State) (ids : List Nat) (c' : Constr) :
    c' ∈ (st.markOperands ids).constrs ↔
      ∃ c ∈ st.constrs, c' = (if ids.contains c.id then { c with operand := true } else c) := by
  simp only [State.markOperands, List.mem_map]
  constructor
  · rintro ⟨c, hc, rfl⟩; exact ⟨c, hc, rfl⟩
  · rintro ⟨c, hc, rfl⟩; exact ⟨c, hc, rfl⟩

/-- appending constraint `c` (with the next id) and marking its references keeps both invariants -/
theorem append_mark_inv (st : State) (c : Constr) (hid : c.id = st.constrs.length)
    (h1 : IdsLt st) (h2 : Marked st) :
    IdsLt ({ st with constrs := st.constrs ++ [c] }.markOperands c.refs) ∧
    Marked ({ st with constrs := st.constrs ++ [c] }.markOperands c.refs) := by
  constructor
  · intro c' hc'
    obtain ⟨c0, hc0, rfl⟩ := (mem_markOperands _ _ _).1 hc'
    have hlen : ({ st with constrs := st.constrs ++ [c] }.markOperands c.refs).constrs.length = st.constrs.length + 1 := by
      simp [State.markOperands]
    rw [hlen]
    have hid0 : c0.id < st.constrs.length + 1 := by
      simp only [List.mem_append, List.mem_singleton] at hc0
      rcases hc0 with h | rfl
      · have := h1 c0 h; omega
      · omega
    split <;> simpa using hid0
  · intro c' hc' i hi d' hd' hdi hlt
    obtain ⟨c0, hc0, rfl⟩ := (mem_markOperands _ _ _).1 hc'
    obtain ⟨d0, hd0, rfl⟩ := (mem_markOperands _ _ _).1 hd'
    have hrefs : (if c.refs.contains c0.id then { c0 with operand := true } else c0).refs = c0.refs := by split <;> rfl
    have hcid : (if c.refs.contains c0.id then { c0 with operand := true } else c0).id = c0.id := by split <;> rfl
    have hdid : (if c.refs.contains d0.id then { d0 with operand := true } else d0).id = d0.id := by split <;> rfl
    rw [hrefs] at hi
    rw [hdid] at hdi hlt
    rw [hcid] at hlt
    simp only [List.mem_append, List.mem_singleton] at hc0 hd0
    rcases hc0 with hc0 | rfl
    · -- an old connective
      rcases hd0 with hd0 | rfl
      · have := h2 c0 hc0 i hi d0 hd0 hdi hlt
        split
        · rfl
        · exact this
      · -- the new constraint cannot be an earlier operand of an old one
        have := h1 c0 hc0
        omega
    · -- the new constraint: its references are exactly what gets marked
      have : c0.refs.contains d0.id = true := by
        rw [hdi]; simpa using hi
      rw [if_pos this]

theorem append_plain_inv (st : State) (c : Constr) (hid : c.id = st.constrs.length) (hrefs : c.refs = [])
    (h1 : IdsLt st) (h2 : Marked st) :
    IdsLt { st with constrs := st.constrs ++ [c] } ∧ Marked { st with constrs := st.constrs ++ [c] } := by
  have := append_mark_inv st c hid h1 h2
  rw [hrefs] at this
  have hm : ({ st with constrs := st.constrs ++ [c] } : State).markOperands [] = { st with constrs := st.constrs ++ [c] } := by
    simp [State.markOperands]
  rwa [hm] at this

theorem stepConstr_inv (st : State) (name : Option String) (optional : Bool) (d : CDecl)
    (h1 : IdsLt st) (h2 : Marked st) :
    IdsLt (stepConstr st name optional d).1 ∧ Marked (stepConstr st name optional d).1 := by
  unfold stepConstr
  split
  · exact ⟨h1, h2⟩
  · split
    · exact ⟨h1, h2⟩
    · split
      · exact ⟨h1, h2⟩
      · exact append_mark_inv st _ rfl h1 h2
  · split
    · exact ⟨h1, h2⟩
    · split
      · exact ⟨h1, h2⟩
      · dsimp only
        split
        · exact append_plain_inv st _ rfl rfl h1 h2
        · exact append_plain_inv st _ rfl rfl h1 h2
  · split
    · exact ⟨h1, h2⟩
    · split
      · exact ⟨h1, h2⟩
      · dsimp only
        split
        · exact append_mark_inv st _ rfl h1 h2
        · exact append_mark_inv st _ rfl h1 h2

theorem inv_of_constrs_eq {st st' : State} (h : st'.constrs = st.constrs) (h1 : IdsLt st) (h2 : Marked st) :
    IdsLt st' ∧ Marked st' := by
  unfold IdsLt Marked
  rw [h]; exact ⟨h1, h2⟩

theorem step_inv (st : State) (d : Decl) (h1 : IdsLt st) (h2 : Marked st) :
    IdsLt (step st d).1 ∧ Marked (step st d).1 := by
  cases d with
  | problem name horizon =>
      simp only [step, stepProblem]
      cases horizon with
      | none => exact ⟨by intro c hc; simp [ok] at hc, by intro c hc; simp [ok] at hc⟩
      | some h =>
          by_cases hp : h > 0
          · simp only [hp, if_true]
            exact ⟨by intro c hc; simp [ok] at hc, by intro c hc; simp [ok] at hc⟩
          · simp only [hp, if_false]; exact ⟨h1, h2⟩
  | task => exact inv_of_constrs_eq (stepTask_constrs _ _ _ _ _ _ _ _ _) h1 h2
  | worker => exact inv_of_constrs_eq (stepWorker_constrs _ _ _ _ _) h1 h2
  | cumulative => exact inv_of_constrs_eq (stepCumulative_constrs _ _ _ _ _) h1 h2
  | select => exact inv_of_constrs_eq (stepSelect_constrs _ _ _ _ _) h1 h2
  | require => exact inv_of_constrs_eq (stepRequire_constrs _ _ _ _ _ _) h1 h2
  | constr name optional c => exact stepConstr_inv st name optional c h1 h2
  | buffer => exact inv_of_constrs_eq (stepBuffer_constrs _ _ _ _ _ _ _) h1 h2
  | indicator => exact inv_of_constrs_eq (stepIndicator_constrs _ _) h1 h2
  | objective => exact inv_of_constrs_eq (stepObjective_constrs _ _) h1 h2

/-- **C10 (operand marking).**  In every state a construction script can produce, every constraint that
    a later connective (Not / Or / And / Xor / Implies / IfThenElse, at any depth) or force-apply rule
    refers to is marked as an operand … -/
theorem C10_operands_marked (st : State) (hr : Reachable st) : IdsLt st ∧ Marked st := by
  obtain ⟨ds, rfl⟩ := hr
  unfold run
  have : ∀ (ds : List Decl) (s : State), IdsLt s → Marked s →
      IdsLt (ds.foldl (fun st d => (step st d).1) s) ∧ Marked (ds.foldl (fun st d => (step st d).1) s) := by
    intro ds
    induction ds with
    | nil => intro s a b; exact ⟨a, b⟩
    | cons d ds ih =>
        intro s a b
        obtain ⟨a', b'⟩ := step_inv s d a b
        exact ih _ a' b'
  exact this ds {} (by intro c hc; simp at hc) (by intro c hc; simp at hc)

end PS
