/-
  PS.Proofs.Buffer — arithmetic behind the buffer encoding (solver.py:263-385, util.py:79-126):
  * `levels_closed_form` : a level sequence driven by sorted change times is, after every change
    time, the initial level plus all the quantities of the accesses at instants ≤ that time;
  * the bubble network of `sort_duplicates` sorts (`passes_sorted`, `passes_perm`);
  * `sortDup_sound` : if the constraints of `sortDup` hold, its outputs evaluate to that sort.
-/
import Mathlib.Data.List.Sort
import Mathlib.Data.List.Perm.Subperm
import PS.Proofs.Sort
import PS.Model.Initialize
namespace PS
open List

/-! ### events and sums -/

/-- sum of the quantities of the accesses at instants `≤ τ` -/
def sumUpTo (ev : List (Int × Int)) (τ : Int) : Int := ((ev.filter (fun e => decide (e.1 ≤ τ))).map (·.2)).sum

/-- sum of the quantities of the accesses at instant `τ` exactly -/
def sumAt (ev : List (Int × Int)) (τ : Int) : Int := ((ev.filter (fun e => decide (e.1 = τ))).map (·.2)).sum

theorem sumUpTo_cons (e : Int × Int) (ev : List (Int × Int)) (τ : Int) :
    sumUpTo (e :: ev) τ = (if e.1 ≤ τ then e.2 else 0) + sumUpTo ev τ := by
  unfold sumUpTo
  by_cases h : e.1 ≤ τ <;> simp [List.filter_cons, h]

theorem sumAt_cons (e : Int × Int) (ev : List (Int × Int)) (τ : Int) :
    sumAt (e :: ev) τ = (if e.1 = τ then e.2 else 0) + sumAt ev τ := by
  unfold sumAt
  by_cases h : e.1 = τ <;> simp [List.filter_cons, h]

/-- nothing happens strictly between two consecutive change times -/
theorem sumUpTo_step (ev : List (Int × Int)) (a b : Int) (hab : a < b)
    (hgap : ∀ e ∈ ev, ¬ (a < e.1 ∧ e.1 < b)) : sumUpTo ev b = sumUpTo ev a + sumAt ev b := by
  induction ev with
  | nil => simp [sumUpTo, sumAt]
  | cons e ev ih =>
      have hg := hgap e (by simp)
      have := ih (fun e' he' => hgap e' (by simp [he']))
      rw [sumUpTo_cons, sumUpTo_cons, sumAt_cons, this]
      by_cases h1 : e.1 ≤ a
      · have : e.1 ≤ b := by omega
        have : ¬ e.1 = b := by omega
        simp [*]; omega
      · by_cases h2 : e.1 = b
        · have : e.1 ≤ b := by omega
          simp [*]; omega
        · have : ¬ e.1 ≤ b := by omega
          simp [*]

theorem sumUpTo_first (ev : List (Int × Int)) (a : Int) (hmin : ∀ e ∈ ev, a ≤ e.1) : sumUpTo ev a = sumAt ev a := by
  induction ev with
  | nil => simp [sumUpTo, sumAt]
  | cons e ev ih =>
      have := hmin e (by simp)
      rw [sumUpTo_cons, sumAt_cons, ih (fun e' he' => hmin e' (by simp [he']))]
      by_cases h : e.1 = a
      · have : e.1 ≤ a := by omega
        simp [*]
      · have : ¬ e.1 ≤ a := by omega
        simp [*]

/-- with pairwise distinct instants the sum at an instant is the quantity of the one access there -/
theorem sumAt_unique (ev : List (Int × Int)) (hnd : (ev.map (·.1)).Nodup) (e : Int × Int) (he : e ∈ ev) :
    sumAt ev e.1 = e.2 := by
  induction ev with
  | nil => simp at he
  | cons x ev ih =>
      rw [List.map_cons, List.nodup_cons] at hnd
      rw [sumAt_cons]
      rcases List.mem_cons.1 he with rfl | hin
      · have : sumAt ev e.1 = 0 := by
          unfold sumAt
          have : ev.filter (fun e' => decide (e'.1 = e.1)) = [] := by
            rw [List.filter_eq_nil_iff]
            intro a ha
            simp only [decide_eq_true_eq]
            intro h
            exact hnd.1 (List.mem_map.2 ⟨a, ha, h⟩)
          rw [this]; rfl
        simp [this]
      · have hne : ¬ x.1 = e.1 := by
          intro h
          exact hnd.1 (List.mem_map.2 ⟨e, hin, h.symm⟩)
        simp [hne, ih hnd.2 hin]

/-- **closed form of the level sequence.**  `T` are the change times (sorted, covering every access
    instant), `L` the levels; a duplicate change time keeps the level, a new one adds everything that
    happens at that instant. -/
theorem levels_closed_form (T : List Int) (L : Nat → Int) (ev : List (Int × Int))
    (hsorted : T.Pairwise (· ≤ ·)) (hcover : ∀ e ∈ ev, e.1 ∈ T)
    (hstep0 : 0 < T.length → L 1 = L 0 + sumAt ev (T.getD 0 0))
    (hstep : ∀ i, 0 < i → i < T.length →
      L (i + 1) = if T.getD i 0 = T.getD (i - 1) 0 then L i else L i + sumAt ev (T.getD i 0)) :
    ∀ i, i < T.length → L (i + 1) = L 0 + sumUpTo ev (T.getD i 0) := by
  have hle : ∀ i j, i ≤ j → j < T.length → T.getD i 0 ≤ T.getD j 0 := by
    intro i j hij hj
    rcases Nat.lt_or_eq_of_le hij with h | h
    · have := List.pairwise_iff_getElem.1 hsorted i j (by omega) hj h
      simpa [List.getD, List.getElem?_eq_getElem, hj, (by omega : i < T.length)] using this
    · subst h; exact le_refl _
  have hmem : ∀ e ∈ ev, ∃ k, k < T.length ∧ T.getD k 0 = e.1 := by
    intro e he
    obtain ⟨k, hk, hk'⟩ := List.getElem_of_mem (hcover e he)
    exact ⟨k, hk, by simp [List.getD, List.getElem?_eq_getElem, hk, hk']⟩
  intro i
  induction i with
  | zero =>
      intro h0
      rw [hstep0 h0, sumUpTo_first]
      intro e he
      obtain ⟨k, hk, hk'⟩ := hmem e he
      rw [← hk']
      exact hle 0 k (Nat.zero_le _) hk
  | succ i ih =>
      intro hi
      have ih' := ih (by omega)
      rw [hstep (i + 1) (by omega) hi]
      simp only [Nat.add_sub_cancel]
      by_cases heq : T.getD (i + 1) 0 = T.getD i 0
      · rw [if_pos heq, ih', heq]
      · simp only [heq, if_false]
        have hlt : T.getD i 0 < T.getD (i + 1) 0 := by
          have := hle i (i + 1) (by omega) hi
          omega
        rw [ih', sumUpTo_step ev _ _ hlt]
        · omega
        · intro e he ⟨h1, h2⟩
          obtain ⟨k, hk, hk'⟩ := hmem e he
          rw [← hk'] at h1 h2
          by_cases hki : k ≤ i
          · have := hle k i hki (by omega); omega
          · have := hle (i + 1) k (by omega) hk; omega

/-! ### the bubble network sorts -/

/-- one compare-exchange chain carrying the running maximum -/
def bubbleInts (x : Int) : List Int → List Int
  | [] => [x]
  | y :: r => min x y :: bubbleInts (max x y) r

def passInts : List Int → List Int
  | [] => []
  | x :: r => bubbleInts x r

def passesInts : Nat → List Int → List Int
  | 0, l => l
  | k + 1, l => passesInts k (passInts l)

theorem bubbleInts_length (x : Int) (ys : List Int) : (bubbleInts x ys).length = ys.length + 1 := by
  induction ys generalizing x with
  | nil => rfl
  | cons y r ih => simp [bubbleInts, ih]

theorem passInts_length (l : List Int) : (passInts l).length = l.length := by
  cases l with
  | nil => rfl
  | cons x r => simp [passInts, bubbleInts_length]

/-- a pass ends with a maximum: `bubbleInts x ys = q ++ [m]`, `q ++ [m]` a permutation of `x :: ys`, `m` above all -/
theorem bubbleInts_spec (x : Int) (ys : List Int) :
    ∃ q m, bubbleInts x ys = q ++ [m] ∧ (q ++ [m]).Perm (x :: ys) ∧ (∀ a ∈ q, a ≤ m) ∧ x ≤ m := by
  induction ys generalizing x with
  | nil => exact ⟨[], x, rfl, by simp, by simp, le_refl _⟩
  | cons y r ih =>
      obtain ⟨q, m, he, hp, hq, hm⟩ := ih (max x y)
      refine ⟨min x y :: q, m, by simp [bubbleInts, he], ?_, ?_, ?_⟩
      · have h1 : (min x y :: (q ++ [m])).Perm (min x y :: max x y :: r) := List.Perm.cons _ hp
        have h2 : (min x y :: max x y :: r).Perm (x :: y :: r) := by
          by_cases hxy : x ≤ y
          · rw [min_eq_left hxy, max_eq_right hxy]
          · have hyx : y ≤ x := by omega
            rw [min_eq_right hyx, max_eq_left hyx]
            exact List.Perm.swap _ _ _
        simpa using h1.trans h2
      · intro a ha
        rcases List.mem_cons.1 ha with rfl | ha
        · have := min_le_left x y; have := le_max_left x y; omega
        · exact hq a ha
      · have := le_max_left x y; omega

/-- a sorted suffix that dominates the rest is left alone -/
theorem bubbleInts_sorted_tail (x : Int) (s : List Int) (hs : s.Pairwise (· ≤ ·)) (hx : ∀ b ∈ s, x ≤ b) :
    bubbleInts x s = x :: s := by
  induction s generalizing x with
  | nil => rfl
  | cons y r ih =>
      have hxy : x ≤ y := hx y (by simp)
      rw [List.pairwise_cons] at hs
      simp only [bubbleInts, min_eq_left hxy, max_eq_right hxy]
      rw [ih y hs.2 hs.1]

theorem bubbleInts_append (x : Int) (p s : List Int) (hs : s.Pairwise (· ≤ ·))
    (hx : ∀ b ∈ s, x ≤ b) (hp : ∀ a ∈ p, ∀ b ∈ s, a ≤ b) :
    bubbleInts x (p ++ s) = bubbleInts x p ++ s := by
  induction p generalizing x with
  | nil => simpa [bubbleInts] using bubbleInts_sorted_tail x s hs hx
  | cons y r ih =>
      simp only [List.cons_append, bubbleInts]
      rw [ih (max x y)]
      · intro b hb
        have := hx b hb; have := hp y (by simp) b hb
        exact max_le (by assumption) (by assumption)
      · intro a ha b hb; exact hp a (by simp [ha]) b hb

/-- invariant after `k` passes: a sorted dominating suffix of length `k` (or everything) -/
theorem passes_inv (k : Nat) (l : List Int) :
    ∃ p s, passesInts k l = p ++ s ∧ s.Pairwise (· ≤ ·) ∧ (∀ a ∈ p, ∀ b ∈ s, a ≤ b) ∧
      p.length = l.length - k ∧ (p ++ s).Perm l := by
  induction k generalizing l with
  | zero => exact ⟨l, [], by simp [passesInts], by simp, by simp, by simp, by simp⟩
  | succ k ih =>
      -- peel the first pass: passesInts (k+1) l = passesInts k (passInts l); use the invariant the other way round
      -- by proving the statement for "k passes then one more" through commutation
      have comm : ∀ (n : Nat) (l : List Int), passesInts (n + 1) l = passInts (passesInts n l) := by
        intro n
        induction n with
        | zero => intro l; rfl
        | succ n ihn => intro l; rw [passesInts, ihn (passInts l)]; rfl
      rw [comm]
      obtain ⟨p, s, he, hs, hps, hlen, hperm⟩ := ih l
      rw [he]
      cases p with
      | nil =>
          refine ⟨[], s, ?_, hs, by simp, by simp at hlen ⊢; omega, by simpa using hperm⟩
          cases s with
          | nil => rfl
          | cons y r =>
              rw [List.pairwise_cons] at hs
              simpa [passInts] using bubbleInts_sorted_tail y r hs.2 hs.1
      | cons x r =>
          have hx : ∀ b ∈ s, x ≤ b := fun b hb => hps x (by simp) b hb
          have hr : ∀ a ∈ r, ∀ b ∈ s, a ≤ b := fun a ha b hb => hps a (by simp [ha]) b hb
          obtain ⟨q, m, hq, hqp, hqm, _⟩ := bubbleInts_spec x r
          have hm_mem : m ∈ x :: r := hqp.subset (by simp)
          have hq_sub : ∀ a ∈ q, a ∈ x :: r := fun a ha => hqp.subset (by simp [ha])
          refine ⟨q, m :: s, ?_, ?_, ?_, ?_, ?_⟩
          · simp only [List.cons_append, passInts]
            rw [bubbleInts_append x r s hs hx hr, hq]; simp
          · rw [List.pairwise_cons]
            exact ⟨fun b hb => hps m hm_mem b hb, hs⟩
          · intro a ha b hb
            rcases List.mem_cons.1 hb with rfl | hb
            · exact hqm a ha
            · exact hps a (hq_sub a ha) b hb
          · have h1 : (q ++ [m]).length = (x :: r).length := hqp.length_eq
            simp at h1 hlen ⊢; omega
          · have : (q ++ m :: s).Perm ((x :: r) ++ s) := by
              have := List.Perm.append_right s hqp
              simpa using this
            exact this.trans hperm

theorem passes_sorted (l : List Int) : (passesInts l.length l).Pairwise (· ≤ ·) ∧ (passesInts l.length l).Perm l := by
  obtain ⟨p, s, he, hs, _, hlen, hperm⟩ := passes_inv l.length l
  have : p = [] := List.eq_nil_of_length_eq_zero (by omega)
  subst this
  simp only [List.nil_append] at he hperm
  rw [he]; exact ⟨hs, hperm⟩

end PS

namespace PS
open List

/-! ### `sort_duplicates` (the syntactic network) computes the bubble passes -/

theorem bubbleUpAux_sound (b : String) (ρ : Env) (ys : List Term) :
    ∀ (base : Nat) (x : Term), Sat ρ (bubbleUpAux b base x ys).2.1 →
      (bubbleUpAux b base x ys).1.map (fun t => t.eval ρ) = bubbleInts (x.eval ρ) (ys.map (fun t => t.eval ρ)) := by
  induction ys with
  | nil => intro base x _; simp [bubbleUpAux, bubbleInts]
  | cons y r ih =>
      intro base x h
      simp only [bubbleUpAux] at h ⊢
      rw [Sat.cons] at h
      obtain ⟨hc, hrest⟩ := h
      have hrec := ih (base + 2) (Term.var (.bfresh b (base + 1))) hrest
      simp only [List.map_cons, bubbleInts]
      simp only [Fml.eval, Fml.evalAll, Term.eval, and_true] at hc
      by_cases hxy : x.eval ρ ≤ y.eval ρ
      · obtain ⟨h1, h2⟩ := hc.1 hxy
        rw [min_eq_left hxy, max_eq_right hxy, hrec]
        simp only [Term.eval, h1, h2]
      · obtain ⟨h1, h2⟩ := hc.2 hxy
        have hyx : y.eval ρ ≤ x.eval ρ := by omega
        rw [min_eq_right hyx, max_eq_left hyx, hrec]
        simp only [Term.eval, h1, h2]

theorem bubbleUp_sound (b : String) (ρ : Env) (base : Nat) (xs : List Term)
    (h : Sat ρ (bubbleUp b base xs).2.1) :
    (bubbleUp b base xs).1.map (fun t => t.eval ρ) = passInts (xs.map (fun t => t.eval ρ)) := by
  cases xs with
  | nil => simp [bubbleUp, passInts]
  | cons x r => simpa [bubbleUp, passInts] using bubbleUpAux_sound b ρ r base x h

/-- the accumulating fold of `sortDup`, generalised over the accumulator -/
def sortDupFold (b : String) (l : List Nat) (acc : List Term × List Fml × Nat) : List Term × List Fml × Nat :=
  l.foldl (fun (acc : List Term × List Fml × Nat) _ =>
      let (arr, cs, k) := bubbleUp b acc.2.2 acc.1
      (arr, acc.2.1 ++ cs, k)) acc

theorem sortDupFold_sound (b : String) (ρ : Env) (l : List Nat) :
    ∀ acc, Sat ρ (sortDupFold b l acc).2.1 →
      Sat ρ acc.2.1 ∧
      (sortDupFold b l acc).1.map (fun t => t.eval ρ) = passesInts l.length (acc.1.map (fun t => t.eval ρ)) := by
  induction l with
  | nil => intro acc h; exact ⟨h, rfl⟩
  | cons _ r ih =>
      intro acc h
      simp only [sortDupFold, List.foldl_cons] at h ⊢
      have := ih _ h
      obtain ⟨hacc, hres⟩ := this
      simp only at hacc hres
      rw [Sat.append] at hacc
      refine ⟨hacc.1, ?_⟩
      simp only [sortDupFold] at hres
      rw [hres, List.length_cons, passesInts, bubbleUp_sound b ρ _ _ hacc.2]

/-- **sort_duplicates is sound**: under its constraints the outputs are the inputs' values, sorted
    (non-strictly), as a permutation. -/
theorem sortDup_sound (b : String) (xs : List Term) (ρ : Env) (h : Sat ρ (sortDup b xs).2) :
    let S := (sortDup b xs).1.map (fun t => t.eval ρ)
    S.Pairwise (· ≤ ·) ∧ S.Perm (xs.map (fun t => t.eval ρ)) := by
  have key := sortDupFold_sound b ρ (List.range xs.length) (xs, [], 0) (by simpa [sortDup, sortDupFold] using h)
  have hres := key.2
  simp only [List.length_range] at hres
  have hS : (sortDup b xs).1 = (sortDupFold b (List.range xs.length) (xs, [], 0)).1 := rfl
  intro S
  have : S = passesInts (xs.map (fun t => t.eval ρ)).length (xs.map (fun t => t.eval ρ)) := by
    simp only [S, hS, hres, List.length_map]
  rw [this]
  exact passes_sorted _

theorem sortDup_length (b : String) (xs : List Term) (ρ : Env) (h : Sat ρ (sortDup b xs).2) :
    (sortDup b xs).1.length = xs.length := by
  have := (sortDup_sound b xs ρ h).2.length_eq
  simpa using this

end PS
