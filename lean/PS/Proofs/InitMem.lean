/-
  PS.Proofs.InitMem — membership in the assertion list of `initialize`.
-/
import PS.Model.Initialize
namespace PS

theorem map_snd_flatMap_tag {α : Type} (l : List α) (o : α → Owner) (f : α → List Fml) :
    (l.flatMap (fun x => (f x).map (fun g => (o x, g)))).map (·.2) = l.flatMap f := by
  induction l with
  | nil => rfl
  | cons x xs ih =>
      simp only [List.flatMap_cons, List.map_append, ih, List.map_map]
      congr 1
      induction f x with
      | nil => rfl
      | cons a as ih2 => simpa using ih2

/-- the owner-tagged list printed by the driver is `initFmls` with tags -/
theorem initializeO_fmls (cfg : Config) (st : State) :
    (initializeO cfg st).map (·.2) = initFmls cfg st := by
  unfold initializeO initFmls
  simp only [List.map_append, map_snd_flatMap_tag, List.map_map]
  congr 1
  · congr 1
    · congr 1
      · congr 1
        · congr 1
          · congr 1
            · congr 1
              induction st.tasks with
              | nil => rfl
              | cons t ts ih =>
                  simp only [List.flatMap_cons, List.map_append, List.map_map, ih]
                  congr 1
                  simp [State.taskAsserts, Function.comp_def]
    · simp [Function.comp_def]
  · simp [Function.comp_def]

theorem mem_initFmls_iff (cfg : Config) (st : State) (a : Fml) :
    a ∈ initFmls cfg st ↔
      (∃ t ∈ st.tasks, a ∈ st.taskAsserts t ∨ a = t.horizonFml) ∨
      (∃ w ∈ st.workers, a ∈ noOverlapPairs w.name (st.busyOf w.name)) ∨
      (∃ c ∈ st.constrs, c.operand = false ∧ a ∈ c.asserts) ∨
      (∃ i ∈ st.indicators, a ∈ i.asserts) ∨
      (∃ t ∈ st.tasks, a ∈ workAmount st t) ∨
      (∃ b ∈ st.buffers, a ∈ bufferFmls st b) ∨
      a ∈ st.problemAsserts ∨
      a ∈ objectiveFmls cfg st := by
  simp only [initFmls, List.mem_append, List.mem_flatMap, List.mem_filter, List.mem_singleton,
    Bool.not_eq_eq_eq_not, Bool.not_true]
  constructor
  · rintro (((((((h | h) | h) | h) | h) | h) | h) | h)
    · exact Or.inl h
    · exact Or.inr (Or.inl h)
    · obtain ⟨c, ⟨hc, hop⟩, ha⟩ := h
      exact Or.inr (Or.inr (Or.inl ⟨c, hc, hop, ha⟩))
    · exact Or.inr (Or.inr (Or.inr (Or.inl h)))
    · exact Or.inr (Or.inr (Or.inr (Or.inr (Or.inl h))))
    · exact Or.inr (Or.inr (Or.inr (Or.inr (Or.inr (Or.inl h)))))
    · exact Or.inr (Or.inr (Or.inr (Or.inr (Or.inr (Or.inr (Or.inl h))))))
    · exact Or.inr (Or.inr (Or.inr (Or.inr (Or.inr (Or.inr (Or.inr h))))))
  · rintro (h | h | h | h | h | h | h | h)
    · exact Or.inl (Or.inl (Or.inl (Or.inl (Or.inl (Or.inl (Or.inl h))))))
    · exact Or.inl (Or.inl (Or.inl (Or.inl (Or.inl (Or.inl (Or.inr h))))))
    · obtain ⟨c, hc, hop, ha⟩ := h
      exact Or.inl (Or.inl (Or.inl (Or.inl (Or.inl (Or.inr ⟨c, ⟨hc, hop⟩, ha⟩)))))
    · exact Or.inl (Or.inl (Or.inl (Or.inl (Or.inr h))))
    · exact Or.inl (Or.inl (Or.inl (Or.inr h)))
    · exact Or.inl (Or.inl (Or.inr h))
    · exact Or.inl (Or.inr h)
    · exact Or.inr h

theorem mem_init_task {cfg : Config} {st : State} {t : Task} {a : Fml}
    (ht : t ∈ st.tasks) (ha : a ∈ st.taskAsserts t) : a ∈ initFmls cfg st :=
  (mem_initFmls_iff cfg st a).2 (Or.inl ⟨t, ht, Or.inl ha⟩)

theorem mem_init_horizon {cfg : Config} {st : State} {t : Task} (ht : t ∈ st.tasks) :
    t.horizonFml ∈ initFmls cfg st :=
  (mem_initFmls_iff cfg st _).2 (Or.inl ⟨t, ht, Or.inr rfl⟩)

theorem mem_init_worker {cfg : Config} {st : State} {w : Worker} {a : Fml}
    (hw : w ∈ st.workers) (ha : a ∈ noOverlapPairs w.name (st.busyOf w.name)) : a ∈ initFmls cfg st :=
  (mem_initFmls_iff cfg st a).2 (Or.inr (Or.inl ⟨w, hw, ha⟩))

theorem mem_init_constr {cfg : Config} {st : State} {c : Constr} {a : Fml}
    (hc : c ∈ st.constrs) (hop : c.operand = false) (ha : a ∈ c.asserts) : a ∈ initFmls cfg st :=
  (mem_initFmls_iff cfg st a).2 (Or.inr (Or.inr (Or.inl ⟨c, hc, hop, ha⟩)))

theorem mem_init_indicator {cfg : Config} {st : State} {i : Indicator} {a : Fml}
    (hi : i ∈ st.indicators) (ha : a ∈ i.asserts) : a ∈ initFmls cfg st :=
  (mem_initFmls_iff cfg st a).2 (Or.inr (Or.inr (Or.inr (Or.inl ⟨i, hi, ha⟩))))

theorem mem_init_work {cfg : Config} {st : State} {t : Task} {a : Fml}
    (ht : t ∈ st.tasks) (ha : a ∈ workAmount st t) : a ∈ initFmls cfg st :=
  (mem_initFmls_iff cfg st a).2 (Or.inr (Or.inr (Or.inr (Or.inr (Or.inl ⟨t, ht, ha⟩)))))

theorem mem_init_buffer {cfg : Config} {st : State} {b : Buffer} {a : Fml}
    (hb : b ∈ st.buffers) (ha : a ∈ bufferFmls st b) : a ∈ initFmls cfg st :=
  (mem_initFmls_iff cfg st a).2 (Or.inr (Or.inr (Or.inr (Or.inr (Or.inr (Or.inl ⟨b, hb, ha⟩))))))

theorem mem_init_problem {cfg : Config} {st : State} {a : Fml}
    (ha : a ∈ st.problemAsserts) : a ∈ initFmls cfg st :=
  (mem_initFmls_iff cfg st a).2 (Or.inr (Or.inr (Or.inr (Or.inr (Or.inr (Or.inr (Or.inl ha)))))))

end PS
