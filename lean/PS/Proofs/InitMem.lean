/-
  PS.Proofs.InitMem — membership in the assertion list of `initialize`.
-/
import PS.Model.Initialize
namespace PS

theorem mem_initFmls_iff (cfg : Config) (st : State) (a : Fml) :
    a ∈ initFmls cfg st ↔
      (∃ t ∈ st.tasks, a ∈ st.taskAsserts t ∨ a = t.horizonFml) ∨
      (∃ w ∈ st.workers, a ∈ noOverlapPairs w.name (st.busyOf w.name)) ∨
      (∃ c ∈ st.constrs, c.operand = false ∧ a ∈ c.asserts) ∨
      (∃ i ∈ st.indicators, a ∈ i.asserts) ∨
      (∃ t ∈ st.tasks, a ∈ workAmount st t) ∨
      (∃ b ∈ st.buffers, a ∈ bufferFmls st b) ∨
      a ∈ st.problemAsserts ∨
      a ∈ objectiveFmls cfg st := by
  simp only [initFmls, initializeO, List.map_append, List.mem_append, List.mem_map, List.mem_flatMap,
    List.mem_filter, Prod.exists, Prod.mk.injEq]
  constructor
  · rintro (((((((h | h) | h) | h) | h) | h) | h) | h)
    · obtain ⟨o, f, ⟨t, ht, h1⟩, rfl⟩ := h
      left
      refine ⟨t, ht, ?_⟩
      rcases h1 with ⟨f', hf', _, rfl⟩ | ⟨f', hf', _, rfl⟩
      · exact Or.inl hf'
      · right; simpa using hf'
    · obtain ⟨o, f, ⟨w, hw, f', hf', _, rfl⟩, rfl⟩ := h
      right; left; exact ⟨w, hw, hf'⟩
    · obtain ⟨o, f, ⟨c, ⟨hc, hop⟩, f', hf', _, rfl⟩, rfl⟩ := h
      right; right; left
      refine ⟨c, hc, ?_, hf'⟩
      simpa using hop
    · obtain ⟨o, f, ⟨i, hi, f', hf', _, rfl⟩, rfl⟩ := h
      right; right; right; left; exact ⟨i, hi, hf'⟩
    · obtain ⟨o, f, ⟨t, ht, f', hf', _, rfl⟩, rfl⟩ := h
      right; right; right; right; left; exact ⟨t, ht, hf'⟩
    · obtain ⟨o, f, ⟨b, hb, f', hf', _, rfl⟩, rfl⟩ := h
      right; right; right; right; right; left; exact ⟨b, hb, hf'⟩
    · obtain ⟨o, f, ⟨f', hf', _, rfl⟩, rfl⟩ := h
      right; right; right; right; right; right; left; exact hf'
    · obtain ⟨o, f, ⟨f', hf', _, rfl⟩, rfl⟩ := h
      right; right; right; right; right; right; right; exact hf'
  · rintro (h | h | h | h | h | h | h | h)
    · obtain ⟨t, ht, h1⟩ := h
      left; left; left; left; left; left; left
      refine ⟨Owner.task t.name, a, ⟨t, ht, ?_⟩, rfl⟩
      rcases h1 with h1 | h1
      · exact Or.inl ⟨a, h1, rfl, rfl⟩
      · exact Or.inr ⟨a, by simp [h1], rfl, rfl⟩
    · obtain ⟨w, hw, h1⟩ := h
      left; left; left; left; left; left; right
      exact ⟨Owner.worker w.name, a, ⟨w, hw, a, h1, rfl, rfl⟩, rfl⟩
    · obtain ⟨c, hc, hop, h1⟩ := h
      left; left; left; left; left; right
      exact ⟨Owner.constr c.id, a, ⟨c, ⟨hc, by simpa using hop⟩, a, h1, rfl, rfl⟩, rfl⟩
    · obtain ⟨i, hi, h1⟩ := h
      left; left; left; left; right
      exact ⟨Owner.indicator i.id, a, ⟨i, hi, a, h1, rfl, rfl⟩, rfl⟩
    · obtain ⟨t, ht, h1⟩ := h
      left; left; left; right
      exact ⟨Owner.work t.name, a, ⟨t, ht, a, h1, rfl, rfl⟩, rfl⟩
    · obtain ⟨b, hb, h1⟩ := h
      left; left; right
      exact ⟨Owner.buffer b.name, a, ⟨b, hb, a, h1, rfl, rfl⟩, rfl⟩
    · left; right
      exact ⟨Owner.problem, a, ⟨a, h, rfl, rfl⟩, rfl⟩
    · right
      exact ⟨Owner.objective, a, ⟨a, h, rfl, rfl⟩, rfl⟩

theorem mem_init_task {cfg : Config} {st : State} {t : Task} {a : Fml}
    (ht : t ∈ st.tasks) (ha : a ∈ st.taskAsserts t) : a ∈ initFmls cfg st :=
  (mem_initFmls_iff cfg st a).2 (Or.inl ⟨t, ht, Or.inl ha⟩)

theorem mem_init_horizon {cfg : Config} {st : State} {t : Task} (ht : t ∈ st.tasks) :
    t.horizonFml ∈ initFmls cfg st :=
  (mem_initFmls_iff cfg st _).2 (Or.inl ⟨t, ht, Or.inr rfl⟩)

theorem mem_init_worker {cfg : Config} {st : State} {w : Worker} {a : Fml}
    (hw : w ∈ st.workers) (ha : a ∈ noOverlapPairs w.name (st.busyOf w.name)) : a ∈ initFmls cfg st :=
  (mem_initFmls_iff cfg st a).2 (Or.inr (Or.inl ⟨w, hw, ha⟩))

theorem mem_init_constr {cfg : Config} {st : State} {c : Constr} {a : Fml}
    (hc : c ∈ st.constrs) (hop : c.operand = false) (ha : a ∈ c.asserts) : a ∈ initFmls cfg st :=
  (mem_initFmls_iff cfg st a).2 (Or.inr (Or.inr (Or.inl ⟨c, hc, hop, ha⟩)))

theorem mem_init_indicator {cfg : Config} {st : State} {i : Indicator} {a : Fml}
    (hi : i ∈ st.indicators) (ha : a ∈ i.asserts) : a ∈ initFmls cfg st :=
  (mem_initFmls_iff cfg st a).2 (Or.inr (Or.inr (Or.inr (Or.inl ⟨i, hi, ha⟩))))

theorem mem_init_work {cfg : Config} {st : State} {t : Task} {a : Fml}
    (ht : t ∈ st.tasks) (ha : a ∈ workAmount st t) : a ∈ initFmls cfg st :=
  (mem_initFmls_iff cfg st a).2 (Or.inr (Or.inr (Or.inr (Or.inr (Or.inl ⟨t, ht, ha⟩)))))

theorem mem_init_buffer {cfg : Config} {st : State} {b : Buffer} {a : Fml}
    (hb : b ∈ st.buffers) (ha : a ∈ bufferFmls st b) : a ∈ initFmls cfg st :=
  (mem_initFmls_iff cfg st a).2 (Or.inr (Or.inr (Or.inr (Or.inr (Or.inr (Or.inl ⟨b, hb, ha⟩))))))

theorem mem_init_problem {cfg : Config} {st : State} {a : Fml}
    (ha : a ∈ st.problemAsserts) : a ∈ initFmls cfg st :=
  (mem_initFmls_iff cfg st a).2 (Or.inr (Or.inr (Or.inr (Or.inr (Or.inr (Or.inr (Or.inl ha)))))))

end PS
