/-
  PS.Sexp — a minimal s-expression reader / writer for the line protocol between the Python
  harness and the Lean driver.  Atoms are either bare tokens or double-quoted strings
  (with `\"` and `\\` escapes).  Core Lean only.
-/
namespace PS

inductive Sexp where
  | atom (s : String)
  | str (s : String)          -- a quoted string
  | list (l : List Sexp)
  deriving Repr, Inhabited, BEq

namespace Sexp

private def isDelim (c : Char) : Bool := c == '(' || c == ')' || c == ' ' || c == '\t' || c == '\n' || c == '\r' || c == '"'

/-- tokeniser + parser in one pass over a `List Char`; returns the remaining input. -/
partial def parseList (cs : List Char) (acc : List Sexp) : Option (List Sexp × List Char) :=
  match cs with
  | [] => some (acc.reverse, [])
  | c :: rest =>
    if c == ' ' || c == '\t' || c == '\n' || c == '\r' then parseList rest acc
    else if c == ')' then some (acc.reverse, rest)
    else if c == '(' then
      match parseList rest [] with
      | some (l, rest') => parseList rest' (Sexp.list l :: acc)
      | none => none
    else if c == '"' then
      let rec go (cs : List Char) (buf : List Char) : Option (String × List Char) :=
        match cs with
        | [] => none
        | '\\' :: d :: r => go r (d :: buf)
        | '"' :: r => some (String.ofList buf.reverse, r)
        | d :: r => go r (d :: buf)
      match go rest [] with
      | some (s, rest') => parseList rest' (Sexp.str s :: acc)
      | none => none
    else
      let tok := (c :: rest).takeWhile (fun d => !isDelim d)
      let rest' := (c :: rest).dropWhile (fun d => !isDelim d)
      parseList rest' (Sexp.atom (String.ofList tok) :: acc)

/-- parse one line holding exactly one s-expression -/
def parse (s : String) : Option Sexp :=
  match parseList s.toList [] with
  | some ([x], _) => some x
  | _ => none

def quote (s : String) : String :=
  "\"" ++ (s.toList.foldl (fun acc c => if c == '"' || c == '\\' then acc ++ "\\" ++ c.toString else acc ++ c.toString) "") ++ "\""

partial def toString : Sexp → String
  | atom s => s
  | str s => quote s
  | list l => "(" ++ " ".intercalate (l.map toString) ++ ")"

instance : ToString Sexp := ⟨Sexp.toString⟩

def asInt? : Sexp → Option Int
  | atom s => s.toInt?
  | _ => none

def asNat? : Sexp → Option Nat
  | atom s => s.toNat?
  | _ => none

def asStr? : Sexp → Option String
  | atom s => some s
  | str s => some s
  | _ => none

def asBool? : Sexp → Option Bool
  | atom "true" => some true
  | atom "false" => some false
  | _ => none

/-- `none` atom → `some none`; otherwise apply `f` -/
def asOpt? {α} (f : Sexp → Option α) : Sexp → Option (Option α)
  | atom "none" => some none
  | x => (f x).map some

def asList? {α} (f : Sexp → Option α) : Sexp → Option (List α)
  | list l => l.mapM f
  | _ => none

/-- look up `(key v...)` among the items of a list; returns the `v...` -/
def field? (key : String) : List Sexp → Option (List Sexp)
  | [] => none
  | list (atom k :: vs) :: rest => if k == key then some vs else field? key rest
  | _ :: rest => field? key rest

def field1? (key : String) (l : List Sexp) : Option Sexp :=
  match field? key l with
  | some [v] => some v
  | _ => none

end Sexp
end PS
