"""C04, RUN search for the gap classes (ResourceNonDelay, ResourceTasksDistance).

These two classes have a theorem (`C04_raw_sound`, GapsOK over the sorted starts / ends) but no SEM twin: their meaning
speaks about *consecutive* busy intervals, which the encoder reaches through sorting networks over auxiliary variables.
This search builds, directly over the busy-interval variables of the real problem, the query "two real busy intervals of
the resource are consecutive by start (no third one starts in between), the gap is one the constraint speaks about, and
the gap breaks the documented relation", conjoins it with the REAL assertions and, on a model, re-evaluates the documented
meaning on the concrete schedule in plain Python (sort by start, walk the gaps).  Only that re-evaluation decides: a
reported violation is a schedule the real code admits and the meaning forbids."""
import z3

from harness import pslib, smrun


def count(summary, k, n=1):
    summary["dist"][k] = summary["dist"].get(k, 0) + n


def cmp_ok(mode, gap, d):
    return {"exact": gap == d, "min": gap >= d, "max": gap <= d}[mode]


def cond_ok(ivs, e, s):
    """when the distance rule speaks about the gap (previous end e, next start s)"""
    if ivs is None:
        return e >= 0 and s >= 0
    return any(lo <= s and lo <= e and s <= hi and e <= hi for lo, hi in ivs)


def meaning_violations(intervals, kind, d, ivs, mode):
    """intervals: [(task, start, end)] of the resource; the documented meaning evaluated on a concrete schedule"""
    real = sorted([x for x in intervals if x[1] >= 0 and x[2] >= 0], key=lambda x: x[1])
    out = []
    for a, b in zip(real, real[1:]):
        gap = b[1] - a[2]
        if kind == "nonDelay":
            if gap != 0:
                out.append((a, b, gap))
        elif cond_ok(ivs, a[2], b[1]) and not cmp_ok(mode, gap, d):
            out.append((a, b, gap))
    return out


def augment(script, rng, summary):
    """half of the cases get two gap constraints on one resource, the first of them optional (a second constraint must
    not depend on what an unapplied first one asserted)"""
    probe = pslib.Real()
    probe.run(script)
    if probe.problem is None:
        return script
    two = [n for n, w in probe.workers.items() if "_CumulativeWorker_" not in n and len(w._busy_intervals) >= 2]
    if not two or rng.random() < 0.5:
        return script
    r = rng.choice(two)

    def gap():
        if rng.random() < 0.3:
            return ("nonDelay", r)
        return ("distance", r, rng.choice([0, 1, 2, 4, 6]), None, rng.choice(["min", "max", "exact"]))
    extra = [{"op": "constraint", "c": gap(), "optional": True}, {"op": "constraint", "c": gap()}]
    trial = pslib.Real()
    if any(x != "ok" for x in trial.run(script + extra)):
        return script
    count(summary, "run_c04_augmented_optional_then_mandatory")
    return script + extra


def run_c04(script, rng, summary):
    script = augment(script, rng, summary)
    targets = [(k, d) for k, d in enumerate(script) if d["op"] == "constraint" and d["c"][0] in ("nonDelay", "distance")
               and not d.get("optional")]
    if not targets:
        count(summary, "run_c04_no_gap_constraint")
        return None
    # a gap constraint used as operand of a connective is not enforced on its own
    used = set()
    for d in script:
        if d["op"] == "constraint":
            for o in _operands(d["c"]):
                used.add(o)
    real, base = smrun.fresh_assertions(script)
    if real.problem is None:
        return None
    cids = _constraint_ids(script)
    for k, d in targets:
        if cids.get(k) in used:
            count(summary, "run_c04_skipped_operand")
            continue
        c = d["c"]
        res = c[1]
        if res not in real.workers or "_CumulativeWorker_" in res:
            count(summary, "run_c04_skipped_cumulative")
            continue
        # the busy intervals the resource had when the constraint was declared
        before = pslib.Real()
        before.run(script[:k])
        if before.problem is None or res not in before.workers:
            continue
        busy = [(t.name, str(iv[0]), str(iv[1])) for t, iv in before.workers[res]._busy_intervals.items()]
        if len(busy) < 2:
            continue
        kind = c[0]
        dist, ivs, mode = (0, None, "exact") if kind == "nonDelay" else (c[2], c[3], c[4])
        S = {n: z3.Int(sn) for n, sn, _ in busy}
        E = {n: z3.Int(en) for n, _, en in busy}
        names = [n for n, _, _ in busy]
        viols = []
        for a in names:
            for b in names:
                if a == b:
                    continue
                consecutive = z3.And([S[a] >= 0, E[a] >= 0, S[b] >= 0, E[b] >= 0, S[a] < S[b]] +
                                     [z3.Not(z3.And(S[x] >= 0, E[x] >= 0, S[a] < S[x], S[x] < S[b]))
                                      for x in names if x not in (a, b)])
                gap = S[b] - E[a]
                if kind == "nonDelay":
                    bad = gap != 0
                else:
                    cond = z3.BoolVal(True) if ivs is None else \
                        z3.Or([z3.And(lo <= S[b], lo <= E[a], S[b] <= hi, E[a] <= hi) for lo, hi in ivs])
                    bad = z3.And(cond, {"exact": gap != dist, "min": gap < dist, "max": gap > dist}[mode])
                viols.append(z3.And(consecutive, bad))
        chk = z3.Solver()
        chk.set("timeout", 8000)
        chk.add(base)
        chk.add(z3.Or(viols))
        count(summary, "run_c04_gap_queries")
        r = chk.check()
        if r == z3.unknown:
            count(summary, "run_c04_unknown")
            continue
        if r == z3.unsat:
            continue
        m = chk.model()
        val = lambda v: m.eval(v, model_completion=True).as_long()
        concrete = [(n, val(S[n]), val(E[n])) for n in names]
        bad = meaning_violations(concrete, kind, dist, ivs, mode)
        if bad:
            a, b, gap = bad[0]
            what = ("ResourceNonDelay" if kind == "nonDelay" else f"ResourceTasksDistance(distance={dist}, mode={mode}, "
                    f"intervals={ivs})") + f" on {res}: the admitted schedule has consecutive busy intervals {a} and {b} " \
                   f"with a gap of {gap}"
            return {"what": what, "constraint_index": k, "busy_intervals": concrete,
                    "schedule": {n: [val(z3.Int(f'{n}_start')), val(z3.Int(f'{n}_end'))] for n in real.tasks}}
        count(summary, "run_c04_query_model_not_confirmed")
    count(summary, "run_c04")
    summary["nontrivial"].append("run" + str(hash(str(script))))
    return None


def _constraint_ids(script):
    """index in the script -> id of the constraint in the problem's registry (accepted or raising-after-registration
    constructors both take an id; the harness generates gap constraints on assigned resources, so a simple replay suffices)"""
    real = pslib.Real()
    ids = {}
    for k, d in enumerate(script):
        n0 = len(real.problem.constraints) if real.problem is not None else 0
        real.step(d)
        n1 = len(real.problem.constraints) if real.problem is not None else 0
        if d["op"] == "constraint" and n1 == n0 + 1:
            ids[k] = n0
    return ids


def _operands(c):
    k = c[0]
    ops = []
    if k == "not":
        ops = [c[1]]
    elif k in ("or", "and"):
        ops = c[1]
    elif k == "xor":
        ops = [c[1], c[2]]
    elif k == "implies":
        ops = c[2]
    elif k == "ifThenElse":
        ops = list(c[2]) + list(c[3])
    elif k == "forceApplyN":
        return list(c[1])
    return [o[1] for o in ops if o[0] == "ref"]
