"""Canonical s-expression dump of z3 expressions by walking the AST (not z3's pretty printer,
which flattens nested + and introduces let-sharing), plus the canonical renaming of names
that contain uuids / counters.  The Lean printer (PS/SmtPrint.lean) produces the same shape."""
import re
import z3

_PB = (z3.Z3_OP_PB_LE, z3.Z3_OP_PB_GE, z3.Z3_OP_PB_EQ, z3.Z3_OP_PB_AT_MOST, z3.Z3_OP_PB_AT_LEAST)


def sx(e):
    if isinstance(e, bool):
        return "true" if e else "false"
    if isinstance(e, int):
        return str(e)
    if z3.is_quantifier(e):
        vs = [f"({e.var_name(i)} {e.var_sort(i)})" for i in range(e.num_vars())]
        return f"(forall ({' '.join(vs)}) {sx(e.body())})"
    if z3.is_var(e):
        return f"(bound {z3.get_var_index(e)})"
    if z3.is_int_value(e):
        return str(e.as_long())
    if z3.is_rational_value(e):
        return f"(real {e.numerator_as_long()}/{e.denominator_as_long()})"
    d = e.decl()
    k = d.kind()
    n = d.name()
    params = d.params() if k in _PB else []
    if e.num_args() == 0 and not params:
        return n
    return "(" + " ".join([n] + [f"[{p}]" for p in params] + [sx(c) for c in e.children()]) + ")"


# names that differ from run to run: z3 fresh ints, uuid ints, uuid hex, 8-hex suffixes, and the
# %<kind><n>% tokens of the Lean printer
UNSTABLE = re.compile(r"(%[^%\s()]+%|x![0-9]+|[0-9]{25,}|[0-9a-f]{32}|(?<=_)[0-9a-f]{8}\b)")


def canon(lines):
    """rename unstable tokens to #k in order of first occurrence over the whole list"""
    m = {}

    def r(mo):
        k = mo.group(0)
        if k not in m:
            m[k] = f"#{len(m)}"
        return m[k]

    return [UNSTABLE.sub(r, l) for l in lines]


def token_alignment(py_lines, lean_lines):
    """map the unstable tokens of the Lean printout to the names the real code used, by order of
    first occurrence (the same order the canonical renaming relies on)"""
    def order(lines):
        seen = []
        for l in lines:
            for m in UNSTABLE.findall(l):
                if m not in seen:
                    seen.append(m)
        return seen
    a, b = order(lean_lines), order(py_lines)
    return dict(zip(a, b))
